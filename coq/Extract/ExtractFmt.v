(* Extraction of the formatter item-generator model for the K4f correspondence (tools/k4_fmtmodel.py).
   ExtrOcamlBasic only; nat stays the extracted unary datatype; no Extract Constant / Inductive. *)
Require Extraction.
Require Import ExtrOcamlBasic.
From LV Require Import Fmt.
Extraction Blacklist List String Int.
Extraction "../ocaml/fmt_model.ml" gen gen_node first_crash nonws.
