(* Extraction of the lexer model for the K4L correspondence (tools/k4_lexmodel.py).
   ExtrOcamlBasic only: bool, option, unit, list, prod, sumbool, sumor, comparison map to OCaml's;
   nat, positive and N stay the extracted datatypes.  No Extract Constant / Extract Inductive. *)
Require Extraction.
Require Import ExtrOcamlBasic.
From LV Require Import Lexer.
Extraction Blacklist List String Int.
Extraction "../ocaml/lexer_model.ml" lex chunks blen.
