(* Extraction of the language-server model for the K6 model correspondence (tools/k6_lspmodel.py).
   ExtrOcamlBasic only; nat, N and positive stay the extracted datatypes.  No Extract Constant. *)
Require Extraction.
Require Import ExtrOcamlBasic.
From LV Require Import Lsp.
Extraction Blacklist List String Int.
Extraction "../ocaml/lsp_model.ml"
  position_to_offset offset_to_position position_to_offset_cs offset_to_position_cs
  line_starts split_nl step run conformant latest.
