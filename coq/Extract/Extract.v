(* Extraction of the executable model for the correspondence checks.
   ExtrOcamlBasic only: bool, option, unit, list, prod, sumbool, sumor, comparison
   map to OCaml's; nat stays the extracted unary datatype.  No Extract Constant. *)
Require Extraction.
Require Import ExtrOcamlBasic.
From LV Require Import Cst Tree ABuild Runtime Exec Sema Compile Cli DiagMono FirstSpec FirstCert FollowSpec RecoverySpec Scoped.
Extraction Blacklist List String Int.
Extraction "../ocaml/model.ml"
  c_step g_step run_history c_children c_span c_get c_mark c_close_root
  decode walk_leaves no_trivia_edge tok_cells leaves flatten layout
  parse_entry exec call_fn init_state a_close_root ghost_empty
  analyse Cli.run all_rows prog_ok
  wf_ids_b productive_b first_closed fol_closed recovery_cert p_peek p_peek_left
  compile all_msg_sets prog_scoped.
