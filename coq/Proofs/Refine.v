(* Refinement: every *valid* builder operation (ghost step defined) steps the
   concrete CstData model without panic to a state that is again the layout of
   the abstract builder state.  Unbounded over histories. *)
From Coq Require Import List Arith Lia Bool.
From LV Require Import Cst Tree ABuild ListLemmas.
Import ListNotations.

(* ---------- sizes ---------- *)
(* a usable induction principle for the nested type *)
Section TreeInd.
  Variable P : tree -> Prop.
  Hypothesis Hleaf : forall t i, P (TLeaf t i).
  Hypothesis Hnode : forall k cs, Forall P cs -> P (TNode k cs).
  Fixpoint tree_ind' (t : tree) : P t :=
    match t with
    | TLeaf t i => Hleaf t i
    | TNode k cs =>
      Hnode k cs ((fix go (l : list tree) : Forall P l :=
                     match l with
                     | [] => Forall_nil P
                     | x :: r => Forall_cons x (tree_ind' x) (go r)
                     end) cs)
    end.
End TreeInd.

Lemma flatten_length t : length (flatten t) = tsize t.
Proof.
  induction t as [t i|k cs IH] using tree_ind'; [reflexivity|].
  cbn [flatten tsize length]. f_equal.
  induction IH as [|x r Hx _ IHr]; cbn; [reflexivity|].
  rewrite app_length, Hx, IHr. reflexivity.
Qed.

Lemma fflatten_length f : length (fflatten f) = fsize f.
Proof.
  unfold fflatten, fsize. induction f as [|x r IH]; cbn; [reflexivity|].
  rewrite app_length, flatten_length, IH. reflexivity.
Qed.

Lemma fflatten_app f1 f2 : fflatten (f1 ++ f2) = fflatten f1 ++ fflatten f2.
Proof. unfold fflatten. apply flat_map_app. Qed.

Lemma fsize_app f1 f2 : fsize (f1 ++ f2) = fsize f1 + fsize f2.
Proof. unfold fsize. rewrite map_app, list_sum_app. reflexivity. Qed.

Lemma tsize_pos t : 1 <= tsize t.
Proof. destruct t; cbn; lia. Qed.

Lemma ocells_length f : length (ocells f) = fsize f.
Proof. unfold ocells. rewrite map_length. apply fflatten_length. Qed.

Lemma ocells_app f1 f2 : ocells (f1 ++ f2) = ocells f1 ++ ocells f2.
Proof. unfold ocells. rewrite fflatten_app. apply map_app. Qed.

Lemma tleaves_app a b : tleaves (a ++ b) = tleaves a ++ tleaves b.
Proof. apply map_app. Qed.

Lemma fsize_tleaves tr : fsize (tleaves tr) = length tr.
Proof. unfold fsize, tleaves. induction tr as [|x r IH]; cbn in *; [reflexivity|]. f_equal. exact IH. Qed.

Lemma ocells_tleaves_length tr : length (ocells (tleaves tr)) = length tr.
Proof. rewrite ocells_length. apply fsize_tleaves. Qed.

(* ---------- the simulation relation ---------- *)
Definition cell_match (n : node) (o : option node) : Prop :=
  match o with
  | Some x => n = x
  | None => exists k e, n = NRule k e
  end.

Definition matches (l : list node) (lay : list (option node)) : Prop := Forall2 cell_match l lay.

Definition cell_compat (o0 o : option node) : Prop :=
  match o0 with
  | Some x => o = Some x
  | None => o = None \/ exists k e, o = Some (NRule k e)
  end.

(* [lay0] (a snapshot's layout) is still present as a prefix of [lay] *)
Definition compat (lay0 lay : list (option node)) : Prop :=
  exists pre rest, lay = pre ++ rest /\ Forall2 cell_compat lay0 pre.

Fixpoint count_tok (lay : list (option node)) : nat :=
  match lay with
  | [] => 0
  | Some (NTok _ _) :: r => S (count_tok r)
  | _ :: r => count_tok r
  end.

Definition wf_abs (a : abs) : Prop :=
  (0 < lag a -> exists outer, stack a = [] :: outer) /\ lag a <= base a.

Definition snap_ok1 (s : snap) : Prop :=
  let a0 := sn_abs s in
  let tm := sn_mark s in
  tm_nodes tm = length (layout a0)
  /\ tm_nsl tm + length (trail a0) + lag a0 = tm_nodes tm
  /\ wf_abs a0
  /\ tm_tcount tm = count_tok (layout a0).

Fixpoint snaps_ok (lay : list (option node)) (sn : list snap) : Prop :=
  match sn with
  | [] => True
  | s :: r => snap_ok1 s /\ compat (layout (sn_abs s)) lay /\ snaps_ok (layout (sn_abs s)) r
  end.

Record Inv (c : cst) (sn : list tmark) (g : ghost) : Prop := mkInv {
  inv_match : matches (nodes c) (layout (g_abs g));
  inv_nsl : nsl c + length (trail (g_abs g)) + lag (g_abs g) = length (nodes c);
  inv_wf : wf_abs (g_abs g);
  inv_tc : tcount c = count_tok (layout (g_abs g));
  inv_snaps : snaps_ok (layout (g_abs g)) (g_snaps g);
  inv_sn : map sn_mark (g_snaps g) = sn;
}.

(* ---------- basic facts ---------- *)
Lemma matches_length l lay : matches l lay -> length l = length lay.
Proof. apply Forall2_length. Qed.

Lemma cell_compat_refl o : cell_compat o o.
Proof. destruct o; cbn; auto. Qed.

Lemma Forall2_refl_compat lay : Forall2 cell_compat lay lay.
Proof. induction lay; constructor; auto using cell_compat_refl. Qed.

Lemma compat_refl lay : compat lay lay.
Proof. exists lay, []. rewrite app_nil_r. split; [reflexivity|apply Forall2_refl_compat]. Qed.

Lemma cell_compat_trans a b c : cell_compat a b -> cell_compat b c -> cell_compat a c.
Proof.
  destruct a as [x|]; cbn; intros H1 H2.
  - subst b. exact H2.
  - destruct H1 as [->|(k & e & ->)]; cbn in H2.
    + exact H2.
    + right. eauto.
Qed.

Lemma Forall2_compat_trans l1 l2 l3 :
  Forall2 cell_compat l1 l2 -> Forall2 cell_compat l2 l3 -> Forall2 cell_compat l1 l3.
Proof.
  intros H. revert l3. induction H as [|x y l l' Hxy _ IH]; intros l3 H3; inversion H3; subst; constructor.
  - eapply cell_compat_trans; eassumption.
  - apply IH. assumption.
Qed.

Lemma compat_trans l0 l1 l2 : compat l0 l1 -> compat l1 l2 -> compat l0 l2.
Proof.
  intros (p1 & r1 & -> & H1) (p2 & r2 & -> & H2).
  apply Forall2_app_inv_l in H2. destruct H2 as (a & b & Ha & Hb & ->).
  exists a, (b ++ r2). split; [now rewrite app_assoc|].
  eapply Forall2_compat_trans; eassumption.
Qed.

Lemma compat_app lay0 lay x : compat lay0 lay -> compat lay0 (lay ++ x).
Proof. intros (p & r & -> & H). exists p, (r ++ x). split; [now rewrite app_assoc|assumption]. Qed.

Lemma snaps_ok_weaken lay1 lay2 sn : compat lay1 lay2 -> snaps_ok lay1 sn -> snaps_ok lay2 sn.
Proof.
  destruct sn as [|s r]; cbn; [auto|].
  intros Hc (H1 & H2 & H3). split; [assumption|]. split; [|assumption].
  eapply compat_trans; eassumption.
Qed.

Lemma compat_length lay0 lay : compat lay0 lay -> length lay0 <= length lay.
Proof. intros (p & r & -> & H). apply Forall2_length in H. rewrite app_length. lia. Qed.

(* a snapshot's layout still matches the corresponding prefix of the nodes *)
Lemma compat_matches lay0 lay l :
  compat lay0 lay -> matches l lay -> matches (firstn (length lay0) l) lay0.
Proof.
  intros (p & r & -> & H) Hm. unfold matches in *.
  apply Forall2_app_inv_r in Hm. destruct Hm as (a & b & Ha & Hb & ->).
  assert (length lay0 = length a) as ->.
  { apply Forall2_length in H. apply Forall2_length in Ha. lia. }
  rewrite firstn_app_exact.
  clear Hb. revert lay0 H. induction Ha as [|x y l l' Hxy _ IH]; intros lay0 H; inversion H; subst; constructor.
  - destruct x0 as [z|]; cbn in *.
    + subst y. exact Hxy.
    + match goal with Hc : _ \/ _ |- _ => destruct Hc as [->|(k & e & ->)] end; cbn in Hxy.
      * exact Hxy.
      * subst x. eauto.
  - apply IH. assumption.
Qed.

Lemma count_tok_app a b : count_tok (a ++ b) = count_tok a + count_tok b.
Proof.
  induction a as [|x a IH]; cbn; [reflexivity|].
  destruct x as [[k e|t i]|]; cbn; rewrite IH; reflexivity.
Qed.

(* ---------- layout algebra ---------- *)
Lemma frames_cells_cons f outer : frames_cells (f :: outer) = frames_cells outer ++ None :: ocells f.
Proof. reflexivity. Qed.

Lemma layout_top top outer tr lg :
  layout (mkAbs (top :: outer) tr lg) = frames_cells outer ++ None :: ocells top ++ ocells (tleaves tr).
Proof. unfold layout. cbn [stack trail]. rewrite frames_cells_cons, <- app_assoc. reflexivity. Qed.

Lemma frames_cells_length_ge st : length (frames_cells st) >= length st.
Proof. induction st as [|f r IH]; cbn; [lia|]. rewrite app_length. cbn. lia. Qed.

(* ---------- characterisation of the abstract operations on layouts ---------- *)
Ltac norm_app := repeat (rewrite <- app_assoc || rewrite <- app_comm_cons); cbn [app].
Lemma layout_nil_stack tr lg : layout (mkAbs [] tr lg) = ocells (tleaves tr).
Proof. reflexivity. Qed.

Lemma a_open_spec a a' :
  a_open a = Some a' ->
  layout a' = layout a ++ [None] /\ trail a' = [] /\ lag a' = 0 /\ stack a' <> [] /\ base a' <= length (layout a).
Proof.
  destruct a as [st tr lg]. unfold a_open. cbn [stack trail].
  destruct st as [|top outer].
  - destruct tr; [|discriminate]. intros [= <-]. cbn. repeat split; try lia; discriminate.
  - intros [= <-]. rewrite !layout_top. unfold base. cbn [stack trail lag tleaves map ocells fflatten flat_map].
    rewrite frames_cells_cons. unfold flush_into. rewrite ocells_app, app_nil_r.
    repeat split; try discriminate.
    all: try (rewrite <- !app_assoc; cbn; reflexivity).
    all: rewrite ?app_length; cbn [length]; rewrite ?app_length; lia.
Qed.

Lemma a_advance_spec a t i sk a' :
  a_advance a t i sk = Some a' ->
  layout a' = layout a ++ [Some (NTok t i)]
  /\ (if sk then trail a' = trail a ++ [(t, i)] /\ lag a' = lag a /\ stack a' = stack a
      else trail a' = [] /\ lag a' = 0 /\ base a' = base a /\ stack a' <> []).
Proof.
  destruct a as [st tr lg]. unfold a_advance. cbn [stack trail lag].
  destruct st as [|top outer]; [discriminate|].
  destruct sk; intros [= <-].
  - split; [|auto]. rewrite !layout_top. rewrite tleaves_app, ocells_app. cbn. norm_app. reflexivity.
  - split; [|repeat split; discriminate]. rewrite !layout_top. unfold flush_into.
    rewrite !ocells_app. cbn. norm_app. reflexivity.
Qed.

Lemma ocells_node k top : ocells [TNode k top] = Some (NRule k (fsize top)) :: ocells top.
Proof. unfold ocells, fflatten. cbn. rewrite app_nil_r. reflexivity. Qed.

Lemma a_close_spec a m k a' :
  a_close a m k = Some a' ->
  exists top outer L1 L2,
    stack a = top :: outer
    /\ layout a = L1 ++ None :: L2 /\ length L1 = m /\ m = base a
    /\ layout a' = L1 ++ Some (NRule k (fsize top)) :: L2
    /\ length L2 = fsize top + length (trail a)
    /\ trail a' = trail a /\ lag a' = 0.
Proof.
  destruct a as [st tr lg]. unfold a_close. cbn [stack trail lag].
  destruct st as [|top [|next outer]]; try discriminate.
  destruct (Nat.eqb_spec m (base (mkAbs (top :: next :: outer) tr lg))) as [->|]; [|discriminate].
  intros [= <-].
  exists top, (next :: outer), (frames_cells (next :: outer)), (ocells top ++ ocells (tleaves tr)).
  rewrite !layout_top. unfold base. cbn [stack trail lag].
  repeat split.
  - rewrite frames_cells_cons, ocells_app, ocells_node. norm_app. reflexivity.
  - rewrite app_length, ocells_length, ocells_tleaves_length. reflexivity.
Qed.

Lemma split_forest_spec f : forall off k1 k2,
  split_forest f off = Some (k1, k2) -> f = k1 ++ k2 /\ fsize k1 = off.
Proof.
  induction f as [|t r IH]; intros off k1 k2 H.
  - destruct off; cbn in H; [|discriminate]. injection H as <- <-. split; reflexivity.
  - destruct off as [|n]; cbn [split_forest] in H.
    + injection H as <- <-. split; reflexivity.
    + destruct (Nat.leb_spec (tsize t) (S n)) as [Hle|]; [|discriminate].
      destruct (split_forest r (S n - tsize t)) as [[p s]|] eqn:E; [|discriminate].
      injection H as <- <-. destruct (IH _ _ _ E) as [-> Hs]. split; [reflexivity|].
      change (fsize (t :: p)) with (tsize t + fsize p). lia.
Qed.

Lemma base_cons top outer tr lg : base (mkAbs (top :: outer) tr lg) = length (frames_cells outer).
Proof. reflexivity. Qed.

Lemma a_open_before_spec a p a' :
  wf_abs a -> a_open_before a p = Some a' ->
  exists L1 L2,
    layout a = L1 ++ L2 /\ length L1 = p /\ layout a' = L1 ++ None :: L2
    /\ length (trail a') + lag a' = length (trail a) + lag a
    /\ wf_abs a'.
Proof.
  destruct a as [st tr lg]. unfold a_open_before, wf_abs. cbn [stack trail lag].
  destruct st as [|top outer]; [discriminate|]. rewrite base_cons.
  intros [Hlag Hbase].
  destruct (Nat.leb_spec p (length (frames_cells outer))) as [|Hp]; [discriminate|].
  destruct (split_forest top (p - length (frames_cells outer) - 1)) as [[k1 k2]|] eqn:E.
  - intros [= <-]. destruct (split_forest_spec _ _ _ _ E) as [-> Hs].
    exists (frames_cells outer ++ None :: ocells k1), (ocells k2 ++ ocells (tleaves tr)).
    rewrite !layout_top, !base_cons. cbn [stack trail lag].
    split; [|split; [|split; [|split; [|split]]]].
    + rewrite ocells_app. norm_app. reflexivity.
    + rewrite app_length. cbn [length]. rewrite ocells_length. lia.
    + rewrite frames_cells_cons. norm_app. reflexivity.
    + reflexivity.
    + intros Hl. destruct (Hlag Hl) as (o & Ho). injection Ho as Ho _.
      destruct k1; [|discriminate]. destruct k2; [|discriminate]. eauto.
    + rewrite frames_cells_cons, app_length. cbn [length]. lia.
  - destruct (Nat.ltb_spec (fsize top) (p - length (frames_cells outer) - 1)) as [Hlt|]; [|discriminate].
    cbn [andb].
    destruct (Nat.leb_spec (p - length (frames_cells outer) - 1 - fsize top) (length tr)) as [Hj|]; [|discriminate].
    intros [= <-].
    set (j := p - length (frames_cells outer) - 1 - fsize top) in *.
    exists (frames_cells outer ++ None :: ocells top ++ ocells (tleaves (firstn j tr))), (ocells (tleaves (skipn j tr))).
    rewrite !layout_top, !base_cons. cbn [stack trail lag].
    assert (Hfl : length (firstn j tr) = j) by (rewrite firstn_length; lia).
    split; [|split; [|split; [|split; [|split]]]].
    + rewrite <- (firstn_skipn j tr) at 1. rewrite tleaves_app, ocells_app. norm_app. reflexivity.
    + rewrite !app_length. cbn [length]. rewrite app_length, ocells_length, ocells_tleaves_length, Hfl. lia.
    + rewrite frames_cells_cons. unfold flush_into. rewrite ocells_app. cbn. norm_app. reflexivity.
    + rewrite skipn_length. lia.
    + eauto.
    + rewrite frames_cells_cons, app_length. cbn [length]. unfold flush_into.
      rewrite ocells_length, fsize_app, fsize_tleaves, Hfl. lia.
Qed.

(* ---------- compat under the two in-place edits ---------- *)
Lemma compat_set lay0 L1 L2 k e :
  compat lay0 (L1 ++ None :: L2) -> compat lay0 (L1 ++ Some (NRule k e) :: L2).
Proof.
  intros (pre & rest & Heq & HF). symmetry in Heq.
  apply app_eq_app in Heq. destruct Heq as (l & [[-> Hl]|[-> ->]]).
  - destruct l as [|z l'].
    + cbn in Hl. subst rest. rewrite app_nil_r in HF.
      exists L1, (Some (NRule k e) :: L2). split; [reflexivity|assumption].
    + cbn in Hl. injection Hl as <- ->.
      exists (L1 ++ Some (NRule k e) :: l'), rest. split; [now norm_app|].
      apply Forall2_app_inv_r in HF. destruct HF as (a & b & Ha & Hb & ->).
      inversion Hb as [|o0 o1 b' l'' Ho Hb']; subst.
      apply Forall2_app; [assumption|]. constructor; [|assumption].
      destruct o0; cbn in *; [discriminate|]. right. eauto.
  - exists pre, (l ++ Some (NRule k e) :: L2). split; [now norm_app|assumption].
Qed.

Lemma compat_insert lay0 L1 L2 x :
  compat lay0 (L1 ++ L2) -> length lay0 <= length L1 -> compat lay0 (L1 ++ x :: L2).
Proof.
  intros (pre & rest & Heq & HF) Hlen.
  pose proof (Forall2_length _ _ _ HF) as Hl0. symmetry in Heq.
  apply app_eq_app in Heq. destruct Heq as (l & [[-> ->]|[-> ->]]).
  - rewrite app_length in Hl0. destruct l; [|cbn in Hl0; lia].
    rewrite app_nil_r in *. exists L1, (x :: rest). split; [reflexivity|assumption].
  - exists pre, (l ++ x :: L2). split; [now norm_app|assumption].
Qed.

Lemma snaps_ok_set L1 L2 k e sn :
  snaps_ok (L1 ++ None :: L2) sn -> snaps_ok (L1 ++ Some (NRule k e) :: L2) sn.
Proof.
  destruct sn as [|s r]; cbn; [auto|]. intros (H1 & H2 & H3).
  split; [assumption|]. split; [|assumption]. apply compat_set. assumption.
Qed.

Lemma snaps_ok_insert L1 L2 x sn :
  snaps_ok (L1 ++ L2) sn -> snaps_allow sn (length L1) = true -> snaps_ok (L1 ++ x :: L2) sn.
Proof.
  destruct sn as [|s r]; cbn; [auto|]. intros (H1 & H2 & H3) Ha.
  apply andb_prop in Ha. destruct Ha as [Ha _]. apply Nat.leb_le in Ha.
  split; [assumption|]. split; [|assumption]. apply compat_insert; [assumption|].
  destruct H1 as (Hn & _). rewrite <- Hn. assumption.
Qed.

Lemma count_tok_set L1 L2 k e : count_tok (L1 ++ Some (NRule k e) :: L2) = count_tok (L1 ++ None :: L2).
Proof. rewrite !count_tok_app. reflexivity. Qed.

Lemma count_tok_insert L1 L2 : count_tok (L1 ++ None :: L2) = count_tok (L1 ++ L2).
Proof. rewrite !count_tok_app. reflexivity. Qed.

Lemma matches_split l L1 L2 :
  matches l (L1 ++ L2) -> exists l1 l2, l = l1 ++ l2 /\ matches l1 L1 /\ matches l2 L2 /\ length l1 = length L1.
Proof.
  intros H. apply Forall2_app_inv_r in H. destruct H as (a & b & Ha & Hb & ->).
  exists a, b. repeat split; try assumption. apply (Forall2_length _ _ _ Ha).
Qed.

Lemma snaps_chain snaps : forall lay i s,
  snaps_ok lay snaps -> nth_error snaps i = Some s ->
  compat (layout (sn_abs s)) lay /\ snaps_ok (layout (sn_abs s)) (skipn i snaps) /\ snap_ok1 s.
Proof.
  induction snaps as [|s0 r IH]; intros lay i s Hs En.
  - destruct i; discriminate.
  - destruct Hs as (H1 & H2 & H3). destruct i as [|i]; cbn in En.
    + injection En as ->. cbn [skipn]. split; [assumption|]. split; [|assumption].
      cbn [snaps_ok]. split; [assumption|]. split; [apply compat_refl|assumption].
    + destruct (IH _ _ _ H3 En) as (Hc & Hr & Hk).
      split; [eapply compat_trans; eassumption|]. split; assumption.
Qed.

Lemma skipn_map {A B} (f : A -> B) l : forall i, skipn i (map f l) = map f (skipn i l).
Proof. induction l as [|q r IH]; intros [|i]; cbn; auto. Qed.

(* ---------- the step theorem ---------- *)
Theorem step_refines c sn g o g' :
  Inv c sn g -> g_step g c o = Some g' ->
  exists c' sn', c_step c sn o = Ok (c', sn') /\ Inv c' sn' g'.
Proof.
  intros [Hm Hn Hwf Htc Hs Hsn] Hg.
  destruct g as [a snaps]. cbn [g_abs g_snaps] in *.
  pose proof (matches_length _ _ Hm) as Hlen.
  destruct o as [|m k|t sk|p| |i|]; cbn [g_step g_abs g_snaps] in Hg.
  - (* open *)
    destruct (a_open a) as [a'|] eqn:E; [|discriminate]. injection Hg as <-.
    destruct (a_open_spec _ _ E) as (Hl & Htr & Hlg & Hst & Hb).
    eexists _, _. split; [reflexivity|]. cbn [c_open snd].
    constructor; cbn [nodes nsl tcount g_abs g_snaps].
    + rewrite Hl. apply Forall2_app; [assumption|]. constructor; [cbn; eauto|constructor].
    + rewrite Htr, Hlg, app_length. cbn. lia.
    + split; [rewrite Hlg; lia|]. rewrite Hlg. lia.
    + rewrite Hl, count_tok_app. cbn. lia.
    + rewrite Hl. eapply snaps_ok_weaken; [|eassumption]. apply compat_app, compat_refl.
    + assumption.
  - (* close *)
    destruct (a_close a m k) as [a'|] eqn:E; [|discriminate]. injection Hg as <-.
    destruct (a_close_spec _ _ _ _ E) as (top & outer & L1 & L2 & Hst & Hl & HL1 & Hmb & Hl' & HL2 & Htr & Hlg).
    rewrite Hl in Hm. destruct (matches_split _ _ _ Hm) as (n1 & n2' & Hnodes & Hm1 & Hm2 & Hn1).
    inversion Hm2 as [|x y n2 L2' Hx Hm2' Hxe]; subst n2' y L2'. clear Hm2.
    destruct Hwf as [Hlagtop Hlagbase].
    assert (Hlen2 : length n2 = fsize top + length (trail a)).
    { rewrite (Forall2_length _ _ _ Hm2'). assumption. }
    assert (Hnl : length (nodes c) = length L1 + 1 + fsize top + length (trail a)).
    { rewrite Hnodes, app_length. cbn [length]. lia. }
    assert (Htop : 0 < lag a -> top = []).
    { intros H0. destruct (Hlagtop H0) as (o' & Ho'). rewrite Hst in Ho'. congruence. }
    unfold c_step, c_close.
    destruct (nsl c) as [|len0] eqn:En.
    { exfalso. rewrite <- Hmb in Hlagbase. lia. }
    destruct (Nat.leb_spec (length (nodes c)) m) as [Hbad|_]; [lia|].
    assert (Hset : forall off, set_nth m (NRule k off) (nodes c) = n1 ++ NRule k off :: n2).
    { intros off. rewrite Hnodes. rewrite <- HL1, <- Hn1. apply set_nth_app_mid. }
    destruct (Nat.ltb_spec len0 m) as [Hlt|Hge].
    + (* lagging non_skip_len: top frame is empty *)
      assert (Hlagpos : 0 < lag a) by lia.
      pose proof (Htop Hlagpos) as ->. change (fsize []) with 0 in *.
      eexists _, _. split; [reflexivity|].
      constructor; cbn [nodes nsl tcount g_abs g_snaps].
      * rewrite Hset, Hl'. apply Forall2_app; [assumption|]. constructor; [reflexivity|assumption].
      * rewrite Htr, Hlg, Hset, app_length. cbn [length]. rewrite Hnodes, app_length in Hn. cbn [length] in Hn. lia.
      * split; rewrite Hlg; lia.
      * rewrite Hl', count_tok_set, <- Hl. assumption.
      * rewrite Hl'. apply snaps_ok_set. rewrite <- Hl. assumption.
      * assumption.
    + assert (Hlag0 : lag a = 0).
      { destruct (Nat.eq_dec (lag a) 0) as [|Hne]; [assumption|].
        assert (H0 : 0 < lag a) by lia. pose proof (Htop H0) as ->. change (fsize []) with 0 in *. lia. }
      eexists _, _. split; [reflexivity|].
      constructor; cbn [nodes nsl tcount g_abs g_snaps].
      * rewrite Hset, Hl'. apply Forall2_app; [assumption|]. constructor; [|assumption].
        cbn. f_equal. lia.
      * rewrite Htr, Hlg, Hset, app_length. cbn [length]. rewrite Hnodes, app_length in Hn. cbn [length] in Hn. lia.
      * split; rewrite Hlg; lia.
      * rewrite Hl', count_tok_set, <- Hl. assumption.
      * rewrite Hl'. apply snaps_ok_set. rewrite <- Hl. assumption.
      * assumption.
  - (* advance *)
    destruct (a_advance a t (tcount c) sk) as [a'|] eqn:E; [|discriminate]. injection Hg as <-.
    destruct (a_advance_spec _ _ _ _ _ E) as (Hl & Hrest).
    eexists _, _. split; [reflexivity|]. unfold c_advance.
    constructor; cbn [nodes nsl tcount g_abs g_snaps].
    + rewrite Hl. apply Forall2_app; [assumption|]. constructor; [reflexivity|constructor].
    + rewrite app_length. cbn [length]. destruct sk.
      * destruct Hrest as (-> & -> & _). rewrite app_length. cbn [length]. lia.
      * destruct Hrest as (-> & -> & _). cbn. lia.
    + destruct sk.
      * destruct Hrest as (_ & Hlg & Hst). unfold wf_abs, base in *. rewrite Hlg, Hst. assumption.
      * destruct Hrest as (_ & Hlg & _ & _). unfold wf_abs. rewrite Hlg. split; lia.
    + rewrite Hl, count_tok_app. cbn. lia.
    + rewrite Hl. eapply snaps_ok_weaken; [|eassumption]. apply compat_app, compat_refl.
    + assumption.
  - (* open_before *)
    destruct (snaps_allow snaps p) eqn:Ea; [|discriminate].
    destruct (a_open_before a p) as [a'|] eqn:E; [|discriminate]. injection Hg as <-.
    destruct (a_open_before_spec _ _ _ Hwf E) as (L1 & L2 & Hl & HL1 & Hl' & Htl & Hwf').
    rewrite Hl in Hm. destruct (matches_split _ _ _ Hm) as (n1 & n2 & Hnodes & Hm1 & Hm2 & Hn1).
    unfold c_step, c_open_before.
    assert (Hp : p <= length (nodes c)).
    { rewrite Hnodes, app_length. lia. }
    destruct (Nat.ltb_spec (length (nodes c)) p) as [|_]; [lia|].
    eexists _, _. split; [reflexivity|].
    assert (Hins : insert_at p (NRule kError 0) (nodes c) = n1 ++ NRule kError 0 :: n2).
    { rewrite Hnodes, <- HL1, <- Hn1. apply insert_at_app_mid. }
    constructor; cbn [nodes nsl tcount g_abs g_snaps].
    + rewrite Hins, Hl'. apply Forall2_app; [assumption|]. constructor; [cbn; eauto|assumption].
    + rewrite Hins, app_length. cbn [length]. rewrite Hnodes, app_length in Hn. lia.
    + assumption.
    + rewrite Hl', count_tok_insert, <- Hl. assumption.
    + rewrite Hl'. apply snaps_ok_insert; [rewrite <- Hl; assumption|]. rewrite HL1. assumption.
    + assumption.
  - (* snap *)
    injection Hg as <-. eexists _, _. split; [reflexivity|].
    constructor; cbn [nodes nsl tcount g_abs g_snaps]; try assumption.
    + cbn [snaps_ok]. split; [|split; [apply compat_refl|assumption]].
      unfold snap_ok1, c_mark_truncation. cbn. repeat split; try assumption; try lia.
      all: destruct Hwf; assumption.
    + cbn. f_equal. assumption.
  - (* restore *)
    destruct (nth_error snaps i) as [s|] eqn:En; [|discriminate]. injection Hg as <-.
    unfold c_step. rewrite <- Hsn. rewrite nth_error_map, En. cbn [option_map].
    eexists _, _. split; [reflexivity|].
    destruct (snaps_chain _ _ _ _ Hs En) as (Hc & Hr & Hs1).
    destruct Hs1 as (Hn1 & Hn2 & Hwf1 & Htc1).
    constructor; cbn [nodes nsl tcount g_abs g_snaps c_truncate].
    + rewrite Hn1. eapply compat_matches; eassumption.
    + rewrite firstn_length. pose proof (compat_length _ _ Hc). rewrite Hn1 in *. lia.
    + assumption.
    + assumption.
    + assumption.
    + symmetry. apply skipn_map.
  - (* release *)
    destruct snaps as [|s r]; [discriminate|]. injection Hg as <-.
    eexists _, _. split; [reflexivity|].
    constructor; cbn [nodes nsl tcount g_abs g_snaps]; try assumption.
    + destruct Hs as (H1 & H2 & H3). eapply snaps_ok_weaken; eassumption.
    + rewrite <- Hsn. reflexivity.
Qed.

(* ---------- whole histories ---------- *)
Lemma inv_init : Inv empty_cst [] ghost_empty.
Proof.
  constructor; cbn; try reflexivity; try constructor.
  - intros H; inversion H.
  - cbn. lia.
Qed.

Theorem history_refines h : forall c sn g r,
  Inv c sn g ->
  run_history h c sn (Some g) = r ->
  match r with
  | Ok (c', sn', Some g') => Inv c' sn' g'
  | Ok (_, _, None) => True          (* some operation was invalid: nothing is claimed *)
  | Panic _ => exists pre o post c1 sn1 g1,
      (* a panic can only happen at or after an invalid operation *)
      h = pre ++ o :: post /\ run_history pre c sn (Some g) = Ok (c1, sn1, Some g1) /\ g_step g1 c1 o = None
  end.
Proof.
  induction h as [|o h IH]; intros c sn g r HI Hr; cbn [run_history] in Hr.
  - subst r. assumption.
  - destruct (g_step g c o) as [g'|] eqn:Eg.
    + destruct (step_refines _ _ _ _ _ HI Eg) as (c' & sn' & Hc & HI').
      rewrite Hc in Hr. specialize (IH _ _ _ _ HI' Hr).
      destruct r as [[[c2 sn2] [g2|]]|w]; try assumption.
      destruct IH as (pre & o' & post & c1 & sn1 & g1 & -> & Hrun & Hbad).
      exists (o :: pre), o', post, c1, sn1, g1. split; [reflexivity|]. split; [|assumption].
      cbn [run_history]. rewrite Hc, Eg. assumption.
    + destruct (c_step c sn o) as [[c' sn']|w] eqn:Ec.
      * assert (Hnone : forall h c sn, match run_history h c sn None with Ok (_, _, None) => True | Ok (_, _, Some _) => False | Panic _ => True end).
        { clear. induction h as [|o h IH]; intros c sn; cbn; [trivial|].
          destruct (c_step c sn o) as [[c' sn']|w]; [apply IH|trivial]. }
        specialize (Hnone h c' sn'). rewrite Hr in Hnone.
        destruct r as [[[c2 sn2] [g2|]]|w]; try contradiction; try trivial.
        exists [], o, h, c, sn, g. repeat split; assumption.
      * subst r. exists [], o, h, c, sn, g. repeat split; assumption.
Qed.

(* closing the root of a valid history yields exactly the pre-order layout of the reference tree *)
Theorem close_root_refines c sn g m k t :
  Inv c sn g -> a_close_root (g_abs g) m k = Some t ->
  exists c', c_close_root c m k = Ok c' /\ nodes c' = flatten t.
Proof.
  intros [Hm Hn Hwf Htc Hs Hsn]. destruct g as [[st tr lg] snaps]. cbn [g_abs] in *.
  unfold a_close_root. cbn [stack trail].
  destruct st as [|top [|? ?]]; try discriminate.
  destruct (Nat.eqb_spec m 0) as [->|]; [|discriminate]. intros [= <-].
  rewrite layout_top in Hm. cbn [frames_cells app] in Hm.
  inversion Hm as [|x y n2 L2 Hx Hm2 Hxe]; subst.
  unfold c_close_root. rewrite <- Hxe. cbn [length Nat.leb].
  eexists. split; [reflexivity|]. cbn [nodes set_nth firstn skipn app].
  cbn [flatten]. unfold flush_into.
  assert (Hn2 : n2 = fflatten (top ++ tleaves tr)).
  { rewrite <- ocells_app in Hm2. clear - Hm2. unfold ocells, matches in Hm2.
    revert Hm2. generalize (fflatten (top ++ tleaves tr)) as l. intros l. revert n2.
    induction l as [|z l IH]; intros n2 H; inversion H as [|x y l0 l1 Hxy Hrest]; subst; cbn in *; [reflexivity|].
    f_equal; [assumption|apply IH; assumption]. }
  f_equal.
  - f_equal. change (list_sum (map tsize (top ++ tleaves tr))) with (fsize (top ++ tleaves tr)).
    rewrite <- fflatten_length, <- Hn2. lia.
  - exact Hn2.
Qed.

(* ---------- decode inverts flatten ---------- *)
Lemma decode_forest_flatten : forall fuel f,
  length (fflatten f) <= fuel -> decode_forest fuel (fflatten f) = Some f.
Proof.
  induction fuel as [|fuel IH]; intros f Hlen.
  - destruct f as [|t r]; [reflexivity|].
    exfalso. unfold fflatten in Hlen. cbn in Hlen. rewrite app_length, flatten_length in Hlen.
    pose proof (tsize_pos t). lia.
  - destruct f as [|t r]; [reflexivity|].
    change (fflatten (t :: r)) with (flatten t ++ fflatten r) in *.
    rewrite app_length, flatten_length in Hlen.
    destruct t as [k cs|tk i].
    + cbn [flatten app decode_forest]. change (flat_map flatten cs) with (fflatten cs).
      change (list_sum (map tsize cs)) with (fsize cs).
      cbn [tsize] in Hlen. change (list_sum (map tsize cs)) with (fsize cs) in Hlen.
      destruct (Nat.ltb_spec (length (fflatten cs ++ fflatten r)) (fsize cs)) as [Hbad|_].
      { rewrite app_length, fflatten_length in Hbad. lia. }
      rewrite <- (fflatten_length cs).
      rewrite firstn_app_exact, skipn_app_exact.
      rewrite !IH; [reflexivity| |]; rewrite fflatten_length; try lia.
      rewrite <- fflatten_length. lia.
    + cbn [flatten app decode_forest]. cbn [tsize] in Hlen. rewrite IH; [reflexivity|lia].
Qed.

Theorem decode_flatten t : decode (flatten t) = Some t.
Proof.
  unfold decode. replace (flatten t) with (fflatten [t]) by (unfold fflatten; cbn; apply app_nil_r).
  rewrite decode_forest_flatten; [reflexivity|lia].
Qed.

Lemma tok_cells_app a b : tok_cells (a ++ b) = tok_cells a ++ tok_cells b.
Proof. induction a as [|[k e|t i] a IH]; cbn; [reflexivity|assumption|]. f_equal. assumption. Qed.

Theorem tok_cells_flatten t : tok_cells (flatten t) = leaves t.
Proof.
  induction t as [t i|k cs IH] using tree_ind'; [reflexivity|].
  cbn [flatten tok_cells leaves]. induction IH as [|x r Hx _ IHr]; cbn; [reflexivity|].
  rewrite tok_cells_app, Hx, IHr. reflexivity.
Qed.
