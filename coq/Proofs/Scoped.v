(* A static check of command-language programs - every variable is bound where it is used (the
   Rust block scoping of the emitted `let`s), every called rule function exists, `rec` is called
   with the arity of the nested `fn rec`, no `break` / `continue` / plain `return` leaves the closure
   of an ordered-choice alternative - and the theorem that a program passing it never reaches a
   [XStuck] state, whatever the input, the oracle and the fuel.  [XStuck] is the interpreter's
   rendering of "rustc would have rejected this statement" (Exec.v), so this is the part of
   "the emitted parser compiles" (C11) that is about names and control flow. *)
From Coq Require Import List Arith Bool Lia.
From LV Require Import Cst Tree ABuild Runtime Exec.
Import ListNotations.

Definition vmem (v : var) (sc : list var) : bool := existsb (var_eqb v) sc.
Definition keys (e : env) : list var := map fst e.

Section SC.
Variable prog : program.

Definition rule_exists (r : rid) : bool := existsb (fun x => Nat.eqb (fst x) r) (p_rules prog).

(* [hr]: the enclosing function has a nested `fn rec`, with (Some true) or without (Some false)
   the min_bp parameter; [brk]: a break/continue here stays inside the current closure;
   [ret]: a plain `return` is allowed here (not inside the closure of a choice alternative) *)
Fixpoint sc_stmt (hr : option bool) (brk ret : bool) (sc : list var) (s : stmt) {struct s} : option (list var) :=
  let fix sc_block (brk ret : bool) (sc : list var) (b : list stmt) {struct b} : bool :=
      match b with
      | [] => true
      | s :: r => match sc_stmt hr brk ret sc s with Some sc' => sc_block brk ret sc' r | None => false end
      end in
  let ok (b : bool) := if b then Some sc else None in
  match s with
  | SExpect _ _ _ => Some sc
  | SCall r _ => ok (rule_exists r)
  | SRec bp v _ =>
    ok (match hr with
        | Some hb => Bool.eqb (match bp with Some _ => true | None => false end) hb
        | None => false
        end && vmem v sc)
  | SLetMark v => Some (v :: sc)
  | SLetOpen => Some (VM :: sc)
  | SLetOpenBefore v => if vmem v sc then Some (VM :: sc) else None
  | SLetElide => Some (VElide :: sc)
  | SSetElide => ok (vmem VElide sc)
  | SKind decl _ => if decl then Some (VKind :: sc) else ok (vmem VKind sc)
  | SClose k a =>
    ok (vmem VM sc && match k with Some _ => true | None => vmem VKind sc end && (if a then vmem VLhs sc else true))
  | SIfNotElide b => ok (vmem VElide sc && sc_block brk ret sc b)
  | SCreate v _ => ok (vmem v sc)
  | SAction _ | SAssert _ _ | SSetChoice _ | SError _ | SAdvErr _ | SOcr => Some sc
  | SMatch arms d => ok (forallb (fun a => sc_block brk ret sc (snd a)) arms && sc_block brk ret sc d)
  | SLoop b => ok (sc_block true ret sc b)
  | SBreak | SContinue => ok brk
  | SIfBpBreak _ => ok (vmem VMinBp sc && brk)
  | SOrdChoice se sk alts _ last _ =>
    ok ((if se then vmem VElide sc else true) && (if sk then vmem VKind sc else true)
        && forallb (fun a => sc_block false false sc (snd a)) alts && sc_block brk ret sc last)
  | SReturnIfError el opt =>
    ok (match el with
        | ENone => vmem VM sc
        | ECond => vmem VElide sc && vmem VStart sc
        | EUncond => true
        end && (opt || ret))
  end.

Definition sc_blk (hr : option bool) : bool -> bool -> list var -> list stmt -> bool :=
  fix sc_block (brk ret : bool) (sc : list var) (b : list stmt) {struct b} : bool :=
    match b with
    | [] => true
    | s :: r => match sc_stmt hr brk ret sc s with Some sc' => sc_block brk ret sc' r | None => false end
    end.

Definition hr_of (f : rule_fn) : option bool :=
  match fn_rec f with Some (hb, _) => Some hb | None => None end.

Definition fn_scoped (f : rule_fn) : bool :=
  sc_blk (hr_of f) true true [] (fn_body f)
  && match fn_rec f with
     | Some (hb, b) => sc_blk (Some hb) true true (if hb then [VLhs; VMinBp] else [VLhs]) b
     | None => true
     end.

Definition prog_scoped : bool := forallb (fun rf => fn_scoped (snd rf)) (p_rules prog).

(* equations (by conversion: the local fixpoint of [sc_stmt] is [sc_blk]) *)
Lemma sc_blk_cons hr brk ret sc s r :
  sc_blk hr brk ret sc (s :: r)
  = match sc_stmt hr brk ret sc s with Some sc' => sc_blk hr brk ret sc' r | None => false end.
Proof. reflexivity. Qed.
Lemma sc_ifnotelide hr brk ret sc b :
  sc_stmt hr brk ret sc (SIfNotElide b) = if vmem VElide sc && sc_blk hr brk ret sc b then Some sc else None.
Proof. reflexivity. Qed.
Lemma sc_match hr brk ret sc arms d :
  sc_stmt hr brk ret sc (SMatch arms d)
  = if forallb (fun a => sc_blk hr brk ret sc (snd a)) arms && sc_blk hr brk ret sc d then Some sc else None.
Proof. reflexivity. Qed.
Lemma sc_loop hr brk ret sc b :
  sc_stmt hr brk ret sc (SLoop b) = if sc_blk hr true ret sc b then Some sc else None.
Proof. reflexivity. Qed.
Lemma sc_ordchoice hr brk ret sc se sk alts lp last m :
  sc_stmt hr brk ret sc (SOrdChoice se sk alts lp last m)
  = if (if se then vmem VElide sc else true) && (if sk then vmem VKind sc else true)
       && forallb (fun a => sc_blk hr false false sc (snd a)) alts && sc_blk hr brk ret sc last
    then Some sc else None.
Proof. reflexivity. Qed.

(* ---------------------------------------------------------------- environments *)
Lemma env_get_some e v : vmem v (keys e) = true -> exists x, env_get e v = Some x.
Proof.
  induction e as [|[w y] r IH]; cbn [keys map vmem existsb env_get fst]; intros H; [discriminate|].
  destruct (var_eqb v w); [eexists; reflexivity|]. cbn [orb] in H. apply IH. exact H.
Qed.

Lemma env_set_some e v x : vmem v (keys e) = true -> exists e', env_set e v x = Some e' /\ keys e' = keys e.
Proof.
  induction e as [|[w y] r IH]; cbn [keys map vmem existsb env_set fst]; intros H; [discriminate|].
  destruct (var_eqb v w) eqn:E.
  - eexists. split; [reflexivity|]. reflexivity.
  - cbn [orb] in H. destruct (IH H) as [r' [Hr Hk]]. rewrite Hr. eexists. split; [reflexivity|].
    cbn [keys map fst]. f_equal. exact Hk.
Qed.

Lemma env_set_keys e v x e' : env_set e v x = Some e' -> keys e' = keys e.
Proof.
  revert e'. induction e as [|[w y] r IH]; cbn [env_set]; intros e' H; [discriminate|].
  destruct (var_eqb v w).
  - injection H as <-. reflexivity.
  - destruct (env_set r v x) as [r'|]; [|discriminate]. injection H as <-.
    cbn [keys map fst]. f_equal. apply IH. reflexivity.
Qed.

Lemma keys_length e : length (keys e) = length e.
Proof. apply map_length. Qed.

Lemma env_leave_keys n e pre sc0 :
  keys e = pre ++ sc0 -> length sc0 = n -> keys (env_leave n e) = sc0.
Proof.
  intros Hk Hn. unfold env_leave, keys. rewrite <- skipn_map. fold (keys e). rewrite Hk.
  assert (Hl : length e - n = length pre).
  { rewrite <- keys_length, Hk, app_length. lia. }
  rewrite Hl. rewrite skipn_app, skipn_all, Nat.sub_diag. reflexivity.
Qed.

(* ---------------------------------------------------------------- the result predicates *)
Definition okres (brk ret : bool) (sc : list var) (sc' : list var) (r : xres (outcome * env * pstate)) : Prop :=
  match r with
  | XStuck _ => False
  | XOk (o, e', _) =>
    (exists pre, keys e' = pre ++ sc)
    /\ (o = ONormal -> keys e' = sc')
    /\ (o = OBreak \/ o = OContinue -> brk = true)
    /\ (o = ORet -> ret = true)
  | _ => True
  end.

Definition okblk (brk ret : bool) (sc : list var) (r : xres (outcome * env * pstate)) : Prop :=
  match r with
  | XStuck _ => False
  | XOk (o, e', _) =>
    keys e' = sc
    /\ (o = OBreak \/ o = OContinue -> brk = true)
    /\ (o = ORet -> ret = true)
  | _ => True
  end.

Definition okfn (r : xres (bool * pstate)) : Prop :=
  match r with XStuck _ => False | _ => True end.

Local Arguments set_in_choice : simpl never.
Local Arguments p_release : simpl never.
Local Arguments p_set_state : simpl never.
Local Arguments add_event : simpl never.
Local Arguments push_assert_diag : simpl never.
Local Arguments p_error : simpl never.
Local Arguments p_advance : simpl never.
Local Arguments p_advance_with_error : simpl never.
Local Arguments p_open : simpl never.
Local Arguments p_close : simpl never.
Local Arguments p_open_before : simpl never.
Local Arguments p_mark : simpl never.
Local Arguments active_error : simpl never.
Arguments okres : simpl never.
Arguments okblk : simpl never.
Arguments okfn : simpl never.
Arguments keys : simpl never.

Variable cx : pctx.
Variable orc : oracles.
Hypothesis Hprog : prog_scoped = true.

Definition rec_ok (hr : option bool) (rec_of : option (bool * bool * list stmt)) : Prop :=
  match hr, rec_of with
  | Some hb, Some (_, _, body) => sc_blk (Some hb) true true (if hb then [VLhs; VMinBp] else [VLhs]) body = true
  | None, None => True
  | _, _ => False
  end.

Lemma find_rule_scoped r f : find_rule prog r = Some f -> fn_scoped f = true.
Proof.
  unfold find_rule. destruct (find (fun x => Nat.eqb (fst x) r) (p_rules prog)) as [x|] eqn:E; [|discriminate].
  intros H. injection H as <-. apply find_some in E. destruct E as [Hin _].
  unfold prog_scoped in Hprog. rewrite forallb_forall in Hprog. apply Hprog. exact Hin.
Qed.

Lemma rule_exists_find r : rule_exists r = true -> exists f, find_rule prog r = Some f.
Proof.
  unfold rule_exists, find_rule. intros H. apply existsb_exists in H. destruct H as [x [Hin Hx]].
  destruct (find (fun x => Nat.eqb (fst x) r) (p_rules prog)) as [y|] eqn:E; [eexists; reflexivity|].
  exfalso. pose proof (find_none _ _ E _ Hin) as Hn. cbn in Hn. rewrite Hx in Hn. discriminate.
Qed.

Ltac inv_ok H :=
  match type of H with
  | (if ?c then Some _ else None) = Some _ =>
    let E := fresh "E" in destruct c eqn:E; [injection H as <-|discriminate H]
  end.

Ltac esc :=
  let H := fresh "Hesc" in
  intros H; first [discriminate H | destruct H as [H|H]; discriminate H | reflexivity | assumption | auto].

Lemma okres_same brk ret o e st :
  (o = OBreak \/ o = OContinue -> brk = true) -> (o = ORet -> ret = true) ->
  okres brk ret (keys e) (keys e) (XOk (o, e, st)).
Proof. intros Hb Hr. cbn. split; [exists []; reflexivity|]. auto. Qed.

Theorem exec_scoped : forall fuel,
  (forall hr rec_of brk ret s e st sc',
      rec_ok hr rec_of -> sc_stmt hr brk ret (keys e) s = Some sc' ->
      okres brk ret (keys e) sc' (exec cx prog orc fuel rec_of s e st))
  /\ (forall hr rec_of brk ret b e st,
      rec_ok hr rec_of -> sc_blk hr brk ret (keys e) b = true ->
      okblk brk ret (keys e) (exec_block cx prog orc fuel rec_of b e st))
  /\ (forall hr rec_of brk ret n l e st pre sc0,
      rec_ok hr rec_of -> keys e = pre ++ sc0 -> length sc0 = n -> sc_blk hr brk ret (keys e) l = true ->
      okblk brk ret sc0 (exec_seq cx prog orc fuel rec_of n l e st))
  /\ (forall hr rec_of brk ret sv sel sk alts lp last m e1 st1,
      rec_ok hr rec_of ->
      (fst sel = true -> vmem VElide (keys e1) = true) -> (fst sk = true -> vmem VKind (keys e1) = true) ->
      forallb (fun a => sc_blk hr false false (keys e1) (snd a)) alts = true ->
      sc_blk hr brk ret (keys e1) last = true ->
      okres brk ret (keys e1) (keys e1) (exec_alts cx prog orc fuel rec_of sv sel sk alts lp last m e1 st1))
  /\ (forall f st, fn_scoped f = true -> okfn (call_fn cx prog orc fuel f st)).
Proof.
  induction fuel as [|fuel IH].
  { repeat split; intros; exact I. }
  destruct IH as (IHe & IHb & IHs & IHa & IHc).
  split; [|split; [|split; [|split]]].
  - (* exec *)
    intros hr rec_of brk ret s e st sc' Hrec Hsc.
    destruct s.
    + (* SExpect *) cbn [sc_stmt] in Hsc. injection Hsc as <-. simpl.
      destruct (Nat.eqb (cur st) t).
      * destruct (p_advance cx st false); [|exact I]. apply okres_same; esc.
      * destruct (try_ && in_choice st); apply okres_same; esc.
    + (* SCall *) cbn [sc_stmt] in Hsc. inv_ok Hsc. simpl.
      destruct (rule_exists_find _ E) as [f Hf]. rewrite Hf.
      pose proof (IHc f st (find_rule_scoped _ _ Hf)) as Hc.
      destruct (call_fn cx prog orc fuel f st) as [[some s1]| | |]; try exact I. 2: { unfold okres, okblk, okfn in *; contradiction. }
      destruct (q && negb some); apply okres_same; esc.
    + (* SRec *) cbn [sc_stmt] in Hsc. inv_ok Hsc. apply andb_true_iff in E. destruct E as [E1 E2].
      simpl. unfold rec_ok in Hrec.
      destruct hr as [hb|]; [|discriminate E1].
      destruct rec_of as [[[opt hb'] body]|]; [|contradiction].
      destruct (env_get_some _ _ E2) as [mk Hmk]. rewrite Hmk.
      assert (Hk : keys (match bp with Some b => [(VLhs, mk); (VMinBp, b)] | None => [(VLhs, mk)] end)
                   = if hb then [VLhs; VMinBp] else [VLhs]).
      { destruct bp, hb; cbn in E1; try discriminate E1; reflexivity. }
      assert (Hrec' : rec_ok (Some hb) (Some (opt, hb', body))) by exact Hrec.
      pose proof (IHb (Some hb) (Some (opt, hb', body)) true true body
                      (match bp with Some b => [(VLhs, mk); (VMinBp, b)] | None => [(VLhs, mk)] end) st Hrec') as Hb.
      rewrite Hk in Hb. specialize (Hb Hrec).
      destruct (exec_block cx prog orc fuel (Some (opt, hb', body)) body _ st) as [[[o1 e1] s1]| | |]; try exact I; [|unfold okres, okblk, okfn in *; contradiction].
      match goal with |- okres _ _ _ _ (if ?c then _ else _) => destruct c end;
        apply okres_same; esc.
    + (* SLetMark *) cbn [sc_stmt] in Hsc. injection Hsc as <-. simpl.
      destruct (p_mark st) as [[mk s1]|]; [|exact I]. unfold okres, okblk.
      split; [exists [v]; reflexivity|]. repeat split; esc.
    + (* SLetOpen *) cbn [sc_stmt] in Hsc. injection Hsc as <-. simpl.
      destruct (p_open st) as [[mk s1]|]; [|exact I]. unfold okres, okblk.
      split; [exists [VM]; reflexivity|]. repeat split; esc.
    + (* SLetOpenBefore *) cbn [sc_stmt] in Hsc. destruct (vmem v (keys e)) eqn:E; [|discriminate Hsc]. injection Hsc as <-.
      simpl. destruct (env_get_some _ _ E) as [x Hx]. rewrite Hx.
      destruct (p_open_before st x) as [[mk s1]|]; [|exact I]. unfold okres, okblk.
      split; [exists [VM]; reflexivity|]. repeat split; esc.
    + (* SLetElide *) cbn [sc_stmt] in Hsc. injection Hsc as <-. unfold okres, okblk.
      split; [exists [VElide]; reflexivity|]. repeat split; esc.
    + (* SSetElide *) cbn [sc_stmt] in Hsc. inv_ok Hsc. simpl.
      destruct (env_set_some _ _ 1 E) as [e' [He Hk]]. rewrite He. rewrite <- Hk.
      apply okres_same; esc.
    + (* SKind *) cbn [sc_stmt] in Hsc. destruct decl.
      * injection Hsc as <-. unfold okres, okblk.
        split; [exists [VKind]; reflexivity|]. repeat split; esc.
      * inv_ok Hsc. simpl. destruct (env_set_some _ _ k E) as [e' [He Hk]]. rewrite He. rewrite <- Hk.
        apply okres_same; esc.
    + (* SClose *) cbn [sc_stmt] in Hsc. inv_ok Hsc.
      apply andb_true_iff in E. destruct E as [E E3]. apply andb_true_iff in E. destruct E as [E1 E2].
      simpl. destruct (env_get_some _ _ E1) as [m Hm]. rewrite Hm.
      assert (Hk0 : exists k0, (match k with Some k0 => Some k0 | None => env_get e VKind end) = Some k0).
      { destruct k as [k0|]; [eexists; reflexivity|]. apply env_get_some. exact E2. }
      destruct Hk0 as [k0 Hk0]. rewrite Hk0.
      destruct (p_close st m k0) as [[closed s1]|]; [|exact I].
      destruct assign_lhs.
      * destruct (env_set_some _ _ closed E3) as [e' [He Hk]]. rewrite He. rewrite <- Hk.
        apply okres_same; esc.
      * apply okres_same; esc.
    + (* SIfNotElide *) rewrite sc_ifnotelide in Hsc. inv_ok Hsc. apply andb_true_iff in E. destruct E as [E1 E2].
      simpl. destruct (env_get_some _ _ E1) as [x Hx]. rewrite Hx.
      destruct x as [|x].
      * pose proof (IHb hr rec_of brk ret b e st Hrec E2) as Hb.
        destruct (exec_block cx prog orc fuel rec_of b e st) as [[[o1 e1] s1]| | |]; try exact I; [|unfold okres, okblk, okfn in *; contradiction].
        unfold okblk in Hb. destruct Hb as (Hk & Hbk & Hrt). unfold okres, okblk.
        split; [exists []; exact Hk|]. repeat split; auto.
      * apply okres_same; esc.
    + (* SCreate *) cbn [sc_stmt] in Hsc. inv_ok Hsc. simpl.
      destruct (env_get_some _ _ E) as [x Hx]. rewrite Hx.
      destruct (p_open_before st x) as [[on s1]|]; [|exact I].
      destruct (p_close s1 on k) as [[c2 s2]|]; [|exact I].
      apply okres_same; esc.
    + (* SAction *) cbn [sc_stmt] in Hsc. injection Hsc as <-. simpl.
      apply okres_same; esc.
    + (* SAssert *) cbn [sc_stmt] in Hsc. injection Hsc as <-. simpl.
      destruct (o_assert orc n st); [destruct (ocr && in_choice st)|];
        apply okres_same; esc.
    + (* SSetChoice *) cbn [sc_stmt] in Hsc. injection Hsc as <-. simpl.
      apply okres_same; esc.
    + (* SMatch *) rewrite sc_match in Hsc. inv_ok Hsc. apply andb_true_iff in E. destruct E as [E1 E2].
      simpl.
      match goal with |- okres _ _ _ _ (exec_block _ _ _ _ _ ?blk _ _) => assert (Hblk : sc_blk hr brk ret (keys e) blk = true) end.
      { clear - E1 E2. induction arms as [|[[p g] body] r IHr]; [exact E2|].
        cbn [forallb snd] in E1. apply andb_true_iff in E1. destruct E1 as [Ea Er].
        match goal with |- sc_blk _ _ _ _ (if ?c then _ else _) = true => destruct c end; [exact Ea|apply IHr; exact Er]. }
      pose proof (IHb hr rec_of brk ret _ e st Hrec Hblk) as Hb.
      match goal with |- okres _ _ _ _ ?r => destruct r as [[[o1 e1] s1]| | |] end; try exact I; [|unfold okres, okblk, okfn in *; contradiction].
      unfold okblk in Hb. destruct Hb as (Hk & Hbk & Hrt). unfold okres, okblk.
      split; [exists []; exact Hk|]. repeat split; auto.
    + (* SLoop *) rewrite sc_loop in Hsc. inv_ok Hsc. simpl.
      pose proof (IHb hr rec_of true ret b e st Hrec E) as Hb.
      destruct (exec_block cx prog orc fuel rec_of b e st) as [[[o1 e1] s1]| | |]; try exact I; [|unfold okres, okblk, okfn in *; contradiction].
      unfold okblk in Hb. destruct Hb as (Hk & Hbk & Hrt).
      assert (Hnext : okres brk ret (keys e) (keys e) (exec cx prog orc fuel rec_of (SLoop b) e1 s1)).
      { rewrite <- Hk. apply (IHe hr rec_of brk ret (SLoop b) e1 s1 (keys e1) Hrec).
        rewrite sc_loop. rewrite Hk, E. reflexivity. }
      destruct o1; try exact Hnext.
      * unfold okres, okblk. split; [exists []; exact Hk|]. repeat split; esc.
      * unfold okres, okblk. split; [exists []; exact Hk|]. repeat split; esc.
      * unfold okres, okblk. split; [exists []; exact Hk|]. repeat split; esc.
    + (* SBreak *) cbn [sc_stmt] in Hsc. inv_ok Hsc. simpl.
      apply okres_same; esc.
    + (* SContinue *) cbn [sc_stmt] in Hsc. inv_ok Hsc. simpl.
      apply okres_same; esc.
    + (* SIfBpBreak *) cbn [sc_stmt] in Hsc. inv_ok Hsc. apply andb_true_iff in E. destruct E as [E1 E2]. subst brk.
      simpl. destruct (env_get_some _ _ E1) as [mb Hmb]. rewrite Hmb.
      destruct (n <? mb); apply okres_same; esc.
    + (* SOrdChoice *) rewrite sc_ordchoice in Hsc. inv_ok Hsc.
      apply andb_true_iff in E. destruct E as [E E4]. apply andb_true_iff in E. destruct E as [E E3].
      apply andb_true_iff in E. destruct E as [E1 E2].
      simpl.
      assert (H1 : exists el0, (if save_elide then env_get e VElide else Some 0) = Some el0).
      { destruct save_elide; [apply env_get_some; exact E1|eexists; reflexivity]. }
      assert (H2 : exists k0, (if save_kind then env_get e VKind else Some 0) = Some k0).
      { destruct save_kind; [apply env_get_some; exact E2|eexists; reflexivity]. }
      destruct H1 as [el0 H1]. destruct H2 as [k0 H2]. rewrite H1, H2.
      apply (IHa hr rec_of brk ret _ (save_elide, el0) (save_kind, k0) alts last_pats last else_msg e _ Hrec).
      * cbn [fst]. intros ->. exact E1.
      * cbn [fst]. intros ->. exact E2.
      * exact E3.
      * exact E4.
    + (* SReturnIfError *) cbn [sc_stmt] in Hsc. inv_ok Hsc. apply andb_true_iff in E. destruct E as [E1 E2].
      simpl. destruct (active_error st).
      * assert (Hret : (if opt then ORetNone else ORet) = ORet -> ret = true).
        { destruct opt; [discriminate|]. intros _. cbn in E2. exact E2. }
        assert (Hbk : (if opt then ORetNone else ORet) = OBreak \/ (if opt then ORetNone else ORet) = OContinue -> brk = true).
        { destruct opt; intros [H|H]; discriminate. }
        destruct e0.
        -- destruct (env_get_some _ _ E1) as [m Hm]. rewrite Hm.
           destruct (p_close st m kError) as [[closed s1]|]; [|exact I].
           apply okres_same; assumption.
        -- apply okres_same; assumption.
        -- apply andb_true_iff in E1. destruct E1 as [Ea Eb].
           destruct (env_get_some _ _ Ea) as [x Hx]. destruct (env_get_some _ _ Eb) as [y Hy]. rewrite Hx, Hy.
           destruct x as [|x].
           ++ destruct (p_open_before st y) as [[m s1]|]; [|exact I].
              destruct (p_close s1 m kError) as [[closed s2]|]; [|exact I].
              apply okres_same; assumption.
           ++ apply okres_same; assumption.
      * apply okres_same; esc.
    + (* SError *) cbn [sc_stmt] in Hsc. injection Hsc as <-. simpl.
      apply okres_same; esc.
    + (* SAdvErr *) cbn [sc_stmt] in Hsc. injection Hsc as <-. simpl.
      destruct (p_advance_with_error cx st m); [|exact I].
      apply okres_same; esc.
    + (* SOcr *) cbn [sc_stmt] in Hsc. injection Hsc as <-. simpl.
      destruct (in_choice st); apply okres_same; esc.
  - (* exec_block *)
    intros hr rec_of brk ret b e st Hrec Hsc. simpl.
    apply (IHs hr rec_of brk ret (length e) b e st [] (keys e) Hrec); [reflexivity|apply keys_length|exact Hsc].
  - (* exec_seq *)
    intros hr rec_of brk ret n l e st pre sc0 Hrec Hk Hn Hsc.
    destruct l as [|s r]; simpl.
    + unfold okres, okblk. split; [eapply env_leave_keys; eassumption|]. split; esc.
    + rewrite sc_blk_cons in Hsc. destruct (sc_stmt hr brk ret (keys e) s) as [sc1|] eqn:Es; [|discriminate Hsc].
      pose proof (IHe hr rec_of brk ret s e st sc1 Hrec Es) as He.
      destruct (exec cx prog orc fuel rec_of s e st) as [[[o1 e1] s1]| | |]; try exact I; [|unfold okres, okblk, okfn in *; contradiction].
      unfold okres in He. destruct He as ([pre1 Hk1] & Hn1 & Hbk & Hrt).
      assert (Hk1' : keys e1 = (pre1 ++ pre) ++ sc0) by (rewrite Hk1, Hk, app_assoc; reflexivity).
      destruct o1.
      * specialize (Hn1 eq_refl).
        apply (IHs hr rec_of brk ret n r e1 s1 (pre1 ++ pre) sc0 Hrec Hk1' Hn). rewrite Hn1. exact Hsc.
      * unfold okres, okblk. split; [eapply env_leave_keys; eassumption|]. split; auto.
      * unfold okres, okblk. split; [eapply env_leave_keys; eassumption|]. split; auto.
      * unfold okres, okblk. split; [eapply env_leave_keys; eassumption|]. split; auto.
      * unfold okres, okblk. split; [eapply env_leave_keys; eassumption|]. split; auto.
  - (* exec_alts *)
    intros hr rec_of brk ret sv sel sk alts lp last m e1 st1 Hrec Hsel Hsk Halts Hlast.
    destruct alts as [|[pats body] r]; simpl.
    + match goal with |- okres _ _ _ _ (if ?c then _ else _) => destruct c end.
      * pose proof (IHb hr rec_of brk ret last e1 (set_in_choice st1 false) Hrec Hlast) as Hb.
        destruct (exec_block cx prog orc fuel rec_of last e1 (set_in_choice st1 false)) as [[[o1 e2] s2]| | |]; try exact I; [|unfold okres, okblk, okfn in *; contradiction].
        unfold okblk in Hb. destruct Hb as (Hk & Hbk & Hrt). unfold okres, okblk.
        split; [exists []; exact Hk|]. repeat split; auto.
      * destruct (p_advance_with_error cx (set_in_choice st1 false) m); [|exact I].
        apply okres_same; esc.
    + cbn [forallb snd] in Halts. apply andb_true_iff in Halts. destruct Halts as [Hbody Hr].
      destruct (tok_in (cur st1) pats).
      * pose proof (IHb hr rec_of false false body e1 st1 Hrec Hbody) as Hb.
        destruct (exec_block cx prog orc fuel rec_of body e1 st1) as [[[o1 e2] s2]| | |]; try exact I; [|unfold okres, okblk, okfn in *; contradiction].
        unfold okblk in Hb. destruct Hb as (Hk & Hbk & Hrt).
        destruct o1.
        -- unfold okres, okblk. split; [exists []; exact Hk|]. repeat split; esc.
        -- specialize (Hbk (or_introl eq_refl)). discriminate Hbk.
        -- specialize (Hbk (or_intror eq_refl)). discriminate Hbk.
        -- (* ORetNone: restore and try the next alternative *)
           assert (H3 : exists e3, (if fst sel then env_set e2 VElide (snd sel) else Some e2) = Some e3 /\ keys e3 = keys e1).
           { destruct (fst sel) eqn:Ef.
             - destruct (env_set_some e2 VElide (snd sel)) as [e3 [H3 H3k]]; [rewrite Hk; apply Hsel; reflexivity|].
               exists e3. split; [exact H3|]. rewrite H3k. exact Hk.
             - exists e2. split; [reflexivity|exact Hk]. }
           destruct H3 as [e3 [H3 H3k]]. rewrite H3.
           assert (H4 : exists e4, (if fst sk then env_set e3 VKind (snd sk) else Some e3) = Some e4 /\ keys e4 = keys e1).
           { destruct (fst sk) eqn:Ef.
             - destruct (env_set_some e3 VKind (snd sk)) as [e4 [H4 H4k]]; [rewrite H3k; apply Hsk; reflexivity|].
               exists e4. split; [exact H4|]. rewrite H4k. exact H3k.
             - exists e3. split; [reflexivity|exact H3k]. }
           destruct H4 as [e4 [H4 H4k]]. rewrite H4.
           rewrite <- H4k.
           apply (IHa hr rec_of brk ret sv sel sk r lp last m e4 _ Hrec); rewrite H4k; assumption.
        -- specialize (Hrt eq_refl). discriminate Hrt.
      * apply (IHa hr rec_of brk ret sv sel sk r lp last m e1 st1 Hrec); assumption.
  - (* call_fn *)
    intros f st Hf. cbn [call_fn].
    unfold fn_scoped in Hf. apply andb_true_iff in Hf. destruct Hf as [Hbody Hrecb].
    match goal with
    | |- okfn (match ?x with _ => _ end) =>
      assert (Hb : okblk true true (keys []) x)
    end.
    { apply (IHb (hr_of f)); [|exact Hbody].
      unfold rec_ok, hr_of. destruct (fn_rec f) as [[hb b]|]; [exact Hrecb|exact I]. }
    match goal with
    | |- okfn (match ?x with _ => _ end) => destruct x as [[[o1 e1] s1]| | |]
    end; try exact I.
    unfold okblk in Hb. contradiction.
Qed.

(* the whole parse: never stuck when the entry rule exists *)
Theorem parse_entry_not_stuck fuel r root msg w :
  find_rule prog r <> None -> parse_entry cx prog orc fuel r root msg <> XStuck w.
Proof.
  intros Hr. unfold parse_entry.
  destruct (p_open init_state) as [[m st0]|]; [|discriminate].
  destruct (find_rule prog r) as [f|] eqn:Ef; [|contradiction].
  pose proof (proj2 (proj2 (proj2 (proj2 (exec_scoped fuel)))) f (p_init_skip cx st0) (find_rule_scoped _ _ Ef)) as Hc.
  destruct (call_fn cx prog orc fuel f (p_init_skip cx st0)) as [[some st2]| | |]; try discriminate; [|unfold okres, okblk, okfn in *; contradiction].
  destruct (p_close_error_node st2) as [st3|]; [|discriminate].
  match goal with |- match ?x with _ => _ end <> _ => destruct x as [st7|] end; [|discriminate].
  destruct (c_close_root (cstd st7) m root); discriminate.
Qed.

End SC.

(* non-vacuity: the translated parser of ExecExamples.v (markers, creation, committed ordered choice,
   a Pratt rule with min_bp) passes the check; a program using an unbound mark does not *)
From LV Require ExecExamples.
Example ex_scoped : prog_scoped ExecExamples.prog = true.
Proof. vm_compute. reflexivity. Qed.
Example ex_not_scoped :
  prog_scoped (mkProg [(0, mkFn false [SCreate (VMk 1) 2] None)] 0 1 0 []) = false.
Proof. vm_compute. reflexivity. Qed.
