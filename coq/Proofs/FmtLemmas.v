(* FmtLemmas.v - measures on item lists and the facts about push_text / space_before_comment
   (the leaves of the item generator).  Used by FmtProofs.v. *)
From Coq Require Import List Arith Bool Lia.
From LV Require Import Fmt.
Import ListNotations.

(* ------------------------------------------------------------------ measures *)

(* the bytes of the string items outside condition branches, in order *)
Fixpoint strs (l : list item) : list byte :=
  match l with
  | [] => []
  | IStr s :: r => s ++ strs r
  | _ :: r => strs r
  end.

Definition chars (l : list item) : list byte := nonws (strs l).

Definition not_crash (i : item) : Prop := match i with ICrash _ => False | _ => True end.
Definition NoCrash (l : list item) : Prop := Forall not_crash l.

Definition not_unreach (i : item) : Prop := i <> ICrash CUnreachable.

Definition is_sig (i : item) : Prop := match i with ISig _ => True | _ => False end.

Definition bytes_ok (s : list byte) : Prop := ~ In b_tab s /\ ~ In b_nl s.

(* the four condition shapes format.rs builds; branches hold signals only *)
Definition cond_shape (n : cname) (t f : list item) : Prop :=
  match n with
  | CNewLineIfMultipleLines _ => t = [ISig NewLine] /\ f = []
  | CNlOrSpace => t = [ISig NewLine] /\ f = [ISig SpaceOrNewLine]
  | CMultilineAlt _ =>
      (t = [ISig NewLine; ISig FinishIndent; ISig FinishIndent] /\ f = [ISig SpaceOrNewLine])
      \/ (t = [ISig StartIndent; ISig StartIndent] /\ f = [])
  end.

(* what the printer requires of every item: no tab / newline inside a string; conditions have one of
   the known shapes (in particular no strings and no nested conditions inside a branch) *)
Definition item_ok (i : item) : Prop :=
  match i with
  | IStr s => bytes_ok s
  | ICond n t f => cond_shape n t f
  | _ => True
  end.

Definition cnt (f : item -> nat) (l : list item) : nat := fold_right (fun i a => f i + a) 0 l.

Definition is_si (i : item) := match i with ISig StartIndent => 1 | _ => 0 end.
Definition is_fi (i : item) := match i with ISig FinishIndent => 1 | _ => 0 end.
Definition is_sg (i : item) := match i with ISig StartNewLineGroup => 1 | _ => 0 end.
Definition is_fg (i : item) := match i with ISig FinishNewLineGroup => 1 | _ => 0 end.
(* the first ("separator", has a false path) and second ("indent", no false path) multilineAlt condition *)
Definition is_altA (i : item) :=
  match i with ICond (CMultilineAlt _) _ (_ :: _) => 1 | _ => 0 end.
Definition is_altB (i : item) :=
  match i with ICond (CMultilineAlt _) _ [] => 1 | _ => 0 end.

Lemma strs_app : forall a b, strs (a ++ b) = strs a ++ strs b.
Proof.
  induction a as [|x a IH]; intros b; simpl; [reflexivity|].
  destruct x; simpl; rewrite ?IH, ?app_assoc; reflexivity.
Qed.

Lemma nonws_app : forall a b, nonws (a ++ b) = nonws a ++ nonws b.
Proof. intros; unfold nonws; apply filter_app. Qed.

Lemma chars_app : forall a b, chars (a ++ b) = chars a ++ chars b.
Proof. intros; unfold chars; rewrite strs_app, nonws_app; reflexivity. Qed.

Lemma chars_cons_nostr : forall x l, (forall s, x <> IStr s) -> chars (x :: l) = chars l.
Proof. intros x l H; destruct x; try reflexivity. exfalso; eapply H; reflexivity. Qed.

Lemma cnt_app : forall f a b, cnt f (a ++ b) = cnt f a + cnt f b.
Proof. induction a as [|x a IH]; intros b; simpl; [reflexivity|]. rewrite IH; lia. Qed.

Lemma cnt_cons : forall f x l, cnt f (x :: l) = f x + cnt f l.
Proof. reflexivity. Qed.

Lemma cnt_repeat : forall f x n, cnt f (repeat x n) = n * f x.
Proof. induction n as [|n IH]; simpl; [reflexivity|]. rewrite IH; lia. Qed.

Lemma Forall_repeat : forall (P : item -> Prop) x n, P x -> Forall P (repeat x n).
Proof. induction n; simpl; intros; constructor; auto. Qed.

Lemma chars_repeat_sig : forall s n, chars (repeat (ISig s) n) = [].
Proof. induction n as [|n IH]; simpl; [reflexivity|]. exact IH. Qed.

Lemma NoCrash_app : forall a b, NoCrash (a ++ b) <-> NoCrash a /\ NoCrash b.
Proof. intros; unfold NoCrash; apply Forall_app. Qed.

Lemma first_crash_none : forall l, first_crash l = None <-> NoCrash l.
Proof.
  induction l as [|x l IH]; simpl.
  - split; intros; [constructor|reflexivity].
  - destruct x; simpl; try (rewrite IH; split; intros H; [constructor; [exact I|exact H]|inversion H; assumption]).
    split; intros H; [discriminate|inversion H as [|? ? Hx]; destruct Hx].
Qed.

(* ------------------------------------------------------------------ split_on *)

Lemma split_on_nonempty : forall sep l, split_on sep l <> [].
Proof.
  induction l as [|b l IH]; simpl; [discriminate|].
  destruct (b =? sep); [discriminate|].
  destruct (split_on sep l); [congruence|discriminate].
Qed.

Lemma split_on_no_sep : forall sep l p, In p (split_on sep l) -> ~ In sep p.
Proof.
  induction l as [|b l IH]; simpl; intros p H.
  - destruct H as [<-|[]]; intros [].
  - destruct (b =? sep) eqn:E.
    + destruct H as [<-|H]; [intros []|auto].
    + destruct (split_on sep l) as [|q qs] eqn:Es.
      * destruct H as [<-|[]]. intros [->|[]]. rewrite Nat.eqb_refl in E; discriminate.
      * destruct H as [<-|H].
        -- intros [->|Hin]; [rewrite Nat.eqb_refl in E; discriminate|].
           apply (IH q); [left; reflexivity|exact Hin].
        -- apply IH; right; exact H.
Qed.

Lemma split_on_keeps_absent : forall sep c l p, ~ In c l -> In p (split_on sep l) -> ~ In c p.
Proof.
  induction l as [|b l IH]; simpl; intros p Hc H.
  - destruct H as [<-|[]]; intros [].
  - assert (Hl : ~ In c l) by tauto. assert (Hb : b <> c) by tauto.
    destruct (b =? sep).
    + destruct H as [<-|H]; [intros []|auto].
    + destruct (split_on sep l) as [|q qs] eqn:Es.
      * destruct H as [<-|[]]. intros [->|[]]; congruence.
      * destruct H as [<-|H].
        -- intros [->|Hin]; [congruence|]. apply (IH q); auto. left; reflexivity.
        -- apply IH; auto. right; exact H.
Qed.

(* the pieces, glued, have the non-whitespace bytes of the whole when the separator is whitespace *)
Lemma split_on_nonws : forall sep l, is_ws sep = true ->
  nonws (concat (split_on sep l)) = nonws l.
Proof.
  intros sep l Hs. induction l as [|b l IH]; simpl; [reflexivity|].
  destruct (b =? sep) eqn:E.
  - apply Nat.eqb_eq in E; subst b. simpl. unfold nonws in *; simpl. rewrite Hs; simpl. exact IH.
  - destruct (split_on sep l) as [|q qs] eqn:Es.
    + exfalso; eapply split_on_nonempty; exact Es.
    + simpl in *. unfold nonws in *; simpl. rewrite IH. reflexivity.
Qed.

(* ------------------------------------------------------------------ gen_line *)

Lemma chars_str_if_nonempty : forall p, chars (str_if_nonempty p) = nonws p.
Proof. destruct p; simpl; [reflexivity|]. unfold chars; simpl. rewrite app_nil_r; reflexivity. Qed.

Lemma gen_line_chars : forall l, chars (gen_line l) = nonws l.
Proof.
  intros l. unfold gen_line.
  rewrite <- (split_on_nonws b_tab l) by reflexivity.
  destruct (split_on b_tab l) as [|p ps]; [reflexivity|].
  simpl. rewrite chars_app, nonws_app, chars_str_if_nonempty. f_equal.
  induction ps as [|q qs IH]; simpl; [reflexivity|].
  rewrite nonws_app, <- IH.
  change (ISig Tab :: str_if_nonempty q ++ flat_map (fun q0 => ISig Tab :: str_if_nonempty q0) qs)
    with ([ISig Tab] ++ str_if_nonempty q ++ flat_map (fun q0 => ISig Tab :: str_if_nonempty q0) qs).
  rewrite !chars_app, chars_str_if_nonempty. reflexivity.
Qed.

Definition plain (i : item) : Prop :=
  match i with IStr s => bytes_ok s | ISig s => s <> StartIndent /\ s <> FinishIndent /\ s <> StartNewLineGroup /\ s <> FinishNewLineGroup | _ => False end.

Lemma plain_ok : forall i, plain i -> item_ok i.
Proof. destruct i; simpl; tauto. Qed.

Lemma Forall_plain_str_if_nonempty : forall p, bytes_ok p -> Forall plain (str_if_nonempty p).
Proof. destruct p; simpl; intros; constructor; auto. Qed.

Lemma sig_plain : forall s, s <> StartIndent -> s <> FinishIndent -> s <> StartNewLineGroup -> s <> FinishNewLineGroup -> plain (ISig s).
Proof. simpl; tauto. Qed.

Lemma gen_line_plain : forall l, ~ In b_nl l -> Forall plain (gen_line l).
Proof.
  intros l Hnl. unfold gen_line.
  assert (H : forall p, In p (split_on b_tab l) -> bytes_ok p).
  { intros p Hp; split; [eapply split_on_no_sep; eauto|eapply split_on_keeps_absent; eauto]. }
  destruct (split_on b_tab l) as [|p ps]; [constructor|].
  apply Forall_app; split.
  - apply Forall_plain_str_if_nonempty, H; left; reflexivity.
  - assert (H' : forall q, In q ps -> bytes_ok q) by (intros; apply H; right; assumption).
    clear H. induction ps as [|q qs IH]; simpl; [constructor|].
    constructor; [simpl; repeat split; discriminate|].
    apply Forall_app; split.
    + apply Forall_plain_str_if_nonempty, H'; left; reflexivity.
    + apply IH; intros; apply H'; right; assumption.
Qed.

(* ------------------------------------------------------------------ lines *)

Lemma strip_cr_nonws : forall l, nonws (strip_cr l) = nonws l.
Proof.
  intros l. unfold strip_cr. destruct (rev l) as [|c r] eqn:E; [reflexivity|].
  destruct (c =? b_cr) eqn:Ec; [|reflexivity].
  apply Nat.eqb_eq in Ec; subst c.
  assert (l = rev r ++ [b_cr]) as -> by (rewrite <- (rev_involutive l), E; reflexivity).
  rewrite nonws_app. simpl. rewrite app_nil_r; reflexivity.
Qed.

Lemma strip_cr_absent : forall c l, ~ In c l -> ~ In c (strip_cr l).
Proof.
  intros c l H. unfold strip_cr. destruct (rev l) as [|x r] eqn:E; [exact H|].
  destruct (x =? b_cr); [|exact H].
  intros Hin. apply H. rewrite <- (rev_involutive l), E. simpl. apply in_or_app; left; exact Hin.
Qed.

Lemma lines_of_nonws : forall ps, nonws (concat (lines_of ps)) = nonws (concat ps).
Proof.
  induction ps as [|p ps IH]; [reflexivity|].
  destruct ps as [|q qs].
  - simpl. destruct p; simpl; reflexivity.
  - change (lines_of (p :: q :: qs)) with (strip_cr p :: lines_of (q :: qs)).
    change (concat (strip_cr p :: lines_of (q :: qs))) with (strip_cr p ++ concat (lines_of (q :: qs))).
    change (concat (p :: q :: qs)) with (p ++ concat (q :: qs)).
    rewrite !nonws_app, strip_cr_nonws, IH. reflexivity.
Qed.

Lemma lines_of_absent : forall c ps, (forall p, In p ps -> ~ In c p) ->
  forall p, In p (lines_of ps) -> ~ In c p.
Proof.
  induction ps as [|p ps IH]; intros H x Hx; [destruct Hx|].
  destruct ps as [|q qs].
  - simpl in Hx. destruct p; simpl in Hx; [destruct Hx|]. destruct Hx as [<-|[]]. apply H; left; reflexivity.
  - change (lines_of (p :: q :: qs)) with (strip_cr p :: lines_of (q :: qs)) in Hx.
    destruct Hx as [<-|Hx].
    + apply strip_cr_absent, H; left; reflexivity.
    + apply IH; [intros; apply H; right; assumption|exact Hx].
Qed.

Lemma lines_nonws : forall l, nonws (concat (lines l)) = nonws l.
Proof. intros; unfold lines. rewrite lines_of_nonws. apply split_on_nonws; reflexivity. Qed.

Lemma lines_no_nl : forall l p, In p (lines l) -> ~ In b_nl p.
Proof.
  intros l p H. unfold lines in H. eapply lines_of_absent; [|exact H].
  intros q Hq; eapply split_on_no_sep; exact Hq.
Qed.

Lemma gen_string_lines_chars : forall l, chars (gen_string_lines l) = nonws l.
Proof.
  intros l. unfold gen_string_lines. rewrite chars_app.
  assert (E : chars (if ends_with_nl l then [ISig NewLine] else []) = []) by (destruct (ends_with_nl l); reflexivity).
  rewrite E, app_nil_r, <- (lines_nonws l).
  destruct (lines l) as [|p ps]; [reflexivity|].
  simpl. rewrite chars_app, nonws_app, gen_line_chars. f_equal.
  induction ps as [|q qs IH]; simpl; [reflexivity|].
  rewrite nonws_app, <- IH.
  change (ISig NewLine :: gen_line q ++ flat_map (fun q0 => ISig NewLine :: gen_line q0) qs)
    with ([ISig NewLine] ++ gen_line q ++ flat_map (fun q0 => ISig NewLine :: gen_line q0) qs).
  rewrite !chars_app, gen_line_chars. reflexivity.
Qed.

Lemma gen_string_lines_plain : forall l, Forall plain (gen_string_lines l).
Proof.
  intros l. unfold gen_string_lines. apply Forall_app; split.
  - assert (H : forall p, In p (lines l) -> ~ In b_nl p) by (apply lines_no_nl).
    destruct (lines l) as [|p ps]; [constructor|].
    apply Forall_app; split; [apply gen_line_plain, H; left; reflexivity|].
    assert (H' : forall q, In q ps -> ~ In b_nl q) by (intros; apply H; right; assumption).
    clear H. induction ps as [|q qs IH]; simpl; [constructor|].
    constructor; [simpl; repeat split; discriminate|].
    apply Forall_app; split; [apply gen_line_plain, H'; left; reflexivity|].
    apply IH; intros; apply H'; right; assumption.
  - destruct (ends_with_nl l); repeat constructor; discriminate.
Qed.

Lemma has_byte_false : forall c l, has_byte c l = false -> ~ In c l.
Proof.
  intros c l H Hin. unfold has_byte in H.
  assert (existsb (fun b => b =? c) l = true); [|congruence].
  apply existsb_exists. exists c; split; [exact Hin|apply Nat.eqb_refl].
Qed.

(* ------------------------------------------------------------------ push_text *)

Lemma push_text_chars : forall txt, chars (push_text txt) = nonws txt.
Proof.
  intros txt. unfold push_text.
  destruct (has_byte b_tab txt || has_byte b_nl txt).
  - unfold gen_from_raw_string. destruct (has_byte b_nl txt).
    + change (ISig StartIgnoringIndent :: gen_string_lines txt ++ [ISig FinishIgnoringIndent])
        with ([ISig StartIgnoringIndent] ++ gen_string_lines txt ++ [ISig FinishIgnoringIndent]).
      rewrite !chars_app, gen_string_lines_chars. simpl. rewrite app_nil_r; reflexivity.
    + apply gen_line_chars.
  - unfold chars; simpl. rewrite app_nil_r; reflexivity.
Qed.

Lemma push_text_plain : forall txt, Forall plain (push_text txt).
Proof.
  intros txt. unfold push_text.
  destruct (has_byte b_tab txt) eqn:Et; destruct (has_byte b_nl txt) eqn:En; simpl;
    unfold gen_from_raw_string; rewrite ?En.
  - constructor; [simpl; repeat split; discriminate|]. apply Forall_app; split; [apply gen_string_lines_plain|].
    repeat constructor; discriminate.
  - apply gen_line_plain, has_byte_false, En.
  - constructor; [simpl; repeat split; discriminate|]. apply Forall_app; split; [apply gen_string_lines_plain|].
    repeat constructor; discriminate.
  - constructor; [|constructor]. split; apply has_byte_false; assumption.
Qed.

Lemma plain_no_crash : forall l, Forall plain l -> NoCrash l.
Proof. intros l H; eapply Forall_impl; [|exact H]. intros a; destruct a; simpl; tauto. Qed.

Lemma plain_cnt0 : forall f l, (forall i, plain i -> f i = 0) -> Forall plain l -> cnt f l = 0.
Proof.
  intros f l Hf H; induction H as [|x l Hx _ IH]; simpl; [reflexivity|]. rewrite (Hf x Hx), IH; reflexivity.
Qed.

Lemma plain_si : forall i, plain i -> is_si i = 0.
Proof. destruct i as [| s | | | | |]; simpl; try tauto. destruct s; simpl; tauto. Qed.
Lemma plain_fi : forall i, plain i -> is_fi i = 0.
Proof. destruct i as [| s | | | | |]; simpl; try tauto. destruct s; simpl; tauto. Qed.
Lemma plain_sg : forall i, plain i -> is_sg i = 0.
Proof. destruct i as [| s | | | | |]; simpl; try tauto. destruct s; simpl; tauto. Qed.
Lemma plain_fg : forall i, plain i -> is_fg i = 0.
Proof. destruct i as [| s | | | | |]; simpl; try tauto. destruct s; simpl; tauto. Qed.
Lemma plain_altA : forall i, plain i -> is_altA i = 0.
Proof. destruct i; simpl; tauto. Qed.
Lemma plain_altB : forall i, plain i -> is_altB i = 0.
Proof. destruct i; simpl; tauto. Qed.

(* `&txt[..txt.len() - 1]` then push_text: the text minus its last byte, or the slice panic *)
Lemma push_text_chopped_chars : forall txt, chars (push_text_chopped txt) = nonws (removelast txt).
Proof. destruct txt; [reflexivity|]. unfold push_text_chopped. apply push_text_chars. Qed.

(* items that are plain or a crash marker: neutral for every counter *)
Definition plainc (i : item) : Prop := plain i \/ i = ICrash CSlice.

Lemma plain_plainc : forall l, Forall plain l -> Forall plainc l.
Proof. intros l H; eapply Forall_impl; [|exact H]; intros; left; assumption. Qed.

Lemma push_text_chopped_plainc : forall txt, Forall plainc (push_text_chopped txt).
Proof.
  destruct txt; simpl; [constructor; [right; reflexivity|constructor]|].
  apply plain_plainc, push_text_plain.
Qed.

(* ------------------------------------------------------------------ space_before_comment *)

Lemma sbc_scan_cases : forall l g,
  sbc_scan l g = [] \/ sbc_scan l g = [ISig NewLine] \/ sbc_scan l g = space.
Proof.
  induction l as [|c r IH]; intros g; simpl; [left; reflexivity|].
  destruct (is_blank c); [apply IH|].
  destruct (c =? b_nl); [destruct g; auto|auto].
Qed.

Lemma sbc_plainc : forall src start g, Forall plainc (space_before_comment src start g).
Proof.
  intros src start g. unfold space_before_comment.
  destruct (start <=? length src); [|constructor; [right; reflexivity|constructor]].
  destruct (sbc_scan_cases (rev_append (firstn start src) []) g) as [-> | [-> | ->]].
  - constructor.
  - constructor; [left; simpl; repeat split; discriminate|constructor].
  - constructor; [left; simpl; split; intros [H|[]]; discriminate|constructor].
Qed.

Lemma sbc_chars : forall src start g, chars (space_before_comment src start g) = [].
Proof.
  intros src start g. unfold space_before_comment.
  destruct (start <=? length src); [|reflexivity].
  destruct (sbc_scan_cases (rev_append (firstn start src) []) g) as [-> | [-> | ->]]; reflexivity.
Qed.

Lemma plainc_ok : forall i, plainc i -> item_ok i.
Proof. intros i [H| ->]; [apply plain_ok; exact H|exact I]. Qed.

Lemma plainc_cnt0 : forall f l, (forall i, plain i -> f i = 0) -> f (ICrash CSlice) = 0 ->
  Forall plainc l -> cnt f l = 0.
Proof.
  intros f l Hf Hc H; induction H as [|x l Hx _ IH]; simpl; [reflexivity|].
  destruct Hx as [Hx| ->]; [rewrite (Hf x Hx)|rewrite Hc]; rewrite IH; reflexivity.
Qed.

Lemma plainc_not_unreach : forall l, Forall plainc l -> Forall not_unreach l.
Proof.
  intros l H; eapply Forall_impl; [|exact H]. intros a [Ha| ->] E; [subst a; exact Ha|discriminate].
Qed.
