(* C09, follow sets: the map that calc_follow returns is always closed under the follow
   inclusions (tokens), so the closure certificate [fol_closed] is a theorem.
   The loop stops when no *rule body* gained a token in the last sweep.  Inside a sweep the
   follow sets flow top-down: a node's set is written by its parent just before the node is
   visited and by nobody else afterwards (frame property, needs unique ids), except for rule
   bodies, which references elsewhere may extend - but then the loop does not stop. *)
From Coq Require Import List Arith Lia Bool.
From LV Require Import Sema SetLemmas FirstSpec FollowSpec FollowSound FirstClosed.
Import ListNotations.

Definition subt (s s' : set) : Prop := forall a, mem (T a) s = true -> mem (T a) s' = true.
Definition let_ (m m' : smap) : Prop := forall k, subt (get m k) (get m' k).

Lemma subt_refl s : subt s s. Proof. intros a H; exact H. Qed.
Lemma subt_trans a b c : subt a b -> subt b c -> subt a c. Proof. unfold subt; auto. Qed.
Lemma let_refl m : let_ m m. Proof. intros k; apply subt_refl. Qed.
Lemma let_trans a b c : let_ a b -> let_ b c -> let_ a c.
Proof. intros H1 H2 k. eapply subt_trans; [apply H1|apply H2]. Qed.

Lemma subset_tok_subt s1 s2 : subset_tok s1 s2 = true <-> subt s1 s2.
Proof. apply subset_tok_spec. Qed.

Lemma get_upd_id (m : smap) k k' : get (upd m k (fun s => s)) k' = get m k'.
Proof.
  destruct (Nat.eq_dec k' k) as [->|Hne]; [apply get_upd_same|apply get_upd_other; assumption].
Qed.

Lemma let_upd m k f : (forall s, subt s (f s)) -> let_ m (upd m k f).
Proof.
  intros H k'. destruct (Nat.eq_dec k' k) as [->|Hne].
  - rewrite get_upd_same. apply H.
  - rewrite get_upd_other by assumption. apply subt_refl.
Qed.

Lemma subt_union_l s X : subt s (union s X).
Proof. intros a H. apply mem_union. left. assumption. Qed.

Lemma subt_star s X Y : subt s (union (remove Eps (union s X)) Y).
Proof.
  intros a H. apply mem_union. left. apply mem_remove. split; [discriminate|]. apply mem_union. left. assumption.
Qed.

Lemma Forall_inst {A} (Q : nat -> A -> Prop) l : Forall (fun x => forall n, Q n x) l -> forall n, Forall (Q n) l.
Proof. intros H n. induction H; constructor; auto. Qed.

Section Closed.
Variable g : grammar.
Variable fi : smap.

Notation follow_regex := (Sema.follow_regex g fi).
Notation cat_fgo := (FollowSound.cat_fgo g fi).
Notation alt_fgo := (FollowSound.alt_fgo g fi).

(* ---------- growth ---------- *)
Lemma cat_fgo_let rb : forall l,
  Forall (fun o => forall fo lf, let_ fo (fst (follow_regex rb o (fo, lf)))) l ->
  forall st follow st1 f1, cat_fgo rb l st follow = (st1, f1) -> let_ (fst st) (fst st1).
Proof.
  induction l as [|op r IH]; intros Hl st follow st1 f1 H; cbn [FollowSound.cat_fgo] in H.
  - injection H as <- _. apply let_refl.
  - inversion Hl as [|? ? Hop Hr]; subst.
    destruct (cat_fgo rb r st follow) as [[fo2 lf2] follow2] eqn:Er.
    injection H as <- _.
    eapply let_trans; [eapply IH; eassumption|]. cbn [fst].
    eapply let_trans; [|apply Hop]. apply let_upd. intros s. apply subt_union_l.
Qed.

Lemma alt_fgo_let rb follow : forall l,
  Forall (fun o => forall fo lf, let_ fo (fst (follow_regex rb o (fo, lf)))) l ->
  forall st, let_ (fst st) (fst (alt_fgo rb follow l st)).
Proof.
  induction l as [|op r IH]; intros Hl [fo lf]; cbn [FollowSound.alt_fgo]; [apply let_refl|].
  inversion Hl as [|? ? Hop Hr]; subst. cbn [fst].
  eapply let_trans; [|apply IH; assumption].
  eapply let_trans; [|apply Hop]. apply let_upd. intros s. apply subt_union_l.
Qed.

Theorem follow_regex_let : forall x rb fo lf, let_ fo (fst (follow_regex rb x (fo, lf))).
Proof.
  induction x as [i t|i r|i ops IH|i ops IH|i ops IH|i o IH|i o IH|i o IH|i|i o IH|i k] using regex_ind';
    intros rb fo lf.
  - apply let_refl.
  - cbn [Sema.follow_regex rid_of]. destruct (body_of g r) as [b|]; [|apply let_refl]. cbn [fst].
    eapply let_trans; [apply let_upd; intros s; apply subt_refl|].
    eapply let_trans; [apply let_upd; intros s; apply subt_refl|].
    apply let_upd. intros s. apply subt_union_l.
  - rewrite follow_regex_cat.
    destruct (cat_fgo rb ops (upd fo i (fun s => s), lf) (get fo i)) as [st1 f1] eqn:E. cbn [fst].
    eapply let_trans; [apply let_upd; intros s; apply subt_refl|].
    apply (cat_fgo_let rb ops (Forall_inst _ ops IH rb) _ _ _ _ E).
  - rewrite follow_regex_alt. eapply let_trans; [apply let_upd; intros s; apply subt_refl|].
    apply (alt_fgo_let rb (get fo i) ops (Forall_inst _ ops IH rb) (upd fo i (fun s => s), lf)).
  - rewrite follow_regex_choice. eapply let_trans; [apply let_upd; intros s; apply subt_refl|].
    apply (alt_fgo_let rb (get fo i) ops (Forall_inst _ ops IH rb) (upd fo i (fun s => s), lf)).
  - cbn [Sema.follow_regex rid_of]. eapply let_trans; [|apply IH].
    eapply let_trans; [apply let_upd; intros s; apply subt_refl|]. apply let_upd. intros s. apply subt_star.
  - cbn [Sema.follow_regex rid_of]. eapply let_trans; [|apply IH].
    eapply let_trans; [apply let_upd; intros s; apply subt_refl|]. apply let_upd. intros s.
    intros a H. apply mem_union. left. apply mem_union. left. assumption.
  - cbn [Sema.follow_regex rid_of]. eapply let_trans; [|apply IH].
    eapply let_trans; [apply let_upd; intros s; apply subt_refl|]. apply let_upd. intros s. apply subt_union_l.
  - apply let_refl.
  - cbn [Sema.follow_regex rid_of]. eapply let_trans; [|apply IH].
    eapply let_trans; [apply let_upd; intros s; apply subt_refl|]. apply let_upd. intros s. apply subt_union_l.
  - apply let_refl.
Qed.

(* ---------- frame: the keys a visit may change ---------- *)
Fixpoint touch (x : regex) : list nat :=
  match x with
  | RRule _ r => match body_of g r with Some b => [rid_of b] | None => [] end
  | RCat _ ops | RAlt _ ops | RChoice _ ops => flat_map (fun o => rid_of o :: touch o) ops
  | RStar _ o | RPlus _ o | ROpt _ o => rid_of o :: touch o
  | RParen _ (Some o) => rid_of o :: touch o
  | _ => []
  end.

Definition Frame (rb : nat) (o : regex) : Prop :=
  forall fo lf k, ~ In k (touch o) -> get (fst (follow_regex rb o (fo, lf))) k = get fo k.

Lemma cat_fgo_frame rb : forall l, Forall (Frame rb) l ->
  forall st follow st1 f1 k, cat_fgo rb l st follow = (st1, f1) ->
    ~ In k (flat_map (fun o => rid_of o :: touch o) l) -> get (fst st1) k = get (fst st) k.
Proof.
  induction l as [|op r IH]; intros Hl st follow st1 f1 k H Hk; cbn [FollowSound.cat_fgo] in H.
  - injection H as <- _. reflexivity.
  - inversion Hl as [|? ? Hop Hr]; subst.
    destruct (cat_fgo rb r st follow) as [[fo2 lf2] follow2] eqn:Er.
    injection H as <- _. cbn [flat_map] in Hk.
    rewrite Hop by (intro Hi; apply Hk; right; apply in_or_app; left; assumption).
    rewrite get_upd_other by (intros ->; apply Hk; left; reflexivity).
    apply (IH Hr _ _ _ _ _ Er). intro Hi. apply Hk. right. apply in_or_app. right. assumption.
Qed.

Lemma alt_fgo_frame rb follow : forall l, Forall (Frame rb) l ->
  forall st k, ~ In k (flat_map (fun o => rid_of o :: touch o) l) ->
    get (fst (alt_fgo rb follow l st)) k = get (fst st) k.
Proof.
  induction l as [|op r IH]; intros Hl [fo lf] k Hk; cbn [FollowSound.alt_fgo]; [reflexivity|].
  inversion Hl as [|? ? Hop Hr]; subst. cbn [flat_map] in Hk.
  rewrite IH; [|assumption|intro Hi; apply Hk; right; apply in_or_app; right; assumption].
  rewrite Hop by (intro Hi; apply Hk; right; apply in_or_app; left; assumption).
  cbn [fst]. apply get_upd_other. intros ->. apply Hk. left. reflexivity.
Qed.

Theorem follow_regex_frame : forall x rb, Frame rb x.
Proof.
  induction x as [i t|i r|i ops IH|i ops IH|i ops IH|i o IH|i o IH|i o IH|i|i o IH|i k] using regex_ind';
    intros rb fo lf k0 Hk.
  - reflexivity.
  - cbn [Sema.follow_regex rid_of touch] in *. destruct (body_of g r) as [b|]; [|reflexivity]. cbn [fst].
    rewrite get_upd_other by (intros ->; apply Hk; left; reflexivity).
    rewrite !get_upd_id. reflexivity.
  - rewrite follow_regex_cat.
    destruct (cat_fgo rb ops (upd fo i (fun s => s), lf) (get fo i)) as [st1 f1] eqn:E. cbn [fst].
    rewrite (cat_fgo_frame rb ops (Forall_inst _ ops IH rb) _ _ _ _ k0 E Hk). cbn [fst]. apply get_upd_id.
  - rewrite follow_regex_alt.
    rewrite (alt_fgo_frame rb (get fo i) ops (Forall_inst _ ops IH rb) _ k0 Hk). cbn [fst]. apply get_upd_id.
  - rewrite follow_regex_choice.
    rewrite (alt_fgo_frame rb (get fo i) ops (Forall_inst _ ops IH rb) _ k0 Hk). cbn [fst]. apply get_upd_id.
  - cbn [Sema.follow_regex rid_of touch] in *.
    rewrite IH by (intro Hi; apply Hk; right; assumption).
    rewrite get_upd_other by (intros ->; apply Hk; left; reflexivity). apply get_upd_id.
  - cbn [Sema.follow_regex rid_of touch] in *.
    rewrite IH by (intro Hi; apply Hk; right; assumption).
    rewrite get_upd_other by (intros ->; apply Hk; left; reflexivity). apply get_upd_id.
  - cbn [Sema.follow_regex rid_of touch] in *.
    rewrite IH by (intro Hi; apply Hk; right; assumption).
    rewrite get_upd_other by (intros ->; apply Hk; left; reflexivity). apply get_upd_id.
  - reflexivity.
  - cbn [Sema.follow_regex rid_of touch] in *.
    rewrite IH by (intro Hi; apply Hk; right; assumption).
    rewrite get_upd_other by (intros ->; apply Hk; left; reflexivity). apply get_upd_id.
  - reflexivity.
Qed.

(* ---------- ids ---------- *)
Definition bodies : list nat :=
  flat_map (fun ru => match r_body ru with Some b => [rid_of b] | None => [] end) (g_rules g).

Lemma body_in_bodies r b : body_of g r = Some b -> In (rid_of b) bodies.
Proof.
  unfold body_of, nth_rule, bodies. destruct (nth_error (g_rules g) r) as [ru|] eqn:E; [|discriminate].
  intros Hb. apply in_flat_map. exists ru. split; [eapply nth_error_In; eassumption|]. rewrite Hb. left. reflexivity.
Qed.

Definition ids (l : list regex) : list nat := map rid_of (flat_map subs l).

Lemma subs_cons x : subs x = x :: tl (subs x).
Proof. destruct x; reflexivity. Qed.

Lemma touch_sub : forall x k, In k (touch x) -> In k (map rid_of (tl (subs x))) \/ In k bodies.
Proof.
  induction x as [i t|i r|i ops IH|i ops IH|i ops IH|i o IH|i o IH|i o IH|i|i o IH|i k0] using regex_ind';
    intros k Hk; cbn [touch] in Hk; try contradiction.
  - destruct (body_of g r) as [b|] eqn:Eb; [|contradiction]. destruct Hk as [<-|[]]. right. eapply body_in_bodies. eassumption.
  - cbn [subs tl]. apply in_flat_map in Hk. destruct Hk as (o & Ho & Hk). rewrite Forall_forall in IH.
    destruct Hk as [<-|Hk].
    + left. apply in_map. apply in_flat_map. exists o. split; [assumption|apply subs_self].
    + destruct (IH o Ho k Hk) as [H|H]; [left|right; assumption].
      apply in_map_iff in H. destruct H as (y & <- & Hy). apply in_map. apply in_flat_map. exists o. split; [assumption|].
      rewrite subs_cons. right. assumption.
  - cbn [subs tl]. apply in_flat_map in Hk. destruct Hk as (o & Ho & Hk). rewrite Forall_forall in IH.
    destruct Hk as [<-|Hk].
    + left. apply in_map. apply in_flat_map. exists o. split; [assumption|apply subs_self].
    + destruct (IH o Ho k Hk) as [H|H]; [left|right; assumption].
      apply in_map_iff in H. destruct H as (y & <- & Hy). apply in_map. apply in_flat_map. exists o. split; [assumption|].
      rewrite subs_cons. right. assumption.
  - cbn [subs tl]. apply in_flat_map in Hk. destruct Hk as (o & Ho & Hk). rewrite Forall_forall in IH.
    destruct Hk as [<-|Hk].
    + left. apply in_map. apply in_flat_map. exists o. split; [assumption|apply subs_self].
    + destruct (IH o Ho k Hk) as [H|H]; [left|right; assumption].
      apply in_map_iff in H. destruct H as (y & <- & Hy). apply in_map. apply in_flat_map. exists o. split; [assumption|].
      rewrite subs_cons. right. assumption.
  - cbn [subs tl]. destruct Hk as [<-|Hk]; [left; apply in_map, subs_self|].
    destruct (IH k Hk) as [H|H]; [left|right; assumption].
    apply in_map_iff in H. destruct H as (y & <- & Hy). apply in_map. rewrite subs_cons. right. assumption.
  - cbn [subs tl]. destruct Hk as [<-|Hk]; [left; apply in_map, subs_self|].
    destruct (IH k Hk) as [H|H]; [left|right; assumption].
    apply in_map_iff in H. destruct H as (y & <- & Hy). apply in_map. rewrite subs_cons. right. assumption.
  - cbn [subs tl]. destruct Hk as [<-|Hk]; [left; apply in_map, subs_self|].
    destruct (IH k Hk) as [H|H]; [left|right; assumption].
    apply in_map_iff in H. destruct H as (y & <- & Hy). apply in_map. rewrite subs_cons. right. assumption.
  - cbn [subs tl]. destruct Hk as [<-|Hk]; [left; apply in_map, subs_self|].
    destruct (IH k Hk) as [H|H]; [left|right; assumption].
    apply in_map_iff in H. destruct H as (y & <- & Hy). apply in_map. rewrite subs_cons. right. assumption.
Qed.

Lemma NoDup_app_inv {A} (l1 l2 : list A) :
  NoDup (l1 ++ l2) -> NoDup l1 /\ NoDup l2 /\ (forall x, In x l1 -> ~ In x l2).
Proof.
  induction l1 as [|a r IH]; cbn [app]; intros H.
  - split; [constructor|]. split; [assumption|intros x []].
  - inversion H as [|? ? Ha Hr]; subst. destruct (IH Hr) as (H1 & H2 & H3).
    split; [constructor; [intro Hi; apply Ha; apply in_or_app; left; assumption|assumption]|].
    split; [assumption|]. intros x [<-|Hx]; [intro Hi; apply Ha; apply in_or_app; right; assumption|auto].
Qed.

Lemma ids_cons op r : ids (op :: r) = map rid_of (subs op) ++ ids r.
Proof. unfold ids. cbn [flat_map]. apply map_app. Qed.

(* ---------- the inclusion at a node: own set read from [par], targets from [chi] ---------- *)
Definition cl2 (par chi : smap) (x : regex) : bool :=
  let s := get par (rid_of x) in
  match x with
  | RRule _ r => match body_of g r with Some b => subset_tok s (get chi (rid_of b)) | None => true end
  | RCat _ ops => cat_closed fi chi s ops
  | RAlt _ ops | RChoice _ ops => forallb (fun o => subset_tok s (get chi (rid_of o))) ops
  | RStar _ o => subset_tok s (get chi (rid_of o)) && subset_tok (get fi (rid_of o)) (get chi (rid_of o))
  | RPlus i o => subset_tok s (get chi (rid_of o)) && subset_tok (get fi i) (get chi (rid_of o))
  | ROpt _ o => subset_tok s (get chi (rid_of o))
  | RParen _ (Some o) => subset_tok s (get chi (rid_of o))
  | _ => true
  end.

Lemma fol_closed_at_is fo x : fol_closed_at g fi fo x = cl2 fo fo x.
Proof. destruct x as [| | | | | | | |? [?|]|]; reflexivity. Qed.

Lemma seq_follow_mono base base' post : subt base' base -> subt (seq_follow fi base' post) (seq_follow fi base post).
Proof.
  intros Hb. induction post as [|op r IH]; cbn [seq_follow]; [assumption|].
  destruct (mem Eps (get fi (rid_of op))); [|apply subt_refl].
  intros a Ha. apply mem_union in Ha. apply mem_union. destruct Ha as [Ha|Ha]; [left; apply IH; assumption|right; assumption].
Qed.

Lemma cat_closed_mono chi chi' base base' : let_ chi chi' -> subt base' base ->
  forall ops, cat_closed fi chi base ops = true -> cat_closed fi chi' base' ops = true.
Proof.
  intros Hc Hb. induction ops as [|x post IH]; cbn [cat_closed]; [auto|]. intros H.
  apply andb_prop in H. destruct H as (H1 & H2). apply andb_true_intro. split; [|auto].
  apply subset_tok_subt. apply subset_tok_subt in H1. intros a Ha. apply Hc, H1. eapply seq_follow_mono; eassumption.
Qed.

Lemma cl2_mono par par' chi chi' x :
  subt (get par' (rid_of x)) (get par (rid_of x)) -> let_ chi chi' ->
  cl2 par chi x = true -> cl2 par' chi' x = true.
Proof.
  intros Hp Hc.
  assert (Hs : forall k, subset_tok (get par (rid_of x)) (get chi k) = true -> subset_tok (get par' (rid_of x)) (get chi' k) = true).
  { intros k H. apply subset_tok_subt. apply subset_tok_subt in H. intros a Ha. apply Hc, H, Hp, Ha. }
  assert (Hf : forall X k, subset_tok X (get chi k) = true -> subset_tok X (get chi' k) = true).
  { intros X k H. apply subset_tok_subt. apply subset_tok_subt in H. intros a Ha. apply Hc, H, Ha. }
  destruct x as [i t|i r|i ops|i ops|i ops|i o|i o|i o|i [o|]|i k]; cbn [cl2 rid_of] in *; intros H; auto.
  - destruct (body_of g r); auto.
  - eapply cat_closed_mono; eassumption.
  - rewrite forallb_forall in *. auto.
  - rewrite forallb_forall in *. auto.
  - apply andb_prop in H. destruct H as (H1 & H2). rewrite (Hs _ H1), (Hf _ _ H2). reflexivity.
  - apply andb_prop in H. destruct H as (H1 & H2). rewrite (Hs _ H1), (Hf _ _ H2). reflexivity.
Qed.

Lemma cl2_same_par par par' chi x : get par' (rid_of x) = get par (rid_of x) -> cl2 par chi x = cl2 par' chi x.
Proof. intros H. destruct x as [| | | | | | | |? [?|]|]; cbn [cl2 rid_of] in *; rewrite ?H; reflexivity. Qed.

(* ---------- what a visit establishes ---------- *)
Definition WF (x : regex) : Prop :=
  NoDup (map rid_of (subs x)) /\ (forall k, In k (map rid_of (tl (subs x))) -> ~ In k bodies).

Definition Post (rb : nat) (x : regex) : Prop :=
  WF x -> forall fo lf,
    cl2 fo (fst (follow_regex rb x (fo, lf))) x = true
    /\ forall y, In y (tl (subs x)) -> cl2 (fst (follow_regex rb x (fo, lf))) (fst (follow_regex rb x (fo, lf))) y = true.

Lemma not_touch o k : ~ In k (map rid_of (subs o)) -> ~ In k bodies -> ~ In k (touch o).
Proof.
  intros H1 H2 H. apply touch_sub in H. destruct H as [H|H]; [|contradiction].
  apply H1. rewrite subs_cons. cbn [map]. right. assumption.
Qed.

Lemma not_touch_list l k : ~ In k (ids l) -> ~ In k bodies -> ~ In k (flat_map (fun o => rid_of o :: touch o) l).
Proof.
  intros H1 H2 H. apply in_flat_map in H. destruct H as (o & Ho & [<-|H]).
  - apply H1. unfold ids. apply in_map. apply in_flat_map. exists o. split; [assumption|apply subs_self].
  - apply touch_sub in H. destruct H as [H|H]; [|contradiction].
    apply H1. unfold ids. apply in_map_iff in H. destruct H as (y & <- & Hy). apply in_map. apply in_flat_map.
    exists o. split; [assumption|]. rewrite subs_cons. right. assumption.
Qed.

Lemma own_unchanged rb o fo lf :
  NoDup (map rid_of (subs o)) -> ~ In (rid_of o) bodies ->
  get (fst (follow_regex rb o (fo, lf))) (rid_of o) = get fo (rid_of o).
Proof.
  intros Hnd Hb. apply follow_regex_frame. intro H. apply touch_sub in H. destruct H as [H|H]; [|contradiction].
  rewrite subs_cons in Hnd. cbn [map] in Hnd. inversion Hnd. contradiction.
Qed.

Lemma WF_child_of_list x ops o :
  tl (subs x) = flat_map subs ops -> WF x -> In o ops -> WF o /\ ~ In (rid_of o) bodies.
Proof.
  intros Ht (Hnd & Hb) Ho. rewrite subs_cons in Hnd. cbn [map] in Hnd. inversion Hnd as [|? ? _ Hnd']; subst.
  rewrite Ht in Hnd', Hb.
  apply in_split in Ho. destruct Ho as (l1 & l2 & ->).
  rewrite flat_map_app in Hnd'. cbn [flat_map] in Hnd'. rewrite !map_app in Hnd'.
  apply NoDup_app_inv in Hnd'. destruct Hnd' as (_ & Hnd' & _).
  apply NoDup_app_inv in Hnd'. destruct Hnd' as (Hnd' & _ & _).
  assert (Hin : forall y, In y (subs o) -> In (rid_of y) (map rid_of (flat_map subs (l1 ++ o :: l2)))).
  { intros y Hy. apply in_map. apply in_flat_map. exists o. split; [apply in_or_app; right; left; reflexivity|assumption]. }
  split; [split; [assumption|]|].
  - intros k Hk. apply Hb. apply in_map_iff in Hk. destruct Hk as (y & <- & Hy). apply Hin. rewrite subs_cons. right. assumption.
  - apply Hb. apply Hin. apply subs_self.
Qed.

Lemma WF_child_single x o : tl (subs x) = subs o -> WF x -> WF o /\ ~ In (rid_of o) bodies.
Proof.
  intros Ht (Hnd & Hb). rewrite subs_cons in Hnd. cbn [map] in Hnd. inversion Hnd as [|? ? _ Hnd']; subst.
  rewrite Ht in Hnd', Hb. split; [split; [assumption|]|].
  - intros k Hk. apply Hb. apply in_map_iff in Hk. destruct Hk as (y & <- & Hy). apply in_map. rewrite subs_cons. right. assumption.
  - apply Hb. apply in_map. apply subs_self.
Qed.

(* single child: the child's set is written, then the child is visited *)
Lemma post_single rb x o f fo lf :
  tl (subs x) = subs o -> WF x -> Post rb o ->
  (forall s, subt s (f s)) ->
  let fo1 := upd (upd fo (rid_of x) (fun s => s)) (rid_of o) f in
  let fo' := fst (follow_regex rb o (fo1, lf)) in
  subt (f (get fo (rid_of o))) (get fo' (rid_of o))
  /\ forall y, In y (subs o) -> cl2 fo' fo' y = true.
Proof.
  intros Ht Hwf Hpo Hf fo1 fo'.
  destruct (WF_child_single x o Ht Hwf) as (Hwo & Hnb).
  destruct (Hpo Hwo fo1 lf) as (P1 & P2). fold fo' in P1, P2.
  assert (Hown : get fo' (rid_of o) = get fo1 (rid_of o)) by (apply own_unchanged; [apply Hwo|assumption]).
  assert (Hne : rid_of o <> rid_of x).
  { destruct Hwf as (Hnd & _). rewrite subs_cons in Hnd. cbn [map] in Hnd. inversion Hnd as [|? ? Hni _]; subst.
    intro He. apply Hni. rewrite Ht, <- He. apply in_map, subs_self. }
  split.
  - rewrite Hown. unfold fo1. rewrite get_upd_same, get_upd_other by assumption. apply subt_refl.
  - intros y Hy. rewrite subs_cons in Hy. destruct Hy as [<-|Hy]; [|apply P2; assumption].
    rewrite (cl2_same_par fo' fo1 fo' o (eq_sym Hown)). exact P1.
Qed.

Lemma ids_split op r :
  NoDup (ids (op :: r)) -> (forall k, In k (ids (op :: r)) -> ~ In k bodies) ->
  WF op /\ ~ In (rid_of op) bodies /\ NoDup (ids r) /\ (forall k, In k (ids r) -> ~ In k bodies)
  /\ (forall y, In y (subs op) -> ~ In (rid_of y) (ids r) /\ ~ In (rid_of y) bodies)
  /\ (forall k, In k (ids r) -> ~ In k (map rid_of (subs op))).
Proof.
  intros Hnd Hb. rewrite ids_cons in Hnd, Hb. apply NoDup_app_inv in Hnd. destruct Hnd as (N1 & N2 & N3).
  assert (Hin : forall y, In y (subs op) -> In (rid_of y) (map rid_of (subs op) ++ ids r)).
  { intros y Hy. apply in_or_app. left. apply in_map. assumption. }
  split; [split; [assumption|]|].
  - intros k Hk. apply Hb. apply in_or_app. left. rewrite subs_cons. cbn [map]. right. assumption.
  - split; [apply Hb, Hin, subs_self|]. split; [assumption|].
    split; [intros k Hk; apply Hb; apply in_or_app; right; assumption|]. split.
    + intros y Hy. split; [apply N3; apply in_map; assumption|apply Hb, Hin, Hy].
    + intros k Hk Hk'. apply (N3 k Hk' Hk).
Qed.

Lemma alt_fgo_post rb follow : forall l, Forall (Post rb) l ->
  NoDup (ids l) -> (forall k, In k (ids l) -> ~ In k bodies) ->
  forall fo lf,
    (forall o, In o l -> subt follow (get (fst (alt_fgo rb follow l (fo, lf))) (rid_of o)))
    /\ (forall o, In o l -> forall y, In y (subs o) ->
          cl2 (fst (alt_fgo rb follow l (fo, lf))) (fst (alt_fgo rb follow l (fo, lf))) y = true)
    /\ let_ fo (fst (alt_fgo rb follow l (fo, lf))).
Proof.
  induction l as [|op r IH]; intros Hl Hnd Hb fo lf; cbn [FollowSound.alt_fgo].
  - split; [intros o []|]. split; [intros o []|apply let_refl].
  - inversion Hl as [|? ? Hop Hr]; subst.
    destruct (ids_split op r Hnd Hb) as (Hwo & Hnb & Hndr & Hbr & Hdis & _).
    set (fo1 := upd fo (rid_of op) (fun s => union s follow)).
    destruct (follow_regex rb op (fo1, lf)) as [fo2 lf2] eqn:E2.
    assert (E2' : fo2 = fst (follow_regex rb op (fo1, lf))) by (rewrite E2; reflexivity).
    destruct (Hop Hwo fo1 lf) as (P1 & P2). rewrite <- E2' in P1, P2.
    destruct (IH Hr Hndr Hbr fo2 lf2) as (I1 & I2 & I3).
    set (fo' := fst (alt_fgo rb follow r (fo2, lf2))) in *.
    assert (Hfr : forall k, ~ In k (ids r) -> ~ In k bodies -> get fo' k = get fo2 k).
    { intros k H1 H2. unfold fo'.
      rewrite (alt_fgo_frame rb follow r); [reflexivity| |apply not_touch_list; assumption].
      apply Forall_forall. intros o _. apply follow_regex_frame. }
    assert (L12 : let_ fo1 fo2) by (rewrite E2'; apply follow_regex_let).
    assert (L01 : let_ fo fo1) by (apply let_upd; intros s; apply subt_union_l).
    assert (Hown : get fo2 (rid_of op) = get fo1 (rid_of op)) by (rewrite E2'; apply own_unchanged; [apply Hwo|assumption]).
    split; [|split].
    + intros o [<-|Ho]; [|apply I1; assumption].
      intros a Ha. apply I3, L12. unfold fo1. rewrite get_upd_same. apply mem_union. right. assumption.
    + intros o [<-|Ho] y Hy; [|eapply I2; eassumption].
      destruct (Hdis y Hy) as (D1 & D2).
      rewrite subs_cons in Hy. destruct Hy as [<-|Hy].
      * eapply cl2_mono; [|exact I3|exact P1]. rewrite (Hfr _ D1 D2), Hown. apply subt_refl.
      * eapply cl2_mono; [|exact I3|apply P2; assumption]. rewrite (Hfr _ D1 D2). apply subt_refl.
    + eapply let_trans; [exact L01|]. eapply let_trans; [exact L12|exact I3].
Qed.

Lemma cat_fgo_post rb base : forall l, Forall (Post rb) l ->
  NoDup (ids l) -> (forall k, In k (ids l) -> ~ In k bodies) ->
  forall fo lf st1 f1, cat_fgo rb l (fo, lf) base = (st1, f1) ->
    subt (seq_follow fi base l) f1
    /\ cat_closed fi (fst st1) base l = true
    /\ (forall o, In o l -> forall y, In y (subs o) -> cl2 (fst st1) (fst st1) y = true)
    /\ let_ fo (fst st1).
Proof.
  induction l as [|op r IH]; intros Hl Hnd Hb fo lf st1 f1 H; cbn [FollowSound.cat_fgo] in H.
  - injection H as <- <-. cbn [seq_follow cat_closed fst]. split; [apply subt_refl|]. split; [reflexivity|].
    split; [intros o []|apply let_refl].
  - inversion Hl as [|? ? Hop Hr]; subst.
    destruct (ids_split op r Hnd Hb) as (Hwo & Hnb & Hndr & Hbr & Hdis & Hdis').
    destruct (cat_fgo rb r (fo, lf) base) as [[fo2 lf2] follow2] eqn:Er.
    destruct (IH Hr Hndr Hbr fo lf _ _ Er) as (I1 & I2 & I3 & I4). cbn [fst] in I2, I3, I4.
    set (fo3 := upd fo2 (rid_of op) (fun s => union s follow2)) in *.
    injection H as <- <-.
    set (fo' := fst (follow_regex rb op (fo3, lf2))).
    destruct (Hop Hwo fo3 lf2) as (P1 & P2). fold fo' in P1, P2.
    assert (L23 : let_ fo2 fo3) by (apply let_upd; intros s; apply subt_union_l).
    assert (L3' : let_ fo3 fo') by apply follow_regex_let.
    assert (Hown : get fo' (rid_of op) = get fo3 (rid_of op)) by (apply own_unchanged; [apply Hwo|assumption]).
    assert (Hfr : forall k, In k (ids r) -> get fo' k = get fo2 k).
    { intros k Hk. unfold fo'. rewrite follow_regex_frame.
      - unfold fo3. apply get_upd_other. intros ->. apply (Hdis' _ Hk). apply in_map, subs_self.
      - apply not_touch; [apply Hdis'; assumption|apply Hbr; assumption]. }
    split; [|split; [|split]].
    + cbn [seq_follow]. destruct (mem Eps (get fi (rid_of op))); [|apply subt_refl].
      intros a Ha. apply mem_remove. split; [discriminate|]. apply mem_union in Ha. apply mem_union.
      destruct Ha as [Ha|Ha]; [left; apply I1; assumption|right; assumption].
    + cbn [cat_closed]. apply andb_true_intro. split.
      * apply subset_tok_subt. intros a Ha. rewrite Hown. unfold fo3. rewrite get_upd_same. apply mem_union. right. apply I1. assumption.
      * eapply cat_closed_mono; [exact (let_trans _ _ _ L23 L3')|apply subt_refl|exact I2].
    + intros o [<-|Ho] y Hy.
      * rewrite subs_cons in Hy. destruct Hy as [<-|Hy]; [|apply P2; assumption].
        rewrite (cl2_same_par fo' fo3 fo' op (eq_sym Hown)). exact P1.
      * assert (Hk : In (rid_of y) (ids r)).
        { unfold ids. apply in_map. apply in_flat_map. exists o. split; assumption. }
        eapply cl2_mono; [|exact (let_trans _ _ _ L23 L3')|eapply I3; eassumption].
        rewrite (Hfr _ Hk). apply subt_refl.
    + eapply let_trans; [exact I4|]. exact (let_trans _ _ _ L23 L3').
Qed.

Lemma WF_list x ops :
  tl (subs x) = flat_map subs ops -> WF x ->
  NoDup (ids ops) /\ (forall k, In k (ids ops) -> ~ In k bodies) /\ ~ In (rid_of x) (ids ops).
Proof.
  intros Ht (Hnd & Hb). rewrite subs_cons in Hnd. cbn [map] in Hnd. inversion Hnd as [|? ? Hni Hnd']; subst.
  unfold ids. rewrite <- Ht. auto.
Qed.

Theorem follow_regex_post : forall x rb, Post rb x.
Proof.
  induction x as [i t|i r|i ops IH|i ops IH|i ops IH|i o IH|i o IH|i o IH|i|i o IH|i k] using regex_ind';
    intros rb Hwf fo lf.
  - split; [reflexivity|intros y []].
  - (* rule *)
    cbn [Sema.follow_regex rid_of subs tl cl2]. split; [|intros y []].
    destruct (body_of g r) as [b|]; [|reflexivity]. cbn [fst].
    apply subset_tok_subt. intros a Ha. rewrite get_upd_same. apply mem_union. right. rewrite get_upd_id. assumption.
  - (* cat *)
    rewrite follow_regex_cat.
    destruct (cat_fgo rb ops (upd fo i (fun s => s), lf) (get fo i)) as [st1 f1] eqn:E. cbn [fst].
    destruct (WF_list (RCat i ops) ops eq_refl Hwf) as (Hnd & Hb & Hni).
    destruct (cat_fgo_post rb (get fo i) ops (Forall_inst _ ops IH rb) Hnd Hb _ _ _ _ E) as (C1 & C2 & C3 & C4).
    split; [exact C2|].
    intros y Hy. cbn [subs tl] in Hy. apply in_flat_map in Hy. destruct Hy as (o & Ho & Hy). eapply C3; eassumption.
  - (* alt *)
    rewrite follow_regex_alt.
    destruct (WF_list (RAlt i ops) ops eq_refl Hwf) as (Hnd & Hb & Hni).
    destruct (alt_fgo_post rb (get fo i) ops (Forall_inst _ ops IH rb) Hnd Hb (upd fo i (fun s => s)) lf) as (A1 & A2 & A3).
    split.
    + cbn [cl2 rid_of]. apply forallb_forall. intros o Ho. apply subset_tok_subt. apply A1. assumption.
    + intros y Hy. cbn [subs tl] in Hy. apply in_flat_map in Hy. destruct Hy as (o & Ho & Hy). eapply A2; eassumption.
  - (* choice *)
    rewrite follow_regex_choice.
    destruct (WF_list (RChoice i ops) ops eq_refl Hwf) as (Hnd & Hb & Hni).
    destruct (alt_fgo_post rb (get fo i) ops (Forall_inst _ ops IH rb) Hnd Hb (upd fo i (fun s => s)) lf) as (A1 & A2 & A3).
    split.
    + cbn [cl2 rid_of]. apply forallb_forall. intros o Ho. apply subset_tok_subt. apply A1. assumption.
    + intros y Hy. cbn [subs tl] in Hy. apply in_flat_map in Hy. destruct Hy as (o & Ho & Hy). eapply A2; eassumption.
  - (* star *)
    cbn [Sema.follow_regex rid_of].
    destruct (post_single rb (RStar i o) o (fun s => union (remove Eps (union s (get fi (rid_of o)))) (get fo i)) fo lf
                          eq_refl Hwf (IH rb) (fun s => subt_star s _ _)) as (S1 & S2).
    cbn [rid_of] in S1, S2. split; [|exact S2].
    cbn [cl2 rid_of]. apply andb_true_intro. split; apply subset_tok_subt; intros a Ha; apply S1.
    + apply mem_union. right. assumption.
    + apply mem_union. left. apply mem_remove. split; [discriminate|]. apply mem_union. right. assumption.
  - (* plus *)
    cbn [Sema.follow_regex rid_of].
    destruct (post_single rb (RPlus i o) o (fun s => union (union s (get fi i)) (get fo i)) fo lf eq_refl Hwf (IH rb)) as (S1 & S2).
    { intros s a Ha. apply mem_union. left. apply mem_union. left. assumption. }
    cbn [rid_of] in S1, S2. split; [|exact S2].
    cbn [cl2 rid_of]. apply andb_true_intro. split; apply subset_tok_subt; intros a Ha; apply S1.
    + apply mem_union. right. assumption.
    + apply mem_union. left. apply mem_union. right. assumption.
  - (* opt *)
    cbn [Sema.follow_regex rid_of].
    destruct (post_single rb (ROpt i o) o (fun s => union s (get fo i)) fo lf eq_refl Hwf (IH rb) (fun s => subt_union_l s _)) as (S1 & S2).
    cbn [rid_of] in S1, S2. split; [|exact S2].
    cbn [cl2 rid_of]. apply subset_tok_subt. intros a Ha. apply S1. apply mem_union. right. assumption.
  - split; [reflexivity|intros y []].
  - (* paren *)
    cbn [Sema.follow_regex rid_of].
    destruct (post_single rb (RParen i (Some o)) o (fun s => union s (get fo i)) fo lf eq_refl Hwf (IH rb) (fun s => subt_union_l s _)) as (S1 & S2).
    cbn [rid_of] in S1, S2. split; [|exact S2].
    cbn [cl2 rid_of]. apply subset_tok_subt. intros a Ha. apply S1. apply mem_union. right. assumption.
  - split; [reflexivity|intros y []].
Qed.

(* ---------- rule bodies only ever gain symbols; all sets stay duplicate free ---------- *)
Definition BG (rb : nat) (x : regex) : Prop :=
  WF x -> forall fo lf k, In k bodies -> sub (get fo k) (get (fst (follow_regex rb x (fo, lf))) k).

Lemma sub_union_l s X : sub s (union s X).
Proof. intros y Hy. apply mem_union. left. assumption. Qed.

Lemma alt_fgo_bg rb follow : forall l, Forall (BG rb) l ->
  NoDup (ids l) -> (forall k, In k (ids l) -> ~ In k bodies) ->
  forall fo lf k, In k bodies -> sub (get fo k) (get (fst (alt_fgo rb follow l (fo, lf))) k).
Proof.
  induction l as [|op r IH]; intros Hl Hnd Hb fo lf k Hk; cbn [FollowSound.alt_fgo]; [apply sub_refl|].
  inversion Hl as [|? ? Hop Hr]; subst.
  destruct (ids_split op r Hnd Hb) as (Hwo & Hnb & Hndr & Hbr & _ & _).
  destruct (follow_regex rb op (upd fo (rid_of op) (fun s => union s follow), lf)) as [fo2 lf2] eqn:E2.
  eapply sub_trans; [|apply (IH Hr Hndr Hbr fo2 lf2 k Hk)].
  replace fo2 with (fst (follow_regex rb op (upd fo (rid_of op) (fun s => union s follow), lf))) by (rewrite E2; reflexivity).
  eapply sub_trans; [|apply (Hop Hwo _ lf k Hk)].
  rewrite get_upd_other by (intros ->; contradiction). apply sub_refl.
Qed.

Lemma cat_fgo_bg rb base : forall l, Forall (BG rb) l ->
  NoDup (ids l) -> (forall k, In k (ids l) -> ~ In k bodies) ->
  forall fo lf st1 f1 k, cat_fgo rb l (fo, lf) base = (st1, f1) -> In k bodies -> sub (get fo k) (get (fst st1) k).
Proof.
  induction l as [|op r IH]; intros Hl Hnd Hb fo lf st1 f1 k H Hk; cbn [FollowSound.cat_fgo] in H.
  - injection H as <- _. apply sub_refl.
  - inversion Hl as [|? ? Hop Hr]; subst.
    destruct (ids_split op r Hnd Hb) as (Hwo & Hnb & Hndr & Hbr & _ & _).
    destruct (cat_fgo rb r (fo, lf) base) as [[fo2 lf2] follow2] eqn:Er.
    injection H as <- _.
    eapply sub_trans; [apply (IH Hr Hndr Hbr fo lf _ _ k Er Hk)|]. cbn [fst].
    eapply sub_trans; [|apply (Hop Hwo _ lf2 k Hk)].
    rewrite get_upd_other by (intros ->; contradiction). apply sub_refl.
Qed.

Lemma bg_single rb x o f fo lf k :
  tl (subs x) = subs o -> WF x -> BG rb o -> In k bodies ->
  sub (get fo k) (get (fst (follow_regex rb o (upd (upd fo (rid_of x) (fun s => s)) (rid_of o) f, lf))) k).
Proof.
  intros Ht Hwf Hbg Hk. destruct (WF_child_single x o Ht Hwf) as (Hwo & Hnb).
  eapply sub_trans; [|apply (Hbg Hwo _ lf k Hk)].
  rewrite get_upd_other by (intros ->; contradiction). rewrite get_upd_id. apply sub_refl.
Qed.

Theorem follow_regex_bg : forall x rb, BG rb x.
Proof.
  induction x as [i t|i r|i ops IH|i ops IH|i ops IH|i o IH|i o IH|i o IH|i|i o IH|i k0] using regex_ind';
    intros rb Hwf fo lf k Hk.
  - apply sub_refl.
  - cbn [Sema.follow_regex rid_of]. destruct (body_of g r) as [b|]; [|apply sub_refl]. cbn [fst].
    destruct (Nat.eq_dec k (rid_of b)) as [->|Hne].
    + rewrite get_upd_same, !get_upd_id. apply sub_union_l.
    + rewrite get_upd_other by assumption. rewrite !get_upd_id. apply sub_refl.
  - rewrite follow_regex_cat.
    destruct (cat_fgo rb ops (upd fo i (fun s => s), lf) (get fo i)) as [st1 f1] eqn:E. cbn [fst].
    destruct (WF_list (RCat i ops) ops eq_refl Hwf) as (Hnd & Hb & _).
    pose proof (cat_fgo_bg rb (get fo i) ops (Forall_inst _ ops IH rb) Hnd Hb _ _ _ _ k E Hk) as H.
    rewrite get_upd_id in H. exact H.
  - rewrite follow_regex_alt.
    destruct (WF_list (RAlt i ops) ops eq_refl Hwf) as (Hnd & Hb & _).
    pose proof (alt_fgo_bg rb (get fo i) ops (Forall_inst _ ops IH rb) Hnd Hb (upd fo i (fun s => s)) lf k Hk) as H.
    rewrite get_upd_id in H. exact H.
  - rewrite follow_regex_choice.
    destruct (WF_list (RChoice i ops) ops eq_refl Hwf) as (Hnd & Hb & _).
    pose proof (alt_fgo_bg rb (get fo i) ops (Forall_inst _ ops IH rb) Hnd Hb (upd fo i (fun s => s)) lf k Hk) as H.
    rewrite get_upd_id in H. exact H.
  - cbn [Sema.follow_regex rid_of]. apply (bg_single rb (RStar i o) o _ fo lf k eq_refl Hwf (IH rb) Hk).
  - cbn [Sema.follow_regex rid_of]. apply (bg_single rb (RPlus i o) o _ fo lf k eq_refl Hwf (IH rb) Hk).
  - cbn [Sema.follow_regex rid_of]. apply (bg_single rb (ROpt i o) o _ fo lf k eq_refl Hwf (IH rb) Hk).
  - apply sub_refl.
  - cbn [Sema.follow_regex rid_of]. apply (bg_single rb (RParen i (Some o)) o _ fo lf k eq_refl Hwf (IH rb) Hk).
  - apply sub_refl.
Qed.

(* duplicate-free sets *)
Lemma NoDup_remove x s : NoDup s -> NoDup (remove x s).
Proof. intros H. unfold remove. apply NoDup_filter. assumption. Qed.

Definition ndf (f : set -> set) : Prop := forall s, NoDup s -> NoDup (f s).

Lemma cat_fgo_nd rb : forall l,
  Forall (fun o => forall fo lf, AllND fo -> AllND (fst (follow_regex rb o (fo, lf)))) l ->
  forall st follow st1 f1, cat_fgo rb l st follow = (st1, f1) -> AllND (fst st) -> AllND (fst st1).
Proof.
  induction l as [|op r IH]; intros Hl st follow st1 f1 H Hn; cbn [FollowSound.cat_fgo] in H.
  - injection H as <- _. assumption.
  - inversion Hl as [|? ? Hop Hr]; subst.
    destruct (cat_fgo rb r st follow) as [[fo2 lf2] follow2] eqn:Er.
    injection H as <- _. apply Hop. apply AllND_upd; [eapply (IH Hr _ _ _ _ Er); assumption|].
    intros s Hs. apply NoDup_union. assumption.
Qed.

Lemma alt_fgo_nd rb follow : forall l,
  Forall (fun o => forall fo lf, AllND fo -> AllND (fst (follow_regex rb o (fo, lf)))) l ->
  forall st, AllND (fst st) -> AllND (fst (alt_fgo rb follow l st)).
Proof.
  induction l as [|op r IH]; intros Hl [fo lf] Hn; cbn [FollowSound.alt_fgo]; [assumption|].
  inversion Hl as [|? ? Hop Hr]; subst. apply IH; [assumption|]. apply Hop.
  cbn [fst] in Hn. apply AllND_upd; [assumption|]. intros s Hs. apply NoDup_union. assumption.
Qed.

Theorem follow_regex_nd : forall x rb fo lf, AllND fo -> AllND (fst (follow_regex rb x (fo, lf))).
Proof.
  induction x as [i t|i r|i ops IH|i ops IH|i ops IH|i o IH|i o IH|i o IH|i|i o IH|i k] using regex_ind';
    intros rb fo lf Hn.
  - assumption.
  - cbn [Sema.follow_regex rid_of]. destruct (body_of g r) as [b|]; [|assumption]. cbn [fst].
    apply AllND_upd; [apply AllND_upd; [apply AllND_upd; [assumption|auto]|auto]|].
    intros s Hs. apply NoDup_union. assumption.
  - rewrite follow_regex_cat.
    destruct (cat_fgo rb ops (upd fo i (fun s => s), lf) (get fo i)) as [st1 f1] eqn:E. cbn [fst].
    eapply (cat_fgo_nd rb ops (Forall_inst _ ops IH rb) _ _ _ _ E). cbn [fst]. apply AllND_upd; auto.
  - rewrite follow_regex_alt. apply (alt_fgo_nd rb (get fo i) ops (Forall_inst _ ops IH rb)). cbn [fst]. apply AllND_upd; auto.
  - rewrite follow_regex_choice. apply (alt_fgo_nd rb (get fo i) ops (Forall_inst _ ops IH rb)). cbn [fst]. apply AllND_upd; auto.
  - cbn [Sema.follow_regex rid_of]. apply IH. apply AllND_upd; [apply AllND_upd; auto|].
    intros s Hs. apply NoDup_union, NoDup_remove, NoDup_union. assumption.
  - cbn [Sema.follow_regex rid_of]. apply IH. apply AllND_upd; [apply AllND_upd; auto|].
    intros s Hs. apply NoDup_union, NoDup_union. assumption.
  - cbn [Sema.follow_regex rid_of]. apply IH. apply AllND_upd; [apply AllND_upd; auto|].
    intros s Hs. apply NoDup_union. assumption.
  - assumption.
  - cbn [Sema.follow_regex rid_of]. apply IH. apply AllND_upd; [apply AllND_upd; auto|].
    intros s Hs. apply NoDup_union. assumption.
  - assumption.
Qed.

(* ---------- a whole sweep over the rules ---------- *)
Definition nodes_l (l : list rule) : list regex :=
  flat_map (fun ru => match r_body ru with Some b => subs b | None => [] end) l.

Definition sweep (l : list rule) (st : fstate) : fstate :=
  fold_left (fun st ru =>
               match r_body ru with
               | Some b => let '(fo, lf) := st in follow_regex (rid_of b) b (upd fo (rid_of b) (fun s => s), lf)
               | None => st
               end) l st.

Lemma follow_pass_is st : follow_pass g fi st = sweep (g_rules g) st.
Proof. reflexivity. Qed.

Definition PD (l : list rule) : Prop :=
  forall ru b, In ru l -> r_body ru = Some b -> forall k, In k (map rid_of (tl (subs b))) -> ~ In k bodies.

Lemma sweep_frame : forall l fo lf k,
  ~ In k (map rid_of (nodes_l l)) -> ~ In k bodies -> get (fst (sweep l (fo, lf))) k = get fo k.
Proof.
  induction l as [|ru l IH]; intros fo lf k H1 H2; cbn [sweep fold_left]; [reflexivity|].
  destruct (r_body ru) as [b|] eqn:Eb.
  - destruct (follow_regex (rid_of b) b (upd fo (rid_of b) (fun s => s), lf)) as [fo2 lf2] eqn:E.
    cbn [nodes_l flat_map] in H1. rewrite Eb, map_app in H1.
    fold (sweep l (fo2, lf2)). rewrite IH; [|intro Hi; apply H1; apply in_or_app; right; exact Hi|assumption].
    replace fo2 with (fst (follow_regex (rid_of b) b (upd fo (rid_of b) (fun s => s), lf))) by (rewrite E; reflexivity).
    rewrite follow_regex_frame; [apply get_upd_id|].
    apply not_touch; [intro Hi; apply H1; apply in_or_app; left; exact Hi|assumption].
  - fold (sweep l (fo, lf)). apply IH; [|assumption]. cbn [nodes_l flat_map] in H1. rewrite Eb in H1. exact H1.
Qed.

Lemma sweep_let : forall l fo lf, let_ fo (fst (sweep l (fo, lf))).
Proof.
  induction l as [|ru l IH]; intros fo lf; cbn [sweep fold_left]; [apply let_refl|].
  destruct (r_body ru) as [b|].
  - destruct (follow_regex (rid_of b) b (upd fo (rid_of b) (fun s => s), lf)) as [fo2 lf2] eqn:E.
    fold (sweep l (fo2, lf2)). eapply let_trans; [|apply IH].
    replace fo2 with (fst (follow_regex (rid_of b) b (upd fo (rid_of b) (fun s => s), lf))) by (rewrite E; reflexivity).
    eapply let_trans; [|apply follow_regex_let]. apply let_upd. intros s. apply subt_refl.
  - fold (sweep l (fo, lf)). apply IH.
Qed.

Lemma sweep_nd : forall l fo lf, AllND fo -> AllND (fst (sweep l (fo, lf))).
Proof.
  induction l as [|ru l IH]; intros fo lf Hn; cbn [sweep fold_left]; [assumption|].
  destruct (r_body ru) as [b|].
  - destruct (follow_regex (rid_of b) b (upd fo (rid_of b) (fun s => s), lf)) as [fo2 lf2] eqn:E.
    fold (sweep l (fo2, lf2)). apply IH.
    replace fo2 with (fst (follow_regex (rid_of b) b (upd fo (rid_of b) (fun s => s), lf))) by (rewrite E; reflexivity).
    apply follow_regex_nd. apply AllND_upd; auto.
  - fold (sweep l (fo, lf)). apply IH. assumption.
Qed.

Lemma sweep_bg : forall l fo lf k,
  NoDup (map rid_of (nodes_l l)) -> PD l -> In k bodies -> sub (get fo k) (get (fst (sweep l (fo, lf))) k).
Proof.
  induction l as [|ru l IH]; intros fo lf k Hnd Hpd Hk; cbn [sweep fold_left]; [apply sub_refl|].
  assert (Hpd' : PD l) by (intros ru' b' Hi; apply Hpd; right; assumption).
  destruct (r_body ru) as [b|] eqn:Eb.
  - cbn [nodes_l flat_map] in Hnd. rewrite Eb, map_app in Hnd. apply NoDup_app_inv in Hnd. destruct Hnd as (N1 & N2 & _).
    destruct (follow_regex (rid_of b) b (upd fo (rid_of b) (fun s => s), lf)) as [fo2 lf2] eqn:E.
    fold (sweep l (fo2, lf2)). eapply sub_trans; [|apply (IH fo2 lf2 k N2 Hpd' Hk)].
    replace fo2 with (fst (follow_regex (rid_of b) b (upd fo (rid_of b) (fun s => s), lf))) by (rewrite E; reflexivity).
    eapply sub_trans; [|apply (follow_regex_bg b (rid_of b)); [|exact Hk]].
    + rewrite get_upd_id. apply sub_refl.
    + split; [assumption|]. apply (Hpd ru b (or_introl eq_refl) Eb).
  - fold (sweep l (fo, lf)). apply IH; try assumption. cbn [nodes_l flat_map] in Hnd. rewrite Eb in Hnd. exact Hnd.
Qed.

(* what holds after a sweep: inner nodes are closed w.r.t. the result; a rule body is closed w.r.t.
   the set it had when it was visited *)
Lemma sweep_post : forall l fo lf,
  NoDup (map rid_of (nodes_l l)) -> PD l ->
  forall ru b, In ru l -> r_body ru = Some b ->
    (exists fa, let_ fo fa /\ cl2 fa (fst (sweep l (fo, lf))) b = true)
    /\ forall y, In y (tl (subs b)) -> cl2 (fst (sweep l (fo, lf))) (fst (sweep l (fo, lf))) y = true.
Proof.
  induction l as [|ru0 l IH]; intros fo lf Hnd Hpd ru b Hin Hb; [contradiction|].
  assert (Hpd' : PD l) by (intros ru' b' Hi; apply Hpd; right; assumption).
  cbn [sweep fold_left].
  destruct (r_body ru0) as [b0|] eqn:Eb0.
  - cbn [nodes_l flat_map] in Hnd. rewrite Eb0, map_app in Hnd. apply NoDup_app_inv in Hnd. destruct Hnd as (N1 & N2 & N3).
    destruct (follow_regex (rid_of b0) b0 (upd fo (rid_of b0) (fun s => s), lf)) as [fo2 lf2] eqn:E.
    assert (E' : fo2 = fst (follow_regex (rid_of b0) b0 (upd fo (rid_of b0) (fun s => s), lf))) by (rewrite E; reflexivity).
    fold (sweep l (fo2, lf2)).
    assert (L02 : let_ fo fo2).
    { rewrite E'. eapply let_trans; [|apply follow_regex_let]. apply let_upd. intros s. apply subt_refl. }
    destruct Hin as [<-|Hin].
    + rewrite Eb0 in Hb. injection Hb as <-.
      assert (Hwf : WF b0) by (split; [assumption|apply (Hpd ru0 b0 (or_introl eq_refl) Eb0)]).
      destruct (follow_regex_post b0 (rid_of b0) Hwf (upd fo (rid_of b0) (fun s => s)) lf) as (P1 & P2).
      rewrite <- E' in P1, P2. split.
      * exists (upd fo (rid_of b0) (fun s => s)). split; [apply let_upd; intros s; apply subt_refl|].
        eapply cl2_mono; [apply subt_refl|apply sweep_let|exact P1].
      * intros y Hy. eapply cl2_mono; [|apply sweep_let|apply P2; exact Hy].
        rewrite sweep_frame; [apply subt_refl| |].
        -- apply N3. apply in_map. rewrite subs_cons. right. assumption.
        -- apply (Hpd ru0 b0 (or_introl eq_refl) Eb0). apply in_map. assumption.
    + destruct (IH fo2 lf2 N2 Hpd' ru b Hin Hb) as ((fa & La & Ca) & I2). split; [|exact I2].
      exists fa. split; [eapply let_trans; eassumption|exact Ca].
  - fold (sweep l (fo, lf)). destruct Hin as [<-|Hin]; [congruence|].
    apply (IH fo lf) with (ru := ru); try assumption. cbn [nodes_l flat_map] in Hnd. rewrite Eb0 in Hnd. exact Hnd.
Qed.

(* ---------- from unique ids ---------- *)
Lemma bodies_in_nodes l k :
  In k (flat_map (fun ru => match r_body ru with Some b => [rid_of b] | None => [] end) l) -> In k (map rid_of (nodes_l l)).
Proof.
  intros H. apply in_flat_map in H. destruct H as (ru & Hru & H). destruct (r_body ru) as [b|] eqn:Eb; [|contradiction].
  destruct H as [<-|[]]. apply in_map. unfold nodes_l. apply in_flat_map. exists ru. split; [assumption|]. rewrite Eb. apply subs_self.
Qed.

Lemma pd_of_nodup : forall l, NoDup (map rid_of (nodes_l l)) ->
  forall ru b, In ru l -> r_body ru = Some b -> forall k, In k (map rid_of (tl (subs b))) ->
    ~ In k (flat_map (fun ru => match r_body ru with Some b => [rid_of b] | None => [] end) l).
Proof.
  induction l as [|ru0 l IH]; intros Hnd ru b Hin Hb k Hk; [contradiction|].
  cbn [nodes_l flat_map] in Hnd |- *.
  destruct (r_body ru0) as [b0|] eqn:Eb0.
  - rewrite map_app in Hnd. apply NoDup_app_inv in Hnd. destruct Hnd as (N1 & N2 & N3).
    cbn [app]. intros [He|Hi].
    + (* k is the id of b0 *)
      destruct Hin as [<-|Hin].
      * rewrite Eb0 in Hb. injection Hb as <-. rewrite subs_cons in N1. cbn [map] in N1. inversion N1. subst. contradiction.
      * apply (N3 k); [rewrite <- He; apply in_map, subs_self|].
        apply in_map_iff in Hk. destruct Hk as (y & <- & Hy). apply in_map. unfold nodes_l. apply in_flat_map.
        exists ru. split; [assumption|]. rewrite Hb, subs_cons. right. assumption.
    + destruct Hin as [<-|Hin].
      * rewrite Eb0 in Hb. injection Hb as <-. apply (N3 k); [rewrite subs_cons; cbn [map]; right; assumption|].
        apply bodies_in_nodes. assumption.
      * apply (IH N2 ru b Hin Hb k Hk). assumption.
  - cbn [app]. destruct Hin as [<-|Hin]; [congruence|]. apply (IH Hnd ru b Hin Hb k Hk).
Qed.

Hypothesis Hwf : wf_ids g.

Lemma nodes_nodup : NoDup (map rid_of (nodes_l (g_rules g))).
Proof. exact Hwf. Qed.

Lemma pd_rules : PD (g_rules g).
Proof. intros ru b Hin Hb k Hk. apply (pd_of_nodup (g_rules g) nodes_nodup ru b Hin Hb k Hk). Qed.

(* ---------- equal sums of pointwise ordered terms ---------- *)
Lemma list_sum_cons a l : list_sum (a :: l) = a + list_sum l.
Proof. reflexivity. Qed.

Lemma sum_le {A} (f h : A -> nat) l : (forall x, In x l -> f x <= h x) -> list_sum (map f l) <= list_sum (map h l).
Proof.
  induction l as [|b r IH]; intros Hle; cbn [map]; [lia|]. rewrite !list_sum_cons.
  assert (f b <= h b) by (apply Hle; left; reflexivity).
  assert (list_sum (map f r) <= list_sum (map h r)) by (apply IH; intros y Hy; apply Hle; right; assumption). lia.
Qed.

Lemma sum_pointwise {A} (f h : A -> nat) l :
  (forall x, In x l -> f x <= h x) -> list_sum (map f l) = list_sum (map h l) -> forall x, In x l -> f x = h x.
Proof.
  induction l as [|a r IH]; intros Hle Hs x Hx; [contradiction|].
  cbn [map] in Hs. rewrite !list_sum_cons in Hs.
  assert (Hr : list_sum (map f r) <= list_sum (map h r)) by (apply sum_le; intros y Hy; apply Hle; right; assumption).
  pose proof (Hle a (or_introl eq_refl)) as Ha.
  destruct Hx as [<-|Hx]; [lia|]. apply IH; [intros y Hy; apply Hle; right; assumption|lia|assumption].
Qed.

(* ---------- the sweep after which the loop stops ---------- *)
Lemma final_sweep st :
  AllND (fst st) ->
  body_follow_size g (fst (follow_pass g fi st)) = body_follow_size g (fst st) ->
  forall y, In y (nodes_of g) -> fol_closed_at g fi (fst (follow_pass g fi st)) y = true.
Proof.
  destruct st as [fo0 lf0]. cbn [fst]. intros Hn Hsz y Hy. rewrite follow_pass_is in *.
  set (fo1 := fst (sweep (g_rules g) (fo0, lf0))) in *.
  assert (Hn1 : AllND fo1) by (apply sweep_nd; assumption).
  assert (Hbody : forall ru b, In ru (g_rules g) -> r_body ru = Some b -> subt (get fo1 (rid_of b)) (get fo0 (rid_of b))).
  { intros ru b Hin Hb.
    assert (Hgrow : forall ru', In ru' (g_rules g) ->
              match r_body ru' with Some b' => length (get fo0 (rid_of b')) | None => 0 end
              <= match r_body ru' with Some b' => length (get fo1 (rid_of b')) | None => 0 end).
    { intros ru' Hin'. destruct (r_body ru') as [b'|] eqn:Eb'; [|lia].
      apply NoDup_incl_length; [apply get_nd; assumption|].
      intros x Hx. apply mem_In. apply (sweep_bg (g_rules g) fo0 lf0 (rid_of b') nodes_nodup pd_rules).
      - unfold bodies. apply in_flat_map. exists ru'. split; [assumption|]. rewrite Eb'. left. reflexivity.
      - apply mem_In. assumption. }
    unfold body_follow_size in Hsz.
    pose proof (sum_pointwise _ _ (g_rules g) Hgrow (eq_sym Hsz) ru Hin) as Heq. cbv beta in Heq. rewrite Hb in Heq.
    assert (Hback : incl (get fo1 (rid_of b)) (get fo0 (rid_of b))).
    { apply NoDup_length_incl; [apply get_nd; assumption|lia|].
      intros x Hx. apply mem_In. apply (sweep_bg (g_rules g) fo0 lf0 (rid_of b) nodes_nodup pd_rules).
      - unfold bodies. apply in_flat_map. exists ru. split; [assumption|]. rewrite Hb. left. reflexivity.
      - apply mem_In. assumption. }
    intros a Ha. apply mem_In. apply Hback. apply mem_In. assumption. }
  rewrite fol_closed_at_is.
  unfold nodes_of in Hy. apply in_flat_map in Hy. destruct Hy as (ru & Hru & Hy).
  destruct (r_body ru) as [b|] eqn:Eb; [|contradiction].
  destruct (sweep_post (g_rules g) fo0 lf0 nodes_nodup pd_rules ru b Hru Eb) as ((fa & La & Ca) & P2). fold fo1 in Ca, P2.
  rewrite subs_cons in Hy. destruct Hy as [<-|Hy]; [|apply P2; assumption].
  eapply cl2_mono; [|apply let_refl|exact Ca].
  eapply subt_trans; [apply (Hbody ru b Hru Eb)|apply La].
Qed.

(* ---------- the iteration ---------- *)
Lemma iterate_follow_closed fuel : forall st st', AllND (fst st) ->
  iterate_follow g fi fuel st = Some st' ->
  (forall y, In y (nodes_of g) -> fol_closed_at g fi (fst st') y = true) /\ let_ (fst st) (fst st').
Proof.
  induction fuel as [|fuel IH]; intros st st' Hn H; cbn [iterate_follow] in H; [discriminate|].
  assert (L1 : let_ (fst st) (fst (follow_pass g fi st))).
  { destruct st as [fo0 lf0]. rewrite follow_pass_is. apply sweep_let. }
  assert (N1 : AllND (fst (follow_pass g fi st))).
  { destruct st as [fo0 lf0]. rewrite follow_pass_is. apply sweep_nd. assumption. }
  destruct (Nat.eqb_spec (body_follow_size g (fst (follow_pass g fi st))) (body_follow_size g (fst st))) as [Heq|Hne].
  - injection H as <-. split; [apply final_sweep; assumption|assumption].
  - destruct (IH _ _ N1 H) as (C & L). split; [assumption|eapply let_trans; eassumption].
Qed.

(* the initial map *)
Definition init_step (sb : regex) (fo : smap) (p : nat * tokn) : smap :=
  match body_of g (fst p) with
  | Some pb => upd (upd fo (rid_of sb) (add (T (snd p)))) (rid_of pb) (add (T (snd p)))
  | None => fo
  end.

Lemma init_step_le sb fo p : le fo (init_step sb fo p).
Proof.
  unfold init_step. destruct (body_of g (fst p)) as [pb|]; [|apply le_refl].
  eapply le_trans; apply grow_le, grow_upd; intros s y Hy; apply mem_add; right; assumption.
Qed.

Lemma init_step_nd sb fo p : AllND fo -> AllND (init_step sb fo p).
Proof.
  intros H. unfold init_step. destruct (body_of g (fst p)) as [pb|]; [|assumption].
  apply AllND_upd; [apply AllND_upd; [assumption|]|]; intros s; apply NoDup_add.
Qed.

Lemma init_fold_le sb l : forall fo, le fo (fold_left (init_step sb) l fo).
Proof. induction l as [|p r IH]; intros fo; cbn [fold_left]; [apply le_refl|]. eapply le_trans; [apply init_step_le|apply IH]. Qed.

Lemma init_fold_nd sb l : forall fo, AllND fo -> AllND (fold_left (init_step sb) l fo).
Proof. induction l as [|p r IH]; intros fo H; cbn [fold_left]; [assumption|]. apply IH, init_step_nd, H. Qed.

Lemma init_fold_has sb l : forall fo p pb, In p l -> body_of g (fst p) = Some pb ->
  mem (T (snd p)) (get (fold_left (init_step sb) l fo) (rid_of sb)) = true
  /\ mem (T (snd p)) (get (fold_left (init_step sb) l fo) (rid_of pb)) = true.
Proof.
  induction l as [|q r IH]; intros fo p pb Hin Hb; [contradiction|]. cbn [fold_left].
  destruct Hin as [->|Hin]; [|apply IH; assumption].
  assert (H1 : mem (T (snd p)) (get (init_step sb fo p) (rid_of sb)) = true
               /\ mem (T (snd p)) (get (init_step sb fo p) (rid_of pb)) = true).
  { unfold init_step. rewrite Hb. split.
    - destruct (Nat.eq_dec (rid_of sb) (rid_of pb)) as [He|Hne].
      + rewrite He, get_upd_same. apply mem_add. left. reflexivity.
      + rewrite get_upd_other by assumption. rewrite get_upd_same. apply mem_add. left. reflexivity.
    - rewrite get_upd_same. apply mem_add. left. reflexivity. }
  destruct H1 as (A & B). split; apply (init_fold_le sb r (init_step sb fo p)); assumption.
Qed.

Lemma follow_init_is sb : body_of g (g_start g) = Some sb ->
  fst (follow_init g) = fold_left (init_step sb) (g_parts g) (upd [] (rid_of sb) (add (T (g_eof g)))).
Proof. intros H. unfold follow_init. rewrite H. reflexivity. Qed.

Theorem calc_follow_closed fuel fo lf :
  calc_follow g fi fuel = Some (fo, lf) -> fol_closed g fi fo = true.
Proof.
  unfold calc_follow. intros H.
  assert (Hn0 : AllND (fst (follow_init g))).
  { unfold follow_init. destruct (body_of g (g_start g)) as [sb|] eqn:Eb; [|constructor]. cbn [fst].
    apply (init_fold_nd sb (g_parts g)). apply AllND_upd; [constructor|]. intros s. apply NoDup_add. }
  destruct (iterate_follow_closed fuel _ _ Hn0 H) as (C & L). cbn [fst] in C, L.
  unfold fol_closed. apply andb_true_intro. split; [|apply forallb_forall; exact C].
  destruct (body_of g (g_start g)) as [sb|] eqn:Eb; [|reflexivity].
  rewrite (follow_init_is sb Eb) in L.
  apply andb_true_intro. split.
  - apply L. apply (init_fold_le sb (g_parts g)). rewrite get_upd_same. apply mem_add. left. reflexivity.
  - apply forallb_forall. intros p Hp. destruct (body_of g (fst p)) as [pb|] eqn:Ep; [|reflexivity].
    destruct (init_fold_has sb (g_parts g) (upd [] (rid_of sb) (add (T (g_eof g)))) p pb Hp Ep) as (A & B).
    apply andb_true_intro. split; apply L; assumption.
Qed.

End Closed.
