(* C09, first sets, completeness: a map that is closed under the first-set equations
   (boolean certificate [first_closed]) contains the head of every derivation. *)
From Coq Require Import List Arith Lia Bool.
From LV Require Import Sema SetLemmas FirstSpec.
Import ListNotations.

Section Complete.
Variable g : grammar.
Variable m : smap.
Hypothesis Hcl : first_closed g m = true.

Definition head_in (w : list tokn) (s : set) : Prop :=
  match w with [] => mem Eps s = true | a :: _ => mem (T a) s = true end.

Lemma head_in_subset w s s' : head_in w s -> subset s s' = true -> head_in w s'.
Proof. intros H Hs. rewrite subset_spec in Hs. destruct w; cbn in *; auto. Qed.

Lemma closed_node x : In x (nodes_of g) -> closed_at g m x = true.
Proof. intros H. unfold first_closed in Hcl. rewrite forallb_forall in Hcl. auto. Qed.

Lemma children_nodes x o : In x (nodes_of g) -> In o (subs x) -> In o (nodes_of g).
Proof. apply sub_in_nodes. Qed.

Definition star_head (w : list tokn) (s : set) : Prop :=
  match w with [] => True | a :: _ => mem (T a) s = true end.

Lemma complete_mut :
  (forall x w, derives g x w -> In x (nodes_of g) -> head_in w (get m (rid_of x)))
  /\ (forall ops w, derives_list g ops w -> (forall o, In o ops -> In o (nodes_of g)) -> head_in w (seq_first m ops))
  /\ (forall x w, derives_star g x w -> In x (nodes_of g) -> star_head w (get m (rid_of x))).
Proof.
  apply derives_mutind.
  - (* tok *) intros i t Hn. pose proof (closed_node _ Hn) as Hc. cbn in Hc. exact Hc.
  - (* rule *) intros i r b w Hb _ IH Hn. pose proof (closed_node _ Hn) as Hc. cbn [closed_at rid_of] in Hc.
    rewrite Hb in Hc. eapply head_in_subset; [apply IH; eapply body_in_nodes; eassumption|exact Hc].
  - (* empty rule *) intros i r Hb Hn. pose proof (closed_node _ Hn) as Hc. cbn [closed_at rid_of] in Hc.
    rewrite Hb in Hc. exact Hc.
  - (* cat *) intros i ops w _ IH Hn. pose proof (closed_node _ Hn) as Hc. cbn [closed_at rid_of] in Hc.
    eapply head_in_subset; [|exact Hc]. apply IH. intros o Ho.
    eapply children_nodes; [exact Hn|]. cbn [subs]. right. apply in_flat_map. exists o. split; [assumption|apply subs_self].
  - (* alt *) intros i ops x w Hin _ IH Hn. pose proof (closed_node _ Hn) as Hc. cbn [closed_at rid_of] in Hc.
    rewrite forallb_forall in Hc. eapply head_in_subset; [|apply Hc; exact Hin].
    apply IH. eapply children_nodes; [exact Hn|]. cbn [subs]. right. apply in_flat_map. exists x. split; [assumption|apply subs_self].
  - (* choice *) intros i ops x w Hin _ IH Hn. pose proof (closed_node _ Hn) as Hc. cbn [closed_at rid_of] in Hc.
    rewrite forallb_forall in Hc. eapply head_in_subset; [|apply Hc; exact Hin].
    apply IH. eapply children_nodes; [exact Hn|]. cbn [subs]. right. apply in_flat_map. exists x. split; [assumption|apply subs_self].
  - (* star *) intros i x w _ IH Hn. pose proof (closed_node _ Hn) as Hc. cbn [closed_at rid_of] in Hc.
    apply andb_prop in Hc. destruct Hc as (Hs & He).
    assert (Hx : In x (nodes_of g)) by (eapply children_nodes; [exact Hn|]; cbn [subs]; right; apply subs_self).
    specialize (IH Hx). destruct w as [|a w]; cbn in *; [exact He|].
    rewrite subset_spec in Hs. auto.
  - (* plus *) intros i x w1 w2 _ IH1 _ IH2 Hn. pose proof (closed_node _ Hn) as Hc. cbn [closed_at rid_of] in Hc.
    assert (Hx : In x (nodes_of g)) by (eapply children_nodes; [exact Hn|]; cbn [subs]; right; apply subs_self).
    specialize (IH1 Hx). specialize (IH2 Hx). rewrite subset_spec in Hc.
    destruct w1 as [|a w1]; cbn [app] in *.
    + destruct w2 as [|b w2]; cbn in *; auto.
    + cbn in *. auto.
  - (* opt0 *) intros i x Hn. pose proof (closed_node _ Hn) as Hc. cbn [closed_at rid_of] in Hc.
    apply andb_prop in Hc. destruct Hc as (_ & He). exact He.
  - (* opt1 *) intros i x w _ IH Hn. pose proof (closed_node _ Hn) as Hc. cbn [closed_at rid_of] in Hc.
    apply andb_prop in Hc. destruct Hc as (Hs & _).
    eapply head_in_subset; [|exact Hs]. apply IH. eapply children_nodes; [exact Hn|]. cbn [subs]. right. apply subs_self.
  - (* paren0 *) intros i Hn. pose proof (closed_node _ Hn) as Hc. exact Hc.
  - (* paren1 *) intros i x w _ IH Hn. pose proof (closed_node _ Hn) as Hc. cbn [closed_at rid_of] in Hc.
    eapply head_in_subset; [|exact Hc]. apply IH. eapply children_nodes; [exact Hn|]. cbn [subs]. right. apply subs_self.
  - (* leaf *) intros i k Hn. pose proof (closed_node _ Hn) as Hc. exact Hc.
  - (* nil *) intros _. cbn. reflexivity.
  - (* cons *) intros x r w1 w2 _ IH1 _ IH2 Hn.
    assert (Hx : In x (nodes_of g)) by (apply Hn; left; reflexivity).
    assert (Hr : forall o, In o r -> In o (nodes_of g)) by (intros o Ho; apply Hn; right; assumption).
    specialize (IH1 Hx). specialize (IH2 Hr). cbn [seq_first].
    destruct w1 as [|a w1]; cbn [app].
    + cbn in IH1. rewrite IH1. destruct w2 as [|b w2]; cbn in *; apply mem_union; right; assumption.
    + cbn in IH1. cbn [head_in].
      destruct (mem Eps (get m (rid_of x))).
      * apply mem_union. left. apply mem_remove. split; [discriminate|assumption].
      * apply mem_remove. split; [discriminate|assumption].
  - (* star nil *) intros x _. exact I.
  - (* star cons *) intros x w1 w2 _ IH1 _ IH2 Hn. specialize (IH1 Hn). specialize (IH2 Hn).
    destruct w1 as [|a w1]; cbn [app]; [exact IH2|exact IH1].
Qed.

Theorem first_complete x :
  In x (nodes_of g) ->
  (forall a, First_spec g x a -> mem (T a) (get m (rid_of x)) = true)
  /\ (Nullable_spec g x -> mem Eps (get m (rid_of x)) = true).
Proof.
  intros Hn. destruct complete_mut as (H & _ & _). split.
  - intros a (w & Hd). exact (H _ _ Hd Hn).
  - intros Hd. exact (H _ _ Hd Hn).
Qed.

End Complete.
