(* C15, one clause: the dominator sets (and hence the recovery sets) do not depend on the order in
   which RecoverySetGenerator::run iterates over its hash set of nodes. *)
From Coq Require Import List Arith Lia Bool.
From LV Require Import Sema SetLemmas Dominators.
Import ListNotations.

Theorem dominators_order_independent pg start nns1 nns2 fuel1 fuel2 d1 d2 :
  (forall k, In k nns1 <-> In k nns2) ->
  graph_ok pg start nns1 = true -> graph_ok pg start nns2 = true ->
  dom_iter fuel1 pg nns1 (d_init start nns1) = Some d1 ->
  dom_iter fuel2 pg nns2 (d_init start nns2) = Some d2 ->
  dom_fixed pg start d1 = true -> dom_fixed pg start d2 = true ->
  forall n x, In n (nadd start nns1) -> In x (nadd start nns1) ->
    (In x (dget d1 n) <-> In x (dget d2 n)).
Proof.
  intros Hsame G1 G2 I1 I2 F1 F2 n x Hn Hx.
  assert (Hconv : forall k, In k (nadd start nns1) -> In k (nadd start nns2)).
  { intros k Hk. apply In_nadd in Hk. apply In_nadd. destruct Hk as [->|Hk]; [left; reflexivity|right; apply Hsame; assumption]. }
  rewrite (dominators_exact pg start nns1 fuel1 d1 G1 I1 F1 n x Hn Hx).
  rewrite (dominators_exact pg start nns2 fuel2 d2 G2 I2 F2 n x (Hconv _ Hn) (Hconv _ Hx)).
  reflexivity.
Qed.
