(* Back-end model (Compile.v): for a grammar without ordered choice and without assertions the
   compiled program contains neither an ordered-choice nor an assertion statement, i.e. it meets
   the certificate [prog_ok] of the C06 theorem.  Together with DiagMono.diag_monotone this lifts
   C06's monotonicity clause from "every translated parser that passes the boolean test" to
   "every parser the back-end model produces for such a grammar". *)
From Coq Require Import List Arith Bool Lia.
From LV Require Import Cst Tree ABuild Runtime Exec Sema Compile DiagMono FirstSpec.
Import ListNotations.

Fixpoint plain (x : regex) : bool :=
  match x with
  | RChoice _ _ => false
  | RLeaf _ LAssert => false
  | RCat _ ops | RAlt _ ops => forallb plain ops
  | RStar _ o | RPlus _ o | ROpt _ o => plain o
  | RParen _ (Some o) => plain o
  | _ => true
  end.

Definition grammar_plain (g : grammar) : bool :=
  forallb (fun ru => match r_body ru with Some b => plain b | None => true end) (g_rules g).

Lemma block_ok_app a b : block_ok (a ++ b) = block_ok a && block_ok b.
Proof. unfold block_ok. apply forallb_app. Qed.

Lemma block_ok_flat_map {A} (f : A -> list stmt) l :
  (forall x, In x l -> block_ok (f x) = true) -> block_ok (flat_map f l) = true.
Proof.
  induction l as [|x r IH]; intros H; simpl; [reflexivity|].
  rewrite block_ok_app, H by (left; reflexivity). simpl. apply IH. intros y Hy. apply H. right. exact Hy.
Qed.

Lemma ocr_ok b : block_ok (ocr b) = true.
Proof. destruct b; reflexivity. Qed.

Lemma arms_ok_app (a b : list (list tok * option guard * list stmt)) :
  forallb (fun x => forallb stmt_ok (snd x)) (a ++ b)
  = forallb (fun x => forallb stmt_ok (snd x)) a && forallb (fun x => forallb stmt_ok (snd x)) b.
Proof. apply forallb_app. Qed.

Lemma arms_ok_flat_map {A} (f : A -> list (list tok * option guard * list stmt)) l :
  (forall x, In x l -> forallb (fun a => forallb stmt_ok (snd a)) (f x) = true) ->
  forallb (fun a => forallb stmt_ok (snd a)) (flat_map f l) = true.
Proof.
  induction l as [|x r IH]; intros H; simpl; [reflexivity|].
  rewrite arms_ok_app, H by (left; reflexivity). simpl. apply IH. intros y Hy. apply H. right. exact Hy.
Qed.

Section Ok.
Variable g : grammar.
Variable sm : sema.
Variable ci : cinfo.

Lemma c_recover_ok id op body il ic :
  block_ok body = true -> stmt_ok (c_recover sm id op body il ic) = true.
Proof.
  intros Hb. unfold c_recover. cbn [stmt_ok forallb]. rewrite andb_true_r.
  rewrite arms_ok_app. cbn [forallb snd].
  fold (block_ok (body ++ (if il then [] else [SBreak]))). rewrite block_ok_app, Hb.
  fold (block_ok (ocr ic ++ [SAdvErr (msg_set id)])). rewrite block_ok_app, ocr_ok.
  assert (Hr : forallb (fun x : list tok * option guard * list stmt => forallb stmt_ok (snd x))
                 match pats (s_recovery sm) id with
                 | [] => []
                 | _ :: _ => [(pats (s_recovery sm) id, None, ocr ic ++ [SError (msg_set id); SBreak])]
                 end = true).
  { destruct (pats (s_recovery sm) id); [reflexivity|]. cbn [forallb snd].
    fold (block_ok (ocr ic ++ [SError (msg_set id); SBreak])). rewrite block_ok_app, ocr_ok. reflexivity. }
  rewrite Hr. destruct il; reflexivity.
Qed.

Lemma aes_arm_ok ic (aes : list tok) :
  forallb (fun x : list tok * option guard * list stmt => forallb stmt_ok (snd x))
    match aes with [] => [] | _ :: _ => [(aes, None, ocr ic ++ [SAdvErr msg_invalid])] end = true.
Proof.
  destruct aes; [reflexivity|]. cbn [forallb snd].
  fold (block_ok (ocr ic ++ [SAdvErr msg_invalid])). rewrite block_ok_app, ocr_ok. reflexivity.
Qed.

Lemma c_regex_ok : forall x cx, plain x = true -> block_ok (c_regex g sm ci cx x) = true.
Proof.
  induction x as [i t|i r|i ops IH|i ops IH|i ops IH|i o IH|i o IH|i o IH|i|i o IH|i k] using regex_ind';
    intros cx Hp; cbn [c_regex rid_of].
  - reflexivity.
  - reflexivity.
  - cbn [plain] in Hp. rewrite forallb_forall in Hp. rewrite Forall_forall in IH.
    apply block_ok_flat_map. intros y Hy. apply IH; [exact Hy|apply Hp; exact Hy].
  - cbn [plain] in Hp. rewrite forallb_forall in Hp. rewrite Forall_forall in IH.
    unfold block_ok. cbn [forallb stmt_ok]. rewrite andb_true_r.
    fold (block_ok (ocr (inch sm i) ++ [SError (msg_set i)])). rewrite block_ok_app, ocr_ok. cbn [andb block_ok forallb stmt_ok].
    rewrite andb_true_r. rewrite arms_ok_app, aes_arm_ok, andb_true_r.
    rewrite forallb_forall. intros a Ha. apply in_map_iff in Ha. destruct Ha as [y [Hy Hin]]. subst a. cbn [snd].
    apply (IH y Hin cx). apply Hp. exact Hin.
  - discriminate Hp.
  - cbn [plain] in Hp. unfold block_ok. cbn [forallb]. rewrite c_recover_ok; [reflexivity|]. apply IH. exact Hp.
  - cbn [plain] in Hp. rewrite block_ok_app, IH by exact Hp. unfold block_ok. cbn [forallb].
    rewrite c_recover_ok; [reflexivity|]. apply IH. exact Hp.
  - cbn [plain] in Hp. unfold block_ok. cbn [forallb]. rewrite c_recover_ok; [reflexivity|]. apply IH. exact Hp.
  - reflexivity.
  - cbn [plain] in Hp. apply IH. exact Hp.
  - destruct k; cbn [plain] in Hp; try discriminate Hp;
      repeat match goal with
             | |- context [match ?p with _ => _ end] => destruct p
             end; reflexivity.
Qed.

Lemma close_ok cx a : stmt_ok (close_stmt cx a) = true.
Proof. reflexivity. Qed.

Lemma elision_init_ok hc st el : block_ok (elision_init hc st el) = true.
Proof. unfold elision_init. destruct hc, st, el; reflexivity. Qed.

Lemma node_kind_decl_ok cx d : block_ok (node_kind_decl cx d) = true.
Proof. unfold node_kind_decl. destruct (rc_rename cx); reflexivity. Qed.

Lemma elision_check_ok cx st el : block_ok (elision_check cx st el) = true.
Proof. unfold elision_check. destruct st, el; reflexivity. Qed.

Lemma c_normal_rule_ok cx hc st body :
  plain body = true -> block_ok (c_normal_rule g sm ci cx hc st body) = true.
Proof.
  intros Hp. unfold c_normal_rule.
  rewrite !block_ok_app, elision_init_ok, node_kind_decl_ok, elision_check_ok, c_regex_ok by exact Hp. reflexivity.
Qed.

Lemma in_enumerate_snd {A} (l : list A) : forall n p, In p (enumerate n l) -> In (snd p) l.
Proof.
  induction l as [|x r IH]; intros n p H; simpl in H; [contradiction|].
  destruct H as [H|H]; [subst p; left; reflexivity|right; eapply IH; exact H].
Qed.

Lemma call_rec_ok rbp ic bp v : stmt_ok (call_rec rbp ic bp v) = true.
Proof. reflexivity. Qed.

Lemma c_primary_arm_ok k0 ren rbp ic recs alt_op :
  plain alt_op = true ->
  forallb (fun a : list tok * option guard * list stmt => forallb stmt_ok (snd a))
          (c_primary_arm g sm ci k0 ren rbp ic recs alt_op) = true.
Proof.
  intros Hp. unfold c_primary_arm.
  assert (Hbody : forall cx,
             block_ok match branch_of recs alt_op, alt_op with
                      | Some (RecRight _ index), RCat _ ops =>
                        flat_map (fun p => if Nat.eqb (fst p) index
                                           then [SLetMark VLhs; call_rec rbp ic (fst (bp_of sm alt_op)) VLhs]
                                           else c_regex g sm ci cx (snd p)) (enumerate 0 ops)
                      | _, _ => c_regex g sm ci cx alt_op
                      end = true).
  { intros cx. destruct (branch_of recs alt_op) as [[b l|b r|b l r]|]; try (apply c_regex_ok; exact Hp).
    destruct alt_op; try (apply c_regex_ok; exact Hp).
    cbn [plain] in Hp. rewrite forallb_forall in Hp.
    apply block_ok_flat_map. intros p Hin. destruct (Nat.eqb (fst p) r); [reflexivity|].
    apply c_regex_ok. apply Hp. eapply in_enumerate_snd. exact Hin. }
  destruct (branch_of recs alt_op) as [[b l|b r|b l r]|] eqn:Hb; try reflexivity.
  - cbn [forallb snd]. rewrite andb_true_r.
    fold (block_ok (elision_init false false (elision_of alt_op) ++
                    match alt_op with
                    | RCat _ ops => flat_map (fun p => if Nat.eqb (fst p) r
                                                      then [SLetMark VLhs; call_rec rbp ic (fst (bp_of sm alt_op)) VLhs]
                                                      else c_regex g sm ci (mkRctx k0 (elision_of alt_op) ren) (snd p)) (enumerate 0 ops)
                    | _ => c_regex g sm ci (mkRctx k0 (elision_of alt_op) ren) alt_op
                    end ++ elision_check (mkRctx k0 (elision_of alt_op) ren) false (elision_of alt_op))).
    rewrite !block_ok_app, elision_init_ok, elision_check_ok. rewrite andb_true_r. cbn [andb].
    specialize (Hbody (mkRctx k0 (elision_of alt_op) ren)). exact Hbody.
  - cbn [forallb snd]. rewrite andb_true_r.
    fold (block_ok (elision_init false false (elision_of alt_op) ++
                    c_regex g sm ci (mkRctx k0 (elision_of alt_op) ren) alt_op ++
                    elision_check (mkRctx k0 (elision_of alt_op) ren) false (elision_of alt_op))).
    rewrite !block_ok_app, elision_init_ok, elision_check_ok, c_regex_ok by exact Hp. reflexivity.
Qed.

Lemma c_operator_arm_ok k0 ren rbp ic b :
  plain (rec_regex b) = true ->
  forallb (fun a : list tok * option guard * list stmt => forallb stmt_ok (snd a))
          (c_operator_arm g sm ci k0 ren rbp ic b) = true.
Proof.
  intros Hp. unfold c_operator_arm.
  assert (Hmk : forall i ops li ri, plain (RCat i ops) = true ->
     forallb (fun a : list tok * option guard * list stmt => forallb stmt_ok (snd a))
       (let rest := filter (fun p => negb (is_pred (snd p)) && negb (Nat.eqb (fst p) li)) (enumerate 0 ops) in
        match rest with
        | [] => [([], None, [close_stmt (mkRctx k0 ENone ren) true; SContinue])]
        | (_, first) :: _ =>
          [(pats (s_predict sm) (rid_of first), get_predicate (RCat i ops),
            (if rbp then [SIfBpBreak (fst (bp_of sm (RCat i ops)))] else [])
            ++ [SLetOpenBefore VLhs]
            ++ flat_map (fun p =>
                           match ri with
                           | Some r => if Nat.eqb r (fst p)
                                       then [SLetMark VRhs; call_rec rbp ic (snd (bp_of sm (RCat i ops))) VRhs]
                                       else c_regex g sm ci (mkRctx k0 ENone ren) (snd p)
                           | None => c_regex g sm ci (mkRctx k0 ENone ren) (snd p)
                           end) rest
            ++ [close_stmt (mkRctx k0 ENone ren) true; SContinue])]
        end) = true).
  { intros i ops li ri Hpl. cbn [plain] in Hpl. rewrite forallb_forall in Hpl.
    cbv zeta.
    remember (filter (fun p => negb (is_pred (snd p)) && negb (Nat.eqb (fst p) li)) (enumerate 0 ops)) as rest eqn:Hrest.
    assert (Hin : forall p, In p rest -> In (snd p) ops).
    { intros p Hp0. subst rest. apply filter_In in Hp0. destruct Hp0 as [Hp0 _]. eapply in_enumerate_snd. exact Hp0. }
    clear Hrest.
    destruct rest as [|[n0 first] rest']; [reflexivity|].
    cbn [forallb snd]. rewrite andb_true_r.
    match goal with |- forallb stmt_ok ?b = true => change (block_ok b = true) end.
    rewrite !block_ok_app.
    assert (H1 : block_ok (if rbp then [SIfBpBreak (fst (bp_of sm (RCat i ops)))] else []) = true) by (destruct rbp; reflexivity).
    rewrite H1. cbn [andb block_ok forallb stmt_ok]. rewrite andb_true_r.
    apply block_ok_flat_map. intros p Hp0.
    destruct ri as [r|].
    - destruct (Nat.eqb r (fst p)); [reflexivity|]. apply c_regex_ok. apply Hpl. apply Hin. exact Hp0.
    - apply c_regex_ok. apply Hpl. apply Hin. exact Hp0. }
  destruct b as [x l|x r|x l r]; cbn [rec_regex] in Hp.
  - destruct x as [| |i0 ops0| | | | | | |]; try reflexivity. exact (Hmk i0 ops0 l None Hp).
  - reflexivity.
  - destruct x as [| |i0 ops0| | | | | | |]; try reflexivity. exact (Hmk i0 ops0 l (Some r) Hp).
Qed.

Lemma c_left_recursive_rule_ok k0 ren ic body recs :
  plain body = true -> (forall b, In b recs -> plain (rec_regex b) = true) ->
  block_ok (fst (c_left_recursive_rule g sm ci k0 ren ic body recs)) = true
  /\ block_ok (snd (snd (c_left_recursive_rule g sm ci k0 ren ic body recs))) = true.
Proof.
  intros Hp Hrecs. unfold c_left_recursive_rule. cbn [fst snd]. split; [reflexivity|].
  rewrite block_ok_app, node_kind_decl_ok. cbn [andb]. unfold block_ok. cbn [forallb stmt_ok].
  rewrite !andb_true_r.
  fold (block_ok (ocr ic ++ [SError (msg_set (rid_of body))])). rewrite block_ok_app, ocr_ok. cbn [andb block_ok forallb stmt_ok].
  rewrite arms_ok_app, aes_arm_ok, !andb_true_r.
  fold (block_ok (node_kind_decl (mkRctx k0 ENone ren) false ++
                  [SMatch (flat_map (c_operator_arm g sm ci k0 ren (requires_bp recs) ic) recs) [SBreak]])).
  rewrite block_ok_app, node_kind_decl_ok. cbn [andb block_ok forallb stmt_ok]. rewrite !andb_true_r.
  apply andb_true_intro. split.
  - apply arms_ok_flat_map. intros x Hx. apply c_primary_arm_ok.
    destruct body; cbn [plain] in Hp; try contradiction.
    rewrite forallb_forall in Hp. apply Hp. exact Hx.
  - apply arms_ok_flat_map. intros b Hb. apply c_operator_arm_ok. apply Hrecs. exact Hb.
Qed.

Definition recs_plain : Prop :=
  forall q b, In q (s_recursive sm) -> In b (snd q) -> plain (rec_regex b) = true.

Lemma c_rule_ok i ru :
  recs_plain -> match r_body ru with Some b => plain b = true | None => True end ->
  forallb (fun rf => block_ok (fn_body (snd rf))
                     && match fn_rec (snd rf) with Some (_, b) => block_ok b | None => true end)
          (c_rule g sm ci i ru) = true.
Proof.
  intros Hrp Hb. unfold c_rule.
  destruct (negb (rule_used g sm i ru)); [reflexivity|].
  destruct (r_body ru) as [body|]; [|reflexivity].
  destruct (find (fun q => Nat.eqb (fst q) i) (s_recursive sm)) as [q|] eqn:Hf.
  - apply find_some in Hf. destruct Hf as [Hq _].
    destruct (has_left (snd q)).
    + destruct (c_left_recursive_rule g sm ci (rule_kind ci i) (has_leaf (is_named_rename ci) body) (inch sm (r_decl ru)) body (snd q))
        as [b r] eqn:Hc.
      pose proof (c_left_recursive_rule_ok (rule_kind ci i) (has_leaf (is_named_rename ci) body) (inch sm (r_decl ru)) body (snd q) Hb
                   (fun b0 Hb0 => Hrp q b0 Hq Hb0)) as [H1 H2].
      rewrite Hc in H1, H2. cbn [fst snd] in H1, H2. destruct r as [hb rb]. cbn [snd] in H2.
      cbn [forallb snd fn_body fn_rec]. rewrite H1, H2. reflexivity.
    + cbn [forallb snd fn_body fn_rec]. rewrite c_normal_rule_ok by exact Hb. reflexivity.
  - cbn [has_left existsb]. cbn [forallb snd fn_body fn_rec]. rewrite c_normal_rule_ok by exact Hb. reflexivity.
Qed.

Lemma compile_prog_ok_gen :
  recs_plain -> grammar_plain g = true -> prog_ok (compile g sm ci) = true.
Proof.
  intros Hrp Hg. unfold prog_ok, compile. cbn [p_rules].
  unfold grammar_plain in Hg. rewrite forallb_forall in Hg.
  assert (Hall : forall l n, (forall p, In p (enumerate n l) -> In (snd p) (g_rules g)) ->
     forallb (fun rf => block_ok (fn_body (snd rf))
                        && match fn_rec (snd rf) with Some (_, b) => block_ok b | None => true end)
             (flat_map (fun p => c_rule g sm ci (fst p) (snd p)) (enumerate n l)) = true).
  { induction l as [|ru r IH]; intros n Hin; cbn [enumerate flat_map]; [reflexivity|].
    rewrite forallb_app. cbn [fst snd]. rewrite c_rule_ok; [|exact Hrp|].
    - cbn [andb]. apply IH. intros p Hp. apply Hin. cbn [enumerate]. right. exact Hp.
    - specialize (Hin (n, ru)). cbn [enumerate snd] in Hin. specialize (Hin (or_introl eq_refl)).
      specialize (Hg _ Hin). destruct (r_body ru); [exact Hg|exact I]. }
  apply Hall. intros p Hp. eapply in_enumerate_snd. exact Hp.
Qed.
End Ok.

(* the branches the analysis records are alternatives of the rule bodies *)
Lemma check_recursive_branches ri body b :
  In b (check_recursive ri body) ->
  match body with Some (RAlt _ alts) => In (rec_regex b) alts | _ => False end.
Proof.
  unfold check_recursive. destruct body as [x|]; [|intros []].
  destruct x; try (intros []).
  intros H. apply in_flat_map in H. destruct H as [alt [Halt H]].
  destruct alt; try contradiction.
  destruct (filter (fun p => negb (is_rec_filtered (snd p))) (enumerate 0 ops0)) as [|[i0 x0] rest]; [contradiction|].
  destruct (if refs_rule ri x0 then Some i0 else None);
    destruct (match rev rest with (i1, x1) :: _ => if refs_rule ri x1 then Some i1 else None | [] => None end);
    cbn in H; try contradiction; destruct H as [H|[]]; subst b; exact Halt.
Qed.

Lemma analyse_recursive g ntoks order sm :
  analyse g ntoks order = Some sm ->
  s_recursive sm =
  filter (fun p => match snd p with [] => false | _ => true end)
         (map (fun p => (fst p, check_recursive (fst p) (r_body (snd p)))) (enumerate 0 (g_rules g))).
Proof.
  unfold analyse. intros H.
  destruct (contain_iter g _ []) as [inch0|]; [|discriminate H].
  destruct (calc_first g _) as [fi|]; [|discriminate H].
  destruct (calc_follow g fi _) as [[fo lf]|]; [|discriminate H].
  cbv zeta in H.
  match type of H with
  | (if ?c then _ else _) = _ => destruct c
  end.
  - inversion H. reflexivity.
  - match type of H with
    | match ?c with _ => _ end = _ => destruct c as [[[rc d] pg]|]
    end; [|discriminate H]. inversion H. reflexivity.
Qed.

Lemma in_enumerate_nth {A} (l : list A) : forall n p, In p (enumerate n l) -> In (snd p) l.
Proof. exact (@in_enumerate_snd A l). Qed.

Theorem compile_prog_ok g ntoks order sm ci :
  analyse g ntoks order = Some sm -> grammar_plain g = true -> prog_ok (compile g sm ci) = true.
Proof.
  intros Ha Hg. apply compile_prog_ok_gen; [|exact Hg].
  unfold recs_plain. intros q b Hq Hb.
  rewrite (analyse_recursive _ _ _ _ Ha) in Hq.
  apply filter_In in Hq. destruct Hq as [Hq _].
  apply in_map_iff in Hq. destruct Hq as [p [Hp Hin]]. subst q. cbn [snd fst] in Hb.
  pose proof (check_recursive_branches _ _ _ Hb) as Hbr.
  apply in_enumerate_snd in Hin.
  unfold grammar_plain in Hg. rewrite forallb_forall in Hg. specialize (Hg _ Hin).
  destruct (r_body (snd p)) as [x|]; [|contradiction].
  destruct x; try contradiction.
  cbn [plain] in Hg. rewrite forallb_forall in Hg. apply Hg. exact Hbr.
Qed.

(* C06 for the back-end model: every parser compiled from a grammar without ordered choice and
   assertions reports diagnostics with strictly increasing starts and spans in bounds *)
Theorem compiled_parser_diag_monotone :
  forall g ntoks order sm ci, analyse g ntoks order = Some sm -> grammar_plain g = true ->
  forall cx orc, spans_ok cx ->
  forall fuel r root msg st,
    parse_entry cx (compile g sm ci) orc fuel r root msg = XOk st ->
    gh st <> None ->
    Sorted.StronglySorted lt (map d_start (diags st))
    /\ forall d, In d (diags st) -> d_start d <= d_end d /\ d_end d <= max_off cx.
Proof.
  intros g ntoks order sm ci Ha Hg cx orc Hs fuel r root msg st Hp Hgh.
  eapply diag_monotone; [exact Hs|eapply compile_prog_ok; eassumption|exact Hp|exact Hgh].
Qed.
