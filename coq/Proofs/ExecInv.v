(* The runtime invariant is preserved by every statement of the command language,
   for every program, input, oracle and fuel: by induction on the fuel. *)
From Coq Require Import List Arith Lia Bool.
From LV Require Import Cst Tree ABuild Runtime Exec ListLemmas Refine RuntimeInv.
Import ListNotations.

Opaque p_get_state p_set_state p_release p_error p_advance p_advance_with_error p_open p_open_before p_close p_mark p_close_error_node add_event set_in_choice push_assert_diag find_rule deletable tok_in env_get env_set env_leave active_error mk_diag.

Section EX.
Variable cx : pctx.
Variable prog : program.
Variable orc : oracles.

Notation P := (RuntimeInv.P cx).
Notation RInv := (RuntimeInv.RInv cx).

Lemma same_P st st' :
  cstd st' = cstd st -> pos st' = pos st -> cur st' = cur st -> gh st' = gh st -> snaps st' = snaps st -> P st st'.
Proof. intros. apply same_core_P. repeat split; assumption. Qed.

Lemma add_event_P st e : P st (add_event st e).
Proof. apply same_P; reflexivity. Qed.
Lemma set_in_choice_P st b : P st (set_in_choice st b).
Proof. apply same_P; reflexivity. Qed.
Lemma push_assert_diag_P st : P st (push_assert_diag cx st).
Proof. apply same_P; reflexivity. Qed.

(* what the alternatives of an ordered choice guarantee (the newest snapshot is released at the end) *)
Definition PA (sv : saved) (rest : list tmark) (st1 st' : pstate) : Prop :=
  snaps st' = rest
  /\ (gh st1 = None -> gh st' = None)
  /\ (RInv st1 -> saved_ok cx sv -> gh st' <> None -> RInv st').

Lemma PA_pre sv rest a b c : P a b -> PA sv rest b c -> PA sv rest a c.
Proof.
  intros (H1 & H2 & H3) (H4 & H5 & H6). split; [assumption|]. split; [auto|].
  intros Ha Hs Hc. apply H6; [apply H3; [assumption|intro Hb; apply Hc; auto]|assumption|assumption].
Qed.

Lemma PA_post sv rest a b c : PA sv rest a b -> P b c -> PA sv rest a c.
Proof.
  intros (H4 & H5 & H6) (H1 & H2 & H3). split; [congruence|]. split; [auto|].
  intros Ha Hs Hc. apply H3; [apply H6; [assumption|assumption|intro Hb; apply Hc; auto]|assumption].
Qed.

Ltac xdes E :=
  match goal with
  | H : match ?x with XOk _ => _ | XPanic _ => _ | XFuel => _ | XStuck _ => _ end = XOk _ |- _ =>
    destruct x as [[[? ?] ?]| | |] eqn:E; try discriminate
  end.

Theorem exec_P : forall fuel,
  (forall rec_of s e st o e' st',
      exec cx prog orc fuel rec_of s e st = XOk (o, e', st') -> P st st')
  /\ (forall rec_of b e st o e' st',
      exec_block cx prog orc fuel rec_of b e st = XOk (o, e', st') -> P st st')
  /\ (forall rec_of n l e st o e' st',
      exec_seq cx prog orc fuel rec_of n l e st = XOk (o, e', st') -> P st st')
  /\ (forall rec_of sv sel sk alts lp last m e1 st1 o e' st' rest,
      exec_alts cx prog orc fuel rec_of sv sel sk alts lp last m e1 st1 = XOk (o, e', st') ->
      snaps st1 = sv_tm sv :: rest -> PA sv rest st1 st')
  /\ (forall f st some st',
      call_fn cx prog orc fuel f st = XOk (some, st') -> P st st').
Proof.
  induction fuel as [|fuel IH].
  { repeat split; intros; discriminate. }
  destruct IH as (IHe & IHb & IHs & IHa & IHc).
  split; [|split; [|split; [|split]]].
  - (* exec *)
    intros rec_of s e st o e' st' H.
    destruct s; simpl in H.
    + (* SExpect *)
      destruct (Nat.eqb (cur st) t).
      * destruct (p_advance cx st false) as [s1|w] eqn:E; [|discriminate]. injection H as _ _ <-.
        eapply p_advance_P. eassumption.
      * destruct (try_ && in_choice st); injection H as _ _ <-; [apply P_refl|apply p_error_P].
    + (* SCall *)
      destruct (find_rule prog r) as [f|]; [|discriminate].
      destruct (call_fn cx prog orc fuel f st) as [[some s1]| | |] eqn:E; try discriminate.
      apply IHc in E. destruct (q && negb some); injection H as _ _ <-; assumption.
    + (* SRec *)
      destruct rec_of as [[[opt hb] body]|]; [|discriminate].
      destruct (env_get e v) as [mk|]; [|discriminate].
      match type of H with match ?x with _ => _ end = _ => destruct x as [[[o1 e1] s1]| | |] eqn:E; try discriminate end.
      apply IHb in E.
      match type of H with (if ?c then _ else _) = _ => destruct c end; injection H as _ _ <-; assumption.
    + (* SLetMark *)
      destruct (p_mark st) as [[mk s1]|w] eqn:E; [|discriminate]. injection H as _ _ <-.
      destruct (p_mark_P cx _ _ _ E) as (E' & _ & _). exact E'.
    + (* SLetOpen *)
      destruct (p_open st) as [[mk s1]|w] eqn:E; [|discriminate]. injection H as _ _ <-.
      destruct (p_open_P cx _ _ _ E) as (E' & _ & _). exact E'.
    + (* SLetOpenBefore *)
      destruct (env_get e v) as [x|]; [|discriminate].
      destruct (p_open_before st x) as [[mk s1]|w] eqn:E; [|discriminate]. injection H as _ _ <-.
      destruct (p_open_before_P cx _ _ _ _ E) as (E' & _ & _). exact E'.
    + injection H as _ _ <-. apply P_refl.
    + destruct (env_set e VElide 1); [|discriminate]. injection H as _ _ <-. apply P_refl.
    + (* SKind *)
      destruct decl.
      * injection H as _ _ <-. apply P_refl.
      * destruct (env_set e VKind k); [|discriminate]. injection H as _ _ <-. apply P_refl.
    + (* SClose *)
      destruct (env_get e VM) as [m|]; [|discriminate].
      destruct (match k with Some k0 => Some k0 | None => env_get e VKind end) as [k0|]; [|discriminate].
      destruct (p_close st m k0) as [[closed s1]|w] eqn:E; [|discriminate].
      apply (p_close_P cx) in E. destruct E as (E & _ & _).
      assert (P st (add_event s1 (ECreate k0 closed))) by (eapply P_trans; [exact E|apply add_event_P]).
      destruct assign_lhs.
      * destruct (env_set e VLhs closed); [|discriminate]. injection H as _ _ <-. assumption.
      * injection H as _ _ <-. assumption.
    + (* SIfNotElide *)
      destruct (env_get e VElide) as [[|n]|]; [| |discriminate].
      * eapply IHb. eassumption.
      * injection H as _ _ <-. apply P_refl.
    + (* SCreate *)
      destruct (env_get e v) as [x|]; [|discriminate].
      destruct (p_open_before st x) as [[on s1]|w] eqn:E1; [|discriminate].
      destruct (p_close s1 on k) as [[c2 s2]|w] eqn:E2; [|discriminate].
      injection H as _ _ <-.
      apply (p_open_before_P cx) in E1. apply (p_close_P cx) in E2.
      eapply P_trans; [apply E1|]. eapply P_trans; [apply E2|]. apply add_event_P.
    + injection H as _ _ <-. apply add_event_P.
    + (* SAssert *)
      destruct (o_assert orc n st).
      * destruct (ocr && in_choice st); injection H as _ _ <-; [apply P_refl|apply push_assert_diag_P].
      * injection H as _ _ <-. apply P_refl.
    + injection H as _ _ <-. apply set_in_choice_P.
    + (* SMatch *)
      eapply IHb. eassumption.
    + (* SLoop *)
      destruct (exec_block cx prog orc fuel rec_of b e st) as [[[o1 e1] s1]| | |] eqn:E; try discriminate.
      apply IHb in E.
      destruct o1.
      * eapply P_trans; [exact E|]. eapply IHe. eassumption.
      * injection H as _ _ <-. assumption.
      * eapply P_trans; [exact E|]. eapply IHe. eassumption.
      * injection H as _ _ <-. assumption.
      * injection H as _ _ <-. assumption.
    + injection H as _ _ <-. apply P_refl.
    + injection H as _ _ <-. apply P_refl.
    + (* SIfBpBreak *)
      destruct (env_get e VMinBp) as [mb|]; [|discriminate].
      destruct (n <? mb); injection H as _ _ <-; apply P_refl.
    + (* SOrdChoice *)
      destruct (if save_elide then env_get e VElide else Some 0) as [el0|]; [|discriminate].
      destruct (if save_kind then env_get e VKind else Some 0) as [k0|]; [|discriminate].
      destruct (p_get_state st) as [sv st0] eqn:Eg.
      destruct (p_get_state_spec cx _ _ _ Eg) as (Hsn & Hnone & Hsv & Hinv).
      destruct (IHa _ _ _ _ _ _ _ _ _ _ _ _ _ (snaps st) H Hsn) as (A1 & A2 & A3).
      split; [|split].
      * intros Hn. apply A2. apply Hnone. assumption.
      * assumption.
      * intros HR Hne. apply A3; [|apply Hsv; assumption|assumption].
        apply Hinv; [assumption|]. intro Hb. apply Hne. apply A2. assumption.
    + (* SReturnIfError *)
      destruct (active_error st).
      * destruct e0.
        -- destruct (env_get e VM) as [m|]; [|discriminate].
           destruct (p_close st m kError) as [[closed s1]|w] eqn:E; [|discriminate]. injection H as _ _ <-.
           apply (p_close_P cx) in E. eapply P_trans; [apply E|apply add_event_P].
        -- injection H as _ _ <-. apply P_refl.
        -- destruct (env_get e VElide) as [[|n]|]; [| |discriminate].
           ++ destruct (env_get e VStart) as [x|]; [|discriminate].
              destruct (p_open_before st x) as [[m s1]|w] eqn:E1; [|discriminate].
              destruct (p_close s1 m kError) as [[closed s2]|w] eqn:E2; [|discriminate].
              injection H as _ _ <-.
              apply (p_open_before_P cx) in E1. apply (p_close_P cx) in E2.
              eapply P_trans; [apply E1|]. eapply P_trans; [apply E2|]. apply add_event_P.
           ++ destruct (env_get e VStart); [|discriminate]. injection H as _ _ <-. apply P_refl.
      * injection H as _ _ <-. apply P_refl.
    + injection H as _ _ <-. apply p_error_P.
    + (* SAdvErr *)
      destruct (p_advance_with_error cx st m) as [s1|w] eqn:E; [|discriminate]. injection H as _ _ <-.
      eapply p_advance_with_error_P. eassumption.
    + destruct (in_choice st); injection H as _ _ <-; apply P_refl.
  - (* exec_block *)
    intros rec_of b e st o e' st' H. simpl in H. eapply IHs. eassumption.
  - (* exec_seq *)
    intros rec_of n l e st o e' st' H.
    destruct l as [|s r]; simpl in H.
    + injection H as _ _ <-. apply P_refl.
    + destruct (exec cx prog orc fuel rec_of s e st) as [[[o1 e1] s1]| | |] eqn:E; try discriminate.
      apply IHe in E.
      destruct o1; try (injection H as _ _ <-; assumption).
      eapply P_trans; [exact E|]. eapply IHs. eassumption.
  - (* exec_alts *)
    intros rec_of sv sel sk alts lp last m e1 st1 o e' st' rest H Hsn.
    destruct alts as [|[pats body] r]; simpl in H.
    + (* the final alternative *)
      set (st2 := set_in_choice st1 false) in *.
      assert (P12 : P st1 st2) by apply set_in_choice_P.
      assert (Hsn2 : snaps st2 = sv_tm sv :: rest) by exact Hsn.
      destruct (tok_in (cur st2) lp).
      * destruct (exec_block cx prog orc fuel rec_of last e1 st2) as [[[o1 e2] st3]| | |] eqn:E; try discriminate.
        injection H as _ _ <-. apply IHb in E.
        assert (P13 : P st1 st3) by (eapply P_trans; eassumption).
        destruct P13 as (Q1 & Q2 & Q3).
        assert (Hsn3 : snaps st3 = sv_tm sv :: rest) by congruence.
        destruct (p_release_spec cx _ _ _ Hsn3) as (R1 & R2 & R3).
        split; [assumption|]. split; [auto|].
        intros HR _ Hne. apply R3; [|assumption]. apply Q3; [assumption|]. intro Hb. apply Hne. auto.
      * destruct (p_advance_with_error cx st2 m) as [st3|w] eqn:E; [|discriminate].
        injection H as _ _ <-. apply p_advance_with_error_P in E.
        assert (P13 : P st1 st3) by (eapply P_trans; eassumption).
        destruct P13 as (Q1 & Q2 & Q3).
        assert (Hsn3 : snaps st3 = sv_tm sv :: rest) by congruence.
        destruct (p_release_spec cx _ _ _ Hsn3) as (R1 & R2 & R3).
        split; [assumption|]. split; [auto|].
        intros HR _ Hne. apply R3; [|assumption]. apply Q3; [assumption|]. intro Hb. apply Hne. auto.
    + destruct (tok_in (cur st1) pats).
      * destruct (exec_block cx prog orc fuel rec_of body e1 st1) as [[[o1 e2] st2]| | |] eqn:E; try discriminate.
        apply IHb in E. destruct E as (Q1 & Q2 & Q3).
        assert (Hsn2 : snaps st2 = sv_tm sv :: rest) by congruence.
        destruct o1; try discriminate.
        -- (* the alternative succeeded *)
           injection H as _ _ <-.
           destruct (p_release_spec cx _ _ _ Hsn2) as (R1 & R2 & R3).
           split; [assumption|]. split; [auto|].
           intros HR _ Hne. apply R3; [|assumption]. apply Q3; [assumption|]. intro Hb. apply Hne. auto.
        -- (* abandoned: restore and try the next one *)
           destruct (if fst sel then env_set e2 VElide (snd sel) else Some e2) as [e3|]; [|discriminate].
           destruct (if fst sk then env_set e3 VKind (snd sk) else Some e3) as [e4|]; [|discriminate].
           destruct (p_set_state_spec cx (deletable prog) st2 sv rest Hsn2) as (S1 & S2 & S3).
           set (st3 := p_set_state (deletable prog) st2 sv) in *.
           assert (Hsn3 : snaps st3 = sv_tm sv :: rest) by congruence.
           destruct (IHa _ _ _ _ _ _ _ _ _ _ _ _ _ rest H Hsn3) as (A1 & A2 & A3).
           split; [assumption|]. split; [auto|].
           intros HR Hs Hne. apply A3; [|assumption|assumption].
           apply S3; [|assumption|].
           ++ apply Q3; [assumption|]. intro Hb. apply Hne. auto.
           ++ intro Hb. apply Hne. auto.
      * eapply IHa; eassumption.
  - (* call_fn *)
    intros f st some st' H. cbn [call_fn] in H.
    match type of H with match ?x with _ => _ end = _ => destruct x as [[[o1 e1] s1]| | |] eqn:E; try discriminate end.
    injection H as _ <-. eapply IHb. eassumption.
Qed.

End EX.
