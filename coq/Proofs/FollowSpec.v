(* C09, follow sets: the textbook rules for FOLLOW over the EBNF operators of a lelwel
   grammar (relative to a first-set map [fi]), the boolean closure certificate, and
   completeness: a closed map contains every token the rules derive.
   The empty-word marker in follow sets is ignored, as the property says. *)
From Coq Require Import List Arith Lia Bool.
From LV Require Import Sema SetLemmas FirstSpec.
Import ListNotations.

Section Spec.
Variable g : grammar.
Variable fi : smap.

Definition nullable_fi (x : regex) : Prop := mem Eps (get fi (rid_of x)) = true.
Definition first_fi (x : regex) (a : tokn) : Prop := mem (T a) (get fi (rid_of x)) = true.

Inductive Fol : regex -> tokn -> Prop :=
| F_start sb : body_of g (g_start g) = Some sb -> Fol sb (g_eof g)
| F_part_at_start sb p t pb :
    body_of g (g_start g) = Some sb -> In (p, t) (g_parts g) -> body_of g p = Some pb -> Fol sb t
| F_part sb p t pb :
    body_of g (g_start g) = Some sb -> In (p, t) (g_parts g) -> body_of g p = Some pb -> Fol pb t
| F_rule i r b a :
    In (RRule i r) (nodes_of g) -> body_of g r = Some b -> Fol (RRule i r) a -> Fol b a
| F_cat_first i ops pre x mid y post a :
    In (RCat i ops) (nodes_of g) -> ops = pre ++ x :: mid ++ y :: post ->
    Forall nullable_fi mid -> first_fi y a -> Fol x a
| F_cat_last i ops pre x post a :
    In (RCat i ops) (nodes_of g) -> ops = pre ++ x :: post ->
    Forall nullable_fi post -> Fol (RCat i ops) a -> Fol x a
| F_alt i ops x a : In (RAlt i ops) (nodes_of g) -> In x ops -> Fol (RAlt i ops) a -> Fol x a
| F_choice i ops x a : In (RChoice i ops) (nodes_of g) -> In x ops -> Fol (RChoice i ops) a -> Fol x a
| F_star i x a : In (RStar i x) (nodes_of g) -> Fol (RStar i x) a -> Fol x a
| F_star_again i x a : In (RStar i x) (nodes_of g) -> first_fi x a -> Fol x a
| F_plus i x a : In (RPlus i x) (nodes_of g) -> Fol (RPlus i x) a -> Fol x a
| F_plus_again i x a : In (RPlus i x) (nodes_of g) -> mem (T a) (get fi i) = true -> Fol x a
| F_opt i x a : In (ROpt i x) (nodes_of g) -> Fol (ROpt i x) a -> Fol x a
| F_paren i x a : In (RParen i (Some x)) (nodes_of g) -> Fol (RParen i (Some x)) a -> Fol x a.

(* ---------- closure certificate ---------- *)
Definition is_tok (s : sym) : bool := match s with T _ => true | Eps => false end.
Definition subset_tok (s1 s2 : set) : bool := forallb (fun s => negb (is_tok s) || mem s s2) s1.

Lemma subset_tok_spec s1 s2 : subset_tok s1 s2 = true <-> forall a, mem (T a) s1 = true -> mem (T a) s2 = true.
Proof.
  unfold subset_tok. rewrite forallb_forall. split.
  - intros H a Ha. apply mem_In in Ha. specialize (H _ Ha). cbn in H. assumption.
  - intros H s Hs. destruct s as [|a]; [reflexivity|]. cbn. apply H. apply mem_In. assumption.
Qed.

(* what may follow the operands in front of [post], given the follow set [base] of the sequence *)
Fixpoint seq_follow (base : set) (post : list regex) : set :=
  match post with
  | [] => base
  | op :: r =>
    let f := get fi (rid_of op) in
    if mem Eps f then union (seq_follow base r) f else f
  end.

Fixpoint cat_closed (fo : smap) (base : set) (ops : list regex) : bool :=
  match ops with
  | [] => true
  | x :: post => subset_tok (seq_follow base post) (get fo (rid_of x)) && cat_closed fo base post
  end.

Definition fol_closed_at (fo : smap) (x : regex) : bool :=
  let s := get fo (rid_of x) in
  match x with
  | RRule _ r => match body_of g r with Some b => subset_tok s (get fo (rid_of b)) | None => true end
  | RCat _ ops => cat_closed fo s ops
  | RAlt _ ops | RChoice _ ops => forallb (fun o => subset_tok s (get fo (rid_of o))) ops
  | RStar _ o => subset_tok s (get fo (rid_of o)) && subset_tok (get fi (rid_of o)) (get fo (rid_of o))
  | RPlus i o => subset_tok s (get fo (rid_of o)) && subset_tok (get fi i) (get fo (rid_of o))
  | ROpt _ o => subset_tok s (get fo (rid_of o))
  | RParen _ (Some o) => subset_tok s (get fo (rid_of o))
  | _ => true
  end.

Definition fol_closed (fo : smap) : bool :=
  match body_of g (g_start g) with
  | Some sb =>
    mem (T (g_eof g)) (get fo (rid_of sb))
    && forallb (fun p => match body_of g (fst p) with
                         | Some pb => mem (T (snd p)) (get fo (rid_of sb)) && mem (T (snd p)) (get fo (rid_of pb))
                         | None => true
                         end) (g_parts g)
  | None => true
  end
  && forallb (fol_closed_at fo) (nodes_of g).

(* ---------- completeness ---------- *)
Lemma seq_follow_first base mid y post a :
  Forall nullable_fi mid -> first_fi y a -> mem (T a) (seq_follow base (mid ++ y :: post)) = true.
Proof.
  induction 1 as [|m r Hm _ IH]; intros Hy; cbn [app seq_follow].
  - unfold first_fi in Hy. destruct (mem Eps (get fi (rid_of y))); [apply mem_union; right|]; assumption.
  - unfold nullable_fi in Hm. rewrite Hm. apply mem_union. left. apply IH. assumption.
Qed.

Lemma seq_follow_last base post a :
  Forall nullable_fi post -> mem (T a) base = true -> mem (T a) (seq_follow base post) = true.
Proof.
  induction 1 as [|m r Hm _ IH]; intros Hb; cbn [seq_follow]; [assumption|].
  unfold nullable_fi in Hm. rewrite Hm. apply mem_union. left. apply IH. assumption.
Qed.

Lemma cat_closed_at fo base pre x post :
  cat_closed fo base (pre ++ x :: post) = true ->
  subset_tok (seq_follow base post) (get fo (rid_of x)) = true.
Proof.
  induction pre as [|p r IH]; cbn [app cat_closed]; intros H; apply andb_prop in H; destruct H as (H1 & H2); auto.
Qed.

Theorem follow_complete fo : fol_closed fo = true ->
  forall y a, Fol y a -> mem (T a) (get fo (rid_of y)) = true.
Proof.
  unfold fol_closed. intros H. apply andb_prop in H. destruct H as (Hs & Hn).
  rewrite forallb_forall in Hn.
  induction 1 as [sb Hb|sb p t pb Hb Hp Hpb|sb p t pb Hb Hp Hpb|i r b a Hin Hb _ IH
                  |i ops pre x mid y post a Hin -> Hmid Hy|i ops pre x post a Hin -> Hpost _ IH
                  |i ops x a Hin Hx _ IH|i ops x a Hin Hx _ IH|i x a Hin _ IH|i x a Hin Hf
                  |i x a Hin _ IH|i x a Hin Hf|i x a Hin _ IH|i x a Hin _ IH].
  - rewrite Hb in Hs. apply andb_prop in Hs. apply Hs.
  - rewrite Hb in Hs. apply andb_prop in Hs. destruct Hs as (_ & Hs). rewrite forallb_forall in Hs.
    specialize (Hs _ Hp). cbn [fst snd] in Hs. rewrite Hpb in Hs. apply andb_prop in Hs. apply Hs.
  - rewrite Hb in Hs. apply andb_prop in Hs. destruct Hs as (_ & Hs). rewrite forallb_forall in Hs.
    specialize (Hs _ Hp). cbn [fst snd] in Hs. rewrite Hpb in Hs. apply andb_prop in Hs. apply Hs.
  - specialize (Hn _ Hin). cbn [fol_closed_at rid_of] in Hn. rewrite Hb in Hn.
    rewrite subset_tok_spec in Hn. auto.
  - specialize (Hn _ Hin). cbn [fol_closed_at rid_of] in Hn. apply cat_closed_at in Hn.
    rewrite subset_tok_spec in Hn. apply Hn. apply seq_follow_first; assumption.
  - specialize (Hn _ Hin). cbn [fol_closed_at rid_of] in Hn. apply cat_closed_at in Hn.
    rewrite subset_tok_spec in Hn. apply Hn. apply seq_follow_last; assumption.
  - specialize (Hn _ Hin). cbn [fol_closed_at rid_of] in Hn. rewrite forallb_forall in Hn.
    specialize (Hn _ Hx). rewrite subset_tok_spec in Hn. auto.
  - specialize (Hn _ Hin). cbn [fol_closed_at rid_of] in Hn. rewrite forallb_forall in Hn.
    specialize (Hn _ Hx). rewrite subset_tok_spec in Hn. auto.
  - specialize (Hn _ Hin). cbn [fol_closed_at rid_of] in Hn. apply andb_prop in Hn. destruct Hn as (Hn & _).
    rewrite subset_tok_spec in Hn. auto.
  - specialize (Hn _ Hin). cbn [fol_closed_at rid_of] in Hn. apply andb_prop in Hn. destruct Hn as (_ & Hn).
    rewrite subset_tok_spec in Hn. auto.
  - specialize (Hn _ Hin). cbn [fol_closed_at rid_of] in Hn. apply andb_prop in Hn. destruct Hn as (Hn & _).
    rewrite subset_tok_spec in Hn. auto.
  - specialize (Hn _ Hin). cbn [fol_closed_at rid_of] in Hn. apply andb_prop in Hn. destruct Hn as (_ & Hn).
    rewrite subset_tok_spec in Hn. auto.
  - specialize (Hn _ Hin). cbn [fol_closed_at rid_of] in Hn. rewrite subset_tok_spec in Hn. auto.
  - specialize (Hn _ Hin). cbn [fol_closed_at rid_of] in Hn. rewrite subset_tok_spec in Hn. auto.
Qed.

End Spec.
