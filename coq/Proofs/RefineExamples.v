(* Non-vacuity: concrete histories that satisfy the hypotheses of the refinement theorems. *)
From Coq Require Import List Arith.
From LV Require Import Cst Tree ABuild Refine.
Import ListNotations.

(* open; A; ws; mark=3; open_before 1 (wraps A, leaves ws outside); close; open_before at the very end
   (lagging non_skip_len); close; snapshot; open; B; restore; release *)
Definition h1 : list bop :=
  [BOpen; BAdvance 2 false; BAdvance 4 true; BOpenBefore 1; BClose 1 1;
   BOpenBefore 4; BClose 4 2; BSnap; BOpen; BAdvance 3 false; BRestore 0; BRelease].

Example h1_valid :
  exists c sn g, run_history h1 empty_cst [] (Some ghost_empty) = Ok (c, sn, Some g)
                 /\ a_close_root (g_abs g) 0 1 <> None.
Proof. vm_compute. eexists _, _, _. split; [reflexivity|discriminate]. Qed.

Example h1_result :
  match run_history h1 empty_cst [] (Some ghost_empty) with
  | Ok (c, _, Some g) =>
    match a_close_root (g_abs g) 0 1, c_close_root c 0 1 with
    | Some t, Ok c' => nodes c' = flatten t /\ decode (nodes c') = Some t
                       /\ t = TNode 1 [TNode 1 [TLeaf 2 0]; TLeaf 4 1; TNode 2 []]
    | _, _ => False
    end
  | _ => False
  end.
Proof. vm_compute. repeat split. Qed.

(* an invalid history (insert below a live snapshot) is flagged *)
Example h2_invalid :
  match run_history [BOpen; BAdvance 2 false; BSnap; BOpenBefore 1] empty_cst [] (Some ghost_empty) with
  | Ok (_, _, None) => True
  | _ => False
  end.
Proof. vm_compute. exact I. Qed.
