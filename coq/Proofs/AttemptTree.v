(* C08: after an abandoned alternative the concrete node vector again represents
   the abstract tree state it represented before the attempt. *)
From Coq Require Import List Arith Lia Bool.
From LV Require Import Cst Tree ABuild Runtime Exec ListLemmas Refine RuntimeInv ExecInv GhostStack ExecGhost.
Import ListNotations.

Section AT.
Variable cx : pctx.
Variable prog : program.
Variable orc : oracles.

Theorem attempt_restores_tree fuel rec_of body e st sv st0 o e2 st2 :
  RInv cx st ->
  p_get_state st = (sv, st0) ->
  exec_block cx prog orc fuel rec_of body e st0 = XOk (o, e2, st2) ->
  let st3 := p_set_state (deletable prog) st2 sv in
  gh st3 <> None ->
  RInv cx st3
  /\ exists g g3, gh st = Some g /\ gh st3 = Some g3 /\ g_abs g3 = g_abs g
     /\ Inv (cstd st) (snaps st) g /\ Inv (cstd st3) (snaps st3) g3.
Proof.
  intros HR Hg He st3 Hne.
  destruct (p_get_state_spec cx _ _ _ Hg) as (Hsn & Hnone & Hsv & Hinv).
  destruct (exec_P cx prog orc fuel) as (_ & Hb & _).
  destruct (Hb _ _ _ _ _ _ _ He) as (Q1 & Q2 & Q3).
  assert (Hsn2 : snaps st2 = sv_tm sv :: snaps st) by congruence.
  destruct (p_set_state_spec cx (deletable prog) st2 sv (snaps st) Hsn2) as (S1 & S2 & S3).
  fold st3 in S1, S2, S3.
  assert (N2 : gh st2 <> None) by (intro Hb2; apply Hne; auto).
  assert (N0 : gh st0 <> None) by (intro Hb0; apply N2; auto).
  assert (R0 : RInv cx st0) by (apply Hinv; assumption).
  assert (R2 : RInv cx st2) by (apply Q3; assumption).
  assert (R3 : RInv cx st3) by (apply S3; [assumption|apply Hsv; assumption|exact Hne]).
  split; [assumption|].
  pose proof (attempt_leaves_no_trace cx prog orc fuel rec_of body e st sv st0 o e2 st2 Hg He) as T.
  cbn zeta in T. fold st3 in T. destruct T as (_ & _ & _ & _ & _ & _ & T).
  destruct (gh st3) as [g3|] eqn:E3; [|contradiction].
  destruct (T g3 eq_refl) as (g & Hgs & Ha & _).
  exists g, g3. split; [assumption|]. split; [reflexivity|]. split; [assumption|]. split.
  - destruct HR as (g' & G1 & G2 & _). rewrite Hgs in G1. injection G1 as <-. assumption.
  - destruct R3 as (g' & G1 & G2 & _). rewrite E3 in G1. injection G1 as <-. assumption.
Qed.

End AT.
