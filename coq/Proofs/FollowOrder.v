(* C15, continued: the follow sets (tokens) and the predict sets (tokens) do not depend on the order
   of the rule declarations either.  [Fol] - the textbook FOLLOW rules the follow-set theorem of C09
   is stated against - is invariant under a permutation of rule positions when the two first-set
   maps agree at every node; with the first-set theorem of FirstOrder.v and C09's exactness theorem
   for follow sets the computed maps coincide. *)
From Coq Require Import List Arith Bool Lia.
From LV Require Import Sema SetLemmas FirstSpec FirstCert FirstOrder FollowSpec FollowCert PredictSpec.
Import ListNotations.

Section Perm.
Variables g1 g2 : grammar.
Variables fi1 fi2 : smap.
Variable s : nat -> nat.
Hypothesis Hperm : forall r, body_of g2 (s r) = option_map (rename s) (body_of g1 r).
Hypothesis Hstart : g_start g2 = s (g_start g1).
Hypothesis Heof : g_eof g2 = g_eof g1.
Hypothesis Hparts : forall p t, In (p, t) (g_parts g1) -> In (s p, t) (g_parts g2).
Hypothesis Hfi : forall x, In x (nodes_of g1) -> forall y, mem y (get fi1 (rid_of x)) = mem y (get fi2 (rid_of x)).

Lemma body_rename r b : body_of g1 r = Some b -> body_of g2 (s r) = Some (rename s b).
Proof. intros H. rewrite Hperm, H. reflexivity. Qed.

Lemma child_node i ops x (P : In (RCat i ops) (nodes_of g1) \/ In (RAlt i ops) (nodes_of g1) \/ In (RChoice i ops) (nodes_of g1)) :
  In x ops -> In x (nodes_of g1).
Proof.
  intros Hx. destruct P as [P|[P|P]]; eapply sub_in_nodes; try exact P; cbn [subs]; right;
    apply in_flat_map; exists x; (split; [exact Hx|apply subs_self]).
Qed.

Lemma nullable_rename x : In x (nodes_of g1) -> nullable_fi fi1 x -> nullable_fi fi2 (rename s x).
Proof. unfold nullable_fi. intros Hx H. rewrite rid_rename, <- (Hfi x Hx). exact H. Qed.

Lemma first_rename x a : In x (nodes_of g1) -> first_fi fi1 x a -> first_fi fi2 (rename s x) a.
Proof. unfold first_fi. intros Hx H. rewrite rid_rename, <- (Hfi x Hx). exact H. Qed.

Lemma Forall_nullable_rename l :
  (forall x, In x l -> In x (nodes_of g1)) -> Forall (nullable_fi fi1) l -> Forall (nullable_fi fi2) (map (rename s) l).
Proof.
  intros Hin H. induction H as [|x r Hx _ IH]; cbn [map]; constructor.
  - apply nullable_rename; [apply Hin; left; reflexivity|exact Hx].
  - apply IH. intros y Hy. apply Hin. right. exact Hy.
Qed.

Lemma Fol_rename : forall y a, Fol g1 fi1 y a -> Fol g2 fi2 (rename s y) a.
Proof.
  pose proof (nodes_rename g1 g2 s Hperm) as NR.
  induction 1 as [sb Hb|sb p t pb Hb Hp Hpb|sb p t pb Hb Hp Hpb|i r b a Hin Hb _ IH
                  |i ops pre x mid y post a Hin -> Hmid Hy|i ops pre x post a Hin -> Hpost _ IH
                  |i ops x a Hin Hx _ IH|i ops x a Hin Hx _ IH|i x a Hin _ IH|i x a Hin Hf
                  |i x a Hin _ IH|i x a Hin Hf|i x a Hin _ IH|i x a Hin _ IH].
  - rewrite <- Heof. apply F_start. rewrite Hstart. apply body_rename. exact Hb.
  - eapply F_part_at_start; [rewrite Hstart; apply body_rename; exact Hb|apply Hparts; exact Hp|apply body_rename; exact Hpb].
  - eapply F_part; [rewrite Hstart; apply body_rename; exact Hb|apply Hparts; exact Hp|apply body_rename; exact Hpb].
  - eapply F_rule; [exact (NR _ Hin)|apply body_rename; exact Hb|exact IH].
  - pose proof (NR _ Hin) as Hin2. cbn [rename] in Hin2.
    eapply F_cat_first; [exact Hin2| | |].
    + rewrite map_app. cbn [map]. rewrite map_app. cbn [map]. reflexivity.
    + apply Forall_nullable_rename; [|exact Hmid]. intros z Hz.
      eapply child_node; [left; exact Hin|]. apply in_or_app. right. right. apply in_or_app. left. exact Hz.
    + apply first_rename; [|exact Hy].
      eapply child_node; [left; exact Hin|]. apply in_or_app. right. right. apply in_or_app. right. left. reflexivity.
  - pose proof (NR _ Hin) as Hin2. cbn [rename] in Hin2.
    eapply F_cat_last; [exact Hin2| | |].
    + rewrite map_app. cbn [map]. reflexivity.
    + apply Forall_nullable_rename; [|exact Hpost]. intros z Hz.
      eapply child_node; [left; exact Hin|]. apply in_or_app. right. right. exact Hz.
    + exact IH.
  - pose proof (NR _ Hin) as Hin2. cbn [rename] in Hin2.
    eapply F_alt; [exact Hin2|apply in_map; exact Hx|exact IH].
  - pose proof (NR _ Hin) as Hin2. cbn [rename] in Hin2.
    eapply F_choice; [exact Hin2|apply in_map; exact Hx|exact IH].
  - pose proof (NR _ Hin) as Hin2. cbn [rename] in Hin2. eapply F_star; [exact Hin2|exact IH].
  - pose proof (NR _ Hin) as Hin2. cbn [rename] in Hin2. eapply F_star_again; [exact Hin2|].
    apply first_rename; [|exact Hf]. eapply sub_in_nodes; [exact Hin|]. cbn [subs]. right. apply subs_self.
  - pose proof (NR _ Hin) as Hin2. cbn [rename] in Hin2. eapply F_plus; [exact Hin2|exact IH].
  - pose proof (NR _ Hin) as Hin2. cbn [rename] in Hin2. eapply F_plus_again; [exact Hin2|].
    rewrite <- (Hfi _ Hin). exact Hf.
  - pose proof (NR _ Hin) as Hin2. cbn [rename] in Hin2. eapply F_opt; [exact Hin2|exact IH].
  - pose proof (NR _ Hin) as Hin2. cbn [rename] in Hin2. eapply F_paren; [exact Hin2|exact IH].
Qed.
End Perm.

Theorem follow_sets_order_independent g1 g2 s t fi1 fi2 fuel1 fuel2 fo1 lf1 fo2 lf2 :
  (forall r, t (s r) = r) -> (forall r, s (t r) = r) ->
  (forall r, body_of g2 (s r) = option_map (rename s) (body_of g1 r)) ->
  g_start g2 = s (g_start g1) -> g_eof g2 = g_eof g1 ->
  (forall p a, In (p, a) (g_parts g1) <-> In (s p, a) (g_parts g2)) ->
  (forall x, In x (nodes_of g1) -> forall y, mem y (get fi1 (rid_of x)) = mem y (get fi2 (rid_of x))) ->
  wf_ids_b g1 = true -> wf_ids_b g2 = true ->
  calc_follow g1 fi1 fuel1 = Some (fo1, lf1) -> calc_follow g2 fi2 fuel2 = Some (fo2, lf2) ->
  forall x, In x (nodes_of g1) ->
  forall a, mem (T a) (get fo1 (rid_of x)) = mem (T a) (get fo2 (rid_of x)).
Proof.
  intros Hts Hst Hperm Hstart Heof Hparts Hfi W1 W2 C1 C2 x Hx a.
  assert (Hperm' : forall r, body_of g1 (t r) = option_map (rename t) (body_of g2 r)).
  { intros r. specialize (Hperm (t r)). rewrite Hst in Hperm. rewrite Hperm.
    destruct (body_of g1 (t r)) as [b|]; cbn [option_map]; [|reflexivity]. rewrite (rename_rename s t Hts). reflexivity. }
  assert (Hstart' : g_start g1 = t (g_start g2)) by (rewrite Hstart, Hts; reflexivity).
  assert (Hparts' : forall p a0, In (p, a0) (g_parts g2) -> In (t p, a0) (g_parts g1)).
  { intros p a0 H. apply Hparts. rewrite Hst. exact H. }
  assert (Hfi' : forall z, In z (nodes_of g2) -> forall y, mem y (get fi2 (rid_of z)) = mem y (get fi1 (rid_of z))).
  { intros z Hz y. pose proof (nodes_rename g2 g1 t Hperm' z Hz) as Hz1.
    specialize (Hfi _ Hz1 y). rewrite rid_rename in Hfi. symmetry. exact Hfi. }
  pose proof (nodes_rename g1 g2 s Hperm x Hx) as Hx2.
  pose proof (follow_exact_any g1 fi1 fuel1 fo1 lf1 W1 C1 x a Hx) as E1.
  pose proof (follow_exact_any g2 fi2 fuel2 fo2 lf2 W2 C2 (rename s x) a Hx2) as E2.
  rewrite rid_rename in E2.
  apply eq_true_iff_eq. rewrite E1, E2. split; intros H.
  - eapply Fol_rename; try eassumption. intros p a0 Hp. apply Hparts. exact Hp.
  - pose proof (Fol_rename g2 g1 fi2 fi1 t Hperm' Hstart' (eq_sym Heof) Hparts' Hfi' _ _ H) as H'.
    rewrite (rename_rename s t Hts) in H'. exact H'.
Qed.

(* first, follow and predict together, from the two runs of the analysis loops *)
Theorem analysis_sets_order_independent g1 g2 s t fuel1 fuel2 fuel3 fuel4 fi1 fi2 fo1 lf1 fo2 lf2 :
  (forall r, t (s r) = r) -> (forall r, s (t r) = r) ->
  (forall r, body_of g2 (s r) = option_map (rename s) (body_of g1 r)) ->
  g_start g2 = s (g_start g1) -> g_eof g2 = g_eof g1 ->
  (forall p a, In (p, a) (g_parts g1) <-> In (s p, a) (g_parts g2)) ->
  wf_ids_b g1 = true -> productive_b g1 = true -> wf_ids_b g2 = true -> productive_b g2 = true ->
  calc_first g1 fuel1 = Some fi1 -> calc_first g2 fuel2 = Some fi2 ->
  calc_follow g1 fi1 fuel3 = Some (fo1, lf1) -> calc_follow g2 fi2 fuel4 = Some (fo2, lf2) ->
  forall x, In x (nodes_of g1) ->
    (forall y, mem y (get fi1 (rid_of x)) = mem y (get fi2 (rid_of x)))
    /\ (forall a, mem (T a) (get fo1 (rid_of x)) = mem (T a) (get fo2 (rid_of x)))
    /\ (forall a, mem (T a) (get (calc_predict fi1 fo1) (rid_of x)) = mem (T a) (get (calc_predict fi2 fo2) (rid_of x))).
Proof.
  intros Hts Hst Hperm Hstart Heof Hparts W1 P1 W2 P2 C1 C2 F1 F2 x Hx.
  assert (HF : forall z, In z (nodes_of g1) -> forall y, mem y (get fi1 (rid_of z)) = mem y (get fi2 (rid_of z))).
  { intros z Hz. exact (first_sets_order_independent g1 g2 s t fuel1 fuel2 fi1 fi2 Hts Hst Hperm W1 P1 W2 P2 C1 C2 z Hz). }
  assert (HO : forall a, mem (T a) (get fo1 (rid_of x)) = mem (T a) (get fo2 (rid_of x))).
  { exact (follow_sets_order_independent g1 g2 s t fi1 fi2 fuel3 fuel4 fo1 lf1 fo2 lf2 Hts Hst Hperm Hstart Heof Hparts HF W1 W2 F1 F2 x Hx). }
  split; [apply HF; exact Hx|]. split; [exact HO|].
  intros a. apply eq_true_iff_eq. rewrite !predict_spec.
  rewrite (HF x Hx (T a)), (HF x Hx Eps), (HO a). reflexivity.
Qed.
