(* C09, predict sets: predict is first, extended by follow when the node is nullable. *)
From Coq Require Import List Arith Bool.
From LV Require Import Sema SetLemmas.
Import ListNotations.

Lemma get_calc_predict fi fo k :
  get (calc_predict fi fo) k =
  if mem Eps (get fi k) then union (remove Eps (get fi k)) (get fo k) else get fi k.
Proof.
  unfold calc_predict. induction fi as [|[k' f] r IH]; cbn [map get].
  - reflexivity.
  - destruct (Nat.eqb_spec k k') as [->|Hne]; [reflexivity|assumption].
Qed.

Theorem predict_spec fi fo k s :
  mem s (get (calc_predict fi fo) k) = true <->
  (s <> Eps /\ mem s (get fi k) = true)
  \/ (mem Eps (get fi k) = true /\ mem s (get fo k) = true).
Proof.
  rewrite get_calc_predict. destruct (mem Eps (get fi k)) eqn:E.
  - rewrite mem_union, mem_remove. split.
    + intros [(H1 & H2)|H]; auto.
    + intros [(H1 & H2)|(_ & H)]; auto.
  - split.
    + intros H. left. split; [|assumption]. intros ->. congruence.
    + intros [(_ & H)|(H & _)]; [assumption|discriminate].
Qed.
