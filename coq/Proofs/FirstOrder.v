(* C15, one clause: the first sets do not depend on the order of the rule declarations.  Two
   grammars that consist of the same rules at permuted positions (references renamed accordingly,
   node ids kept) get the same first set at every node: by C09's exactness theorem both are the
   derivation-defined set, and derivations do not see the positions. *)
From Coq Require Import List Arith Bool Lia.
From LV Require Import Sema SetLemmas FirstSpec FirstCert.
Import ListNotations.

Fixpoint rename (s : nat -> nat) (x : regex) : regex :=
  match x with
  | RTok i t => RTok i t
  | RRule i r => RRule i (s r)
  | RCat i ops => RCat i (map (rename s) ops)
  | RAlt i ops => RAlt i (map (rename s) ops)
  | RChoice i ops => RChoice i (map (rename s) ops)
  | RStar i o => RStar i (rename s o)
  | RPlus i o => RPlus i (rename s o)
  | ROpt i o => ROpt i (rename s o)
  | RParen i (Some o) => RParen i (Some (rename s o))
  | RParen i None => RParen i None
  | RLeaf i k => RLeaf i k
  end.

Lemma rid_rename s x : rid_of (rename s x) = rid_of x.
Proof. destruct x as [| | | | | | | |i [o|]|]; reflexivity. Qed.

Lemma rename_rename s t : (forall r, t (s r) = r) -> forall x, rename t (rename s x) = x.
Proof.
  intros Hts.
  induction x as [i t0|i r|i ops IH|i ops IH|i ops IH|i o IH|i o IH|i o IH|i|i o IH|i k] using regex_ind';
    cbn [rename]; try reflexivity; try (rewrite IH; reflexivity).
  - rewrite Hts. reflexivity.
  - f_equal. rewrite map_map. rewrite <- (map_id ops) at 2. apply map_ext_in. rewrite Forall_forall in IH. exact IH.
  - f_equal. rewrite map_map. rewrite <- (map_id ops) at 2. apply map_ext_in. rewrite Forall_forall in IH. exact IH.
  - f_equal. rewrite map_map. rewrite <- (map_id ops) at 2. apply map_ext_in. rewrite Forall_forall in IH. exact IH.
Qed.

Lemma subs_rename s : forall x y, In y (subs x) -> In (rename s y) (subs (rename s x)).
Proof.
  induction x as [i t0|i r|i ops IH|i ops IH|i ops IH|i o IH|i o IH|i o IH|i|i o IH|i k] using regex_ind';
    intros y Hy; cbn [subs] in Hy; destruct Hy as [<-|Hy]; try apply subs_self; try (cbn in Hy; contradiction).
  all: try (cbn [rename subs]; right;
            apply in_flat_map in Hy; destruct Hy as (o & Ho & Hy);
            apply in_flat_map; exists (rename s o); split; [apply in_map; exact Ho|];
            rewrite Forall_forall in IH; apply IH; assumption).
  all: try (cbn [rename subs]; right; apply IH; exact Hy).
Qed.

Section Perm.
Variables g1 g2 : grammar.
Variable s : nat -> nat.
Hypothesis Hperm : forall r, body_of g2 (s r) = option_map (rename s) (body_of g1 r).

Lemma derives_rename :
  (forall x w, derives g1 x w -> derives g2 (rename s x) w)
  /\ (forall ops w, derives_list g1 ops w -> derives_list g2 (map (rename s) ops) w)
  /\ (forall x w, derives_star g1 x w -> derives_star g2 (rename s x) w).
Proof.
  apply (derives_mutind g1
           (fun x w _ => derives g2 (rename s x) w)
           (fun ops w _ => derives_list g2 (map (rename s) ops) w)
           (fun x w _ => derives_star g2 (rename s x) w)); intros; cbn [rename map].
  - constructor.
  - eapply D_rule; [|eassumption]. rewrite Hperm, e. reflexivity.
  - apply D_rule_empty. rewrite Hperm, e. reflexivity.
  - constructor. assumption.
  - eapply D_alt; [apply in_map; eassumption|assumption].
  - eapply D_choice; [apply in_map; eassumption|assumption].
  - constructor. assumption.
  - constructor; assumption.
  - constructor.
  - constructor. assumption.
  - constructor.
  - constructor. assumption.
  - constructor.
  - constructor.
  - constructor; assumption.
  - constructor.
  - constructor; assumption.
Qed.

Lemma nodes_rename x : In x (nodes_of g1) -> In (rename s x) (nodes_of g2).
Proof.
  unfold nodes_of at 1. intros Hx. apply in_flat_map in Hx. destruct Hx as (ru & Hru & Hx).
  destruct (r_body ru) as [b|] eqn:Eb; [|contradiction].
  apply In_nth_error in Hru. destruct Hru as [r Hr].
  assert (Hb1 : body_of g1 r = Some b) by (unfold body_of, nth_rule; rewrite Hr; exact Eb).
  assert (Hb2 : body_of g2 (s r) = Some (rename s b)) by (rewrite Hperm, Hb1; reflexivity).
  eapply sub_in_nodes; [eapply body_in_nodes; exact Hb2|]. apply subs_rename. exact Hx.
Qed.
End Perm.

Theorem first_sets_order_independent g1 g2 s t fuel1 fuel2 m1 m2 :
  (forall r, t (s r) = r) -> (forall r, s (t r) = r) ->
  (forall r, body_of g2 (s r) = option_map (rename s) (body_of g1 r)) ->
  wf_ids_b g1 = true -> productive_b g1 = true -> wf_ids_b g2 = true -> productive_b g2 = true ->
  calc_first g1 fuel1 = Some m1 -> calc_first g2 fuel2 = Some m2 ->
  forall x, In x (nodes_of g1) ->
  forall y, mem y (get m1 (rid_of x)) = mem y (get m2 (rid_of x)).
Proof.
  intros Hts Hst Hperm W1 P1 W2 P2 C1 C2 x Hx y.
  assert (Hperm' : forall r, body_of g1 (t r) = option_map (rename t) (body_of g2 r)).
  { intros r. specialize (Hperm (t r)). rewrite Hst in Hperm. rewrite Hperm.
    destruct (body_of g1 (t r)) as [b|]; cbn [option_map]; [|reflexivity]. rewrite (rename_rename s t Hts). reflexivity. }
  pose proof (nodes_rename g1 g2 s Hperm x Hx) as Hx2.
  destruct (first_exact_any g1 fuel1 m1 W1 P1 C1 x Hx) as [F1 N1].
  destruct (first_exact_any g2 fuel2 m2 W2 P2 C2 (rename s x) Hx2) as [F2 N2].
  rewrite rid_rename in F2, N2.
  destruct (derives_rename g1 g2 s Hperm) as [D12 _].
  destruct (derives_rename g2 g1 t Hperm') as [D21 _].
  apply eq_true_iff_eq. destruct y as [|a].
  - rewrite N1, N2. unfold Nullable_spec. split; intros H.
    + apply D12. exact H.
    + apply D21 in H. rewrite (rename_rename s t Hts) in H. exact H.
  - rewrite F1, F2. unfold First_spec. split; intros [w H]; exists w.
    + apply D12. exact H.
    + apply D21 in H. rewrite (rename_rename s t Hts) in H. exact H.
Qed.
