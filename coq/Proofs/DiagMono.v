(* C06, second and third clause: for programs without assertion and ordered-choice
   statements the syntax diagnostics have strictly increasing start positions (at
   most one per token) and every span lies inside the source - for every input,
   oracle and fuel, as long as the end-of-input marker is never consumed (ghost
   defined). *)
From Coq Require Import List Arith Lia Bool Sorted.
From LV Require Import Cst Tree ABuild Runtime Exec ListLemmas Refine RuntimeInv ExecInv ParseEntry.
Import ListNotations.

Section DM.
Variable cx : pctx.
Variable prog : program.
Variable orc : oracles.

Notation P := (RuntimeInv.P cx).
Notation RInv := (RuntimeInv.RInv cx).

(* the token spans: strictly increasing, non-empty, inside the source *)
Definition spans_ok : Prop :=
  length (spans cx) = length (toks cx)
  /\ (forall i j si sj, i < j -> nth_error (spans cx) i = Some si -> nth_error (spans cx) j = Some sj -> fst si < fst sj)
  /\ (forall i s, nth_error (spans cx) i = Some s -> fst s < snd s /\ snd s <= max_off cx).

Definition cs (p : nat) : nat :=
  match nth_error (spans cx) p with Some s => fst s | None => max_off cx end.

Lemma cs_lt p p' : spans_ok -> p < p' -> p < length (toks cx) -> cs p < cs p'.
Proof.
  intros (Hl & Hs & Hb) Hlt Hp. unfold cs.
  destruct (nth_error (spans cx) p) as [s|] eqn:E1.
  2:{ apply nth_error_None in E1. lia. }
  destruct (nth_error (spans cx) p') as [s'|] eqn:E2.
  - apply (Hs p p' s s'); assumption.
  - destruct (Hb _ _ E1). lia.
Qed.

Lemma cs_le p p' : spans_ok -> p <= p' -> cs p <= cs p'.
Proof.
  intros Hok Hle. destruct (Nat.eq_dec p p') as [->|Hne]; [lia|].
  destruct (Nat.lt_ge_cases p (length (toks cx))) as [Hp|Hp].
  - apply Nat.lt_le_incl. apply cs_lt; try assumption. lia.
  - destruct Hok as (Hl & _ & _). unfold cs.
    assert (E1 : nth_error (spans cx) p = None) by (apply nth_error_None; lia).
    assert (E2 : nth_error (spans cx) p' = None) by (apply nth_error_None; lia).
    rewrite E1, E2. lia.
Qed.

Record DInv (st : pstate) : Prop := mkDInv {
  d_esa : err_node st <> None -> esa st = true;
  d_sorted : StronglySorted lt (map d_start (diags st));
  d_bound : forall d, In d (diags st) -> d_start d <= cs (pos st) /\ (esa st = false -> d_start d < cs (pos st));
  d_span : forall d, In d (diags st) -> d_start d <= d_end d /\ d_end d <= max_off cx;
}.

(* statements without assertions and ordered choices *)
Fixpoint stmt_ok (s : stmt) : bool :=
  match s with
  | SAssert _ _ | SOrdChoice _ _ _ _ _ _ => false
  | SIfNotElide b | SLoop b => forallb stmt_ok b
  | SMatch arms d => forallb (fun a => forallb stmt_ok (snd a)) arms && forallb stmt_ok d
  | _ => true
  end.

Definition block_ok (b : list stmt) : bool := forallb stmt_ok b.

Definition prog_ok : bool :=
  forallb (fun rf => block_ok (fn_body (snd rf))
                     && match fn_rec (snd rf) with Some (_, b) => block_ok b | None => true end) (p_rules prog).


Hypothesis Hspans : spans_ok.

(* [Q]: the diagnostic invariant is carried from st to st' (given the runtime invariant at st
   and a defined ghost at st'), and the cursor does not move backwards *)
Definition Q (st st' : pstate) : Prop :=
  RInv st -> gh st' <> None -> DInv st -> DInv st' /\ pos st <= pos st'.

Lemma Q_refl st : Q st st.
Proof. intros _ _ H. split; [assumption|lia]. Qed.

Lemma Q_trans a b c : P a b -> P b c -> Q a b -> Q b c -> Q a c.
Proof.
  intros (A1 & A2 & A3) (B1 & B2 & B3) Qab Qbc Ra Hc Da.
  assert (Hb : gh b <> None) by (intro Hn; apply Hc; auto).
  destruct (Qab Ra Hb Da) as (Db & Hp1).
  destruct (Qbc (A3 Ra Hb) Hc Db) as (Dc & Hp2). split; [assumption|lia].
Qed.

(* states that agree on everything the diagnostic invariant mentions *)
Lemma same_diag_Q st st' :
  pos st' = pos st -> esa st' = esa st -> diags st' = diags st -> (err_node st' = err_node st \/ err_node st' = None) -> Q st st'.
Proof.
  intros Hp He Hd Hn _ _ [D1 D2 D3 D4]. split; [|lia]. constructor.
  - rewrite He. intros Hne. apply D1. destruct Hn as [Hn|Hn]; rewrite Hn in Hne; [assumption|contradiction].
  - rewrite Hd. assumption.
  - rewrite Hd, Hp, He. assumption.
  - rewrite Hd. assumption.
Qed.

Lemma StronglySorted_snoc l x : StronglySorted lt l -> (forall y, In y l -> y < x) -> StronglySorted lt (l ++ [x]).
Proof.
  induction 1 as [|a l Hs IH Hf]; intros Hx; cbn.
  - constructor; constructor.
  - constructor.
    + apply IH. intros y Hy. apply Hx. right. assumption.
    + apply Forall_app. split; [assumption|]. constructor; [|constructor]. apply Hx. left. reflexivity.
Qed.

Lemma p_span_bounds st : fst (p_span cx st) = cs (pos st) /\ fst (p_span cx st) <= snd (p_span cx st) /\ snd (p_span cx st) <= max_off cx.
Proof.
  unfold p_span, cs. destruct Hspans as (_ & _ & Hb).
  destruct (nth_error (spans cx) (pos st)) as [s|] eqn:E.
  - destruct (Hb _ _ E). repeat split; lia.
  - cbn. repeat split; lia.
Qed.

Lemma p_error_Q st m : Q st (p_error st (mk_diag cx st m)).
Proof.
  unfold p_error. destruct (active_error st) eqn:Ea; [apply Q_refl|].
  intros _ _ [D1 D2 D3 D4]. split; [|cbn; lia].
  unfold active_error in Ea. destruct (err_node st) eqn:En; [discriminate|].
  destruct (p_span_bounds st) as (S1 & S2 & S3).
  constructor; cbn [err_node esa diags pos].
  - reflexivity.
  - rewrite map_app. cbn [map]. apply StronglySorted_snoc; [assumption|].
    intros y Hy. apply in_map_iff in Hy. destruct Hy as (d & <- & Hd).
    unfold mk_diag. cbn [d_start]. rewrite S1. apply D3; assumption.
  - intros d Hd. apply in_app_or in Hd. destruct Hd as [Hd|[<-|[]]].
    + split; [apply D3; assumption|discriminate].
    + unfold mk_diag. cbn [d_start]. rewrite S1. split; [lia|discriminate].
  - intros d Hd. apply in_app_or in Hd. destruct Hd as [Hd|[<-|[]]]; [apply D4; assumption|].
    unfold mk_diag. cbn [d_start d_end]. lia.
Qed.

Lemma p_close_error_node_Q st st' : p_close_error_node st = Ok st' -> Q st st'.
Proof.
  unfold p_close_error_node. destruct (err_node st) as [m|] eqn:En.
  - destruct (c_close (cstd st) m kError); [|discriminate]. intros [= <-].
    apply same_diag_Q; cbn; auto.
  - intros [= <-]. apply Q_refl.
Qed.

Lemma p_open_Q st m st' : p_open st = Ok (m, st') -> Q st st'.
Proof.
  unfold p_open. destruct (p_close_error_node st) as [s|w] eqn:E1; [|discriminate].
  destruct (c_open (cstd s)) as [mk c']. intros [= <- <-].
  pose proof (p_close_error_node_Q _ _ E1) as Q1.
  intros R Hg D. destruct (p_close_error_node_P cx _ _ E1) as ((N1 & _ & R1) & _).
  assert (Hs : gh s <> None).
  { intro Hn. apply Hg. cbn [gh set_cst]. unfold gstep. rewrite Hn. reflexivity. }
  destruct (Q1 R Hs D) as ([D1 D2 D3 D4] & Hp). split; [|cbn; lia]. constructor; cbn; assumption.
Qed.

Lemma p_open_before_Q st x m st' : p_open_before st x = Ok (m, st') -> Q st st'.
Proof.
  unfold p_open_before. destruct (p_close_error_node st) as [s|w] eqn:E1; [|discriminate].
  destruct (c_open_before (cstd s) x) as [c'|]; [|discriminate]. intros [= <- <-].
  pose proof (p_close_error_node_Q _ _ E1) as Q1.
  intros R Hg D.
  assert (Hs : gh s <> None).
  { intro Hn. apply Hg. cbn [gh set_cst]. unfold gstep. rewrite Hn. reflexivity. }
  destruct (Q1 R Hs D) as ([D1 D2 D3 D4] & Hp). split; [|cbn; lia]. constructor; cbn; assumption.
Qed.

Lemma p_close_Q st x k m st' : p_close st x k = Ok (m, st') -> Q st st'.
Proof.
  unfold p_close. destruct (p_close_error_node st) as [s|w] eqn:E1; [|discriminate].
  destruct (c_close (cstd s) x k) as [c'|]; [|discriminate]. intros [= <- <-].
  pose proof (p_close_error_node_Q _ _ E1) as Q1.
  intros R Hg D.
  assert (Hs : gh s <> None).
  { intro Hn. apply Hg. cbn [gh set_cst]. unfold gstep. rewrite Hn. reflexivity. }
  destruct (Q1 R Hs D) as ([D1 D2 D3 D4] & Hp). split; [|cbn; lia]. constructor; cbn; assumption.
Qed.

Lemma p_mark_Q st m st' : p_mark st = Ok (m, st') -> Q st st'.
Proof.
  unfold p_mark. destruct (p_close_error_node st) as [s|w] eqn:E1; [|discriminate].
  intros [= <- <-]. apply p_close_error_node_Q. assumption.
Qed.

Lemma p_close_error_node_shape st s :
  p_close_error_node st = Ok s -> pos s = pos st /\ diags s = diags st /\ esa s = esa st /\ err_node s = None.
Proof.
  unfold p_close_error_node. destruct (err_node st) eqn:En.
  - destruct (c_close (cstd st) n kError); [|discriminate]. intros [= <-]. cbn. auto.
  - intros [= <-]. auto.
Qed.

(* shape of advance: the cursor was on a real token and moves forward *)
Lemma p_advance_shape st err st' :
  p_advance cx st err = Ok st' -> RInv st -> gh st' <> None ->
  pos st < length (toks cx) /\ pos st < pos st' /\ diags st' = diags st
  /\ (if err then err_node st' = err_node st /\ esa st' = esa st else err_node st' = None /\ esa st' = false).
Proof.
  unfold p_advance. intros H R Hg.
  set (pre := if err then Ok st else _) in H.
  destruct pre as [s|w] eqn:Epre; [|discriminate].
  assert (Hs : pos s = pos st /\ diags s = diags st /\ (gh st = None -> gh s = None)
               /\ (if err then err_node s = err_node st /\ esa s = esa st else err_node s = None /\ esa s = false)).
  { subst pre. destruct err.
    - injection Epre as <-. auto.
    - destruct (p_close_error_node st) as [s0|w] eqn:E0; [|discriminate]. injection Epre as <-.
      destruct (p_close_error_node_P cx _ _ E0) as ((N0 & _) & _ & _).
      destruct (p_close_error_node_shape _ _ E0) as (S1 & S2 & S3 & S4).
      cbn [pos diags gh err_node esa]. auto. }
  destruct Hs as (Hps & Hds & Hns & Hes).
  destruct (skip_loop cx (length (toks cx)) (S (pos s)) (c_advance (cstd s) (cur s) false)
              (if pos s <? length (toks cx) then gstep s (BAdvance (cur s) false) else None))
    as [[[p' t'] c'] g'] eqn:Esk.
  injection H as <-. cbn [gh pos diags err_node esa] in *.
  destruct (Nat.ltb_spec (pos s) (length (toks cx))) as [Hlt|Hge].
  2:{ exfalso. apply Hg. eapply skip_loop_none. eassumption. }
  destruct (skip_loop_spec cx _ _ _ _ _ _ _ _ Esk) as (A1 & _); [lia|lia|].
  rewrite <- Hps. repeat split; try lia; try assumption.
Qed.

Lemma p_advance_Q st err st' : p_advance cx st err = Ok st' -> Q st st'.
Proof.
  intros H R Hg [D1 D2 D3 D4].
  destruct (p_advance_shape _ _ _ H R Hg) as (Hlt & Hpp & Hd & He).
  pose proof (cs_lt _ _ Hspans Hpp Hlt) as Hcs.
  split; [|lia]. constructor.
  - destruct err; destruct He as (He1 & He2).
    + rewrite He1, He2. assumption.
    + rewrite He1. intros Hc. contradiction.
  - rewrite Hd. assumption.
  - rewrite Hd. intros d Hin. destruct (D3 d Hin) as (B1 & _). split; lia.
  - rewrite Hd. assumption.
Qed.

Lemma p_advance_with_error_Q st m st' : p_advance_with_error cx st m = Ok st' -> Q st st'.
Proof.
  unfold p_advance_with_error.
  set (s1 := p_error st (mk_diag cx st m)).
  pose proof (p_error_Q st m) as Q1. fold s1 in Q1.
  pose proof (p_error_P cx st (mk_diag cx st m)) as P1. fold s1 in P1.
  destruct (length (toks cx) <=? pos s1).
  - intros [= <-]. exact Q1.
  - intros H.
    destruct (err_node s1) as [e|] eqn:Ee.
    + eapply Q_trans; [exact P1|eapply p_advance_P; eassumption|exact Q1|eapply p_advance_Q; eassumption].
    + destruct (c_open (cstd s1)) as [mk c'] eqn:Eo.
      set (s2 := mkSt c' (pos s1) (cur s1) (Some mk) (in_choice s1) (esa s1) (diags s1) (log s1) (gstep s1 BOpen) (snaps s1)) in *.
      assert (P2 : P s1 s2).
      { eapply (step_P cx s1 BOpen c'); cbn [cstd gh pos cur snaps s2]; try reflexivity.
        - cbn [c_step]. rewrite Eo. reflexivity.
        - intros g _ _ _. unfold c_open in Eo. injection Eo as _ <-. cbn. split; [reflexivity|apply tok_cells_snoc_rule]. }
      assert (Q2 : Q s1 s2).
      { intros R Hg [D1 D2 D3 D4]. split; [|cbn; lia]. constructor; cbn [err_node esa diags pos s2]; try assumption.
        (* after error() the flag is set: either it was, or the diagnostic was pushed *)
        intros _. subst s1. unfold p_error in *. destruct (active_error st) eqn:Ea.
        - unfold active_error in Ea. rewrite Ee in Ea. exact Ea.
        - reflexivity. }
      eapply Q_trans; [exact P1|eapply P_trans; [exact P2|eapply p_advance_P; eassumption]|exact Q1|].
      eapply Q_trans; [exact P2|eapply p_advance_P; eassumption|exact Q2|eapply p_advance_Q; eassumption].
Qed.

(* ---------- every statement carries the diagnostic invariant ---------- *)
Hypothesis Hprog : prog_ok = true.

Definition rec_ok (rec_of : option (bool * bool * list stmt)) : Prop :=
  match rec_of with Some (_, _, body) => block_ok body = true | None => True end.

Definition fn_ok (f : rule_fn) : Prop :=
  block_ok (fn_body f) = true /\ match fn_rec f with Some (_, b) => block_ok b = true | None => True end.

Lemma find_rule_ok r f : find_rule prog r = Some f -> fn_ok f.
Proof.
  unfold find_rule. destruct (find (fun x => Nat.eqb (fst x) r) (p_rules prog)) as [x|] eqn:E; [|discriminate].
  intros [= <-]. apply find_some in E. destruct E as (Hin & _).
  unfold prog_ok in Hprog. rewrite forallb_forall in Hprog. specialize (Hprog _ Hin).
  apply andb_prop in Hprog. destruct Hprog as (H1 & H2). split; [assumption|].
  clear Hprog. unfold rid in *. destruct (fn_rec (snd x)) as [[hb b]|]; [exact H2|exact I].
Qed.

Lemma same_Q st st' :
  pos st' = pos st -> esa st' = esa st -> diags st' = diags st -> err_node st' = err_node st -> Q st st'.
Proof. intros. apply same_diag_Q; auto. Qed.

Opaque p_get_state p_set_state p_release p_error p_advance p_advance_with_error p_open p_open_before p_close p_mark
       p_close_error_node add_event set_in_choice push_assert_diag find_rule deletable tok_in env_get env_set env_leave
       active_error mk_diag.

Theorem exec_Q : forall fuel,
  (forall rec_of s e st o e' st',
      exec cx prog orc fuel rec_of s e st = XOk (o, e', st') -> stmt_ok s = true -> rec_ok rec_of -> Q st st')
  /\ (forall rec_of b e st o e' st',
      exec_block cx prog orc fuel rec_of b e st = XOk (o, e', st') -> block_ok b = true -> rec_ok rec_of -> Q st st')
  /\ (forall rec_of n l e st o e' st',
      exec_seq cx prog orc fuel rec_of n l e st = XOk (o, e', st') -> block_ok l = true -> rec_ok rec_of -> Q st st')
  /\ (forall f st some st',
      call_fn cx prog orc fuel f st = XOk (some, st') -> fn_ok f -> Q st st').
Proof.
  induction fuel as [|fuel IH].
  { repeat split; intros; discriminate. }
  destruct IH as (IHe & IHb & IHs & IHc).
  destruct (exec_P cx prog orc fuel) as (Pe & Pb & Ps & _ & Pc).
  split; [|split; [|split]].
  - intros rec_of s e st o e' st' H Hok Hrec.
    destruct s; simpl in H; try discriminate Hok.
    + (* SExpect *)
      destruct (Nat.eqb (cur st) t).
      * destruct (p_advance cx st false) as [s1|w] eqn:E; [|discriminate]. injection H as _ _ <-.
        eapply p_advance_Q. eassumption.
      * destruct (try_ && in_choice st); injection H as _ _ <-; [apply Q_refl|apply p_error_Q].
    + (* SCall *)
      destruct (find_rule prog r) as [f|] eqn:Ef; [|discriminate].
      destruct (call_fn cx prog orc fuel f st) as [[some s1]| | |] eqn:E; try discriminate.
      apply IHc in E; [|eapply find_rule_ok; eassumption].
      destruct (q && negb some); injection H as _ _ <-; assumption.
    + (* SRec *)
      destruct rec_of as [[[opt hb] body]|]; [|discriminate].
      destruct (env_get e v) as [mk|]; [|discriminate].
      match type of H with match ?x with _ => _ end = _ => destruct x as [[[o1 e1] s1]| | |] eqn:E; try discriminate end.
      apply IHb in E; [|exact Hrec|exact Hrec].
      match type of H with (if ?c then _ else _) = _ => destruct c end; injection H as _ _ <-; assumption.
    + destruct (p_mark st) as [[mk s1]|w] eqn:E; [|discriminate]. injection H as _ _ <-.
      eapply p_mark_Q. eassumption.
    + destruct (p_open st) as [[mk s1]|w] eqn:E; [|discriminate]. injection H as _ _ <-.
      eapply p_open_Q. eassumption.
    + destruct (env_get e v) as [x|]; [|discriminate].
      destruct (p_open_before st x) as [[mk s1]|w] eqn:E; [|discriminate]. injection H as _ _ <-.
      eapply p_open_before_Q. eassumption.
    + injection H as _ _ <-. apply Q_refl.
    + destruct (env_set e VElide 1); [|discriminate]. injection H as _ _ <-. apply Q_refl.
    + destruct decl.
      * injection H as _ _ <-. apply Q_refl.
      * destruct (env_set e VKind k); [|discriminate]. injection H as _ _ <-. apply Q_refl.
    + (* SClose *)
      destruct (env_get e VM) as [m|]; [|discriminate].
      destruct (match k with Some k0 => Some k0 | None => env_get e VKind end) as [k0|]; [|discriminate].
      destruct (p_close st m k0) as [[closed s1]|w] eqn:E; [|discriminate].
      pose proof (p_close_Q _ _ _ _ _ E) as Q1.
      destruct (p_close_P cx _ _ _ _ _ E) as (P1 & _ & _).
      assert (Q st (add_event s1 (ECreate k0 closed))).
      { eapply Q_trans; [exact P1|apply add_event_P|exact Q1|apply same_Q; reflexivity]. }
      destruct assign_lhs.
      * destruct (env_set e VLhs closed); [|discriminate]. injection H as _ _ <-. assumption.
      * injection H as _ _ <-. assumption.
    + (* SIfNotElide *)
      destruct (env_get e VElide) as [[|n]|]; [| |discriminate].
      * eapply IHb; eassumption.
      * injection H as _ _ <-. apply Q_refl.
    + (* SCreate *)
      destruct (env_get e v) as [x|]; [|discriminate].
      destruct (p_open_before st x) as [[on s1]|w] eqn:E1; [|discriminate].
      destruct (p_close s1 on k) as [[c2 s2]|w] eqn:E2; [|discriminate].
      injection H as _ _ <-.
      destruct (p_open_before_P cx _ _ _ _ E1) as (P1 & _ & _). destruct (p_close_P cx _ _ _ _ _ E2) as (P2 & _ & _).
      eapply Q_trans; [exact P1|eapply P_trans; [exact P2|apply add_event_P]|eapply p_open_before_Q; eassumption|].
      eapply Q_trans; [exact P2|apply add_event_P|eapply p_close_Q; eassumption|apply same_Q; reflexivity].
    + injection H as _ _ <-. apply same_Q; reflexivity.
    + injection H as _ _ <-. apply same_Q; reflexivity.
    + (* SMatch *)
      eapply IHb; [eassumption| |assumption].
      simpl in Hok. apply andb_prop in Hok. destruct Hok as (Ha & Hd).
      clear H. induction arms as [|[[pats g] body] r IHr]; [exact Hd|].
      cbn in Ha. apply andb_prop in Ha. destruct Ha as (Ha1 & Ha2).
      destruct (tok_in (cur st) pats && match g with None => true | Some GTrue => true | Some (GPred n) => o_pred orc n st end).
      * exact Ha1.
      * apply IHr. assumption.
    + (* SLoop *)
      destruct (exec_block cx prog orc fuel rec_of b e st) as [[[o1 e1] s1]| | |] eqn:E; try discriminate.
      pose proof (Pb _ _ _ _ _ _ _ E) as P1.
      apply IHb in E; [|exact Hok|exact Hrec].
      destruct o1.
      * eapply Q_trans; [exact P1|eapply Pe; eassumption|exact E|eapply IHe; eassumption].
      * injection H as _ _ <-. assumption.
      * eapply Q_trans; [exact P1|eapply Pe; eassumption|exact E|eapply IHe; eassumption].
      * injection H as _ _ <-. assumption.
      * injection H as _ _ <-. assumption.
    + injection H as _ _ <-. apply Q_refl.
    + injection H as _ _ <-. apply Q_refl.
    + destruct (env_get e VMinBp) as [mb|]; [|discriminate].
      destruct (n <? mb); injection H as _ _ <-; apply Q_refl.
    + (* SReturnIfError *)
      destruct (active_error st).
      * destruct e0.
        -- destruct (env_get e VM) as [m|]; [|discriminate].
           destruct (p_close st m kError) as [[closed s1]|w] eqn:E; [|discriminate]. injection H as _ _ <-.
           destruct (p_close_P cx _ _ _ _ _ E) as (P1 & _ & _).
           eapply Q_trans; [exact P1|apply add_event_P|eapply p_close_Q; eassumption|apply same_Q; reflexivity].
        -- injection H as _ _ <-. apply Q_refl.
        -- destruct (env_get e VElide) as [[|n]|]; [| |discriminate].
           ++ destruct (env_get e VStart) as [x|]; [|discriminate].
              destruct (p_open_before st x) as [[m s1]|w] eqn:E1; [|discriminate].
              destruct (p_close s1 m kError) as [[closed s2]|w] eqn:E2; [|discriminate].
              injection H as _ _ <-.
              destruct (p_open_before_P cx _ _ _ _ E1) as (P1 & _ & _). destruct (p_close_P cx _ _ _ _ _ E2) as (P2 & _ & _).
              eapply Q_trans; [exact P1|eapply P_trans; [exact P2|apply add_event_P]|eapply p_open_before_Q; eassumption|].
              eapply Q_trans; [exact P2|apply add_event_P|eapply p_close_Q; eassumption|apply same_Q; reflexivity].
           ++ destruct (env_get e VStart); [|discriminate]. injection H as _ _ <-. apply Q_refl.
      * injection H as _ _ <-. apply Q_refl.
    + injection H as _ _ <-. apply p_error_Q.
    + destruct (p_advance_with_error cx st m) as [s1|w] eqn:E; [|discriminate]. injection H as _ _ <-.
      eapply p_advance_with_error_Q. eassumption.
    + destruct (in_choice st); injection H as _ _ <-; apply Q_refl.
  - intros rec_of b e st o e' st' H Hok Hrec. simpl in H. eapply IHs; eassumption.
  - intros rec_of n l e st o e' st' H Hok Hrec.
    destruct l as [|s r]; simpl in H.
    + injection H as _ _ <-. apply Q_refl.
    + cbn in Hok. apply andb_prop in Hok. destruct Hok as (Hs & Hr).
      destruct (exec cx prog orc fuel rec_of s e st) as [[[o1 e1] s1]| | |] eqn:E; try discriminate.
      pose proof (Pe _ _ _ _ _ _ _ E) as P1.
      apply IHe in E; [|exact Hs|exact Hrec].
      destruct o1; try (injection H as _ _ <-; assumption).
      eapply Q_trans; [exact P1|eapply Ps; eassumption|exact E|eapply IHs; eassumption].
  - intros f st some st' H (Hb & Hr). cbn [call_fn] in H.
    match type of H with match ?x with _ => _ end = _ => destruct x as [[[o1 e1] s1]| | |] eqn:E; try discriminate end.
    injection H as _ <-. eapply IHb; [eassumption|assumption|].
    unfold rec_ok. destruct (fn_rec f) as [[hb b]|]; auto.
Qed.

Transparent p_get_state p_set_state p_release p_error p_advance p_advance_with_error p_open p_open_before p_close p_mark
       p_close_error_node add_event set_in_choice push_assert_diag find_rule deletable tok_in env_get env_set env_leave
       active_error mk_diag.

Lemma p_open_shape st m st' : p_open st = Ok (m, st') -> diags st' = diags st /\ gh st' = None -> gh st' = None.
Proof. tauto. Qed.

Lemma p_open_diags st m st' : p_open st = Ok (m, st') -> diags st' = diags st.
Proof.
  unfold p_open. destruct (p_close_error_node st) as [s|w] eqn:E1; [|discriminate].
  destruct (c_open (cstd s)) as [mk c']. intros [= <- <-]. cbn.
  destruct (p_close_error_node_shape _ _ E1) as (_ & Hd & _). assumption.
Qed.

Theorem diag_monotone fuel r root msg st :
  parse_entry cx prog orc fuel r root msg = XOk st ->
  gh st <> None ->
  StronglySorted lt (map d_start (diags st))
  /\ forall d, In d (diags st) -> d_start d <= d_end d /\ d_end d <= max_off cx.
Proof.
  unfold parse_entry.
  destruct (p_open_init) as (st0 & E0 & g0 & G0 & I0 & Hp0 & Ht0 & Hc0 & Hs0).
  assert (F0 : diags st0 = [] /\ esa st0 = false /\ err_node st0 = None).
  { cbn in E0. injection E0 as <-. cbn. auto. }
  rewrite E0.
  destruct (find_rule prog r) as [f|] eqn:Ef; [|discriminate].
  set (st1 := p_init_skip cx st0).
  assert (F1 : diags st1 = [] /\ esa st1 = false /\ err_node st1 = None).
  { subst st1. unfold p_init_skip.
    destruct (skip_loop cx (length (toks cx)) (pos st0) (cstd st0) (gh st0)) as [[[p' t'] c'] g']. cbn. exact F0. }
  assert (H1 : gh st1 <> None -> RInv st1).
  { intros Hne. subst st1. unfold p_init_skip in *.
    destruct (skip_loop cx (length (toks cx)) (pos st0) (cstd st0) (gh st0)) as [[[p' t'] c'] g'] eqn:Esk.
    cbn [gh snaps] in *. rewrite G0, Hp0 in Esk.
    destruct (skip_loop_spec cx _ _ _ _ _ _ _ _ Esk) as (A1 & A2 & A3 & A4 & A5); [lia|lia|].
    destruct (A5 (snaps st0) g0 eq_refl I0 Ht0) as (g1 & -> & HI1 & Htc1 & Hc1); [rewrite Hc0; reflexivity|assumption|].
    apply (RInv_intro cx _ g1); cbn [gh cstd snaps pos cur]; [reflexivity|assumption| |exact A3].
    unfold tok_ok. cbn [cstd pos]. auto. }
  assert (D1 : DInv st1).
  { destruct F1 as (Fd & Fe & Fn). constructor.
    - rewrite Fn. intros Hc. contradiction.
    - rewrite Fd. constructor.
    - rewrite Fd. intros d [].
    - rewrite Fd. intros d []. }
  destruct (call_fn cx prog orc fuel f st1) as [[some st2]| | |] eqn:Ec; try discriminate.
  destruct (exec_P cx prog orc fuel) as (_ & _ & _ & _ & Pc).
  destruct (exec_Q fuel) as (_ & _ & _ & Qc).
  pose proof (Pc _ _ _ _ Ec) as P12.
  pose proof (Qc _ _ _ _ Ec (find_rule_ok _ _ Ef)) as Q12.
  destruct (p_close_error_node st2) as [st3|w] eqn:E3; [|discriminate].
  destruct (p_close_error_node_P cx _ _ E3) as (P23 & _ & _).
  pose proof (p_close_error_node_Q _ _ E3) as Q23.
  pose proof (Q_trans _ _ _ P12 P23 Q12 Q23) as Q13.
  pose proof (P_trans cx _ _ _ P12 P23) as P13.
  match goal with |- match ?x with _ => _ end = _ -> _ => destruct x as [st7|w] eqn:E7; [|discriminate] end.
  destruct (c_close_root (cstd st7) 0 root) as [c8|w] eqn:E8; [|discriminate].
  intros [= <-]. cbn [gh add_event set_cst cstd diags].
  intros Hne.
  destruct (gh st7) as [g7|] eqn:G7; [|contradiction].
  destruct (Nat.eqb_spec (pos st3) (length (toks cx))) as [Heq|Hneq].
  - injection E7 as <-.
    assert (Hg3 : gh st3 <> None) by (rewrite G7; discriminate).
    assert (Hg1 : gh st1 <> None) by (intro Hb; apply Hg3; destruct P13 as (N & _); auto).
    destruct (Q13 (H1 Hg1) Hg3 D1) as ([_ Ds _ Dsp] & _). split; assumption.
  - set (st4 := p_error st3 (mk_diag cx st3 msg)) in *.
    destruct (p_open st4) as [[et st5]|w] eqn:E5; [|discriminate].
    destruct (drain_toks cx (skipn (pos st5) (toks cx)) (cstd st5) (gh st5)) as [c6 g6] eqn:E6.
    match type of E7 with match ?x with _ => _ end = _ => destruct x as [c7|w] eqn:Ec7; [|discriminate] end.
    injection E7 as <-. cbn [gh add_event set_cst cstd snaps diags] in *.
    unfold gstep in G7. cbn [gh cstd] in G7.
    destruct g6 as [g6|]; [|discriminate].
    assert (Hg5 : gh st5 <> None).
    { intro Hb. rewrite Hb in E6. apply drain_none in E6. discriminate. }
    destruct (p_open_P cx _ _ _ E5) as ((N45 & _) & _ & _).
    pose proof (p_error_P cx st3 (mk_diag cx st3 msg)) as P34. fold st4 in P34.
    assert (Hg4 : gh st4 <> None) by (intro Hb; apply Hg5; auto).
    assert (Hg3 : gh st3 <> None) by (intro Hb; apply Hg4; destruct P34 as (N & _); auto).
    assert (Hg1 : gh st1 <> None) by (intro Hb; apply Hg3; destruct P13 as (N & _); auto).
    destruct (Q13 (H1 Hg1) Hg3 D1) as (D3 & _).
    destruct P13 as (_ & _ & R13).
    pose proof (p_error_Q st3 msg) as Q34. fold st4 in Q34.
    destruct (Q34 (R13 (H1 Hg1) Hg3) Hg4 D3) as ([_ Ds _ Dsp] & _).
    rewrite (p_open_diags _ _ _ E5). split; assumption.
Qed.

End DM.
