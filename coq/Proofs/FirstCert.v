(* C09, first sets: boolean certificates for the hypotheses of the soundness and
   completeness theorems (unique node ids, every node productive), their
   reflection lemmas, and the combined theorem. *)
From Coq Require Import List Arith Lia Bool.
From LV Require Import Sema SetLemmas FirstSpec FirstComplete FirstSound FirstClosed.
Import ListNotations.

Section Cert.
Variable g : grammar.

(* ---------- unique ids ---------- *)
Fixpoint nodup_b (l : list nat) : bool :=
  match l with [] => true | x :: r => negb (existsb (Nat.eqb x) r) && nodup_b r end.

Lemma nodup_b_spec l : nodup_b l = true -> NoDup l.
Proof.
  induction l as [|x r IH]; cbn [nodup_b]; intros H; [constructor|].
  apply andb_prop in H. destruct H as (H1 & H2). constructor; [|auto].
  intros Hin. apply negb_true_iff in H1.
  assert (existsb (Nat.eqb x) r = true); [|congruence].
  apply existsb_exists. exists x. split; [assumption|apply Nat.eqb_refl].
Qed.

Definition wf_ids_b : bool := nodup_b (map rid_of (nodes_of g)).

Lemma wf_ids_b_spec : wf_ids_b = true -> wf_ids g.
Proof. apply nodup_b_spec. Qed.

(* ---------- productivity ---------- *)
Definition memn (x : nat) (l : list nat) : bool := existsb (Nat.eqb x) l.

Fixpoint prod_regex (P : list nat) (x : regex) : bool :=
  match x with
  | RTok _ _ => true
  | RRule _ r => match body_of g r with Some _ => memn r P | None => true end
  | RCat _ ops => forallb (prod_regex P) ops
  | RAlt _ ops | RChoice _ ops => existsb (prod_regex P) ops
  | RStar _ _ | ROpt _ _ => true
  | RPlus _ o => prod_regex P o
  | RParen _ None => true
  | RParen _ (Some o) => prod_regex P o
  | RLeaf _ _ => true
  end.

Definition prod_step (P : list nat) : list nat :=
  filter (fun r => match body_of g r with Some b => prod_regex P b | None => false end)
         (seq 0 (length (g_rules g))).

Fixpoint prod_iter (n : nat) (P : list nat) : list nat :=
  match n with 0 => P | S n => prod_iter n (prod_step P) end.

Definition prod_rules : list nat := prod_iter (length (g_rules g)) [].

Definition productive_b : bool := forallb (prod_regex prod_rules) (nodes_of g).

Definition Pinv (P : list nat) : Prop :=
  forall r, memn r P = true -> exists b w, body_of g r = Some b /\ derives g b w.

Lemma derives_list_all ops :
  Forall (fun x => exists w, derives g x w) ops -> exists w, derives_list g ops w.
Proof.
  induction 1 as [|x r (w1 & H1) _ (w2 & H2)]; [exists []; constructor|].
  exists (w1 ++ w2). constructor; assumption.
Qed.

Lemma prod_regex_sound P : Pinv P -> forall x, prod_regex P x = true -> exists w, derives g x w.
Proof.
  intros HP.
  induction x as [i t|i r|i ops IH|i ops IH|i ops IH|i o IH|i o IH|i o IH|i|i o IH|i k] using regex_ind';
    cbn [prod_regex]; intros H.
  - exists [t]. constructor.
  - destruct (body_of g r) as [b|] eqn:Eb.
    + destruct (HP r H) as (b' & w & Hb & Hd). rewrite Eb in Hb. injection Hb as <-.
      exists w. econstructor; eassumption.
    + exists []. apply D_rule_empty. assumption.
  - rewrite forallb_forall in H. rewrite Forall_forall in IH.
    destruct (derives_list_all ops) as (w & Hw).
    { apply Forall_forall. intros o Ho. apply IH; auto. }
    exists w. constructor. assumption.
  - apply existsb_exists in H. destruct H as (o & Ho & H). rewrite Forall_forall in IH.
    destruct (IH o Ho H) as (w & Hw). exists w. econstructor; eassumption.
  - apply existsb_exists in H. destruct H as (o & Ho & H). rewrite Forall_forall in IH.
    destruct (IH o Ho H) as (w & Hw). exists w. econstructor; eassumption.
  - exists []. constructor. constructor.
  - destruct (IH H) as (w & Hw). exists (w ++ []). constructor; [assumption|constructor].
  - exists []. constructor.
  - exists []. constructor.
  - destruct (IH H) as (w & Hw). exists w. constructor. assumption.
  - exists []. constructor.
Qed.

Lemma prod_step_inv P : Pinv P -> Pinv (prod_step P).
Proof.
  intros HP r Hr. unfold memn in Hr. apply existsb_exists in Hr. destruct Hr as (r' & Hin & He).
  apply Nat.eqb_eq in He. subst r'. unfold prod_step in Hin. apply filter_In in Hin.
  destruct Hin as (_ & Hb). destruct (body_of g r) as [b|] eqn:Eb; [|discriminate].
  destruct (prod_regex_sound P HP b Hb) as (w & Hw). exists b, w. auto.
Qed.

Lemma prod_iter_inv n : forall P, Pinv P -> Pinv (prod_iter n P).
Proof. induction n as [|n IH]; intros P HP; cbn [prod_iter]; [assumption|]. apply IH, prod_step_inv, HP. Qed.

Lemma productive_b_spec : productive_b = true -> productive g.
Proof.
  unfold productive_b, productive. intros H x Hx. rewrite forallb_forall in H.
  apply (prod_regex_sound prod_rules); [|auto].
  apply prod_iter_inv. intros r Hr. discriminate.
Qed.

(* ---------- the combined statement ---------- *)
Theorem first_exact fuel m :
  wf_ids_b = true -> productive_b = true ->
  calc_first g fuel = Some m -> first_closed g m = true ->
  forall x, In x (nodes_of g) ->
    (forall a, mem (T a) (get m (rid_of x)) = true <-> First_spec g x a)
    /\ (mem Eps (get m (rid_of x)) = true <-> Nullable_spec g x).
Proof.
  intros Hw Hp Hc Hcl x Hx.
  destruct (first_sound g (wf_ids_b_spec Hw) (productive_b_spec Hp) fuel m x Hc Hx) as (S1 & S2).
  destruct (first_complete g m Hcl x Hx) as (C1 & C2).
  split; [intros a|]; split; auto.
Qed.

(* the closure hypothesis is itself a theorem (FirstClosed.calc_first_closed) *)
Theorem first_exact_any fuel m :
  wf_ids_b = true -> productive_b = true ->
  calc_first g fuel = Some m ->
  forall x, In x (nodes_of g) ->
    (forall a, mem (T a) (get m (rid_of x)) = true <-> First_spec g x a)
    /\ (mem Eps (get m (rid_of x)) = true <-> Nullable_spec g x).
Proof. intros Hw Hp Hc. eapply first_exact; try eassumption. eapply calc_first_closed. eassumption. Qed.

End Cert.
