(* Facts about the list-based sets and association-list maps of Sema.v. *)
From Coq Require Import List Arith Lia Bool.
From LV Require Import Sema.
Import ListNotations.

Lemma sym_eqb_eq a b : sym_eqb a b = true <-> a = b.
Proof.
  destruct a as [|x], b as [|y]; cbn; split; intros H; try discriminate; try reflexivity.
  - apply Nat.eqb_eq in H. congruence.
  - injection H as ->. apply Nat.eqb_refl.
Qed.

Lemma sym_eqb_refl a : sym_eqb a a = true.
Proof. apply sym_eqb_eq. reflexivity. Qed.

Lemma mem_In x s : mem x s = true <-> In x s.
Proof.
  unfold mem. rewrite existsb_exists. split.
  - intros (y & Hy & He). apply sym_eqb_eq in He. subst. assumption.
  - intros H. exists x. split; [assumption|apply sym_eqb_refl].
Qed.

Lemma mem_add x y s : mem x (add y s) = true <-> x = y \/ mem x s = true.
Proof.
  unfold add. destruct (mem y s) eqn:E.
  - split; [auto|]. intros [->|H]; assumption.
  - rewrite !mem_In, in_app_iff. cbn. intuition.
Qed.

Lemma mem_union x s1 s2 : mem x (union s1 s2) = true <-> mem x s1 = true \/ mem x s2 = true.
Proof.
  unfold union. revert s1. induction s2 as [|y s2 IH]; intros s1; cbn [fold_left].
  - cbn. intuition discriminate.
  - rewrite IH, mem_add. cbn [mem existsb]. rewrite orb_true_iff, sym_eqb_eq.
    change (existsb (sym_eqb x) s2) with (mem x s2). intuition.
Qed.

Lemma mem_remove x y s : mem x (remove y s) = true <-> x <> y /\ mem x s = true.
Proof.
  unfold remove. rewrite !mem_In, filter_In. rewrite negb_true_iff.
  split.
  - intros (H1 & H2). split; [|assumption]. intros ->. rewrite sym_eqb_refl in H2. discriminate.
  - intros (H1 & H2). split; [assumption|]. destruct (sym_eqb y x) eqn:E; [|reflexivity].
    apply sym_eqb_eq in E. congruence.
Qed.

Lemma subset_spec s1 s2 : subset s1 s2 = true <-> forall x, mem x s1 = true -> mem x s2 = true.
Proof.
  unfold subset. rewrite forallb_forall. split.
  - intros H x Hx. apply H. apply mem_In. assumption.
  - intros H x Hx. apply H. apply mem_In. assumption.
Qed.

(* maps *)
Lemma get_put_same m k v : get (put m k v) k = v.
Proof.
  induction m as [|[k' v'] r IH]; cbn.
  - rewrite Nat.eqb_refl. reflexivity.
  - destruct (Nat.eqb_spec k k') as [->|Hne]; cbn.
    + rewrite Nat.eqb_refl. reflexivity.
    + destruct (Nat.eqb_spec k k'); [contradiction|]. assumption.
Qed.

Lemma get_put_other m k k' v : k' <> k -> get (put m k v) k' = get m k'.
Proof.
  intros Hne. induction m as [|[k0 v0] r IH]; cbn.
  - destruct (Nat.eqb_spec k' k); [contradiction|reflexivity].
  - destruct (Nat.eqb_spec k k0) as [->|Hn0]; cbn.
    + destruct (Nat.eqb_spec k' k0); [contradiction|reflexivity].
    + destruct (Nat.eqb_spec k' k0); [reflexivity|assumption].
Qed.

Lemma get_upd_same m k f : get (upd m k f) k = f (get m k).
Proof. unfold upd. apply get_put_same. Qed.

Lemma get_upd_other m k k' f : k' <> k -> get (upd m k f) k' = get m k'.
Proof. unfold upd. apply get_put_other. Qed.
