(* Theorems about the lexer model (Model/Lexer.v), for ALL texts (lists of code points), no bound:

   tiling    the token spans of `lex t` are contiguous, start at byte 0, end at the UTF-8 byte length
             of t, every token is non-empty, every span boundary is the byte length of a prefix of t
             (a character boundary);
   diag      every lexer diagnostic (invalid token, unterminated string literal / comment, invalid
             escape sequence with check_string's arithmetic `start+i-1 .. start+i+len`) has a
             non-empty span inside the text on character boundaries;
   lossless  the lexemes of `lex t` concatenate to t, and so do the slices of t cut out by the
             token spans.
   Fuel: `chunks` runs `chunks_fuel` with fuel = length t; it never runs out (each token consumes at
   least one character), see `chunks_fuel_enough` / `chunks_cons`. *)
From Coq Require Import List NArith Arith Bool Lia.
From LV Require Import Lexer.
Import ListNotations.

(* ---------------------------------------------------------------- bytes *)

Lemma utf8_len_bounds : forall c, 1 <= utf8_len c <= 4.
Proof.
  intro c. unfold utf8_len.
  destruct (c <? 128)%N; [lia|]. destruct (c <? 2048)%N; [lia|]. destruct (c <? 65536)%N; lia.
Qed.

Lemma blen_app : forall a b, blen (a ++ b) = blen a + blen b.
Proof. induction a as [|c a IH]; intro b; simpl; [reflexivity|]. rewrite IH. lia. Qed.

Lemma blen_cons_pos : forall c r, 0 < blen (c :: r).
Proof. intros c r. simpl. pose proof (utf8_len_bounds c). lia. Qed.

Lemma blen_nonempty_pos : forall l, l <> [] -> 0 < blen l.
Proof. intros [|c r] H; [congruence|apply blen_cons_pos]. Qed.

Lemma firstn_length_app : forall (a b : text), firstn (length a) (a ++ b) = a.
Proof. induction a as [|c a IH]; intro b; simpl; [reflexivity|]. rewrite IH. reflexivity. Qed.

Lemma skipn_length_app : forall (a b : text), skipn (length a) (a ++ b) = b.
Proof. induction a as [|c a IH]; intro b; simpl; [reflexivity|]. apply IH. Qed.

(* ---------------------------------------------------------------- the token loop never runs out of fuel *)

Lemma chunks_fuel_indep : forall f1 f2 t, length t <= f1 -> length t <= f2 -> chunks_fuel f1 t = chunks_fuel f2 t.
Proof.
  induction f1 as [|f1 IH]; intros f2 t H1 H2.
  - destruct t; simpl in H1; [|lia]. destruct f2; reflexivity.
  - destruct t as [|c r]; [destruct f2; reflexivity|].
    destruct f2 as [|f2]; [simpl in H2; lia|].
    simpl. destruct (next_token c r) as [res n]. f_equal.
    apply IH; rewrite skipn_length; simpl in H1, H2; lia.
Qed.

Lemma chunks_fuel_enough : forall fuel t, length t <= fuel -> chunks_fuel fuel t = chunks t.
Proof. intros fuel t H. unfold chunks. apply chunks_fuel_indep; [exact H|lia]. Qed.

Lemma chunks_nil : chunks [] = [].
Proof. reflexivity. Qed.

Lemma chunks_cons : forall c r,
  chunks (c :: r) = mkchunk (fst (next_token c r)) (c :: firstn (snd (next_token c r)) r)
                    :: chunks (skipn (snd (next_token c r)) r).
Proof.
  intros c r. unfold chunks at 1. simpl. destruct (next_token c r) as [res n]. simpl. f_equal.
  apply chunks_fuel_enough. rewrite skipn_length. lia.
Qed.

Lemma chunks_fuel_concat : forall fuel t, length t <= fuel -> concat (map ck_lexeme (chunks_fuel fuel t)) = t.
Proof.
  induction fuel as [|fuel IH]; intros t H.
  - destruct t; simpl in *; [reflexivity|lia].
  - destruct t as [|c r]; simpl; [reflexivity|].
    destruct (next_token c r) as [res n]. simpl. rewrite IH.
    + rewrite firstn_skipn. reflexivity.
    + rewrite skipn_length. simpl in H. lia.
Qed.

Lemma chunks_fuel_nonempty : forall fuel t, Forall (fun ch => ck_lexeme ch <> []) (chunks_fuel fuel t).
Proof.
  induction fuel as [|fuel IH]; intro t; simpl; [constructor|].
  destruct t as [|c r]; [constructor|]. destruct (next_token c r) as [res n].
  constructor; [simpl; discriminate|apply IH].
Qed.

(* lossless, on lexemes *)
Theorem chunks_lossless : forall t, concat (map ck_lexeme (chunks t)) = t.
Proof. intro t. apply chunks_fuel_concat. lia. Qed.

Lemma chunks_nonempty : forall t, Forall (fun ch => ck_lexeme ch <> []) (chunks t).
Proof. intro t. apply chunks_fuel_nonempty. Qed.

(* ---------------------------------------------------------------- spans *)

Definition tok_kind (x : tok) : kind := fst (fst x).
Definition tok_start (x : tok) : nat := snd (fst x).
Definition tok_end (x : tok) : nat := snd x.
Definition d_kind (d : diag) : dkind := fst (fst d).
Definition d_start (d : diag) : nat := snd (fst d).
Definition d_end (d : diag) : nat := snd d.

(* contiguous, non-empty spans from p to e *)
Fixpoint tiles (p : nat) (ts : list tok) (e : nat) : Prop :=
  match ts with
  | [] => p = e
  | x :: r => tok_start x = p /\ p < tok_end x /\ tiles (tok_end x) r e
  end.

(* a character boundary of t: the byte length of a prefix (in code points) of t *)
Definition boundary (t : text) (b : nat) : Prop := exists k, b = blen (firstn k t).

Lemma boundary_prefix : forall pre x, boundary (pre ++ x) (blen pre).
Proof. intros pre x. exists (length pre). rewrite firstn_length_app. reflexivity. Qed.

Lemma boundary_le : forall t b, boundary t b -> b <= blen t.
Proof.
  intros t b [k ->]. rewrite <- (firstn_skipn k t) at 2. rewrite blen_app. lia.
Qed.

Lemma boundary_zero : forall t, boundary t 0.
Proof. intro t. exists 0. reflexivity. Qed.

Lemma boundary_end : forall t, boundary t (blen t).
Proof. intro t. exists (length t). rewrite firstn_all. reflexivity. Qed.

Definition span_ok (t : text) (s e : nat) : Prop := s < e /\ e <= blen t /\ boundary t s /\ boundary t e.

(* ---------------------------------------------------------------- check_string's spans *)

Lemma check_str_spans : forall n s done rest off,
  length s <= n -> off = blen done ->
  Forall (fun d => span_ok (done ++ s ++ rest) (d_start d) (d_end d) /\ d_kind d = DInvalidEscape) (check_str off s).
Proof.
  induction n as [|n IH]; intros s done rest off Hlen Hoff.
  - destruct s; simpl in Hlen; [constructor|lia].
  - destruct s as [|c s']; [constructor|].
    simpl check_str. destruct (N.eqb_spec c 92) as [Hc|Hc].
    + destruct s' as [|d s'']; [constructor|].
      assert (Hrec : Forall (fun x => span_ok ((done ++ [c; d]) ++ s'' ++ rest) (d_start x) (d_end x) /\ d_kind x = DInvalidEscape)
                            (check_str (utf8_len d + (utf8_len c + off)) s'')).
      { apply IH; [simpl in Hlen; lia|]. subst off. rewrite blen_app. simpl. lia. }
      replace ((done ++ [c; d]) ++ s'' ++ rest) with (done ++ (c :: d :: s'') ++ rest) in Hrec
        by (rewrite <- app_assoc; reflexivity).
      destruct ((d =? 39)%N || (d =? 92)%N); [exact Hrec|].
      constructor; [|exact Hrec].
      split; [|reflexivity].
      assert (Hc1 : utf8_len c = 1) by (subst c; reflexivity).
      unfold span_ok, d_start, d_end. simpl fst. simpl snd. rewrite Hc1. subst off.
      pose proof (utf8_len_bounds d) as Hd.
      assert (Hb1 : boundary (done ++ (c :: d :: s'') ++ rest) (blen done)) by apply boundary_prefix.
      assert (Hb2 : boundary (done ++ (c :: d :: s'') ++ rest) (utf8_len d + (1 + blen done))).
      { replace (done ++ (c :: d :: s'') ++ rest) with ((done ++ [c; d]) ++ s'' ++ rest)
          by (rewrite <- app_assoc; reflexivity).
        replace (utf8_len d + (1 + blen done)) with (blen (done ++ [c; d])).
        - apply boundary_prefix.
        - rewrite blen_app. simpl. rewrite Hc1. lia. }
      replace (1 + blen done - 1) with (blen done) by lia.
      split; [lia|]. split; [apply boundary_le; exact Hb2|]. split; assumption.
    + assert (Hrec : Forall (fun x => span_ok ((done ++ [c]) ++ s' ++ rest) (d_start x) (d_end x) /\ d_kind x = DInvalidEscape)
                            (check_str (utf8_len c + off) s')).
      { apply IH; [simpl in Hlen; lia|]. subst off. rewrite blen_app. simpl. lia. }
      replace ((done ++ [c]) ++ s' ++ rest) with (done ++ (c :: s') ++ rest) in Hrec
        by (rewrite <- app_assoc; reflexivity).
      exact Hrec.
Qed.

(* ---------------------------------------------------------------- place: tiling and diagnostic spans *)

Lemma place_spec : forall cs pre ts ds,
  Forall (fun ch => ck_lexeme ch <> []) cs ->
  place (blen pre) cs = (ts, ds) ->
  tiles (blen pre) ts (blen (pre ++ concat (map ck_lexeme cs)))
  /\ Forall (fun x => boundary (pre ++ concat (map ck_lexeme cs)) (tok_start x)
                      /\ boundary (pre ++ concat (map ck_lexeme cs)) (tok_end x)) ts
  /\ Forall (fun d => span_ok (pre ++ concat (map ck_lexeme cs)) (d_start d) (d_end d)) ds.
Proof.
  induction cs as [|ch cs IH]; intros pre ts ds Hne Hpl.
  - simpl in Hpl. inversion Hpl; subst. simpl. rewrite app_nil_r. repeat split; constructor.
  - inversion Hne as [|? ? Hne1 Hne2]; subst.
    simpl in Hpl.
    assert (He : blen (ck_lexeme ch) + blen pre = blen (pre ++ ck_lexeme ch)) by (rewrite blen_app; lia).
    rewrite He in Hpl.
    destruct (place (blen (pre ++ ck_lexeme ch)) cs) as [ts' ds'] eqn:Hrec.
    specialize (IH (pre ++ ck_lexeme ch) ts' ds' Hne2 Hrec).
    simpl concat. simpl map.
    replace ((pre ++ ck_lexeme ch) ++ concat (map ck_lexeme cs))
      with (pre ++ ck_lexeme ch ++ concat (map ck_lexeme cs)) in IH by (rewrite app_assoc; reflexivity).
    set (t := pre ++ ck_lexeme ch ++ concat (map ck_lexeme cs)) in *.
    destruct IH as (IHt & IHb & IHd).
    assert (Hlt : blen pre < blen (pre ++ ck_lexeme ch)).
    { rewrite blen_app. pose proof (blen_nonempty_pos _ Hne1). lia. }
    assert (Hb1 : boundary t (blen pre)) by apply boundary_prefix.
    assert (Hb2 : boundary t (blen (pre ++ ck_lexeme ch))).
    { unfold t. rewrite app_assoc. apply boundary_prefix. }
    assert (Hspan : span_ok t (blen pre) (blen (pre ++ ck_lexeme ch))).
    { split; [exact Hlt|]. split; [apply boundary_le; exact Hb2|]. split; assumption. }
    assert (Htok : forall k,
      tiles (blen pre) ((k, blen pre, blen (pre ++ ck_lexeme ch)) :: ts') (blen t)
      /\ Forall (fun x => boundary t (tok_start x) /\ boundary t (tok_end x))
                ((k, blen pre, blen (pre ++ ck_lexeme ch)) :: ts')).
    { intro k. split.
      - simpl. unfold tok_start, tok_end. simpl. repeat split; [exact Hlt|exact IHt].
      - constructor; [|exact IHb]. unfold tok_start, tok_end. simpl. split; assumption. }
    destruct (ck_res ch) as [k|[| |]]; inversion Hpl; subst ts ds; clear Hpl.
    + destruct (Htok k) as [H1 H2]. split; [exact H1|]. split; [exact H2|].
      apply Forall_app. split; [|exact IHd].
      destruct (kind_is_str k); [|constructor].
      pose proof (check_str_spans (length (ck_lexeme ch)) (ck_lexeme ch) pre (concat (map ck_lexeme cs)) (blen pre)
                                  (le_n _) eq_refl) as Hcs.
      fold t in Hcs. eapply Forall_impl; [|exact Hcs]. intros d [Hd _]. exact Hd.
    + destruct (Htok KError) as [H1 H2]. split; [exact H1|]. split; [exact H2|].
      constructor; [exact Hspan|exact IHd].
    + destruct (Htok KError) as [H1 H2]. split; [exact H1|]. split; [exact H2|].
      constructor; [exact Hspan|exact IHd].
    + destruct (Htok KBlockComment) as [H1 H2]. split; [exact H1|]. split; [exact H2|].
      constructor; [exact Hspan|exact IHd].
Qed.

(* tiling: contiguous non-empty spans from 0 to the byte length, on character boundaries *)
Theorem lex_tiling : forall t ts ds, lex t = (ts, ds) ->
  tiles 0 ts (blen t)
  /\ Forall (fun x => boundary t (tok_start x) /\ boundary t (tok_end x)) ts.
Proof.
  intros t ts ds H. unfold lex in H.
  pose proof (place_spec (chunks t) [] ts ds (chunks_nonempty t) H) as Hs.
  simpl in Hs. rewrite chunks_lossless in Hs. destruct Hs as (H1 & H2 & _). split; assumption.
Qed.

(* every lexer diagnostic: non-empty span, inside the text, on character boundaries *)
Theorem lex_diag_spans : forall t ts ds, lex t = (ts, ds) ->
  Forall (fun d => span_ok t (d_start d) (d_end d)) ds.
Proof.
  intros t ts ds H. unfold lex in H.
  pose proof (place_spec (chunks t) [] ts ds (chunks_nonempty t) H) as Hs.
  simpl in Hs. rewrite chunks_lossless in Hs. destruct Hs as (_ & _ & H3). exact H3.
Qed.

(* consequences of `tiles` spelled out: every token span is a valid span of the text *)
Lemma tiles_bounds : forall ts p e, tiles p ts e -> p <= e /\ Forall (fun x => p <= tok_start x /\ tok_start x < tok_end x /\ tok_end x <= e) ts.
Proof.
  induction ts as [|x ts IH]; intros p e H; simpl in H.
  - subst. split; [lia|constructor].
  - destruct H as (H1 & H2 & H3). destruct (IH _ _ H3) as [H4 H5]. split; [lia|].
    constructor; [lia|]. eapply Forall_impl; [|exact H5]. simpl. intros y Hy. lia.
Qed.

Theorem lex_token_spans_valid : forall t ts ds, lex t = (ts, ds) ->
  Forall (fun x => span_ok t (tok_start x) (tok_end x)) ts.
Proof.
  intros t ts ds H. destruct (lex_tiling t ts ds H) as [Ht Hb].
  destruct (tiles_bounds _ _ _ Ht) as [_ Hr].
  rewrite Forall_forall in *. intros x Hx. specialize (Hb x Hx). specialize (Hr x Hx).
  unfold span_ok. destruct Hb. repeat split; try assumption; lia.
Qed.

(* ---------------------------------------------------------------- lossless, on spans *)

(* the characters of t from byte offset n on / the characters of t that start before byte n *)
Fixpoint drop_bytes (n : nat) (t : text) : text :=
  match t with
  | [] => []
  | c :: r => match n with 0 => t | _ => drop_bytes (n - utf8_len c) r end
  end.

Fixpoint take_bytes (n : nat) (t : text) : text :=
  match t with
  | [] => []
  | c :: r => match n with 0 => [] | _ => c :: take_bytes (n - utf8_len c) r end
  end.

Definition slice (t : text) (s e : nat) : text := take_bytes (e - s) (drop_bytes s t).

Lemma drop_bytes_app : forall a b, drop_bytes (blen a) (a ++ b) = b.
Proof.
  induction a as [|c a IH]; intro b.
  - simpl. destruct b; reflexivity.
  - simpl. pose proof (utf8_len_bounds c) as Hc.
    destruct (utf8_len c + blen a) eqn:E; [lia|].
    rewrite <- E. replace (utf8_len c + blen a - utf8_len c) with (blen a) by lia. apply IH.
Qed.

Lemma take_bytes_app : forall a b, take_bytes (blen a) (a ++ b) = a.
Proof.
  induction a as [|c a IH]; intro b.
  - simpl. destruct b; reflexivity.
  - simpl. pose proof (utf8_len_bounds c) as Hc.
    destruct (utf8_len c + blen a) eqn:E; [lia|].
    rewrite <- E. replace (utf8_len c + blen a - utf8_len c) with (blen a) by lia. rewrite IH. reflexivity.
Qed.

Lemma slice_app : forall pre lx rest, slice (pre ++ lx ++ rest) (blen pre) (blen (pre ++ lx)) = lx.
Proof.
  intros. unfold slice. rewrite drop_bytes_app. rewrite blen_app.
  replace (blen pre + blen lx - blen pre) with (blen lx) by lia. apply take_bytes_app.
Qed.

Lemma place_slices : forall cs pre tail,
  map (fun x => slice (pre ++ concat (map ck_lexeme cs) ++ tail) (tok_start x) (tok_end x)) (fst (place (blen pre) cs))
  = map ck_lexeme cs.
Proof.
  induction cs as [|ch cs IH]; intros pre tail; [reflexivity|].
  set (T := pre ++ concat (map ck_lexeme (ch :: cs)) ++ tail).
  assert (He : blen (ck_lexeme ch) + blen pre = blen (pre ++ ck_lexeme ch)) by (rewrite blen_app; lia).
  specialize (IH (pre ++ ck_lexeme ch) tail).
  replace ((pre ++ ck_lexeme ch) ++ concat (map ck_lexeme cs) ++ tail) with T in IH
    by (unfold T; simpl; repeat rewrite <- app_assoc; reflexivity).
  assert (Hhd : slice T (blen pre) (blen (pre ++ ck_lexeme ch)) = ck_lexeme ch).
  { unfold T. simpl. rewrite <- app_assoc. apply slice_app. }
  clearbody T.
  simpl place. rewrite He.
  destruct (place (blen (pre ++ ck_lexeme ch)) cs) as [ts' ds'].
  simpl fst in IH.
  destruct (ck_res ch) as [k|[| |]]; simpl fst; simpl map; unfold tok_start at 1, tok_end at 1; simpl fst; simpl snd;
    rewrite Hhd; f_equal; exact IH.
Qed.

Theorem lex_slices_lossless : forall t,
  concat (map (fun x => slice t (tok_start x) (tok_end x)) (fst (lex t))) = t.
Proof.
  intro t. unfold lex.
  pose proof (place_slices (chunks t) [] []) as H. simpl in H.
  rewrite app_nil_r in H. rewrite chunks_lossless in H. rewrite H. apply chunks_lossless.
Qed.

(* the kinds of `lex t` are the results of the chunks (Error / BlockComment for the error results) *)
Definition res_kind (r : lres) : kind :=
  match r with
  | LOk k => k
  | LErr UnterminatedComment => KBlockComment
  | LErr _ => KError
  end.

Lemma place_kinds : forall cs pos, map tok_kind (fst (place pos cs)) = map (fun ch => res_kind (ck_res ch)) cs.
Proof.
  induction cs as [|ch cs IH]; intro pos; [reflexivity|].
  simpl place. simpl map. specialize (IH (blen (ck_lexeme ch) + pos)).
  destruct (place (blen (ck_lexeme ch) + pos) cs) as [ts ds]. simpl fst in IH.
  destruct (ck_res ch) as [k|[| |]]; simpl; rewrite IH; reflexivity.
Qed.

Theorem lex_kinds : forall t, map tok_kind (fst (lex t)) = map (fun ch => res_kind (ck_res ch)) (chunks t).
Proof. intro t. exact (place_kinds (chunks t) 0). Qed.

(* ---------------------------------------------------------------- examples (the statements are not vacuous) *)

Open Scope N_scope.
(* `a: 'é\q' 12 /*x` : Id Colon Ws Str(with an invalid escape behind a 2-byte character) Ws Error Ws BlockComment(unterminated) *)
Definition ex_text : text := [97; 58; 32; 39; 233; 92; 113; 39; 32; 49; 50; 32; 47; 42; 120].

Example ex_lex : lex ex_text =
  ([(KId, 0, 1); (KColon, 1, 2); (KWhitespace, 2, 3); (KStr, 3, 9); (KWhitespace, 9, 10); (KError, 10, 12);
    (KWhitespace, 12, 13); (KBlockComment, 13, 16)]%nat,
   [(DInvalidEscape, 6, 8); (DInvalidToken, 10, 12); (DUnterminatedComment, 13, 16)]%nat).
Proof. vm_compute. reflexivity. Qed.

Example ex_tiling : tiles 0 (fst (lex ex_text)) (blen ex_text).
Proof. exact (proj1 (lex_tiling ex_text _ _ ex_lex)). Qed.

Example ex_blen : blen ex_text = 16%nat.
Proof. reflexivity. Qed.
