(* C07, the table of binding powers (RecursiveBranches::new + OperatorValidator::run as
   transcribed in Sema.binding_powers): an operator introduced by an earlier branch binds
   strictly tighter than one from a later branch, a branch groups to the left (right
   power = left power + 1) unless its operator tokens are declared `right`, in which case
   it groups to the right (left power = right power + 1) - one swap, however many such
   tokens the branch has.  The Pratt loop that consumes the table is covered by the K3
   correspondence and the precedence oracle, not by a theorem. *)
From Coq Require Import List Arith Lia Bool.
From LV Require Import Sema.
Import ListNotations.

Lemma nth_error_enumerate {A} (l : list A) : forall k i,
  nth_error (enumerate k l) i = option_map (fun x => (k + i, x)) (nth_error l i).
Proof.
  induction l as [|x r IH]; intros k i; cbn [enumerate].
  - destruct i; reflexivity.
  - destruct i as [|i]; cbn [nth_error option_map].
    + rewrite Nat.add_0_r. reflexivity.
    + rewrite IH. replace (S k + i) with (k + S i) by lia. reflexivity.
Qed.

Section BP.
Variable g : grammar.
Variable fi : smap.

(* the branch's operator set contains a right-associative token *)
Definition right_branch (b : recursion) : bool :=
  match b with
  | RecLeftRight (RCat _ ops) l _ =>
    match operator_of ops l with
    | Some operand => negb (Nat.eqb (length (filter (is_right_tok g) (get fi (rid_of operand)))) 0)
    | None => false
    end
  | _ => false
  end.

Lemma bp_entry bs i id l r :
  nth_error (binding_powers g fi bs) i = Some (id, (l, r)) ->
  exists b, nth_error bs i = Some b /\ id = rid_of (rec_regex b)
            /\ if right_branch b then (r, l) = base_bp (length bs) i else (l, r) = base_bp (length bs) i.
Proof.
  unfold binding_powers. rewrite nth_error_map, nth_error_enumerate.
  destruct (nth_error bs i) as [b|] eqn:Eb; [|discriminate]. cbn [option_map Nat.add].
  intros H. exists b. split; [reflexivity|].
  destruct b as [x a|x a|x a c]; cbn [right_branch]; try (injection H as <- <- <-; auto).
  destruct x as [| |? ops| | | | | | | ]; try (injection H as <- <- <-; auto).
  destruct (operator_of ops a) as [operand|]; [|injection H as <- <- <-; auto].
  destruct (Nat.eqb (length (filter (is_right_tok g) (get fi (rid_of operand)))) 0);
    cbn [negb]; injection H as <- <- <-; auto.
Qed.

Theorem bp_earlier_binds_tighter bs i j idi li ri idj lj rj :
  i < j ->
  nth_error (binding_powers g fi bs) i = Some (idi, (li, ri)) ->
  nth_error (binding_powers g fi bs) j = Some (idj, (lj, rj)) ->
  Nat.max lj rj < Nat.min li ri.
Proof.
  intros Hij Hi Hj.
  destruct (bp_entry _ _ _ _ _ Hi) as (bi & Ebi & _ & Hbi).
  destruct (bp_entry _ _ _ _ _ Hj) as (bj & Ebj & _ & Hbj).
  assert (Hjn : j < length bs) by (apply nth_error_Some; congruence).
  unfold base_bp in *.
  destruct (right_branch bi), (right_branch bj); injection Hbi as -> ->; injection Hbj as -> ->; lia.
Qed.

Theorem bp_associativity bs i id l r :
  nth_error (binding_powers g fi bs) i = Some (id, (l, r)) ->
  exists b, nth_error bs i = Some b
            /\ (right_branch b = false -> r = l + 1)       (* groups to the left *)
            /\ (right_branch b = true -> l = r + 1).       (* groups to the right *)
Proof.
  intros H. destruct (bp_entry _ _ _ _ _ H) as (b & Eb & _ & Hb). exists b. split; [assumption|].
  unfold base_bp in Hb. destruct (right_branch b); injection Hb as -> ->; split; intros; try discriminate; lia.
Qed.

End BP.
