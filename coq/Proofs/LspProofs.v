(* LspProofs.v - the document store of the language server (Model/Lsp.v part 3): for every
   history, no bound on length, number of documents or texts; for every analysis function. *)
From Coq Require Import List Arith NArith Bool Lia.
From LV Require Import Lsp LspPos.
Import ListNotations.

(* ------------------------------------------------------------------ the map *)

Lemma lookup_remove_same : forall u s, lookup u (remove u s) = None.
Proof.
  intros u s. induction s as [|[v t] s IH]; simpl; [reflexivity|].
  destruct (Nat.eqb_spec v u) as [He|Hne]; [exact IH|].
  simpl. destruct (Nat.eqb_spec v u); [contradiction|exact IH].
Qed.

Lemma lookup_remove_other : forall u v s, v <> u -> lookup u (remove v s) = lookup u s.
Proof.
  intros u v s Hne. induction s as [|[w t] s IH]; simpl; [reflexivity|].
  destruct (Nat.eqb_spec w v) as [He|Hwv].
  - subst w. destruct (Nat.eqb_spec v u); [contradiction|exact IH].
  - simpl. destruct (Nat.eqb_spec w u); [reflexivity|exact IH].
Qed.

Lemma lookup_set_same : forall u t s, lookup u (set u t s) = Some t.
Proof. intros u t s. unfold set. simpl. rewrite Nat.eqb_refl. reflexivity. Qed.

Lemma lookup_set_other : forall u v t s, v <> u -> lookup u (set v t s) = lookup u s.
Proof.
  intros u v t s Hne. unfold set. simpl. destruct (Nat.eqb_spec v u); [contradiction|].
  apply lookup_remove_other. exact Hne.
Qed.

Lemma mem_del : forall u v l, mem v (del u l) = true -> v <> u /\ mem v l = true.
Proof.
  intros u v l. induction l as [|w l IH]; simpl; [discriminate|].
  destruct (Nat.eqb_spec w u) as [He|Hne].
  - intro H. destruct (IH H) as [H1 H2]. split; [exact H1|]. rewrite H2. apply orb_true_r.
  - simpl. destruct (Nat.eqb_spec w v) as [Hwv|Hwv].
    + intros _. split; [congruence|reflexivity].
    + simpl. exact IH.
Qed.

(* the whole-text range of a formatting answer always converts: 0 and the end of the text are
   character boundaries (LspPos.offset_to_position_inside) *)
Lemma locate_total : forall t k line ch, locate t k line ch <> None.
Proof.
  intros t k line ch. destruct k; simpl; try discriminate.
  destruct (offset_to_position_inside t 0) as [l0 [c0 [ln0 [H0 _]]]]. simpl in H0. rewrite H0.
  destruct (offset_to_position_inside t (length t)) as [l1 [c1 [ln1 [H1 _]]]].
  rewrite firstn_all in H1. rewrite H1. discriminate.
Qed.

Section StoreProofs.
  Variable A : Type.
  Variable analyse : text -> A.

  Notation step := (step A analyse).
  Notation run := (run A analyse).

  (* ---------------------------------------------------------------- (iii) documents are independent *)

  Theorem step_other_document : forall s o u,
    uri_of o <> u -> lookup u (fst (step s o)) = lookup u s.
  Proof.
    intros s o u Hne. destruct o as [v t|v cs|v|k v line ch]; simpl in *.
    - apply lookup_set_other. exact Hne.
    - destruct cs as [|t cs]; simpl; [reflexivity|]. apply lookup_set_other. exact Hne.
    - apply lookup_remove_other. exact Hne.
    - destruct (lookup v s) as [t|]; [|reflexivity]. destruct (locate t k line ch); reflexivity.
  Qed.

  (* requests never change any text *)
  Theorem request_keeps_state : forall s k u line ch, fst (step s (Request k u line ch)) = s.
  Proof.
    intros s k u line ch. simpl. destruct (lookup u s) as [t|]; [|reflexivity].
    destruct (locate t k line ch); reflexivity.
  Qed.

  (* ---------------------------------------------------------------- (i) no crash *)

  Definition opened_present (opened : list uri) (s : state) : Prop :=
    forall u, mem u opened = true -> lookup u s <> None.

  Lemma run_no_crash_from : forall h opened s,
    opened_present opened s -> conformant_from opened h = true -> ~ In Crash (run s h).
  Proof.
    induction h as [|o h IH]; intros opened s Hinv Hc; simpl; [tauto|].
    destruct o as [u t|u cs|u|k u line ch]; simpl in Hc.
    - apply andb_true_iff in Hc. destruct Hc as [_ Hc]. simpl.
      intros [Hx|Hx]; [discriminate|]. revert Hx. apply (IH (u :: opened)); [|exact Hc].
      intros v Hv. simpl in Hv. destruct (Nat.eqb_spec u v) as [He|Hne].
      + subst v. rewrite lookup_set_same. discriminate.
      + rewrite (lookup_set_other v u t s Hne). apply Hinv. exact Hv.
    - apply andb_true_iff in Hc. destruct Hc as [Hc1 Hc]. apply andb_true_iff in Hc1.
      destruct Hc1 as [Hm Hcs]. destruct cs as [|t cs]; [discriminate|]. simpl.
      intros [Hx|Hx]; [discriminate|]. revert Hx. apply (IH opened); [|exact Hc].
      intros v Hv. destruct (Nat.eq_dec u v) as [He|Hne].
      + subst v. rewrite lookup_set_same. discriminate.
      + rewrite (lookup_set_other v u t s Hne). apply Hinv. exact Hv.
    - apply andb_true_iff in Hc. destruct Hc as [Hm Hc]. simpl.
      intros [Hx|Hx]; [discriminate|]. revert Hx. apply (IH (del u opened)); [|exact Hc].
      intros v Hv. apply mem_del in Hv. destruct Hv as [Hne Hv].
      rewrite (lookup_remove_other v u s (not_eq_sym Hne)). apply Hinv. exact Hv.
    - apply andb_true_iff in Hc. destruct Hc as [Hm Hc].
      pose proof (Hinv u Hm) as Hl. simpl.
      destruct (lookup u s) as [t|] eqn:Hlk; [|congruence].
      pose proof (locate_total t k line ch) as Hloc.
      destruct (locate t k line ch) as [l|] eqn:Hlc; [|congruence]. simpl.
      intros [Hx|Hx]; [discriminate|]. revert Hx. apply (IH opened); assumption.
  Qed.

  Theorem conformant_never_crashes : forall h, conformant h = true -> ~ In Crash (run [] h).
  Proof.
    intros h Hc. apply (run_no_crash_from h [] []); [|exact Hc]. intros u Hu. discriminate.
  Qed.

  (* ---------------------------------------------------------------- (ii) answers from the latest text *)

  Section Pick.
    Variable pick : text -> list text -> text.

    (* what a server that follows the history alone would send *)
    Definition expected (past : history) (o : op) : out A :=
      match o with
      | Open u t => Publish u (analyse t)
      | Change u cs => match cs with [] => Crash | c :: r => Publish u (analyse (pick c r)) end
      | Close u => Silent
      | Request k u line ch =>
          match latest_with pick past u with
          | None => Crash
          | Some t => match locate t k line ch with
                      | Some l => Answer k u (analyse t) l
                      | None => Crash
                      end
          end
      end.

    Fixpoint spec_run (past : history) (h : history) : list (out A) :=
      match h with [] => [] | o :: r => expected past o :: spec_run (past ++ [o]) r end.

    (* the server's choice among the entries of a change is `pick` *)
    Definition picks (h : history) : Prop :=
      Forall (fun o => match o with
                       | Change _ [] => False
                       | Change _ (c :: r) => pick c r = c
                       | _ => True end) h.

    Lemma latest_snoc : forall past o u,
      latest_with pick (past ++ [o]) u = upd_with pick u (latest_with pick past u) o.
    Proof. intros past o u. unfold latest_with. rewrite fold_left_app. reflexivity. Qed.

    Lemma run_eq_spec_from : forall h past s,
      (forall u, lookup u s = latest_with pick past u) -> picks h -> run s h = spec_run past h.
    Proof.
      induction h as [|o h IH]; intros past s Hinv Hp; simpl; [reflexivity|].
      inversion Hp as [|o' h' Ho Hh]; subst o' h'.
      assert (Hnext : forall u, lookup u (fst (step s o)) = latest_with pick (past ++ [o]) u).
      { intro u. rewrite latest_snoc.
        destruct o as [v t|v cs|v|k v line ch].
        - change (lookup u (set v t s) = (if v =? u then Some t else latest_with pick past u)).
          destruct (Nat.eqb_spec v u) as [He|Hne].
          + subst v. apply lookup_set_same.
          + rewrite (lookup_set_other u v t s Hne). apply Hinv.
        - destruct cs as [|c r]; [contradiction|].
          change (lookup u (set v c s) = (if v =? u then Some (pick c r) else latest_with pick past u)).
          destruct (Nat.eqb_spec v u) as [He|Hne].
          + subst v. rewrite lookup_set_same, Ho. reflexivity.
          + rewrite (lookup_set_other u v c s Hne). apply Hinv.
        - change (lookup u (remove v s) = (if v =? u then None else latest_with pick past u)).
          destruct (Nat.eqb_spec v u) as [He|Hne].
          + subst v. apply lookup_remove_same.
          + rewrite (lookup_remove_other u v s Hne). apply Hinv.
        - rewrite request_keeps_state. apply Hinv. }
      f_equal; [|apply IH; assumption].
      destruct o as [v t|v cs|v|k v line ch]; simpl.
      - reflexivity.
      - destruct cs as [|c r]; [contradiction|]. simpl. rewrite Ho. reflexivity.
      - reflexivity.
      - rewrite <- Hinv. destruct (lookup v s) as [t|]; [|reflexivity].
        destruct (locate t k line ch); reflexivity.
    Qed.

    Theorem run_eq_spec : forall h, picks h -> run [] h = spec_run [] h.
    Proof. intros h Hp. apply run_eq_spec_from; [reflexivity|exact Hp]. Qed.

    Lemma spec_run_length : forall h past, length (spec_run past h) = length h.
    Proof. induction h as [|o h IH]; intro past; simpl; [reflexivity|]. rewrite IH. reflexivity. Qed.

    Lemma spec_run_nth : forall pre past o rest,
      nth_error (spec_run past (pre ++ o :: rest)) (length pre) = Some (expected (past ++ pre) o).
    Proof.
      induction pre as [|p pre IH]; intros past o rest; simpl.
      - rewrite app_nil_r. reflexivity.
      - rewrite IH. rewrite <- app_assoc. reflexivity.
    Qed.
  End Pick.

  Lemma single_change_picks_last : forall h, single_change h = true -> picks pick_last h.
  Proof.
    intros h Hs. unfold single_change in Hs. rewrite forallb_forall in Hs. apply Forall_forall.
    intros o Ho. specialize (Hs o Ho). destruct o as [v t|v cs|v|k v line ch]; try exact I.
    destruct cs as [|c [|d r]]; try discriminate. reflexivity.
  Qed.

  Lemma conformant_from_picks_first : forall h opened, conformant_from opened h = true -> picks pick_first h.
  Proof.
    induction h as [|o h IH]; intros opened Hc; [constructor|].
    destruct o as [v t|v cs|v|k v line ch]; simpl in Hc.
    - apply andb_true_iff in Hc. destruct Hc as [_ Hc].
      constructor; [exact I|eapply IH; exact Hc].
    - apply andb_true_iff in Hc. destruct Hc as [Hc1 Hc].
      apply andb_true_iff in Hc1. destruct Hc1 as [_ Hcs].
      constructor; [|eapply IH; exact Hc]. destruct cs; [discriminate|reflexivity].
    - apply andb_true_iff in Hc. destruct Hc as [_ Hc].
      constructor; [exact I|eapply IH; exact Hc].
    - apply andb_true_iff in Hc. destruct Hc as [_ Hc].
      constructor; [exact I|eapply IH; exact Hc].
  Qed.

  (* the whole output sequence is the one read off the history with `latest` *)
  Theorem run_is_latest : forall h,
    single_change h = true -> run [] h = spec_run pick_last [] h.
  Proof. intros h Hs. apply run_eq_spec. apply single_change_picks_last. exact Hs. Qed.

  (* without the single-entry condition the same holds with the FIRST entry of every change *)
  Theorem run_is_latest_first : forall h,
    conformant h = true -> run [] h = spec_run pick_first [] h.
  Proof. intros h Hc. apply run_eq_spec. apply (conformant_from_picks_first h []). exact Hc. Qed.

  Lemma single_change_app : forall a b, single_change (a ++ b) = single_change a && single_change b.
  Proof. intros a b. apply forallb_app. Qed.

  (* every request is answered, from the analysis of exactly the latest text of its document *)
  Theorem request_answered_from_latest : forall past k u line ch rest,
    let h := past ++ Request k u line ch :: rest in
    conformant h = true -> single_change h = true ->
    exists t l, latest past u = Some t /\ locate t k line ch = Some l
                /\ nth_error (run [] h) (length past) = Some (Answer k u (analyse t) l).
  Proof.
    intros past k u line ch rest h Hc Hs.
    pose proof (conformant_never_crashes h Hc) as Hnc.
    rewrite (run_is_latest h Hs) in *. unfold h in *.
    pose proof (spec_run_nth pick_last past [] (Request k u line ch) rest) as Hn. simpl in Hn.
    fold (latest past u) in Hn.
    destruct (latest past u) as [t|] eqn:Hl.
    - destruct (locate t k line ch) as [l|] eqn:Hloc.
      + exists t, l. repeat split; assumption.
      + exfalso. apply Hnc. eapply nth_error_In. exact Hn.
    - exfalso. apply Hnc. eapply nth_error_In. exact Hn.
  Qed.

  (* every notification that carries a text is answered by the publication computed from that text,
     which is the latest text of the document from then on *)
  Theorem open_published_from_latest : forall past u t rest,
    let h := past ++ Open u t :: rest in
    single_change h = true ->
    nth_error (run [] h) (length past) = Some (Publish u (analyse t))
    /\ latest (past ++ [Open u t]) u = Some t.
  Proof.
    intros past u t rest h Hs. rewrite (run_is_latest h Hs). unfold h. split.
    - pose proof (spec_run_nth pick_last past [] (Open u t) rest) as Hn. exact Hn.
    - unfold latest. rewrite latest_snoc. simpl. rewrite Nat.eqb_refl. reflexivity.
  Qed.

  Theorem change_published_from_latest : forall past u t rest,
    let h := past ++ Change u [t] :: rest in
    single_change h = true ->
    nth_error (run [] h) (length past) = Some (Publish u (analyse t))
    /\ latest (past ++ [Change u [t]]) u = Some t.
  Proof.
    intros past u t rest h Hs. rewrite (run_is_latest h Hs). unfold h. split.
    - pose proof (spec_run_nth pick_last past [] (Change u [t]) rest) as Hn. exact Hn.
    - unfold latest. rewrite latest_snoc. simpl. rewrite Nat.eqb_refl. reflexivity.
  Qed.

  (* ---------------------------------------------------------------- (iv) exactly one publication *)

  Definition publishes_for (u : uri) (o : out A) : bool :=
    match o with Publish v _ => v =? u | _ => false end.
  Definition carries_text_for (u : uri) (o : op) : bool :=
    match o with Open v _ => v =? u | Change v _ => v =? u | _ => false end.

  Lemma publications_from : forall h opened s u,
    conformant_from opened h = true ->
    map (publishes_for u) (run s h) = map (carries_text_for u) h.
  Proof.
    induction h as [|o h IH]; intros opened s u Hc; simpl; [reflexivity|].
    destruct o as [v t|v cs|v|k v line ch]; simpl in Hc.
    - apply andb_true_iff in Hc. destruct Hc as [_ Hc].
      simpl. f_equal. eapply IH. exact Hc.
    - apply andb_true_iff in Hc. destruct Hc as [Hc1 Hc].
      apply andb_true_iff in Hc1. destruct Hc1 as [_ Hcs].
      destruct cs as [|c r]; [discriminate|]. simpl. f_equal. eapply IH. exact Hc.
    - apply andb_true_iff in Hc. destruct Hc as [_ Hc].
      simpl. f_equal. eapply IH. exact Hc.
    - apply andb_true_iff in Hc. destruct Hc as [_ Hc].
      simpl. destruct (lookup v s) as [t|]; simpl; [|f_equal; eapply IH; exact Hc].
      destruct (locate t k line ch); simpl; f_equal; eapply IH; exact Hc.
  Qed.

  (* position by position: the i-th output is a publication for u exactly when the i-th message is
     an open or change of u - one publication per text-carrying notification, none elsewhere *)
  Theorem one_publication_per_text : forall h u,
    conformant h = true -> map (publishes_for u) (run [] h) = map (carries_text_for u) h.
  Proof. intros h u Hc. apply (publications_from h [] [] u Hc). Qed.

  Theorem run_length : forall h s, length (run s h) = length h.
  Proof. induction h as [|o h IH]; intro s; simpl; [reflexivity|]. rewrite IH. reflexivity. Qed.

  (* ---------------------------------------------------------------- outside the protocol *)

  Theorem request_without_document_crashes : forall s k u line ch,
    lookup u s = None -> step s (Request k u line ch) = (s, Crash).
  Proof. intros s k u line ch Hl. simpl. rewrite Hl. reflexivity. Qed.

  Theorem empty_change_crashes : forall s u, step s (Change u []) = (s, Crash).
  Proof. reflexivity. Qed.

  (* a change for a document that is not open does NOT crash: it opens it *)
  Theorem change_without_document_opens : forall s u t cs,
    step s (Change u (t :: cs)) = step s (Open u t).
  Proof. reflexivity. Qed.

  (* a second open replaces the text; closing a closed document is silent *)
  Theorem reopen_replaces : forall s u t, lookup u (fst (step s (Open u t))) = Some t.
  Proof. intros s u t. apply lookup_set_same. Qed.

  Theorem close_is_silent : forall s u, snd (step s (Close u)) = Silent.
  Proof. reflexivity. Qed.
End StoreProofs.

(* ------------------------------------------------------------------ witnesses (analyse = identity) *)

Definition t1 : text := [116; 233; 128512; 13; 10; 98]%N.   (* "té😀\r\nb" *)
Definition t2 : text := [97]%N.
Definition t3 : text := [98; 10]%N.
Definition run_id := run text (fun t => t).

(* a request for a closed (here: never opened, and: closed again) document kills the server *)
Lemma request_on_closed_document_refuted :
  run_id [] [Request Hover 7 0 0] = [Crash]
  /\ run_id [] [Open 7 t1; Close 7; Request Completion 7 0 0] = [Publish 7 t1; Silent; Crash].
Proof. vm_compute. split; reflexivity. Qed.

Lemma empty_content_changes_refuted :
  run_id [] [Open 7 t1; Change 7 []] = [Publish 7 t1; Crash].
Proof. vm_compute. reflexivity. Qed.

(* two entries in one change: the protocol's latest text is the last one (t3), the server
   publishes and afterwards answers from the first (t2) *)
Lemma multi_entry_change_uses_first_refuted :
  let h := [Open 7 t1; Change 7 [t2; t3]; Request Hover 7 0 0] in
  conformant h = true /\ single_change h = false
  /\ latest h 7 = Some t3 /\ latest_first h 7 = Some t2
  /\ run_id [] h = [Publish 7 t1; Publish 7 t2; Answer Hover 7 t2 (AtOffset 0)].
Proof. vm_compute. repeat split; reflexivity. Qed.

(* non-vacuity: a conformant single-change history over two documents with close and reopen *)
Definition ex_history : history :=
  [Open 1 t1; Request Hover 1 0 2; Open 2 t2; Change 1 [t3]; Request Completion 2 5 5;
   Request Formatting 1 0 0; Close 1; Request GotoDef 2 0 1; Open 1 t1; Request References 1 1 1;
   Request Formatting 1 0 0; Close 2; Close 1].

Example ex_history_hypotheses : conformant ex_history = true /\ single_change ex_history = true.
Proof. vm_compute. split; reflexivity. Qed.

Example ex_history_run :
  run_id [] ex_history =
  [Publish 1 t1; Answer Hover 1 t1 (AtOffset 3); Publish 2 t2; Publish 1 t3;
   Answer Completion 2 t2 (AtOffset 1); Answer Formatting 1 t3 (WholeText (0, 0) (1, 0)); Silent;
   Answer GotoDef 2 t2 (AtOffset 1); Publish 1 t1; Answer References 1 t1 (AtOffset 10);
   Answer Formatting 1 t1 (WholeText (0, 0) (1, 1)); Silent; Silent].
Proof. vm_compute. reflexivity. Qed.
