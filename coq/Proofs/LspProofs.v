(* LspProofs.v - the document store of the language server (Model/Lsp.v part 3): for every
   history, no bound on length, number of documents or texts; for every analysis function. *)
From Coq Require Import List Arith NArith Bool Lia.
From LV Require Import Lsp LspPos.
Import ListNotations.

(* ------------------------------------------------------------------ the map *)

Lemma lookup_remove_same : forall u s, lookup u (remove u s) = None.
Proof.
  intros u s. induction s as [|[v t] s IH]; simpl; [reflexivity|].
  destruct (Nat.eqb_spec v u) as [He|Hne]; [exact IH|].
  simpl. destruct (Nat.eqb_spec v u); [contradiction|exact IH].
Qed.

Lemma lookup_remove_other : forall u v s, v <> u -> lookup u (remove v s) = lookup u s.
Proof.
  intros u v s Hne. induction s as [|[w t] s IH]; simpl; [reflexivity|].
  destruct (Nat.eqb_spec w v) as [He|Hwv].
  - subst w. destruct (Nat.eqb_spec v u); [contradiction|exact IH].
  - simpl. destruct (Nat.eqb_spec w u); [reflexivity|exact IH].
Qed.

Lemma lookup_set_same : forall u t s, lookup u (set u t s) = Some t.
Proof. intros u t s. unfold set. simpl. rewrite Nat.eqb_refl. reflexivity. Qed.

Lemma lookup_set_other : forall u v t s, v <> u -> lookup u (set v t s) = lookup u s.
Proof.
  intros u v t s Hne. unfold set. simpl. destruct (Nat.eqb_spec v u); [contradiction|].
  apply lookup_remove_other. exact Hne.
Qed.

Lemma mem_del : forall u v l, mem v (del u l) = true -> v <> u /\ mem v l = true.
Proof.
  intros u v l. induction l as [|w l IH]; simpl; [discriminate|].
  destruct (Nat.eqb_spec w u) as [He|Hne].
  - intro H. destruct (IH H) as [H1 H2]. split; [exact H1|]. rewrite H2. apply orb_true_r.
  - simpl. destruct (Nat.eqb_spec w v) as [Hwv|Hwv].
    + intros _. split; [congruence|reflexivity].
    + simpl. exact IH.
Qed.

(* the whole-text range of a formatting answer always converts: 0 and the end of the text are
   character boundaries (LspPos.offset_to_position_inside) *)
Lemma locate_total : forall t k line ch, locate t k line ch <> None.
Proof.
  intros t k line ch. destruct k; simpl; try discriminate.
  destruct (offset_to_position_inside t 0) as [l0 [c0 [ln0 [H0 _]]]]. simpl in H0. rewrite H0.
  destruct (offset_to_position_inside t (length t)) as [l1 [c1 [ln1 [H1 _]]]].
  rewrite firstn_all in H1. rewrite H1. discriminate.
Qed.

Section StoreProofs.
  Variable A : Type.
  Variable analyse : text -> A.

  Notation step := (step A analyse).
  Notation run := (run A analyse).

  (* ---------------------------------------------------------------- (iii) documents are independent *)

  Theorem step_other_document : forall s o u,
    uri_of o <> u -> lookup u (fst (step s o)) = lookup u s.
  Proof.
    intros s o u Hne. destruct o as [v t|v cs|v|k v line ch]; simpl in *.
    - apply lookup_set_other. exact Hne.
    - destruct cs as [|c r]; simpl; [reflexivity|]. apply lookup_set_other. exact Hne.
    - apply lookup_remove_other. exact Hne.
    - destruct (lookup v s) as [t|]; [|reflexivity]. destruct (locate t k line ch); reflexivity.
  Qed.

  (* requests never change any text *)
  Theorem request_keeps_state : forall s k u line ch, fst (step s (Request k u line ch)) = s.
  Proof.
    intros s k u line ch. simpl. destruct (lookup u s) as [t|]; [|reflexivity].
    destruct (locate t k line ch); reflexivity.
  Qed.

  (* ---------------------------------------------------------------- (i) no crash *)

  Definition opened_present (opened : list uri) (s : state) : Prop :=
    forall u, mem u opened = true -> lookup u s <> None.

  Lemma run_no_crash_from : forall h opened s,
    opened_present opened s -> conformant_from opened h = true -> ~ In Crash (run s h).
  Proof.
    induction h as [|o h IH]; intros opened s Hinv Hc; simpl; [tauto|].
    destruct o as [u t|u cs|u|k u line ch]; simpl in Hc.
    - apply andb_true_iff in Hc. destruct Hc as [_ Hc]. simpl.
      intros [Hx|Hx]; [discriminate|]. revert Hx. apply (IH (u :: opened)); [|exact Hc].
      intros v Hv. simpl in Hv. destruct (Nat.eqb_spec u v) as [He|Hne].
      + subst v. rewrite lookup_set_same. discriminate.
      + rewrite (lookup_set_other v u t s Hne). apply Hinv. exact Hv.
    - apply andb_true_iff in Hc. destruct Hc as [Hm Hc]. destruct cs as [|c r]; simpl.
      + intros [Hx|Hx]; [discriminate|]. revert Hx. apply (IH opened); assumption.
      + intros [Hx|Hx]; [discriminate|]. revert Hx. apply (IH opened); [|exact Hc].
        intros v Hv. destruct (Nat.eq_dec u v) as [He|Hne].
        * subst v. rewrite lookup_set_same. discriminate.
        * rewrite (lookup_set_other v u (last r c) s Hne). apply Hinv. exact Hv.
    - apply andb_true_iff in Hc. destruct Hc as [Hm Hc]. simpl.
      intros [Hx|Hx]; [discriminate|]. revert Hx. apply (IH (del u opened)); [|exact Hc].
      intros v Hv. apply mem_del in Hv. destruct Hv as [Hne Hv].
      rewrite (lookup_remove_other v u s (not_eq_sym Hne)). apply Hinv. exact Hv.
    - apply andb_true_iff in Hc. destruct Hc as [Hm Hc].
      pose proof (Hinv u Hm) as Hl. simpl.
      destruct (lookup u s) as [t|] eqn:Hlk; [|congruence].
      pose proof (locate_total t k line ch) as Hloc.
      destruct (locate t k line ch) as [l|] eqn:Hlc; [|congruence]. simpl.
      intros [Hx|Hx]; [discriminate|]. revert Hx. apply (IH opened); assumption.
  Qed.

  Theorem conformant_never_crashes : forall h, conformant h = true -> ~ In Crash (run [] h).
  Proof.
    intros h Hc. apply (run_no_crash_from h [] []); [|exact Hc]. intros u Hu. discriminate.
  Qed.

  (* ---------------------------------------------------------------- (ii) answers from the latest text *)

  (* what a server that follows the history alone would send *)
  Definition expected (past : history) (o : op) : out A :=
    match o with
    | Open u t => Publish u (analyse t)
    | Change u cs => match cs with [] => Silent | c :: r => Publish u (analyse (last r c)) end
    | Close u => Silent
    | Request k u line ch =>
        match latest past u with
        | None => Crash
        | Some t => match locate t k line ch with
                    | Some l => Answer k u (analyse t) l
                    | None => Crash
                    end
        end
    end.

  Fixpoint spec_run (past : history) (h : history) : list (out A) :=
    match h with [] => [] | o :: r => expected past o :: spec_run (past ++ [o]) r end.

  Lemma latest_snoc : forall past o u, latest (past ++ [o]) u = upd u (latest past u) o.
  Proof. intros past o u. unfold latest. rewrite fold_left_app. reflexivity. Qed.

  Lemma run_eq_spec_from : forall h past s,
    (forall u, lookup u s = latest past u) -> run s h = spec_run past h.
  Proof.
    induction h as [|o h IH]; intros past s Hinv; simpl; [reflexivity|].
    assert (Hnext : forall u, lookup u (fst (step s o)) = latest (past ++ [o]) u).
    { intro u. rewrite latest_snoc.
      destruct o as [v t|v cs|v|k v line ch].
      - change (lookup u (set v t s) = (if v =? u then Some t else latest past u)).
        destruct (Nat.eqb_spec v u) as [He|Hne].
        + subst v. apply lookup_set_same.
        + rewrite (lookup_set_other u v t s Hne). apply Hinv.
      - destruct cs as [|c r].
        + change (lookup u s = (if v =? u then latest past u else latest past u)).
          destruct (v =? u); apply Hinv.
        + change (lookup u (set v (last r c) s) = (if v =? u then Some (last r c) else latest past u)).
          destruct (Nat.eqb_spec v u) as [He|Hne].
          * subst v. apply lookup_set_same.
          * rewrite (lookup_set_other u v (last r c) s Hne). apply Hinv.
      - change (lookup u (remove v s) = (if v =? u then None else latest past u)).
        destruct (Nat.eqb_spec v u) as [He|Hne].
        + subst v. apply lookup_remove_same.
        + rewrite (lookup_remove_other u v s Hne). apply Hinv.
      - rewrite request_keeps_state. apply Hinv. }
    f_equal; [|apply IH; assumption].
    destruct o as [v t|v cs|v|k v line ch]; simpl.
    - reflexivity.
    - destruct cs as [|c r]; reflexivity.
    - reflexivity.
    - rewrite <- Hinv. destruct (lookup v s) as [t|]; [|reflexivity].
      destruct (locate t k line ch); reflexivity.
  Qed.

  (* the whole output sequence of EVERY history - any number of entries per change, inside the
     protocol or not - is the one read off the history with `latest` *)
  Theorem run_is_latest : forall h, run [] h = spec_run [] h.
  Proof. intro h. apply run_eq_spec_from. reflexivity. Qed.

  Lemma spec_run_nth : forall pre past o rest,
    nth_error (spec_run past (pre ++ o :: rest)) (length pre) = Some (expected (past ++ pre) o).
  Proof.
    induction pre as [|p pre IH]; intros past o rest; simpl.
    - rewrite app_nil_r. reflexivity.
    - rewrite IH. rewrite <- app_assoc. reflexivity.
  Qed.

  (* every request is answered, from the analysis of exactly the latest text of its document *)
  Theorem request_answered_from_latest : forall past k u line ch rest,
    let h := past ++ Request k u line ch :: rest in
    conformant h = true ->
    exists t l, latest past u = Some t /\ locate t k line ch = Some l
                /\ nth_error (run [] h) (length past) = Some (Answer k u (analyse t) l).
  Proof.
    intros past k u line ch rest h Hc.
    pose proof (conformant_never_crashes h Hc) as Hnc.
    rewrite (run_is_latest h) in *. unfold h in *.
    pose proof (spec_run_nth past [] (Request k u line ch) rest) as Hn. simpl in Hn.
    destruct (latest past u) as [t|] eqn:Hl.
    - destruct (locate t k line ch) as [l|] eqn:Hloc.
      + exists t, l. repeat split; assumption.
      + exfalso. apply Hnc. eapply nth_error_In. exact Hn.
    - exfalso. apply Hnc. eapply nth_error_In. exact Hn.
  Qed.

  (* every notification that carries a text is answered by the publication computed from that text,
     which is the latest text of the document from then on; of several entries that is the last *)
  Theorem open_published_from_latest : forall past u t rest,
    nth_error (run [] (past ++ Open u t :: rest)) (length past) = Some (Publish u (analyse t))
    /\ latest (past ++ [Open u t]) u = Some t.
  Proof.
    intros past u t rest. rewrite run_is_latest. split.
    - exact (spec_run_nth past [] (Open u t) rest).
    - rewrite latest_snoc. simpl. rewrite Nat.eqb_refl. reflexivity.
  Qed.

  Theorem change_published_from_latest : forall past u c r rest,
    nth_error (run [] (past ++ Change u (c :: r) :: rest)) (length past)
      = Some (Publish u (analyse (last r c)))
    /\ latest (past ++ [Change u (c :: r)]) u = Some (last r c).
  Proof.
    intros past u c r rest. rewrite run_is_latest. split.
    - exact (spec_run_nth past [] (Change u (c :: r)) rest).
    - rewrite latest_snoc. simpl. rewrite Nat.eqb_refl. reflexivity.
  Qed.

  (* a change without entries changes nothing and nothing is sent *)
  Theorem empty_change_is_silent : forall s u, step s (Change u []) = (s, Silent).
  Proof. reflexivity. Qed.

  (* ---------------------------------------------------------------- (iv) exactly one publication *)

  Definition publishes_for (u : uri) (o : out A) : bool :=
    match o with Publish v _ => v =? u | _ => false end.
  Definition carries_text_for (u : uri) (o : op) : bool :=
    match o with
    | Open v _ => v =? u
    | Change v (_ :: _) => v =? u
    | _ => false
    end.

  (* position by position, for every history and state: the i-th output is a publication for u
     exactly when the i-th message is an open of u or a change of u that has an entry - one
     publication per text-carrying notification, none elsewhere *)
  Theorem one_publication_per_text : forall h s u,
    map (publishes_for u) (run s h) = map (carries_text_for u) h.
  Proof.
    induction h as [|o h IH]; intros s u; simpl; [reflexivity|].
    f_equal; [|apply IH].
    destruct o as [v t|v cs|v|k v line ch]; simpl.
    - reflexivity.
    - destruct cs; reflexivity.
    - reflexivity.
    - destruct (lookup v s) as [t|]; [|reflexivity]. destruct (locate t k line ch); reflexivity.
  Qed.

  Theorem run_length : forall h s, length (run s h) = length h.
  Proof. induction h as [|o h IH]; intro s; simpl; [reflexivity|]. rewrite IH. reflexivity. Qed.

  (* ---------------------------------------------------------------- outside the protocol *)

  Theorem request_without_document_crashes : forall s k u line ch,
    lookup u s = None -> step s (Request k u line ch) = (s, Crash).
  Proof. intros s k u line ch Hl. simpl. rewrite Hl. reflexivity. Qed.

  (* a change for a document that is not open does NOT crash: it opens it *)
  Theorem change_without_document_opens : forall s u c r,
    step s (Change u (c :: r)) = step s (Open u (last r c)).
  Proof. reflexivity. Qed.

  (* a second open replaces the text; closing a closed document is silent *)
  Theorem reopen_replaces : forall s u t, lookup u (fst (step s (Open u t))) = Some t.
  Proof. intros s u t. apply lookup_set_same. Qed.

  Theorem close_is_silent : forall s u, snd (step s (Close u)) = Silent.
  Proof. reflexivity. Qed.
End StoreProofs.

(* ------------------------------------------------------------------ witnesses (analyse = identity) *)

Definition t1 : text := [116; 233; 128512; 13; 10; 98]%N.   (* "té😀\r\nb" *)
Definition t2 : text := [97]%N.
Definition t3 : text := [98; 10]%N.
Definition run_id := run text (fun t => t).

(* what still fails: a request for a closed (never opened, or closed again) document kills the server *)
Lemma request_on_closed_document_refuted :
  run_id [] [Request Hover 7 0 0] = [Crash]
  /\ run_id [] [Open 7 t1; Close 7; Request Completion 7 0 0] = [Publish 7 t1; Silent; Crash].
Proof. vm_compute. split; reflexivity. Qed.

(* non-vacuity: a conformant history over two documents with close and reopen, a change with two
   entries (the last one, t3, is published and answered from) and a change without entries *)
Definition ex_history : history :=
  [Open 1 t1; Request Hover 1 0 2; Open 2 t2; Change 1 [t2; t3]; Request Completion 2 5 5;
   Change 1 []; Request Formatting 1 0 0; Close 1; Request GotoDef 2 0 1; Open 1 t1;
   Request References 1 1 1; Request Formatting 1 0 0; Close 2; Close 1].

Example ex_history_hypotheses : conformant ex_history = true.
Proof. vm_compute. reflexivity. Qed.

Example ex_history_run :
  run_id [] ex_history =
  [Publish 1 t1; Answer Hover 1 t1 (AtOffset 3); Publish 2 t2; Publish 1 t3;
   Answer Completion 2 t2 (AtOffset 1); Silent; Answer Formatting 1 t3 (WholeText (0, 0) (1, 0)); Silent;
   Answer GotoDef 2 t2 (AtOffset 1); Publish 1 t1; Answer References 1 t1 (AtOffset 10);
   Answer Formatting 1 t1 (WholeText (0, 0) (1, 1)); Silent; Silent]
  /\ latest [Open 1 t1; Change 1 [t2; t3]; Change 1 []] 1 = Some t3.
Proof. vm_compute. split; reflexivity. Qed.
