(* Invariant of the parser runtime: while the builder ghost stays defined, the
   concrete CstData is the layout of the ghost's reference builder state and the
   token cells are exactly the tokens consumed so far, in order, with their
   indices.  One preservation lemma per Parser method. *)
From Coq Require Import List Arith Lia Bool.
From LV Require Import Cst Tree ABuild Runtime ListLemmas Refine.
Import ListNotations.

Section RT.
Variable cx : pctx.

Definition tok_ok (st : pstate) : Prop :=
  pos st <= length (toks cx)
  /\ tcount (cstd st) = pos st
  /\ tok_cells (nodes (cstd st)) = combine (firstn (pos st) (toks cx)) (seq 0 (pos st)).

(* the current token is the token at the cursor (or the end-of-input marker) *)
Definition cur_ok (st : pstate) : Prop := cur st = nth (pos st) (toks cx) (eoi cx).

Definition RInv (st : pstate) : Prop :=
  exists g, gh st = Some g /\ Inv (cstd st) (snaps st) g /\ tok_ok st /\ cur_ok st.

(* what every runtime operation guarantees *)
Definition P (st st' : pstate) : Prop :=
  (gh st = None -> gh st' = None)
  /\ snaps st' = snaps st
  /\ (RInv st -> gh st' <> None -> RInv st').

Lemma P_refl st : P st st.
Proof. repeat split; auto. Qed.

Lemma P_trans a b c : P a b -> P b c -> P a c.
Proof.
  intros (H1 & H2 & H3) (H4 & H5 & H6). repeat split.
  - auto.
  - congruence.
  - intros Ha Hc. apply H6; [|assumption]. apply H3; [assumption|].
    intro Hb. apply Hc. auto.
Qed.

(* states that differ only in fields the invariant does not mention *)
Definition same_core (st st' : pstate) : Prop :=
  cstd st' = cstd st /\ pos st' = pos st /\ cur st' = cur st /\ gh st' = gh st /\ snaps st' = snaps st.

Lemma same_core_P st st' : same_core st st' -> P st st'.
Proof.
  intros (Hc & Hp & Hu & Hg & Hs). repeat split.
  - congruence.
  - assumption.
  - intros (g & G1 & G2 & (T1 & T2 & T3) & G4) _. exists g. unfold tok_ok, cur_ok.
    rewrite Hc, Hp, Hu, Hg, Hs. unfold cur_ok in G4. auto 10.
Qed.

Lemma p_error_P st d : P st (p_error st d).
Proof. apply same_core_P. unfold p_error. destruct (active_error st); repeat split; reflexivity. Qed.

(* ---------- token-cell bookkeeping ---------- *)
Lemma tok_cells_snoc_rule l k e : tok_cells (l ++ [NRule k e]) = tok_cells l.
Proof. rewrite tok_cells_app. cbn. apply app_nil_r. Qed.

Lemma tok_cells_snoc_tok l t i : tok_cells (l ++ [NTok t i]) = tok_cells l ++ [(t, i)].
Proof. rewrite tok_cells_app. reflexivity. Qed.

Lemma combine_firstn_seq_S (l : list tok) p d :
  p < length l ->
  combine (firstn (S p) l) (seq 0 (S p)) = combine (firstn p l) (seq 0 p) ++ [(nth p l d, p)].
Proof.
  intros Hp.
  assert (Hs : seq 0 (S p) = seq 0 p ++ [p]) by (rewrite seq_S; reflexivity).
  rewrite Hs.
  assert (Hf : firstn (S p) l = firstn p l ++ [nth p l d]).
  { clear Hs. revert p Hp. induction l as [|x l IH]; intros p Hp; cbn in Hp; [lia|].
    destruct p as [|p]; [reflexivity|]. rewrite !firstn_cons. cbn [nth]. rewrite (IH p) by lia. reflexivity. }
  rewrite Hf.
  assert (Hl : length (firstn p l) = length (seq 0 p)).
  { rewrite firstn_length, seq_length. lia. }
  clear Hs Hf. revert Hl. generalize (firstn p l) (seq 0 p). intros a.
  induction a as [|x a IH]; intros [|y b] Hl; cbn in *; try lia; [reflexivity|].
  f_equal. apply IH. lia.
Qed.

(* the step from the builder refinement, for a runtime state *)
Lemma gstep_inv st g o g' :
  gh st = Some g -> Inv (cstd st) (snaps st) g -> g_step g (cstd st) o = Some g' ->
  exists c' sn', c_step (cstd st) (snaps st) o = Ok (c', sn') /\ Inv c' sn' g'.
Proof. intros _ HI Hg. eapply step_refines; eassumption. Qed.

Lemma tok_cells_insert_rule l p k e : tok_cells (insert_at p (NRule k e) l) = tok_cells l.
Proof.
  unfold insert_at. rewrite tok_cells_app. cbn [tok_cells]. rewrite <- tok_cells_app, firstn_skipn. reflexivity.
Qed.

Lemma tok_cells_set_rule l m k e k' e' :
  nth_error l m = Some (NRule k e) -> tok_cells (set_nth m (NRule k' e') l) = tok_cells l.
Proof.
  intros Hnth. apply nth_error_split in Hnth. destruct Hnth as (l1 & l2 & -> & <-).
  rewrite set_nth_app_mid, !tok_cells_app. reflexivity.
Qed.

Lemma RInv_intro st g : gh st = Some g -> Inv (cstd st) (snaps st) g -> tok_ok st -> cur_ok st -> RInv st.
Proof. intros. exists g. auto. Qed.

(* a builder operation that leaves the token cells alone *)
Lemma step_P st o c' st' :
  c_step (cstd st) (snaps st) o = Ok (c', snaps st) ->
  cstd st' = c' -> gh st' = gstep st o -> pos st' = pos st -> cur st' = cur st -> snaps st' = snaps st ->
  (forall g, gh st = Some g -> Inv (cstd st) (snaps st) g -> g_step g (cstd st) o <> None ->
             tcount c' = tcount (cstd st) /\ tok_cells (nodes c') = tok_cells (nodes (cstd st))) ->
  P st st'.
Proof.
  intros Hc Hcs Hg Hp Hu Hs Htok. split; [|split].
  - intros Hn. rewrite Hg. unfold gstep. rewrite Hn. reflexivity.
  - assumption.
  - intros (g & G1 & G2 & (T1 & T2 & T3) & G4) Hne.
    rewrite Hg in Hne. unfold gstep in Hne. rewrite G1 in Hne.
    destruct (g_step g (cstd st) o) as [g'|] eqn:Eg; [|contradiction].
    destruct (step_refines _ _ _ _ _ G2 Eg) as (c2 & sn2 & Hc2 & HI).
    rewrite Hc in Hc2. injection Hc2 as <- <-.
    assert (Hne' : g_step g (cstd st) o <> None) by (rewrite Eg; discriminate).
    destruct (Htok g G1 G2 Hne') as [Ht1 Ht2].
    apply (RInv_intro st' g').
    + rewrite Hg. unfold gstep. rewrite G1. assumption.
    + rewrite Hcs, Hs. assumption.
    + unfold tok_ok. rewrite Hcs, Hp, Ht1, Ht2. auto.
    + unfold cur_ok in *. rewrite Hu, Hp. assumption.
Qed.

(* under a valid ghost the cell a close rewrites is a rule cell *)
Lemma close_cell_is_rule c sn g m k :
  Inv c sn g -> g_step g c (BClose m k) <> None -> exists k0 e0, nth_error (nodes c) m = Some (NRule k0 e0).
Proof.
  intros HI Hne. cbn [g_step] in Hne.
  destruct (a_close (g_abs g) m k) as [a'|] eqn:Ea; [|cbn in Hne; contradiction].
  destruct (a_close_spec _ _ _ _ Ea) as (top & outer & L1 & L2 & _ & Hl & HL1 & _).
  pose proof (inv_match _ _ _ HI) as Hm. rewrite Hl in Hm.
  destruct (matches_split _ _ _ Hm) as (n1 & n2 & Hn & Hm1 & Hm2 & Hn1).
  inversion Hm2 as [|x y n2' L2' Hx Hr]; subst. destruct Hx as (k0 & e0 & ->).
  exists k0, e0. rewrite Hn. rewrite nth_error_app2 by lia. rewrite Hn1, Nat.sub_diag. reflexivity.
Qed.

Lemma c_close_tok c sn g m k c' :
  c_close c m k = Ok c' -> Inv c sn g -> g_step g c (BClose m k) <> None ->
  tcount c' = tcount c /\ tok_cells (nodes c') = tok_cells (nodes c).
Proof.
  intros Ec HI Hne. destruct (close_cell_is_rule _ _ _ _ _ HI Hne) as (k0 & e0 & Hnth).
  unfold c_close in Ec. destruct (nsl c); [discriminate|].
  destruct (length (nodes c) <=? m); [discriminate|].
  destruct (n <? m); injection Ec as <-; cbn [nodes tcount]; split; try reflexivity;
    eapply tok_cells_set_rule; eassumption.
Qed.

(* ---------- close_error_node ---------- *)
Lemma p_close_error_node_P st st' :
  p_close_error_node st = Ok st' -> P st st' /\ pos st' = pos st /\ cur st' = cur st.
Proof.
  unfold p_close_error_node. destruct (err_node st) as [m|].
  - destruct (c_close (cstd st) m kError) as [c'|w] eqn:Ec; [|discriminate]. intros [= <-].
    cbn [pos cur]. split; [|auto].
    eapply (step_P st (BClose m kError) c'); cbn [cstd gh pos cur snaps]; try reflexivity.
    + cbn [c_step]. rewrite Ec. reflexivity.
    + intros g G1 G2 Hne. eapply c_close_tok; eassumption.
  - intros [= <-]. split; [apply P_refl|auto].
Qed.

Lemma p_open_P st m st' : p_open st = Ok (m, st') -> P st st' /\ pos st' = pos st /\ cur st' = cur st.
Proof.
  unfold p_open. destruct (p_close_error_node st) as [s|w] eqn:E1; [|discriminate].
  destruct (p_close_error_node_P _ _ E1) as (P1 & Hp1 & Hu1).
  destruct (c_open (cstd s)) as [mk c'] eqn:Eo. intros [= <- <-].
  split; [|cbn; auto].
  eapply P_trans; [exact P1|].
  eapply (step_P s BOpen c'); cbn [cstd gh pos cur snaps set_cst]; try reflexivity.
  - cbn [c_step]. rewrite Eo. reflexivity.
  - intros g _ _ _. unfold c_open in Eo. injection Eo as _ <-. cbn. split; [reflexivity|apply tok_cells_snoc_rule].
Qed.

Lemma p_open_before_P st x m st' :
  p_open_before st x = Ok (m, st') -> P st st' /\ pos st' = pos st /\ cur st' = cur st.
Proof.
  unfold p_open_before. destruct (p_close_error_node st) as [s|w] eqn:E1; [|discriminate].
  destruct (p_close_error_node_P _ _ E1) as (P1 & Hp1 & Hu1).
  destruct (c_open_before (cstd s) x) as [c'|w] eqn:Eo; [|discriminate]. intros [= <- <-].
  split; [|cbn; auto].
  eapply P_trans; [exact P1|].
  eapply (step_P s (BOpenBefore x) c'); cbn [cstd gh pos cur snaps set_cst]; try reflexivity.
  - cbn [c_step]. rewrite Eo. reflexivity.
  - intros g _ _ _. unfold c_open_before in Eo. destruct (length (nodes (cstd s)) <? x); [discriminate|].
    injection Eo as <-. cbn. split; [reflexivity|apply tok_cells_insert_rule].
Qed.

Lemma p_close_P st x k m st' :
  p_close st x k = Ok (m, st') -> P st st' /\ pos st' = pos st /\ cur st' = cur st.
Proof.
  unfold p_close. destruct (p_close_error_node st) as [s|w] eqn:E1; [|discriminate].
  destruct (p_close_error_node_P _ _ E1) as (P1 & Hp1 & Hu1).
  destruct (c_close (cstd s) x k) as [c'|w] eqn:Ec; [|discriminate]. intros [= <- <-].
  split; [|cbn; auto].
  eapply P_trans; [exact P1|].
  eapply (step_P s (BClose x k) c'); cbn [cstd gh pos cur snaps set_cst]; try reflexivity.
  - cbn [c_step]. rewrite Ec. reflexivity.
  - intros g G1 G2 Hne. eapply c_close_tok; eassumption.
Qed.

Lemma p_mark_P st m st' : p_mark st = Ok (m, st') -> P st st' /\ pos st' = pos st /\ cur st' = cur st.
Proof.
  unfold p_mark. destruct (p_close_error_node st) as [s|w] eqn:E1; [|discriminate].
  intros [= <- <-]. apply p_close_error_node_P. assumption.
Qed.

(* ---------- the skipping loop ---------- *)
Lemma nth_error_nth' {A} (l : list A) n d x : nth_error l n = Some x -> nth n l d = x.
Proof. revert n. induction l as [|a l IH]; intros [|n] H; cbn in *; try discriminate; [congruence|auto]. Qed.

Lemma skip_loop_spec : forall fuel p c g p' t' c' g',
  skip_loop cx fuel p c g = (p', t', c', g') ->
  length (toks cx) - p <= fuel -> p <= length (toks cx) ->
  p <= p' /\ p' <= length (toks cx) /\ t' = nth p' (toks cx) (eoi cx)
  /\ (g = None -> g' = None)
  /\ (forall sn g0, g = Some g0 -> Inv c sn g0 -> tcount c = p ->
       tok_cells (nodes c) = combine (firstn p (toks cx)) (seq 0 p) -> g' <> None ->
       exists g1, g' = Some g1 /\ Inv c' sn g1 /\ tcount c' = p'
                  /\ tok_cells (nodes c') = combine (firstn p' (toks cx)) (seq 0 p')).
Proof.
  induction fuel as [|fuel IH]; intros p c g p' t' c' g' H Hf Hp; cbn [skip_loop] in H.
  - injection H as <- <- <- <-. repeat split; try lia.
    + rewrite nth_overflow by lia. reflexivity.
    + auto.
    + intros sn g0 -> HI Ht Hc _. eauto.
  - destruct (nth_error (toks cx) p) as [t|] eqn:En.
    + destruct (is_skipped cx t) eqn:Esk.
      * assert (Hlt : p < length (toks cx)) by (apply nth_error_Some; congruence).
        apply IH in H; [|lia|lia].
        destruct H as (H1 & H2 & H3 & H4 & H5). repeat split; try lia; try assumption.
        -- intros ->. apply H4. reflexivity.
        -- intros sn g0 -> HI Ht Hc Hne.
           destruct (g_step g0 c (BAdvance t true)) as [g1|] eqn:Eg.
           2:{ exfalso. apply Hne. apply H4. reflexivity. }
           destruct (step_refines _ _ _ _ _ HI Eg) as (c2 & sn2 & Hc2 & HI2).
           cbn [c_step] in Hc2. injection Hc2 as <- <-.
           apply (H5 sn g1 eq_refl HI2); [cbn; lia| |assumption].
           cbn [c_advance nodes]. rewrite tok_cells_snoc_tok, Hc, Ht.
           rewrite (combine_firstn_seq_S _ _ (eoi cx)) by assumption.
           rewrite (nth_error_nth' _ _ _ _ En). reflexivity.
      * injection H as <- <- <- <-.
        assert (Hlt : p < length (toks cx)) by (apply nth_error_Some; congruence).
        repeat split; try lia; auto.
        -- symmetry. apply nth_error_nth'. assumption.
        -- intros sn g0 -> HI Ht Hc _. eauto.
    + injection H as <- <- <- <-. apply nth_error_None in En.
      repeat split; try lia; auto.
      * rewrite nth_overflow by lia. reflexivity.
      * intros sn g0 -> HI Ht Hc _. eauto.
Qed.

Lemma skip_loop_none : forall fuel p c p' t' c' g',
  skip_loop cx fuel p c None = (p', t', c', g') -> g' = None.
Proof.
  induction fuel as [|fuel IH]; intros p c p' t' c' g' H; cbn [skip_loop] in H.
  - injection H as _ _ _ <-. reflexivity.
  - destruct (nth_error (toks cx) p) as [t|].
    + destruct (is_skipped cx t).
      * eapply IH. eassumption.
      * injection H as _ _ _ <-. reflexivity.
    + injection H as _ _ _ <-. reflexivity.
Qed.

(* ---------- advance ---------- *)
Lemma p_advance_P st err st' : p_advance cx st err = Ok st' -> P st st'.
Proof.
  unfold p_advance.
  set (pre := if err then Ok st else _).
  destruct pre as [s|w] eqn:Epre; [|discriminate].
  assert (Hs : P st s /\ pos s = pos st /\ cur s = cur st).
  { subst pre. destruct err.
    - injection Epre as <-. split; [apply P_refl|auto].
    - destruct (p_close_error_node st) as [s0|w] eqn:E0; [|discriminate]. injection Epre as <-.
      destruct (p_close_error_node_P _ _ E0) as (P0 & Hp0 & Hu0). split; [|auto].
      eapply P_trans; [exact P0|]. apply same_core_P. repeat split; reflexivity. }
  destruct Hs as (Ps & Hps & Hus).
  destruct (skip_loop cx (length (toks cx)) (S (pos s)) (c_advance (cstd s) (cur s) false)
              (if pos s <? length (toks cx) then gstep s (BAdvance (cur s) false) else None))
    as [[[p' t'] c'] g'] eqn:Esk.
  intros [= <-].
  eapply P_trans; [exact Ps|]. split; [|split]; cbn [gh snaps].
  - intros Hn.
    assert (Hg0 : (if pos s <? length (toks cx) then gstep s (BAdvance (cur s) false) else None) = None).
    { destruct (pos s <? length (toks cx)); [|reflexivity]. unfold gstep. rewrite Hn. reflexivity. }
    rewrite Hg0 in Esk. eapply skip_loop_none. eassumption.
  - reflexivity.
  - intros (g & G1 & G2 & (T1 & T2 & T3) & G4) Hne.
    destruct (Nat.ltb_spec (pos s) (length (toks cx))) as [Hlt|Hge].
    2:{ exfalso. apply Hne. eapply skip_loop_none. eassumption. }
    destruct (skip_loop_spec _ _ _ _ _ _ _ _ Esk) as (H1 & H2 & H3 & H4 & H5); [lia|lia|].
    unfold gstep in *. rewrite G1 in *.
    destruct (g_step g (cstd s) (BAdvance (cur s) false)) as [g1|] eqn:Eg.
    2:{ exfalso. apply Hne. apply H4. reflexivity. }
    destruct (step_refines _ _ _ _ _ G2 Eg) as (c2 & sn2 & Hc2 & HI2).
    cbn [c_step] in Hc2. injection Hc2 as <- <-.
    destruct (H5 (snaps s) g1 eq_refl HI2) as (g2 & -> & HI3 & Ht3 & Hc3); [cbn; lia| |assumption|].
    { cbn [c_advance nodes]. rewrite tok_cells_snoc_tok, T3, T2.
      rewrite (combine_firstn_seq_S _ _ (eoi cx)) by assumption.
      unfold cur_ok in G4. rewrite G4. reflexivity. }
    apply (RInv_intro _ g2); cbn [gh cstd snaps pos cur];
      [reflexivity | assumption | unfold tok_ok; cbn [cstd pos]; auto | unfold cur_ok; cbn [cur pos]; assumption].
Qed.

Lemma p_init_skip_P st : P st (p_init_skip cx st).
Proof.
  unfold p_init_skip.
  destruct (skip_loop cx (length (toks cx)) (pos st) (cstd st) (gh st)) as [[[p' t'] c'] g'] eqn:Esk.
  split; [|split]; cbn [gh snaps].
  - intros Hn. rewrite Hn in Esk. eapply skip_loop_none. eassumption.
  - reflexivity.
  - intros (g & G1 & G2 & (T1 & T2 & T3) & G4) Hne. rewrite G1 in Esk.
    destruct (skip_loop_spec _ _ _ _ _ _ _ _ Esk) as (H1 & H2 & H3 & H4 & H5); [lia|lia|].
    destruct (H5 (snaps st) g eq_refl G2 T2 T3 Hne) as (g2 & -> & HI3 & Ht3 & Hc3).
    apply (RInv_intro _ g2); cbn [gh cstd snaps pos cur];
      [reflexivity | assumption | unfold tok_ok; cbn [cstd pos]; auto | unfold cur_ok; cbn [cur pos]; assumption].
Qed.

Lemma p_advance_with_error_P st m st' : p_advance_with_error cx st m = Ok st' -> P st st'.
Proof.
  unfold p_advance_with_error.
  set (s1 := p_error st (mk_diag cx st m)).
  assert (P1 : P st s1) by apply p_error_P.
  destruct (length (toks cx) <=? pos s1).
  - intros [= <-]. exact P1.
  - intros H. eapply P_trans; [exact P1|].
    destruct (err_node s1) as [e|] eqn:Ee.
    + eapply p_advance_P. eassumption.
    + destruct (c_open (cstd s1)) as [mk c'] eqn:Eo.
      eapply P_trans; [|eapply p_advance_P; eassumption].
      eapply (step_P s1 BOpen c'); cbn [cstd gh pos cur snaps]; try reflexivity.
      * cbn [c_step]. rewrite Eo. reflexivity.
      * intros g _ _ _. unfold c_open in Eo. injection Eo as _ <-. cbn. split; [reflexivity|apply tok_cells_snoc_rule].
Qed.

(* ---------- snapshots ---------- *)
Definition saved_ok (sv : saved) : Prop :=
  sv_pos sv <= length (toks cx) /\ tm_tcount (sv_tm sv) = sv_pos sv
  /\ sv_cur sv = nth (sv_pos sv) (toks cx) (eoi cx).

Lemma p_get_state_spec st sv st0 :
  p_get_state st = (sv, st0) ->
  snaps st0 = sv_tm sv :: snaps st
  /\ (gh st = None -> gh st0 = None)
  /\ (RInv st -> saved_ok sv)
  /\ (RInv st -> gh st0 <> None -> RInv st0).
Proof.
  unfold p_get_state. intros [= <- <-]. cbn [snaps sv_tm gh]. split; [reflexivity|]. split; [|split].
  - unfold gstep. intros ->. reflexivity.
  - intros (g & G1 & G2 & (T1 & T2 & T3) & G4). unfold saved_ok, c_mark_truncation. cbn. auto.
  - intros (g & G1 & G2 & (T1 & T2 & T3) & G4) Hne. unfold gstep in Hne. rewrite G1 in Hne.
    destruct (g_step g (cstd st) BSnap) as [g'|] eqn:Eg; [|contradiction].
    destruct (step_refines _ _ _ _ _ G2 Eg) as (c2 & sn2 & Hc2 & HI2).
    cbn [c_step] in Hc2. injection Hc2 as <- <-.
    apply (RInv_intro _ g'); cbn [gh cstd snaps pos cur].
    + unfold gstep. rewrite G1. assumption.
    + assumption.
    + unfold tok_ok. cbn [cstd pos]. auto.
    + assumption.
Qed.

Lemma matches_count l lay : matches l lay -> length (tok_cells l) = count_tok lay.
Proof.
  induction 1 as [|x y l l' Hxy _ IH]; [reflexivity|].
  destruct y as [z|]; cbn in Hxy.
  - subst x. destruct z; cbn; [assumption|]. f_equal. assumption.
  - destruct Hxy as (k & e & ->). cbn. assumption.
Qed.

Lemma tok_cells_firstn_prefix l n : exists k, tok_cells (firstn n l) = firstn k (tok_cells l).
Proof.
  revert n. induction l as [|x l IH]; intros n.
  - exists 0. destruct n; reflexivity.
  - destruct n as [|n]; [exists 0; reflexivity|].
    destruct (IH n) as (k & Hk). destruct x as [kk e|t i]; cbn [firstn tok_cells].
    + exists k. assumption.
    + exists (S k). cbn. f_equal. assumption.
Qed.

Lemma firstn_combine_seq_gen : forall k (l : list tok) p s,
  k <= p -> p <= length l ->
  firstn k (combine (firstn p l) (seq s p)) = combine (firstn k l) (seq s k).
Proof.
  induction k as [|k IH]; intros l p s Hk Hp; [reflexivity|].
  destruct p as [|p]; [lia|]. destruct l as [|x l]; [cbn in Hp; lia|].
  cbn [firstn seq combine]. f_equal. apply IH; cbn in Hp; lia.
Qed.

Lemma firstn_combine_seq (l : list tok) k p :
  k <= p -> p <= length l ->
  firstn k (combine (firstn p l) (seq 0 p)) = combine (firstn k l) (seq 0 k).
Proof. apply firstn_combine_seq_gen. Qed.

Lemma p_set_state_spec del st sv rest :
  snaps st = sv_tm sv :: rest ->
  let st' := p_set_state del st sv in
  (gh st = None -> gh st' = None)
  /\ snaps st' = snaps st
  /\ (RInv st -> saved_ok sv -> gh st' <> None -> RInv st').
Proof.
  intros Hsn st'. subst st'. unfold p_set_state. cbn [gh snaps]. split; [|split].
  - unfold gstep. intros ->. reflexivity.
  - reflexivity.
  - intros (g & G1 & G2 & (T1 & T2 & T3) & G4) (S1 & S2 & S3) Hne. unfold gstep in Hne. rewrite G1 in Hne.
    destruct (g_step g (cstd st) (BRestore 0)) as [g'|] eqn:Eg; [|contradiction].
    destruct (step_refines _ _ _ _ _ G2 Eg) as (c2 & sn2 & Hc2 & HI2).
    cbn [c_step] in Hc2. rewrite Hsn in Hc2. cbn [nth_error skipn] in Hc2. injection Hc2 as <- <-.
    rewrite <- Hsn in HI2.
    apply (RInv_intro _ g'); cbn [gh cstd snaps pos cur].
    + unfold gstep. rewrite G1. assumption.
    + assumption.
    + unfold tok_ok. cbn [cstd pos c_truncate tcount nodes]. split; [assumption|]. split; [assumption|].
      (* the token cells of the truncated vector are the first sv_pos tokens *)
      pose proof (inv_match _ _ _ HI2) as Hm. pose proof (inv_tc _ _ _ HI2) as Htc.
      cbn [c_truncate nodes tcount] in Hm, Htc.
      pose proof (matches_count _ _ Hm) as Hlen.
      destruct (tok_cells_firstn_prefix (nodes (cstd st)) (tm_nodes (sv_tm sv))) as (k & Hk).
      rewrite Hk in *. rewrite T3 in *.
      assert (Hkl : length (firstn k (combine (firstn (pos st) (toks cx)) (seq 0 (pos st)))) = sv_pos sv) by lia.
      rewrite firstn_length, combine_length, firstn_length, seq_length in Hkl.
      assert (Hmin : Init.Nat.min k (pos st) = sv_pos sv) by lia.
      destruct (Nat.le_gt_cases k (pos st)) as [Hle|Hgt].
      * replace k with (sv_pos sv) by lia. apply firstn_combine_seq; lia.
      * (* k exceeds the number of cells: the prefix is everything *)
        rewrite firstn_all2 by (rewrite combine_length, firstn_length, seq_length; lia).
        replace (sv_pos sv) with (pos st) by lia. reflexivity.
    + unfold cur_ok. cbn [cur pos]. assumption.
Qed.

Lemma p_release_spec st x rest :
  snaps st = x :: rest ->
  snaps (p_release st) = rest
  /\ (gh st = None -> gh (p_release st) = None)
  /\ (RInv st -> gh (p_release st) <> None -> RInv (p_release st)).
Proof.
  intros Hsn. unfold p_release. cbn [snaps gh]. rewrite Hsn. split; [reflexivity|]. split.
  - unfold gstep. intros ->. reflexivity.
  - intros (g & G1 & G2 & (T1 & T2 & T3) & G4) Hne. unfold gstep in Hne. rewrite G1 in Hne.
    destruct (g_step g (cstd st) BRelease) as [g'|] eqn:Eg; [|contradiction].
    destruct (step_refines _ _ _ _ _ G2 Eg) as (c2 & sn2 & Hc2 & HI2).
    cbn [c_step] in Hc2. injection Hc2 as <- <-. rewrite Hsn in HI2. cbn [tl] in HI2.
    apply (RInv_intro _ g'); cbn [gh cstd snaps pos cur tl].
    + unfold gstep. rewrite G1. assumption.
    + assumption.
    + unfold tok_ok. cbn [cstd pos]. auto.
    + assumption.
Qed.

End RT.
