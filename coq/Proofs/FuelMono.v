(* C03, the meaning of fuel: once the interpreter returns anything but "out of fuel", it returns
   the same result for every larger fuel.  Hence a run either has a definite result (tree, panic,
   stuck) or exhausts every fuel - non-termination of the generated parser is the only behaviour
   [XFuel] stands for. *)
From Coq Require Import List Arith Lia Bool.
From LV Require Import Cst Tree ABuild Runtime Exec.
Import ListNotations.

Opaque p_get_state p_set_state p_release p_error p_advance p_advance_with_error p_open p_open_before p_close p_mark p_close_error_node add_event set_in_choice push_assert_diag find_rule deletable tok_in env_get env_set env_leave active_error mk_diag.

Section FM.
Variable cx : pctx.
Variable prog : program.
Variable orc : oracles.

Definition not_fuel {A} (r : xres A) : Prop := match r with XFuel => False | _ => True end.

Lemma call_fn_S fuel f st :
  call_fn cx prog orc (S fuel) f st =
  match exec_block cx prog orc fuel
          (match fn_rec f with Some (has_bp, body) => Some (fn_opt f, has_bp, body) | None => None end)
          (fn_body f) [] st with
  | XOk (o, _, st') => XOk (match o with ORetNone => false | _ => true end, st')
  | XPanic w => XPanic w
  | XFuel => XFuel
  | XStuck w => XStuck w
  end.
Proof. reflexivity. Qed.

Theorem fuel_mono : forall f1,
  (forall f2 rec_of s e st, f1 <= f2 -> not_fuel (exec cx prog orc f1 rec_of s e st) ->
      exec cx prog orc f2 rec_of s e st = exec cx prog orc f1 rec_of s e st)
  /\ (forall f2 rec_of b e st, f1 <= f2 -> not_fuel (exec_block cx prog orc f1 rec_of b e st) ->
      exec_block cx prog orc f2 rec_of b e st = exec_block cx prog orc f1 rec_of b e st)
  /\ (forall f2 rec_of n l e st, f1 <= f2 -> not_fuel (exec_seq cx prog orc f1 rec_of n l e st) ->
      exec_seq cx prog orc f2 rec_of n l e st = exec_seq cx prog orc f1 rec_of n l e st)
  /\ (forall f2 rec_of sv sel sk alts lp last m e1 st1, f1 <= f2 ->
      not_fuel (exec_alts cx prog orc f1 rec_of sv sel sk alts lp last m e1 st1) ->
      exec_alts cx prog orc f2 rec_of sv sel sk alts lp last m e1 st1
      = exec_alts cx prog orc f1 rec_of sv sel sk alts lp last m e1 st1)
  /\ (forall f2 f st, f1 <= f2 -> not_fuel (call_fn cx prog orc f1 f st) ->
      call_fn cx prog orc f2 f st = call_fn cx prog orc f1 f st).
Proof.
  induction f1 as [|f1 IH].
  { repeat split; intros; cbn in *; contradiction. }
  destruct IH as (IHe & IHb & IHs & IHa & IHc).
  split; [|split; [|split; [|split]]].
  - (* exec *)
    intros f2 rec_of s e st Hle Hn. destruct f2 as [|f2]; [lia|]. assert (Hle' : f1 <= f2) by lia.
    destruct s; simpl in Hn |- *; try reflexivity.
    + (* SCall *)
      destruct (find_rule prog r) as [f|]; [|reflexivity].
      destruct (call_fn cx prog orc f1 f st) as [[some s1]| | |] eqn:E; try contradiction;
        rewrite (IHc f2 f st Hle') by (rewrite E; exact I); rewrite E; reflexivity.
    + (* SRec *)
      destruct rec_of as [[[opt hb] body]|]; [|reflexivity].
      destruct (env_get e v) as [mk|]; [|reflexivity].
      match type of Hn with context [exec_block cx prog orc f1 ?a ?b ?c ?d] =>
        destruct (exec_block cx prog orc f1 a b c d) as [[[o1 e1] s1]| | |] eqn:E; try contradiction;
          rewrite (IHb f2 a b c d Hle') by (rewrite E; exact I); rewrite E; reflexivity end.
    + (* SIfNotElide *)
      destruct (env_get e VElide) as [[|n]|]; try reflexivity. apply IHb; assumption.
    + (* SMatch *)
      apply IHb; assumption.
    + (* SLoop *)
      destruct (exec_block cx prog orc f1 rec_of b e st) as [[[o1 e1] s1]| | |] eqn:E; try contradiction;
        rewrite (IHb f2 rec_of b e st Hle') by (rewrite E; exact I); rewrite E; try reflexivity.
      destruct o1; try reflexivity; apply IHe; assumption.
    + (* SOrdChoice *)
      destruct (if save_elide then env_get e VElide else Some 0) as [el0|]; [|reflexivity].
      destruct (if save_kind then env_get e VKind else Some 0) as [k0|]; [|reflexivity].
      destruct (p_get_state st) as [sv st0]. apply IHa; assumption.
  - (* exec_block *)
    intros f2 rec_of b e st Hle Hn. destruct f2 as [|f2]; [lia|]. simpl in Hn |- *. apply IHs; [lia|assumption].
  - (* exec_seq *)
    intros f2 rec_of n l e st Hle Hn. destruct f2 as [|f2]; [lia|]. assert (Hle' : f1 <= f2) by lia.
    destruct l as [|s r]; simpl in Hn |- *; [reflexivity|].
    destruct (exec cx prog orc f1 rec_of s e st) as [[[o1 e1] s1]| | |] eqn:E; try contradiction;
      rewrite (IHe f2 rec_of s e st Hle') by (rewrite E; exact I); rewrite E; try reflexivity.
    destruct o1; try reflexivity. apply IHs; assumption.
  - (* exec_alts *)
    intros f2 rec_of sv sel sk alts lp last m e1 st1 Hle Hn. destruct f2 as [|f2]; [lia|]. assert (Hle' : f1 <= f2) by lia.
    destruct alts as [|[pats body] r]; simpl in Hn |- *.
    + destruct (tok_in (cur (set_in_choice st1 false)) lp); [|reflexivity].
      match type of Hn with context [exec_block cx prog orc f1 ?a ?b ?c ?d] =>
        destruct (exec_block cx prog orc f1 a b c d) as [[[o1 e2] s1]| | |] eqn:E; try contradiction;
          rewrite (IHb f2 a b c d Hle') by (rewrite E; exact I); rewrite E; reflexivity end.
    + destruct (tok_in (cur st1) pats).
      * destruct (exec_block cx prog orc f1 rec_of body e1 st1) as [[[o1 e2] s1]| | |] eqn:E; try contradiction;
          rewrite (IHb f2 rec_of body e1 st1 Hle') by (rewrite E; exact I); rewrite E; try reflexivity.
        destruct o1; try reflexivity.
        destruct (if fst sel then env_set e2 VElide (snd sel) else Some e2) as [e3|]; [|reflexivity].
        destruct (if fst sk then env_set e3 VKind (snd sk) else Some e3) as [e4|]; [|reflexivity].
        apply IHa; assumption.
      * apply IHa; assumption.
  - (* call_fn *)
    intros f2 f st Hle Hn. destruct f2 as [|f2]; [lia|]. assert (Hle' : f1 <= f2) by lia.
    rewrite !call_fn_S in *.
    match type of Hn with context [exec_block cx prog orc f1 ?a ?b ?c ?d] =>
      destruct (exec_block cx prog orc f1 a b c d) as [[[o1 e1] s1]| | |] eqn:E; try contradiction;
        rewrite (IHb f2 a b c d Hle') by (rewrite E; exact I); rewrite E; reflexivity end.
Qed.

(* whole parses *)
Corollary call_fn_fuel_irrelevant f1 f2 f st r :
  call_fn cx prog orc f1 f st = r -> not_fuel r -> f1 <= f2 -> call_fn cx prog orc f2 f st = r.
Proof.
  intros H Hn Hle. destruct (fuel_mono f1) as (_ & _ & _ & _ & Hc). rewrite <- H in *. apply Hc; assumption.
Qed.

Theorem parse_entry_fuel_irrelevant f1 f2 r root msg :
  f1 <= f2 -> not_fuel (parse_entry cx prog orc f1 r root msg) ->
  parse_entry cx prog orc f2 r root msg = parse_entry cx prog orc f1 r root msg.
Proof.
  intros Hle Hn. unfold parse_entry in *.
  destruct (p_open init_state) as [[m st0]|w]; [|reflexivity].
  destruct (find_rule prog r) as [f|]; [|reflexivity].
  destruct (call_fn cx prog orc f1 f (p_init_skip cx st0)) as [[some st2]| | |] eqn:E; try contradiction;
    rewrite (call_fn_fuel_irrelevant f1 f2 f _ _ E I Hle); reflexivity.
Qed.

End FM.
