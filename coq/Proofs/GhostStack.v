(* C08: the snapshot stack of the ghost, the diagnostic list and the callback log
   evolve monotonically under every runtime operation (relation G); saving and
   restoring a ParserState brings the abstract tree state, the position, the
   current token, the diagnostics and the error state back exactly. *)
From Coq Require Import List Arith Lia Bool.
From LV Require Import Cst Tree ABuild Runtime Exec ListLemmas.
Import ListNotations.

Definition G (st st' : pstate) : Prop :=
  (forall g', gh st' = Some g' -> exists g, gh st = Some g /\ g_snaps g' = g_snaps g)
  /\ (exists d, diags st' = diags st ++ d)
  /\ (exists l, log st' = log st ++ l).

Lemma G_refl st : G st st.
Proof.
  split; [|split].
  - intros g' H. exists g'. auto.
  - exists []. symmetry. apply app_nil_r.
  - exists []. symmetry. apply app_nil_r.
Qed.

Lemma G_trans a b c : G a b -> G b c -> G a c.
Proof.
  intros (A1 & (d1 & A2) & (l1 & A3)) (B1 & (d2 & B2) & (l2 & B3)). split; [|split].
  - intros g' H. destruct (B1 g' H) as (g1 & H1 & E1). destruct (A1 g1 H1) as (g0 & H0 & E0).
    exists g0. split; [assumption|congruence].
  - exists (d1 ++ d2). rewrite B2, A2, app_assoc. reflexivity.
  - exists (l1 ++ l2). rewrite B3, A3, app_assoc. reflexivity.
Qed.

Definition plain (o : bop) : bool :=
  match o with BSnap | BRestore _ | BRelease => false | _ => true end.

Lemma g_step_plain g c o g' : plain o = true -> g_step g c o = Some g' -> g_snaps g' = g_snaps g.
Proof.
  destruct o; cbn [plain g_step]; intros Hp H; try discriminate.
  - destruct (a_open (g_abs g)); cbn in H; [injection H as <-; reflexivity|discriminate].
  - destruct (a_close (g_abs g) m k); cbn in H; [injection H as <-; reflexivity|discriminate].
  - destruct (a_advance (g_abs g) t (tcount c) skip); cbn in H; [injection H as <-; reflexivity|discriminate].
  - destruct (snaps_allow (g_snaps g) p); [|discriminate].
    destruct (a_open_before (g_abs g) p); cbn in H; [injection H as <-; reflexivity|discriminate].
Qed.

Lemma gstep_plain st o g' : plain o = true -> gstep st o = Some g' -> exists g, gh st = Some g /\ g_snaps g' = g_snaps g.
Proof.
  unfold gstep. intros Hp H. destruct (gh st) as [g|]; [|discriminate].
  exists g. split; [reflexivity|]. eapply g_step_plain; eassumption.
Qed.

(* a state that differs from [st] in the tree, the ghost (by plain steps), and neither diags nor log *)
Lemma G_intro st st' :
  (forall g', gh st' = Some g' -> exists g, gh st = Some g /\ g_snaps g' = g_snaps g) ->
  diags st' = diags st -> log st' = log st -> G st st'.
Proof.
  intros H Hd Hl. split; [assumption|]. split.
  - exists []. rewrite Hd. symmetry. apply app_nil_r.
  - exists []. rewrite Hl. symmetry. apply app_nil_r.
Qed.

Lemma p_error_G st d : G st (p_error st d).
Proof.
  unfold p_error. destruct (active_error st); [apply G_refl|].
  split; [|split]; cbn.
  - intros g' H. exists g'. auto.
  - exists [d]. reflexivity.
  - exists []. symmetry. apply app_nil_r.
Qed.

Lemma p_close_error_node_G st s : p_close_error_node st = Ok s -> G st s.
Proof.
  unfold p_close_error_node. destruct (err_node st) as [m|]; [|intros [= <-]; apply G_refl].
  destruct (c_close (cstd st) m kError) as [c'|w]; [|discriminate]. intros [= <-].
  split; [|split]; cbn.
  - intros g' H. eapply gstep_plain; [|eassumption]. reflexivity.
  - exists []. symmetry. apply app_nil_r.
  - eexists. reflexivity.
Qed.

Lemma skip_loop_G cx : forall fuel p c g p' t' c' g2,
  skip_loop cx fuel p c g = (p', t', c', Some g2) ->
  exists g1, g = Some g1 /\ g_snaps g2 = g_snaps g1.
Proof.
  induction fuel as [|fuel IH]; intros p c g p' t' c' g2 H; cbn [skip_loop] in H.
  - injection H as _ _ _ ->. eauto.
  - destruct (nth_error (toks cx) p) as [t|]; [|injection H as _ _ _ ->; eauto].
    destruct (is_skipped cx t); [|injection H as _ _ _ ->; eauto].
    apply IH in H. destruct H as (g1 & H1 & E1).
    destruct g as [g0|]; [|discriminate]. exists g0. split; [reflexivity|].
    rewrite E1. eapply g_step_plain; [|eassumption]. reflexivity.
Qed.

Lemma p_advance_G cx st err s : p_advance cx st err = Ok s -> G st s.
Proof.
  unfold p_advance.
  set (pre := if err then Ok st else _).
  destruct pre as [s0|w] eqn:Epre; [|discriminate].
  assert (G0 : G st s0).
  { subst pre. destruct err; [injection Epre as <-; apply G_refl|].
    destruct (p_close_error_node st) as [s1|w] eqn:E1; [|discriminate]. injection Epre as <-.
    apply p_close_error_node_G in E1. destruct E1 as (A1 & A2 & A3). split; [|split]; cbn; assumption. }
  destruct (skip_loop cx (length (toks cx)) (S (pos s0)) (c_advance (cstd s0) (cur s0) false)
                      (if pos s0 <? length (toks cx) then gstep s0 (BAdvance (cur s0) false) else None))
    as [[[p' t'] c'] g'] eqn:Es.
  intros [= <-]. eapply G_trans; [exact G0|].
  apply G_intro; cbn; try reflexivity.
  intros g2 ->. apply skip_loop_G in Es. destruct Es as (g1 & H1 & E1).
  destruct (pos s0 <? length (toks cx)); [|discriminate].
  destruct (gstep_plain s0 (BAdvance (cur s0) false) g1 eq_refl H1) as (g0 & H0 & E0). exists g0. split; [assumption|congruence].
Qed.

Lemma p_advance_with_error_G cx st m s : p_advance_with_error cx st m = Ok s -> G st s.
Proof.
  unfold p_advance_with_error.
  set (s1 := p_error st (mk_diag cx st m)).
  assert (G1 : G st s1) by apply p_error_G.
  destruct (length (toks cx) <=? pos s1); [intros [= <-]; assumption|].
  intros H. apply p_advance_G in H. eapply G_trans; [exact G1|]. eapply G_trans; [|exact H].
  destruct (err_node s1); [apply G_refl|].
  destruct (c_open (cstd s1)) as [mk c'].
  apply G_intro; cbn; try reflexivity.
  intros g' Hg. eapply gstep_plain; [|eassumption]. reflexivity.
Qed.

Lemma set_cst_G s c o : plain o = true -> G s (set_cst s c (gstep s o)).
Proof.
  intros Hp. apply G_intro; cbn; try reflexivity.
  intros g' Hg. eapply gstep_plain; eassumption.
Qed.

Lemma p_open_G st mk s : p_open st = Ok (mk, s) -> G st s.
Proof.
  unfold p_open. destruct (p_close_error_node st) as [s0|w] eqn:E; [|discriminate].
  apply p_close_error_node_G in E. destruct (c_open (cstd s0)) as [mk' c']. intros [= _ <-].
  eapply G_trans; [exact E|]. apply set_cst_G. reflexivity.
Qed.

Lemma p_open_before_G st m mk s : p_open_before st m = Ok (mk, s) -> G st s.
Proof.
  unfold p_open_before. destruct (p_close_error_node st) as [s0|w] eqn:E; [|discriminate].
  apply p_close_error_node_G in E. destruct (c_open_before (cstd s0) m) as [c'|w]; [|discriminate].
  intros [= _ <-]. eapply G_trans; [exact E|]. apply set_cst_G. reflexivity.
Qed.

Lemma p_close_G st m k mk s : p_close st m k = Ok (mk, s) -> G st s.
Proof.
  unfold p_close. destruct (p_close_error_node st) as [s0|w] eqn:E; [|discriminate].
  apply p_close_error_node_G in E. destruct (c_close (cstd s0) m k) as [c'|w]; [|discriminate].
  intros [= _ <-]. eapply G_trans; [exact E|]. apply set_cst_G. reflexivity.
Qed.

Lemma p_mark_G st mk s : p_mark st = Ok (mk, s) -> G st s.
Proof.
  unfold p_mark. destruct (p_close_error_node st) as [s0|w] eqn:E; [|discriminate].
  apply p_close_error_node_G in E. intros [= _ <-]. assumption.
Qed.

Lemma add_event_G st e : G st (add_event st e).
Proof.
  split; [|split]; cbn.
  - intros g' H. exists g'. auto.
  - exists []. symmetry. apply app_nil_r.
  - eexists. reflexivity.
Qed.

Lemma set_in_choice_G st b : G st (set_in_choice st b).
Proof. apply G_intro; cbn; try reflexivity. intros g' H. exists g'. auto. Qed.

Lemma push_assert_diag_G cx st : G st (push_assert_diag cx st).
Proof.
  split; [|split]; cbn.
  - intros g' H. exists g'. auto.
  - eexists. reflexivity.
  - exists []. symmetry. apply app_nil_r.
Qed.

(* ---------- save / restore / release ---------- *)
Lemma p_get_state_ghost st sv st0 g0 :
  p_get_state st = (sv, st0) -> gh st0 = Some g0 ->
  exists g, gh st = Some g /\ g0 = mkGhost (g_abs g) (mkSnap (c_mark_truncation (cstd st)) (g_abs g) :: g_snaps g).
Proof.
  unfold p_get_state. intros [= <- <-]. cbn [gh]. unfold gstep.
  destruct (gh st) as [g|]; [|discriminate]. cbn [g_step]. intros [= <-]. exists g. auto.
Qed.

Lemma p_get_state_fields st sv st0 :
  p_get_state st = (sv, st0) ->
  sv_pos sv = pos st /\ sv_cur sv = cur st /\ sv_diags sv = length (diags st) /\ sv_err sv = err_node st
  /\ sv_esa sv = esa st /\ diags st0 = diags st /\ log st0 = log st /\ cstd st0 = cstd st
  /\ in_choice st0 = in_choice st.
Proof. unfold p_get_state. intros [= <- <-]. cbn. repeat split. Qed.

(* the abandoned attempt leaves no trace in the state the parser continues from *)
Theorem restore_exact del st sv st0 st2 :
  p_get_state st = (sv, st0) -> G st0 st2 ->
  let st3 := p_set_state del st2 sv in
  pos st3 = pos st /\ cur st3 = cur st /\ diags st3 = diags st
  /\ err_node st3 = err_node st /\ esa st3 = esa st
  /\ (exists l, log st3 = log st ++ l)
  /\ forall g3, gh st3 = Some g3 ->
       exists g, gh st = Some g /\ g_abs g3 = g_abs g
                 /\ g_snaps g3 = mkSnap (c_mark_truncation (cstd st)) (g_abs g) :: g_snaps g.
Proof.
  intros Hg (G1 & (d & G2) & (l & G3)) st3.
  destruct (p_get_state_fields _ _ _ Hg) as (F1 & F2 & F3 & F4 & F5 & F6 & F7 & F8 & F9).
  subst st3. unfold p_set_state. cbn [pos cur diags err_node esa log gh].
  repeat split; try assumption.
  - rewrite G2, F6, F3, firstn_app, Nat.sub_diag, firstn_all. cbn. apply app_nil_r.
  - rewrite G3, F7. rewrite <- !app_assoc. eexists. reflexivity.
  - intros g3 H3. unfold gstep in H3. destruct (gh st2) as [g2|] eqn:E2; [|discriminate].
    cbn [g_step] in H3. destruct (g_snaps g2) as [|s r] eqn:Es; [discriminate|]. cbn in H3. injection H3 as <-.
    destruct (G1 g2 eq_refl) as (g0 & H0 & E0).
    destruct (p_get_state_ghost _ _ _ _ Hg H0) as (g & Hgst & ->). cbn [g_snaps] in E0.
    exists g. split; [assumption|]. rewrite Es in E0. injection E0 as -> ->. cbn. auto.
Qed.

Lemma p_set_state_G del st sv st0 st2 :
  p_get_state st = (sv, st0) -> G st0 st2 -> G st0 (p_set_state del st2 sv).
Proof.
  intros Hg HG. pose proof (restore_exact del st sv st0 st2 Hg HG) as R. cbn zeta in R.
  destruct R as (_ & _ & Rd & _ & _ & (l & Rl) & Rg).
  destruct (p_get_state_fields _ _ _ Hg) as (_ & _ & _ & _ & _ & F6 & F7 & _).
  split; [|split].
  - intros g3 H3. destruct (Rg g3 H3) as (g & Hgs & _ & Es).
    unfold p_get_state in Hg. injection Hg as _ <-. cbn [gh]. unfold gstep. rewrite Hgs. cbn [g_step].
    eexists. split; [reflexivity|]. cbn. assumption.
  - exists []. rewrite Rd, F6. symmetry. apply app_nil_r.
  - exists l. rewrite Rl, F7. reflexivity.
Qed.

Lemma p_release_ghost st g' :
  gh (p_release st) = Some g' -> exists g, gh st = Some g /\ g_snaps g' = tl (g_snaps g).
Proof.
  unfold p_release. cbn [gh]. unfold gstep. destruct (gh st) as [g|]; [|discriminate]. cbn [g_step].
  destruct (g_snaps g) as [|s r] eqn:E; [discriminate|]. intros [= <-]. exists g. rewrite E. auto.
Qed.
