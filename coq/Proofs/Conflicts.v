(* C10: what LL1Validator::check (Sema.check_regex) reports for a rule that is not
   left recursive, and for every construct nested anywhere, is exactly the
   definition of an LL(1) conflict over the predict and follow sets:
     E011 at a branch   iff the branch has no leading predicate and shares a predict
                            token with a later branch of the same alternation;
     E013 at a loop     iff its body has no leading predicate and shares a predict
                            token with what may follow the loop;
     E014 at an option  iff likewise for the option.
   Hence: no such diagnostic iff every alternation, repetition and option of the
   rule can be decided with one token of lookahead (or is explicitly guarded). *)
From Coq Require Import List Arith Lia Bool.
From LV Require Import Sema SetLemmas FirstSpec.
Import ListNotations.

Section Conf.
Variable fi fo pr lf : smap.

Definition share (s1 s2 : set) : Prop := exists x, mem x s1 = true /\ mem x s2 = true.

Lemma nonempty_inter s1 s2 : nonempty (inter s1 s2) = true <-> share s1 s2.
Proof.
  unfold inter, share. split.
  - destruct (filter (fun x => mem x s2) s1) as [|x r] eqn:E; [discriminate|]. intros _.
    assert (H : In x (filter (fun x => mem x s2) s1)) by (rewrite E; left; reflexivity).
    apply filter_In in H. destruct H as (H1 & H2). exists x. split; [apply mem_In; assumption|assumption].
  - intros (x & H1 & H2). apply mem_In in H1.
    assert (H : In x (filter (fun x => mem x s2) s1)) by (apply filter_In; auto).
    destruct (filter (fun x => mem x s2) s1); [contradiction|reflexivity].
Qed.

Lemma nonempty_filter {A} (f : A -> bool) l : nonempty (filter f l) = true <-> exists x, In x l /\ f x = true.
Proof.
  split.
  - destruct (filter f l) as [|x r] eqn:E; [discriminate|]. intros _.
    assert (H : In x (filter f l)) by (rewrite E; left; reflexivity).
    apply filter_In in H. exists x. assumption.
  - intros (x & H1 & H2). assert (H : In x (filter f l)) by (apply filter_In; auto).
    destruct (filter f l); [contradiction|reflexivity].
Qed.

Lemma In_enumerate {A} (l : list A) : forall k i x,
  In (i, x) (enumerate k l) <-> exists j, i = k + j /\ nth_error l j = Some x.
Proof.
  induction l as [|y r IH]; intros k i x; cbn [enumerate].
  - split; [contradiction|]. intros (j & _ & H). destruct j; discriminate.
  - split.
    + intros [H|H].
      * injection H as <- <-. exists 0. split; [lia|reflexivity].
      * apply IH in H. destruct H as (j & -> & H). exists (S j). split; [lia|assumption].
    + intros (j & -> & H). destruct j as [|j]; cbn in H.
      * injection H as <-. left. f_equal. lia.
      * right. apply IH. exists j. split; [lia|assumption].
Qed.

Lemma In_skipn {A} (l : list A) : forall n x, In x (skipn n l) <-> exists j, n <= j /\ nth_error l j = Some x.
Proof.
  induction l as [|y r IH]; intros n x.
  - rewrite skipn_nil. split; [contradiction|]. intros (j & _ & H). destruct j; discriminate.
  - destruct n as [|n]; cbn [skipn].
    + split.
      * intros H. apply In_nth_error in H. destruct H as (j & H). exists j. split; [lia|assumption].
      * intros (j & _ & H). eapply nth_error_In. eassumption.
    + rewrite IH. split.
      * intros (j & Hj & H). exists (S j). split; [lia|assumption].
      * intros (j & Hj & H). destruct j as [|j]; [lia|]. exists j. split; [lia|assumption].
Qed.

Lemma filter_all {A} (f : A -> bool) l : (forall x, f x = true) -> filter f l = l.
Proof. intros H. induction l as [|x r IH]; cbn; [reflexivity|]. rewrite H, IH. reflexivity. Qed.

Definition is_ll1 (c : dcode) : bool := match c with E011 | E013 | E014 => true | _ => false end.

(* the definition of a conflict at one construct *)
Definition local (y : regex) (c : dcode) (n : nat) : Prop :=
  match y with
  | RAlt _ alts =>
    c = E011 /\ exists i op, nth_error alts i = Some op /\ n = rid_of op /\ has_predicate op = false
                /\ exists j o, i < j /\ nth_error alts j = Some o /\ share (get pr (rid_of op)) (get pr (rid_of o))
  | RStar id op | RPlus id op =>
    c = E013 /\ n = id /\ has_predicate op = false /\ share (get fo id) (get pr (rid_of op))
  | ROpt id op =>
    c = E014 /\ n = id /\ has_predicate op = false /\ share (get fo id) (get pr (rid_of op))
  | _ => False
  end.

Definition Conflict (x : regex) (c : dcode) (n : nat) : Prop :=
  exists y, In y (subs x) /\ local y c n.

Lemma conflict_kids x kids c n :
  subs x = x :: flat_map subs kids ->
  (Conflict x c n <-> local x c n \/ exists o, In o kids /\ Conflict o c n).
Proof.
  intros Hs. unfold Conflict. rewrite Hs. split.
  - intros (y & [<-|Hy] & Hl); [left; assumption|].
    apply in_flat_map in Hy. destruct Hy as (o & Ho & Hy). right. exists o. split; [assumption|]. exists y. auto.
  - intros [Hl|(o & Ho & y & Hy & Hl)].
    + exists x. split; [left; reflexivity|assumption].
    + exists y. split; [|assumption]. right. apply in_flat_map. exists o. auto.
Qed.

Lemma conflict_kid x o c n :
  subs x = x :: subs o ->
  (Conflict x c n <-> local x c n \/ Conflict o c n).
Proof.
  intros Hs. rewrite (conflict_kids x [o]).
  - split; intros [H|H]; auto.
    + destruct H as (o' & [<-|[]] & H). right. assumption.
    + right. exists o. split; [left; reflexivity|assumption].
  - rewrite Hs. cbn. rewrite app_nil_r. reflexivity.
Qed.

Lemma rsize_in o ops : In o ops -> rsize o <= list_sum (map rsize ops).
Proof.
  induction ops as [|y r IH]; [contradiction|].
  change (list_sum (map rsize (y :: r))) with (rsize y + list_sum (map rsize r)).
  intros [->|H]; [lia|]. specialize (IH H). lia.
Qed.

Lemma check_intersection_plain op branches i :
  check_intersection pr op branches i false false <> [] <->
  exists j o, i < j /\ nth_error branches j = Some o /\ share (get pr (rid_of op)) (get pr (rid_of o)).
Proof.
  unfold check_intersection. cbn [negb].
  match goal with |- context [nonempty ?l] => destruct (nonempty l) eqn:E end.
  - split; [intros _|discriminate].
    apply nonempty_filter in E. destruct E as (o & Ho & Hs). apply In_skipn in Ho.
    destruct Ho as (j & Hj & Hn). exists j, o. split; [lia|]. split; [assumption|].
    apply nonempty_inter. assumption.
  - split; [intros H; contradiction H; reflexivity|].
    intros (j & o & Hj & Hn & Hs). exfalso.
    assert (nonempty (filter (fun o0 => nonempty (inter (get pr (rid_of op)) (get pr (rid_of o0)))) (skipn (S i) branches)) = true).
    { apply nonempty_filter. exists o. split; [apply In_skipn; exists j; split; [lia|assumption]|].
      apply nonempty_inter. assumption. }
    congruence.
Qed.

Lemma check_intersection_shape op branches i c n :
  In (c, n) (check_intersection pr op branches i false false) <->
  c = E011 /\ n = rid_of op /\ check_intersection pr op branches i false false <> [].
Proof.
  unfold check_intersection. cbn [negb].
  match goal with |- context [nonempty ?l] => destruct (nonempty l) end; cbn.
  - split.
    + intros [H|[]]. injection H as <- <-. repeat split. discriminate.
    + intros (-> & -> & _). left. reflexivity.
  - split; [contradiction|]. intros (_ & _ & H). apply H. reflexivity.
Qed.

Theorem check_regex_exact : forall fuel x, rsize x <= fuel -> forall c n, is_ll1 c = true ->
  (In (c, n) (check_regex fi fo pr lf fuel x []) <-> Conflict x c n).
Proof.
  induction fuel as [|fuel IH]; intros x Hf c n Hc.
  { destruct x as [| | | | | | | |? [?|]|]; cbn [rsize] in Hf; lia. }
  assert (IHl : forall ops, list_sum (map rsize ops) <= fuel ->
            (In (c, n) (flat_map (fun o => check_regex fi fo pr lf fuel o []) ops) <-> exists o, In o ops /\ Conflict o c n)).
  { intros ops Hs. rewrite in_flat_map. split; intros (o & Ho & H); exists o; (split; [assumption|]).
    - apply IH; [pose proof (rsize_in o ops Ho); lia|assumption|assumption].
    - apply IH; [pose proof (rsize_in o ops Ho); lia|assumption|assumption]. }
  destruct x as [id t|id r|id ops|id alts|id ops|id op|id op|id op|id [op|]|id k]; cbn [check_regex]; cbn [rsize] in Hf.
  - (* tok *) split; [contradiction|]. intros (y & [<-|[]] & []).
  - (* rule *)
    split.
    + destruct (has fi id && negb (nonempty (get fi id))); [|contradiction].
      intros [H|[]]. injection H as <- <-. discriminate.
    + intros (y & [<-|[]] & []).
  - (* cat *)
    rewrite (conflict_kids (RCat id ops) ops) by reflexivity. rewrite IHl by lia.
    split; [auto|]. intros [[]|H]; assumption.
  - (* alt *)
    rewrite (conflict_kids (RAlt id alts) alts) by reflexivity.
    cbn [flat_map enumerate app existsb].
    rewrite (filter_all (fun o => negb false) alts) by reflexivity.
    rewrite in_app_iff, IHl by lia.
    apply or_iff_compat_r.
    rewrite in_flat_map. cbn [local]. split.
    + intros ([i op] & Hin & H). apply In_enumerate in Hin. destruct Hin as (j & -> & Hn). cbn [Nat.add] in *.
      destruct (has_predicate op) eqn:Ep; [contradiction|].
      apply check_intersection_shape in H. destruct H as (-> & -> & H).
      apply check_intersection_plain in H.
      split; [reflexivity|]. exists j, op. repeat split; assumption.
    + intros (-> & i & op & Hn & -> & Hp & H).
      exists (i, op). split; [apply In_enumerate; exists i; split; [reflexivity|assumption]|].
      rewrite Hp. apply check_intersection_shape. repeat split. apply check_intersection_plain. assumption.
  - (* choice *)
    rewrite (conflict_kids (RChoice id ops) ops) by reflexivity.
    split.
    + intros H. right. apply in_flat_map in H. destruct H as ([i op] & Hin & H).
      apply In_enumerate in Hin. destruct Hin as (j & -> & Hn).
      apply in_app_iff in H. destruct H as [H|H].
      * exfalso. destruct (Nat.eqb (S (0 + j)) (length ops)); [contradiction|].
        unfold check_intersection in H.
        match type of H with context [nonempty ?l] => destruct (nonempty l) end; [contradiction|].
        destruct H as [H|[]]. injection H as <- _. discriminate.
      * exists op. split; [eapply nth_error_In; eassumption|].
        apply IH; [pose proof (rsize_in op ops (nth_error_In _ _ Hn)); lia|assumption|assumption].
    + intros [[]|(o & Ho & H)]. apply in_flat_map.
      apply In_nth_error in Ho. destruct Ho as (j & Hn).
      exists (j, o). split; [apply In_enumerate; exists j; split; [reflexivity|assumption]|].
      apply in_app_iff. right.
      apply IH; [pose proof (rsize_in o ops (nth_error_In _ _ Hn)); lia|assumption|assumption].
  - (* star *)
    rewrite (conflict_kid (RStar id op) op) by reflexivity.
    rewrite in_app_iff, IH by (assumption || lia). apply or_iff_compat_r. cbn [local].
    destruct (has_predicate op); cbn [negb andb].
    + split; [contradiction|]. intros (_ & _ & H & _). discriminate.
    + destruct (nonempty (inter (get fo id) (get pr (rid_of op)))) eqn:E.
      * apply nonempty_inter in E. split.
        -- intros [H|[]]. injection H as <- <-. auto.
        -- intros (-> & -> & _). left. reflexivity.
      * split; [contradiction|]. intros (_ & _ & _ & H). apply nonempty_inter in H. congruence.
  - (* plus *)
    rewrite (conflict_kid (RPlus id op) op) by reflexivity.
    rewrite in_app_iff, IH by (assumption || lia). apply or_iff_compat_r. cbn [local].
    destruct (has_predicate op); cbn [negb andb].
    + split; [contradiction|]. intros (_ & _ & H & _). discriminate.
    + destruct (nonempty (inter (get fo id) (get pr (rid_of op)))) eqn:E.
      * apply nonempty_inter in E. split.
        -- intros [H|[]]. injection H as <- <-. auto.
        -- intros (-> & -> & _). left. reflexivity.
      * split; [contradiction|]. intros (_ & _ & _ & H). apply nonempty_inter in H. congruence.
  - (* opt *)
    rewrite (conflict_kid (ROpt id op) op) by reflexivity.
    rewrite in_app_iff, IH by (assumption || lia). apply or_iff_compat_r. cbn [local].
    destruct (has_predicate op); cbn [negb andb].
    + split; [contradiction|]. intros (_ & _ & H & _). discriminate.
    + destruct (nonempty (inter (get fo id) (get pr (rid_of op)))) eqn:E.
      * apply nonempty_inter in E. split.
        -- intros [H|[]]. injection H as <- <-. auto.
        -- intros (-> & -> & _). left. reflexivity.
      * split; [contradiction|]. intros (_ & _ & _ & H). apply nonempty_inter in H. congruence.
  - (* paren some *)
    rewrite (conflict_kid (RParen id (Some op)) op) by reflexivity.
    rewrite IH by (assumption || lia). split; [auto|]. intros [[]|H]; assumption.
  - (* paren none *) split; [contradiction|]. intros (y & [<-|[]] & []).
  - (* leaf *) split; [contradiction|]. intros (y & [<-|[]] & []).
Qed.

(* reported free of conflicts iff one token of lookahead decides every construct *)
Corollary conflict_free_iff x :
  (forall c n, is_ll1 c = true -> ~ In (c, n) (check_regex fi fo pr lf (S (rsize x)) x []))
  <-> (forall c n, ~ Conflict x c n).
Proof.
  split.
  - intros H c n Hc.
    assert (Hl : is_ll1 c = true).
    { destruct Hc as (y & _ & Hl). destruct y; cbn in Hl; try contradiction; destruct Hl as (-> & _); reflexivity. }
    apply (H c n Hl). apply check_regex_exact; [lia|assumption|assumption].
  - intros H c n Hl Hin. apply (H c n). apply check_regex_exact in Hin; [assumption|lia|assumption].
Qed.

End Conf.

(* ---------- operator conflicts of a left-recursive rule (E012) ---------- *)
Section LeftRec.
Variable fi fo pr lf : smap.

Definition lefts_of (recs : list recursion) : list regex :=
  flat_map (fun b => match b with RecLeft o _ | RecLeftRight o _ _ => [o] | _ => [] end) recs.

(* the operator of an unguarded left-recursive branch may also follow the rule from outside its own
   operator recursion, or is also the operator of a later left-recursive branch *)
Definition OpConflict (recs : list recursion) (id : nat) (n : nat) : Prop :=
  exists i branch op,
    nth_error (lefts_of recs) i = Some branch /\ skip_first branch = Some op /\ n = rid_of op
    /\ has_predicate branch = false
    /\ (share (get pr (rid_of op)) (get lf id)
        \/ exists j branch' op', i < j /\ nth_error (lefts_of recs) j = Some branch'
                                 /\ skip_first branch' = Some op'
                                 /\ share (get pr (rid_of op)) (get pr (rid_of op'))).

Lemma check_intersection_left op branches i c n :
  In (c, n) (check_intersection pr op branches i true false) <->
  c = E012 /\ n = rid_of op
  /\ exists j branch' op', i < j /\ nth_error branches j = Some branch' /\ skip_first branch' = Some op'
                           /\ share (get pr (rid_of op)) (get pr (rid_of op')).
Proof.
  unfold check_intersection.
  match goal with |- context [nonempty ?l] => destruct (nonempty l) eqn:E end.
  - apply nonempty_filter in E. destruct E as (b' & Hb' & Hs). apply In_skipn in Hb'. destruct Hb' as (j & Hj & Hn).
    split.
    + intros [H|[]]. injection H as <- <-. split; [reflexivity|]. split; [reflexivity|].
      destruct (skip_first b') as [o'|] eqn:Es; [|discriminate].
      exists j, b', o'. split; [lia|]. split; [assumption|]. split; [assumption|]. apply nonempty_inter. assumption.
    + intros (-> & -> & _). left. reflexivity.
  - split; [intros []|]. intros (_ & _ & j & b' & o' & Hj & Hn & Hs & Hsh). exfalso.
    match type of E with nonempty (filter ?f ?l) = false =>
      assert (nonempty (filter f l) = true); [|congruence] end.
    apply nonempty_filter. exists b'. split; [apply In_skipn; exists j; split; [lia|assumption]|].
    rewrite Hs. apply nonempty_inter. assumption.
Qed.

Lemma no_E012_nested fuel : forall x n, ~ In (E012, n) (check_regex fi fo pr lf fuel x []).
Proof.
  induction fuel as [|fuel IH]; intros x n; cbn [check_regex]; [intros []|].
  assert (IHl : forall ops, ~ In (E012, n) (flat_map (fun o => check_regex fi fo pr lf fuel o []) ops)).
  { intros ops H. apply in_flat_map in H. destruct H as (o & _ & H). eapply IH. eassumption. }
  destruct x as [id t|id r|id ops|id alts|id ops|id op|id op|id op|id [op|]|id k]; try (intros []).
  - destruct (has fi id && negb (nonempty (get fi id))); [intros [H|[]]; discriminate|intros []].
  - apply IHl.
  - cbn [flat_map enumerate app]. rewrite in_app_iff. intros [H|H]; [|eapply IHl; eassumption].
    apply in_flat_map in H. destruct H as ([i op] & _ & H).
    destruct (has_predicate op); [contradiction|].
    apply check_intersection_shape in H. destruct H as (H & _). discriminate.
  - intros H. apply in_flat_map in H. destruct H as ([i op] & _ & H). apply in_app_iff in H. destruct H as [H|H].
    + destruct (Nat.eqb (S i) (length ops)); [contradiction|]. unfold check_intersection in H.
      match type of H with context [nonempty ?l] => destruct (nonempty l) end; [contradiction|].
      destruct H as [H|[]]. discriminate.
    + eapply IH. eassumption.
  - rewrite in_app_iff. intros [H|H]; [|eapply IH; eassumption].
    destruct (negb (has_predicate op) && nonempty (inter (get fo id) (get pr (rid_of op)))); [destruct H as [H|[]]; discriminate|contradiction].
  - rewrite in_app_iff. intros [H|H]; [|eapply IH; eassumption].
    destruct (negb (has_predicate op) && nonempty (inter (get fo id) (get pr (rid_of op)))); [destruct H as [H|[]]; discriminate|contradiction].
  - rewrite in_app_iff. intros [H|H]; [|eapply IH; eassumption].
    destruct (negb (has_predicate op) && nonempty (inter (get fo id) (get pr (rid_of op)))); [destruct H as [H|[]]; discriminate|contradiction].
  - apply IH.
Qed.

Theorem operator_conflicts_exact fuel id alts recs n :
  In (E012, n) (check_regex fi fo pr lf (S fuel) (RAlt id alts) recs) <-> OpConflict recs id n.
Proof.
  cbn [check_regex]. fold (lefts_of recs). rewrite !in_app_iff. split.
  - intros [H|[H|H]].
    + apply in_flat_map in H. destruct H as ([i branch] & Hin & H).
      apply In_enumerate in Hin. destruct Hin as (j & -> & Hn). cbn [Nat.add] in *.
      destruct (skip_first branch) as [op|] eqn:Es; [|destruct H as [H|[]]; discriminate].
      destruct (has_predicate branch) eqn:Ep; [contradiction|].
      apply in_app_iff in H. destruct H as [H|H].
      * destruct (nonempty (inter (get pr (rid_of op)) (get lf id))) eqn:E; [|contradiction].
        destruct H as [H|[]]. injection H as <-.
        exists j, branch, op. repeat split; try assumption. left. apply nonempty_inter. assumption.
      * apply check_intersection_left in H. destruct H as (_ & -> & Hex).
        exists j, branch, op. repeat split; try assumption. right. assumption.
    + exfalso. apply in_flat_map in H. destruct H as ([i op] & _ & H).
      destruct (has_predicate op); [contradiction|].
      apply check_intersection_shape in H. destruct H as (H & _). discriminate.
    + exfalso. apply in_flat_map in H. destruct H as (o & _ & H). eapply no_E012_nested. eassumption.
  - intros (i & branch & op & Hn & Hs & -> & Hp & Hc). left.
    apply in_flat_map. exists (i, branch). split; [apply In_enumerate; exists i; split; [reflexivity|assumption]|].
    rewrite Hs, Hp. apply in_app_iff. destruct Hc as [Hc|Hc].
    + left. apply nonempty_inter in Hc. rewrite Hc. left. reflexivity.
    + right. apply check_intersection_left. split; [reflexivity|]. split; [reflexivity|assumption].
Qed.

(* the branches of a left-recursive rule that are not left recursive are checked against each other like the
   branches of any alternation; everything nested (in all branches) is checked as usual *)
Definition nonleft_of (recs : list recursion) (alts : list regex) : list regex :=
  filter (fun o => negb (existsb (fun b => match b with
                                           | RecLeft o' _ | RecLeftRight o' _ _ => Nat.eqb (rid_of o') (rid_of o)
                                           | _ => false end) recs)) alts.

Theorem top_alternation_exact fuel id alts recs c n :
  is_ll1 c = true -> list_sum (map rsize alts) <= fuel ->
  (In (c, n) (check_regex fi fo pr lf (S fuel) (RAlt id alts) recs) <->
   (c = E011 /\ exists i op, nth_error (nonleft_of recs alts) i = Some op /\ n = rid_of op /\ has_predicate op = false
                 /\ exists j o, i < j /\ nth_error (nonleft_of recs alts) j = Some o
                                /\ share (get pr (rid_of op)) (get pr (rid_of o)))
   \/ exists o, In o alts /\ Conflict fo pr o c n).
Proof.
  intros Hc Hf. cbn [check_regex]. fold (lefts_of recs). fold (nonleft_of recs alts). rewrite !in_app_iff.
  assert (Hnest : In (c, n) (flat_map (fun o => check_regex fi fo pr lf fuel o []) alts) <-> exists o, In o alts /\ Conflict fo pr o c n).
  { rewrite in_flat_map. split; intros (o & Ho & H); exists o; (split; [assumption|]).
    - apply (check_regex_exact fi fo pr lf fuel o); [pose proof (rsize_in o alts Ho); lia|assumption|assumption].
    - apply (check_regex_exact fi fo pr lf fuel o); [pose proof (rsize_in o alts Ho); lia|assumption|assumption]. }
  rewrite Hnest. split.
  - intros [H|[H|H]]; [|left|right; assumption].
    + exfalso. apply in_flat_map in H. destruct H as ([i branch] & _ & H).
      destruct (skip_first branch) as [op|]; [|destruct H as [H|[]]; injection H as <- _; discriminate].
      destruct (has_predicate branch); [contradiction|].
      apply in_app_iff in H. destruct H as [H|H].
      * destruct (nonempty (inter (get pr (rid_of op)) (get lf id))); [|contradiction].
        destruct H as [H|[]]. injection H as <- _. discriminate.
      * apply check_intersection_left in H. destruct H as (-> & _). discriminate.
    + apply in_flat_map in H. destruct H as ([i op] & Hin & H).
      apply In_enumerate in Hin. destruct Hin as (j & -> & Hn). cbn [Nat.add] in *.
      destruct (has_predicate op) eqn:Ep; [contradiction|].
      apply check_intersection_shape in H. destruct H as (-> & -> & H).
      apply check_intersection_plain in H.
      split; [reflexivity|]. exists j, op. repeat split; assumption.
  - intros [(-> & i & op & Hn & -> & Hp & H)|H]; [right; left|right; right; assumption].
    apply in_flat_map. exists (i, op). split; [apply In_enumerate; exists i; split; [reflexivity|assumption]|].
    rewrite Hp. apply check_intersection_shape. repeat split. apply check_intersection_plain. assumption.
Qed.

End LeftRec.
