(* C09, first sets, soundness: every pass of calc_first_regex (Sema.first_regex, the
   transcription of the fixed implementation) only ever adds symbols that a
   derivation justifies; hence so does the iterated analysis. *)
From Coq Require Import List Arith Lia Bool.
From LV Require Import Sema SetLemmas FirstSpec.
Import ListNotations.

Section Sound.
Variable g : grammar.
Hypothesis Hwf : wf_ids g.
Hypothesis Hprod : productive g.

Definition just (x : regex) (s : sym) : Prop :=
  match s with Eps => derives g x [] | T a => exists w, derives g x (a :: w) end.

Definition J (m : smap) : Prop :=
  forall x, In x (nodes_of g) -> forall s, mem s (get m (rid_of x)) = true -> just x s.

Lemma id_inj x y : In x (nodes_of g) -> In y (nodes_of g) -> rid_of x = rid_of y -> x = y.
Proof.
  unfold wf_ids in Hwf. generalize (nodes_of g) Hwf. intros l Hnd.
  induction l as [|z l IH]; intros Hx Hy He; [contradiction|].
  cbn in Hnd. inversion Hnd as [|? ? Hnin Hnd']; subst.
  destruct Hx as [->|Hx], Hy as [->|Hy].
  - reflexivity.
  - exfalso. apply Hnin. rewrite He. apply in_map. assumption.
  - exfalso. apply Hnin. rewrite <- He. apply in_map. assumption.
  - apply IH; assumption.
Qed.

Lemma J_upd m x f :
  J m -> In x (nodes_of g) ->
  (forall s, mem s (f (get m (rid_of x))) = true -> just x s) ->
  J (upd m (rid_of x) f).
Proof.
  intros HJ Hx Hf y Hy s Hs.
  destruct (Nat.eq_dec (rid_of y) (rid_of x)) as [He|Hne].
  - rewrite He, get_upd_same in Hs. rewrite (id_inj _ _ Hy Hx He). apply Hf. assumption.
  - rewrite get_upd_other in Hs by assumption. eapply HJ; eassumption.
Qed.

Lemma J_touch m x : J m -> In x (nodes_of g) -> J (upd m (rid_of x) (fun s => s)).
Proof. intros HJ Hx. apply J_upd; try assumption. intros s Hs. eapply HJ; eassumption. Qed.

Lemma J_empty : J [].
Proof. intros x _ s Hs. cbn in Hs. discriminate. Qed.

(* ---------- derivation helpers ---------- *)
Lemma derives_list_app l1 l2 w1 w2 :
  derives_list g l1 w1 -> derives_list g l2 w2 -> derives_list g (l1 ++ l2) (w1 ++ w2).
Proof.
  intros H1 H2. induction H1 as [|x r u1 u2 Hx Hr IH]; [exact H2|].
  cbn. rewrite <- app_assoc. constructor; assumption.
Qed.

Lemma productive_list l : (forall o, In o l -> In o (nodes_of g)) -> exists w, derives_list g l w.
Proof.
  induction l as [|x r IH]; intros Hn.
  - exists []. constructor.
  - destruct (Hprod x) as (w1 & H1); [apply Hn; left; reflexivity|].
    destruct IH as (w2 & H2); [intros o Ho; apply Hn; right; assumption|].
    exists (w1 ++ w2). constructor; assumption.
Qed.

Lemma child_node x o : In x (nodes_of g) -> In o (subs x) -> In o (nodes_of g).
Proof. apply sub_in_nodes. Qed.

(* ---------- the loops of first_regex as named functions ---------- *)
Definition alt_go (id : nat) :=
  fix go (l : list regex) (m : smap) : smap :=
    match l with
    | [] => m
    | op :: r =>
      let m1 := first_regex g op m in
      go r (upd m1 id (fun s => union s (get m1 (rid_of op))))
    end.

Definition cat_go :=
  fix go (l : list regex) (m : smap) (use_next : bool) (acc : set) : smap * bool * set :=
    match l with
    | [] => (m, use_next, acc)
    | op :: r =>
      let m1 := first_regex g op m in
      if use_next then
        let opf := get m1 (rid_of op) in
        go r m1 (mem Eps opf) (remove Eps (union acc opf))
      else go r m1 false acc
    end.

Lemma first_regex_alt id ops m :
  first_regex g (RAlt id ops) m = alt_go id ops (upd m id (fun s => s)).
Proof. reflexivity. Qed.
Lemma first_regex_choice id ops m :
  first_regex g (RChoice id ops) m = alt_go id ops (upd m id (fun s => s)).
Proof. reflexivity. Qed.
Lemma first_regex_cat id ops m :
  first_regex g (RCat id ops) m =
  match cat_go ops (upd m id (fun s => s)) true [] with
  | (m1, use_next, acc) => upd m1 id (fun s => union s (if use_next then add Eps acc else acc))
  end.
Proof. reflexivity. Qed.

(* alternation-like loop: every operand is one of the alternatives *)
Lemma alt_go_J x id (mk : list regex -> regex) ops :
  rid_of x = id -> In x (nodes_of g) ->
  (forall o s, In o ops -> just o s -> just x s) ->
  forall l, (forall o, In o l -> In o ops /\ In o (nodes_of g) /\ (forall m, J m -> J (first_regex g o m))) ->
  forall m, J m -> J (alt_go id l m).
Proof.
  intros Hid Hx Hup. induction l as [|op r IH]; intros Hl m HJ; cbn [alt_go]; [assumption|].
  destruct (Hl op) as (Hin & Hn & Hfr); [left; reflexivity|].
  apply IH; [intros o Ho; apply Hl; right; assumption|].
  rewrite <- Hid. apply J_upd; [apply Hfr; assumption|assumption|].
  intros s Hs. apply mem_union in Hs. destruct Hs as [Hs|Hs].
  - eapply (Hfr m HJ); eassumption.
  - eapply Hup; [exact Hin|]. eapply (Hfr m HJ); eassumption.
Qed.

(* concatenation loop *)
Definition CInv (done : list regex) (use_next : bool) (acc : set) : Prop :=
  (use_next = true -> derives_list g done [])
  /\ (forall s, mem s acc = true ->
      exists a, s = T a /\ exists pre op post w, done = pre ++ op :: post /\ derives_list g pre [] /\ derives g op (a :: w)).

Lemma cat_go_spec : forall l done m un acc m' un' acc',
  cat_go l m un acc = (m', un', acc') ->
  (forall o, In o l -> In o (nodes_of g) /\ (forall m, J m -> J (first_regex g o m))) ->
  J m -> CInv done un acc -> J m' /\ CInv (done ++ l) un' acc'.
Proof.
  induction l as [|op r IH]; intros done m un acc m' un' acc' H Hl HJ (C1 & C2); cbn [cat_go] in H.
  - injection H as <- <- <-. rewrite app_nil_r. split; [assumption|split; assumption].
  - destruct (Hl op) as (Hn & Hfr); [left; reflexivity|].
    pose proof (Hfr m HJ) as HJ1.
    assert (Hl' : forall o, In o r -> In o (nodes_of g) /\ (forall m, J m -> J (first_regex g o m))).
    { intros o Ho. apply Hl. right. assumption. }
    assert (Hext : forall s, mem s acc = true ->
              exists a, s = T a /\ exists pre op0 post w, done ++ [op] = pre ++ op0 :: post /\ derives_list g pre [] /\ derives g op0 (a :: w)).
    { intros s Hs. destruct (C2 s Hs) as (a & -> & pre & op0 & post & w & -> & Hp & Hd).
      exists a. split; [reflexivity|]. exists pre, op0, (post ++ [op]), w. rewrite <- app_assoc. cbn. auto. }
    replace (done ++ op :: r) with ((done ++ [op]) ++ r) by (rewrite <- app_assoc; reflexivity).
    destruct un.
    + eapply IH; [exact H|exact Hl'|exact HJ1|]. split.
      * intros He. specialize (HJ1 op Hn Eps He). cbn in HJ1.
        replace (@nil tokn) with (@nil tokn ++ []) by reflexivity.
        apply derives_list_app; [apply C1; reflexivity|].
        replace (@nil tokn) with (@nil tokn ++ []) by reflexivity. constructor; [assumption|constructor].
      * intros s Hs. apply mem_remove in Hs. destruct Hs as (Hne & Hs). apply mem_union in Hs.
        destruct Hs as [Hs|Hs]; [apply Hext; assumption|].
        destruct s as [|a]; [contradiction|].
        destruct (HJ1 op Hn (T a) Hs) as (w & Hd).
        exists a. split; [reflexivity|]. exists done, op, [], w. repeat split; [|assumption]. apply C1. reflexivity.
    + eapply IH; [exact H|exact Hl'|exact HJ1|]. split; [discriminate|exact Hext].
Qed.

Theorem first_regex_J : forall x m, In x (nodes_of g) -> J m -> J (first_regex g x m).
Proof.
  induction x as [i t|i r|i ops IH|i ops IH|i ops IH|i o IH|i o IH|i o IH|i|i o IH|i k] using regex_ind';
    intros m Hx HJ.
  - (* tok *)
    cbn [first_regex rid_of]. apply (J_upd m (RTok i t)); try assumption.
    intros s Hs. apply mem_add in Hs. destruct Hs as [->|Hs].
    + exists []. constructor.
    + eapply HJ; eassumption.
  - (* rule *)
    cbn [first_regex rid_of]. destruct (body_of g r) as [b|] eqn:Eb.
    + apply (J_upd m (RRule i r)); try assumption.
      intros s Hs. apply mem_union in Hs. destruct Hs as [Hs|Hs]; [eapply HJ; eassumption|].
      pose proof (HJ b (body_in_nodes _ _ _ Eb) s Hs) as Hb.
      destruct s as [|a]; cbn in *.
      * econstructor; eassumption.
      * destruct Hb as (w & Hw). exists w. econstructor; eassumption.
    + apply (J_upd m (RRule i r)); try assumption.
      intros s Hs. apply mem_add in Hs. destruct Hs as [->|Hs]; [|eapply HJ; eassumption].
      cbn. apply D_rule_empty. assumption.
  - (* cat *)
    rewrite first_regex_cat.
    destruct (cat_go ops (upd m i (fun s => s)) true []) as [[m1 un] acc] eqn:Eg.
    assert (Hch : forall o, In o ops -> In o (nodes_of g) /\ (forall m, J m -> J (first_regex g o m))).
    { intros o Ho. assert (Hn : In o (nodes_of g)).
      { eapply child_node; [exact Hx|]. cbn [subs]. right. apply in_flat_map. exists o. split; [assumption|apply subs_self]. }
      split; [assumption|]. intros m0 HJ0. rewrite Forall_forall in IH. apply IH; assumption. }
    destruct (cat_go_spec ops [] _ _ _ _ _ _ Eg Hch) as (HJ1 & C1 & C2).
    { apply (J_touch m (RCat i ops)); assumption. }
    { split; [intros _; constructor|]. intros s Hs. cbn in Hs. discriminate. }
    cbn [app] in C1, C2.
    apply (J_upd m1 (RCat i ops)); try assumption.
    intros s Hs. apply mem_union in Hs. destruct Hs as [Hs|Hs]; [eapply HJ1; eassumption|].
    assert (Hacc : mem s acc = true -> just (RCat i ops) s).
    { intros Ha. destruct (C2 s Ha) as (a & -> & pre & op & post & w & Hops & Hpre & Hop).
      destruct (productive_list post) as (w' & Hpost).
      { intros o Ho. apply Hch. rewrite Hops. apply in_or_app. right. right. assumption. }
      exists (w ++ w'). constructor. rewrite Hops.
      change (a :: w ++ w') with ([] ++ (a :: w) ++ w').
      apply derives_list_app; [assumption|]. constructor; assumption. }
    destruct un.
    + apply mem_add in Hs. destruct Hs as [->|Hs]; [|auto].
      cbn. constructor. apply C1. reflexivity.
    + auto.
  - (* alt *)
    rewrite first_regex_alt.
    eapply (alt_go_J (RAlt i ops) i (fun l => RAlt i l) ops); try reflexivity; try assumption.
    + intros o s Ho Hj. destruct s as [|a]; cbn in *.
      * econstructor; eassumption.
      * destruct Hj as (w & Hw). exists w. econstructor; eassumption.
    + intros o Ho. split; [assumption|].
      assert (Hn : In o (nodes_of g)).
      { eapply child_node; [exact Hx|]. cbn [subs]. right. apply in_flat_map. exists o. split; [assumption|apply subs_self]. }
      split; [assumption|]. intros m0 HJ0. rewrite Forall_forall in IH. apply IH; assumption.
    + apply (J_touch m (RAlt i ops)); assumption.
  - (* choice *)
    rewrite first_regex_choice.
    eapply (alt_go_J (RChoice i ops) i (fun l => RChoice i l) ops); try reflexivity; try assumption.
    + intros o s Ho Hj. destruct s as [|a]; cbn in *.
      * econstructor; eassumption.
      * destruct Hj as (w & Hw). exists w. econstructor; eassumption.
    + intros o Ho. split; [assumption|].
      assert (Hn : In o (nodes_of g)).
      { eapply child_node; [exact Hx|]. cbn [subs]. right. apply in_flat_map. exists o. split; [assumption|apply subs_self]. }
      split; [assumption|]. intros m0 HJ0. rewrite Forall_forall in IH. apply IH; assumption.
    + apply (J_touch m (RChoice i ops)); assumption.
  - (* star *)
    assert (Ho : In o (nodes_of g)) by (eapply child_node; [exact Hx|]; cbn [subs]; right; apply subs_self).
    cbn [first_regex rid_of].
    set (m1 := first_regex g o (upd m i (fun s => s))).
    assert (HJ1 : J m1) by (apply IH; [assumption|apply (J_touch m (RStar i o)); assumption]).
    apply (J_upd m1 (RStar i o)); try assumption.
    intros s Hs. apply mem_add in Hs. destruct Hs as [->|Hs].
    + cbn. constructor. constructor.
    + apply mem_union in Hs. destruct Hs as [Hs|Hs]; [eapply HJ1; eassumption|].
      pose proof (HJ1 o Ho s Hs) as Hb. destruct s as [|a]; cbn in *.
      * constructor. constructor.
      * destruct Hb as (w & Hw). exists w. constructor.
        replace (a :: w) with ((a :: w) ++ []) by apply app_nil_r. constructor; [assumption|constructor].
  - (* plus *)
    assert (Ho : In o (nodes_of g)) by (eapply child_node; [exact Hx|]; cbn [subs]; right; apply subs_self).
    cbn [first_regex rid_of].
    set (m1 := first_regex g o (upd m i (fun s => s))).
    assert (HJ1 : J m1) by (apply IH; [assumption|apply (J_touch m (RPlus i o)); assumption]).
    apply (J_upd m1 (RPlus i o)); try assumption.
    intros s Hs. apply mem_union in Hs. destruct Hs as [Hs|Hs]; [eapply HJ1; eassumption|].
    pose proof (HJ1 o Ho s Hs) as Hb. destruct s as [|a]; cbn in *.
    + replace (@nil tokn) with (@nil tokn ++ []) by reflexivity. constructor; [assumption|constructor].
    + destruct Hb as (w & Hw). exists w.
      replace (a :: w) with ((a :: w) ++ []) by apply app_nil_r. constructor; [assumption|constructor].
  - (* opt *)
    assert (Ho : In o (nodes_of g)) by (eapply child_node; [exact Hx|]; cbn [subs]; right; apply subs_self).
    cbn [first_regex rid_of].
    set (m1 := first_regex g o (upd m i (fun s => s))).
    assert (HJ1 : J m1) by (apply IH; [assumption|apply (J_touch m (ROpt i o)); assumption]).
    apply (J_upd m1 (ROpt i o)); try assumption.
    intros s Hs. apply mem_add in Hs. destruct Hs as [->|Hs].
    + cbn. constructor.
    + apply mem_union in Hs. destruct Hs as [Hs|Hs]; [eapply HJ1; eassumption|].
      pose proof (HJ1 o Ho s Hs) as Hb. destruct s as [|a]; cbn in *.
      * constructor.
      * destruct Hb as (w & Hw). exists w. apply D_opt1. assumption.
  - (* paren none *)
    cbn [first_regex rid_of]. apply (J_upd m (RParen i None)); try assumption.
    intros s Hs. apply mem_add in Hs. destruct Hs as [->|Hs]; [cbn; constructor|eapply HJ; eassumption].
  - (* paren some *)
    assert (Ho : In o (nodes_of g)) by (eapply child_node; [exact Hx|]; cbn [subs]; right; apply subs_self).
    cbn [first_regex rid_of].
    set (m1 := first_regex g o (upd m i (fun s => s))).
    assert (HJ1 : J m1) by (apply IH; [assumption|apply (J_touch m (RParen i (Some o))); assumption]).
    apply (J_upd m1 (RParen i (Some o))); try assumption.
    intros s Hs. apply mem_union in Hs. destruct Hs as [Hs|Hs]; [eapply HJ1; eassumption|].
    pose proof (HJ1 o Ho s Hs) as Hb. destruct s as [|a]; cbn in *.
    + constructor. assumption.
    + destruct Hb as (w & Hw). exists w. constructor. assumption.
  - (* leaf *)
    cbn [first_regex rid_of]. apply (J_upd m (RLeaf i k)); try assumption.
    intros s Hs. apply mem_add in Hs. destruct Hs as [->|Hs]; [cbn; constructor|eapply HJ; eassumption].
Qed.

(* the whole analysis *)
Lemma first_pass_J m : J m -> J (first_pass g m).
Proof.
  unfold first_pass.
  assert (H : forall l, (forall ru, In ru l -> In ru (g_rules g)) -> forall m, J m ->
            J (fold_left (fun m ru => match r_body ru with Some b => first_regex g b m | None => m end) l m)).
  { induction l as [|ru l IH]; intros Hl m0 HJ; cbn [fold_left]; [assumption|].
    apply IH; [intros r Hr; apply Hl; right; assumption|].
    destruct (r_body ru) as [b|] eqn:Eb; [|assumption].
    apply first_regex_J; [|assumption].
    unfold nodes_of. apply in_flat_map. exists ru. split; [apply Hl; left; reflexivity|]. rewrite Eb. apply subs_self. }
  apply H. auto.
Qed.

Lemma iterate_J fuel : forall m m', J m -> iterate fuel (first_pass g) m = Some m' -> J m'.
Proof.
  induction fuel as [|fuel IH]; intros m m' HJ H; cbn [iterate] in H; [discriminate|].
  destruct (Nat.eqb (total_size (first_pass g m)) (total_size m)).
  - injection H as <-. apply first_pass_J. assumption.
  - eapply IH; [|eassumption]. apply first_pass_J. assumption.
Qed.

Theorem first_sound fuel m x :
  calc_first g fuel = Some m -> In x (nodes_of g) ->
  (forall a, mem (T a) (get m (rid_of x)) = true -> First_spec g x a)
  /\ (mem Eps (get m (rid_of x)) = true -> Nullable_spec g x).
Proof.
  unfold calc_first. intros H Hx.
  pose proof (iterate_J _ _ _ J_empty H) as HJ. split.
  - intros a Ha. exact (HJ x Hx (T a) Ha).
  - intros He. exact (HJ x Hx Eps He).
Qed.

End Sound.
