(* Unfolding equations of the interpreter, and: the loop the back end emits for a repetition or
   option ([Compile.c_recover]) is left without consuming anything when the current token cannot
   start the body and is in the follow or the recovery set of the construct. *)
From Coq Require Import List Arith Bool Lia.
From LV Require Import Cst Tree ABuild Runtime Exec Sema Compile.
Import ListNotations.

Section L.
Variable cx : pctx.
Variable prog : program.
Variable orc : oracles.

Fixpoint pick_arm (st : pstate) (default : list stmt) (l : list (list tok * option guard * list stmt)) : list stmt :=
  match l with
  | [] => default
  | (pats, g, body) :: r =>
    if tok_in (cur st) pats &&
       match g with
       | None => true
       | Some GTrue => true
       | Some (GPred n) => o_pred orc n st
       end
    then body else pick_arm st default r
  end.

Lemma exec_match_eq f rec_of arms d e st :
  exec cx prog orc (S f) rec_of (SMatch arms d) e st = exec_block cx prog orc f rec_of (pick_arm st d arms) e st.
Proof.
  transitivity (exec_block cx prog orc f rec_of
    ((fix pick (l : list (list tok * option guard * list stmt)) : list stmt :=
        match l with
        | [] => d
        | (pats, g, body) :: r =>
          if tok_in (cur st) pats &&
             match g with
             | None => true
             | Some GTrue => true
             | Some (GPred n) => o_pred orc n st
             end
          then body else pick r
        end) arms) e st); [reflexivity|].
  f_equal. induction arms as [|[[p g] b] r IH]; [reflexivity|].
  cbn [pick_arm]. rewrite <- IH. reflexivity.
Qed.

Lemma exec_loop_eq f rec_of b e st :
  exec cx prog orc (S f) rec_of (SLoop b) e st =
  match exec_block cx prog orc f rec_of b e st with
  | XOk (o, e', st') =>
    match o with
    | ONormal | OContinue => exec cx prog orc f rec_of (SLoop b) e' st'
    | OBreak => XOk (ONormal, e', st')
    | ORetNone => XOk (ORetNone, e', st')
    | ORet => XOk (ORet, e', st')
    end
  | r => r
  end.
Proof. reflexivity. Qed.

Lemma exec_block_eq f rec_of b e st :
  exec_block cx prog orc (S f) rec_of b e st = exec_seq cx prog orc f rec_of (length e) b e st.
Proof. reflexivity. Qed.

Lemma exec_seq_nil f rec_of n e st :
  exec_seq cx prog orc (S f) rec_of n [] e st = XOk (ONormal, env_leave n e, st).
Proof. reflexivity. Qed.

Lemma exec_seq_cons f rec_of n s r e st :
  exec_seq cx prog orc (S f) rec_of n (s :: r) e st =
  match exec cx prog orc f rec_of s e st with
  | XOk (ONormal, e2, st2) => exec_seq cx prog orc f rec_of n r e2 st2
  | XOk (o, e2, st2) => XOk (o, env_leave n e2, st2)
  | r' => r'
  end.
Proof. reflexivity. Qed.

Lemma exec_break f rec_of e st : exec cx prog orc (S f) rec_of SBreak e st = XOk (OBreak, e, st).
Proof. reflexivity. Qed.
Lemma exec_ocr f rec_of e st :
  exec cx prog orc (S f) rec_of SOcr e st = if in_choice st then XOk (ORetNone, e, st) else XOk (ONormal, e, st).
Proof. reflexivity. Qed.
Lemma exec_error f rec_of m e st :
  exec cx prog orc (S f) rec_of (SError m) e st = XOk (ONormal, e, p_error st (mk_diag cx st m)).
Proof. reflexivity. Qed.

Lemma p_error_same st d :
  pos (p_error st d) = pos st /\ cstd (p_error st d) = cstd st /\ cur (p_error st d) = cur st.
Proof. unfold p_error. destruct (active_error st); cbn; auto. Qed.

Variable sm : sema.

Lemma recover_loop_exits :
  forall rec_of id op body il ic e st fuel,
    tok_in (cur st) (pats (s_first sm) (rid_of op)) = false ->
    tok_in (cur st) (pats (s_follow sm) id) = true \/ tok_in (cur st) (pats (s_recovery sm) id) = true ->
    exists o e' st',
      exec cx prog orc (10 + fuel) rec_of (c_recover sm id op body il ic) e st = XOk (o, e', st')
      /\ pos st' = pos st /\ cstd st' = cstd st /\ cur st' = cur st /\ (o = ONormal \/ o = ORetNone).
Proof.
  intros rec_of id op body il ic e st fuel Hf Hfr.
  unfold c_recover. change (10 + fuel) with (S (S (S (S (S (S (S (S (S (S fuel)))))))))).
  rewrite exec_loop_eq, exec_block_eq, exec_seq_cons, exec_match_eq.
  cbn [app pick_arm]. rewrite Hf. cbn [andb].
  destruct (tok_in (cur st) (pats (s_follow sm) id)) eqn:Hfo.
  - cbn [andb]. rewrite exec_block_eq, exec_seq_cons, exec_break.
    eexists _, _, _. split; [reflexivity|]. auto.
  - destruct Hfr as [Hfr|Hfr]; [discriminate Hfr|].
    cbn [andb].
    destruct (pats (s_recovery sm) id) as [|r0 rr] eqn:Hr; [discriminate Hfr|].
    cbn [pick_arm]. rewrite Hfr. cbn [andb].
    rewrite exec_block_eq.
    destruct ic; cbn [ocr app].
    + rewrite exec_seq_cons, exec_ocr. destruct (in_choice st) eqn:Hic.
      * eexists _, _, _. split; [reflexivity|]. auto.
      * rewrite exec_seq_cons, exec_error, exec_seq_cons, exec_break.
        pose proof (p_error_same st (mk_diag cx st (msg_set id))) as [H1 [H2 H3]].
        eexists _, _, _. split; [reflexivity|]. auto.
    + rewrite exec_seq_cons, exec_error, exec_seq_cons, exec_break.
      pose proof (p_error_same st (mk_diag cx st (msg_set id))) as [H1 [H2 H3]].
      eexists _, _, _. split; [reflexivity|]. auto.
Qed.
End L.

(* what the back-end model emits for the three recovering constructs is that loop *)
Lemma c_regex_star g sm ci cxr id op :
  c_regex g sm ci cxr (RStar id op) = [c_recover sm id op (c_regex g sm ci cxr op) true (inch sm id)].
Proof. reflexivity. Qed.
Lemma c_regex_plus g sm ci cxr id op :
  c_regex g sm ci cxr (RPlus id op)
  = c_regex g sm ci cxr op ++ [c_recover sm id op (c_regex g sm ci cxr op) true (inch sm id)].
Proof. reflexivity. Qed.
Lemma c_regex_opt g sm ci cxr id op :
  c_regex g sm ci cxr (ROpt id op) = [c_recover sm id op (c_regex g sm ci cxr op) false (inch sm id)].
Proof. reflexivity. Qed.
