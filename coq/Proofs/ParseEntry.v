(* The execution-level theorem: whatever the program, input, oracle and fuel, if
   [parse_entry] returns with the builder ghost still defined, the returned node
   vector is the pre-order layout of a tree whose leaves are exactly the input
   tokens, in order, each with its index. *)
From Coq Require Import List Arith Lia Bool.
From LV Require Import Cst Tree ABuild Runtime Exec ListLemmas Refine RuntimeInv ExecInv.
Import ListNotations.

Section PE.
Variable cx : pctx.
Variable prog : program.
Variable orc : oracles.

Notation P := (RuntimeInv.P cx).
Notation RInv := (RuntimeInv.RInv cx).

Lemma skipn_cons_inv {A} (l : list A) : forall p t l',
  skipn p l = t :: l' -> nth_error l p = Some t /\ skipn (S p) l = l' /\ p < length l.
Proof.
  induction l as [|x l IH]; intros p t l' H.
  - destruct p; discriminate.
  - destruct p as [|p]; cbn in H.
    + injection H as -> ->. cbn. repeat split; lia.
    + destruct (IH _ _ _ H) as (H1 & H2 & H3). cbn. repeat split; try assumption. lia.
Qed.

Lemma drain_none : forall l c c' g', drain_toks cx l c None = (c', g') -> g' = None.
Proof.
  induction l as [|t l IH]; intros c c' g' H; cbn in H.
  - injection H as _ <-. reflexivity.
  - eapply IH. eassumption.
Qed.

Lemma drain_spec : forall l c g c' g',
  drain_toks cx l c g = (c', g') ->
  forall sn g0 p, g = Some g0 -> Inv c sn g0 -> tcount c = p ->
    tok_cells (nodes c) = combine (firstn p (toks cx)) (seq 0 p) ->
    skipn p (toks cx) = l -> p <= length (toks cx) -> g' <> None ->
    exists g1, g' = Some g1 /\ Inv c' sn g1 /\ tcount c' = length (toks cx)
               /\ tok_cells (nodes c') = combine (toks cx) (seq 0 (length (toks cx))).
Proof.
  induction l as [|t l IH]; intros c g c' g' H sn g0 p -> HI Ht Hc Hl Hp Hne; cbn [drain_toks] in H.
  - injection H as <- <-.
    assert (Hpl : p = length (toks cx)).
    { apply (f_equal (@length _)) in Hl. rewrite skipn_length in Hl. cbn in Hl. lia. }
    rewrite Hpl in Hc, Ht. rewrite firstn_all in Hc. eauto.
  - destruct (skipn_cons_inv _ _ _ _ Hl) as (Hn & Hl' & Hlt).
    destruct (g_step g0 c (BAdvance t (is_skipped cx t))) as [g1|] eqn:Eg.
    2:{ exfalso. apply Hne. eapply drain_none. eassumption. }
    destruct (step_refines _ _ _ _ _ HI Eg) as (c2 & sn2 & Hc2 & HI2).
    cbn [c_step] in Hc2. injection Hc2 as <- <-.
    eapply (IH _ _ _ _ H sn g1 (S p)); try eassumption; try reflexivity; try lia.
    + cbn. lia.
    + cbn [c_advance nodes]. rewrite tok_cells_snoc_tok, Hc, Ht.
      rewrite (combine_firstn_seq_S _ _ (eoi cx)) by assumption.
      rewrite (nth_error_nth' _ _ _ _ Hn). reflexivity.
Qed.

(* the state after the prologue `let m = self.open(diags);` *)
Lemma p_open_init :
  exists st0, p_open init_state = Ok (0, st0)
    /\ exists g0, gh st0 = Some g0 /\ Inv (cstd st0) (snaps st0) g0 /\ pos st0 = 0 /\ tcount (cstd st0) = 0
                  /\ tok_cells (nodes (cstd st0)) = [] /\ snaps st0 = [].
Proof.
  eexists. split; [reflexivity|].
  cbn [gh set_cst cstd snaps pos init_state p_close_error_node err_node].
  unfold gstep. cbn [gh init_state].
  destruct (g_step ghost_empty (cstd init_state) BOpen) as [g1|] eqn:Eg; [|discriminate Eg].
  destruct (step_refines _ _ _ _ _ inv_init Eg) as (c2 & sn2 & Hc2 & HI2).
  cbn in Hc2. injection Hc2 as <- <-.
  exists g1. split; [reflexivity|]. split; [exact HI2|]. repeat split; reflexivity.
Qed.

Theorem parse_entry_tree fuel r root msg st :
  parse_entry cx prog orc fuel r root msg = XOk st ->
  gh st <> None ->
  exists t,
    nodes (cstd st) = flatten t
    /\ decode (nodes (cstd st)) = Some t
    /\ leaves t = combine (toks cx) (seq 0 (length (toks cx))).
Proof.
  unfold parse_entry.
  destruct p_open_init as (st0 & E0 & g0 & G0 & I0 & Hp0 & Ht0 & Hc0 & Hs0).
  rewrite E0.
  destruct (find_rule prog r) as [f|]; [|discriminate].
  (* init_skip *)
  set (st1 := p_init_skip cx st0).
  assert (H1 : gh st1 <> None -> RInv st1 /\ snaps st1 = []).
  { intros Hne. subst st1. unfold p_init_skip in *.
    destruct (skip_loop cx (length (toks cx)) (pos st0) (cstd st0) (gh st0)) as [[[p' t'] c'] g'] eqn:Esk.
    cbn [gh snaps] in *. rewrite G0, Hp0 in Esk.
    destruct (skip_loop_spec cx _ _ _ _ _ _ _ _ Esk) as (A1 & A2 & A3 & A4 & A5); [lia|lia|].
    destruct (A5 (snaps st0) g0 eq_refl I0 Ht0) as (g1 & -> & HI1 & Htc1 & Hc1); [rewrite Hc0; reflexivity|assumption|].
    split; [|assumption].
    apply (RInv_intro cx _ g1); cbn [gh cstd snaps pos cur]; [reflexivity|assumption| |exact A3].
    unfold tok_ok. cbn [cstd pos]. auto. }
  destruct (call_fn cx prog orc fuel f st1) as [[some st2]| | |] eqn:Ec; try discriminate.
  destruct (exec_P cx prog orc fuel) as (_ & _ & _ & _ & IHc).
  pose proof (IHc _ _ _ _ Ec) as P12.
  destruct (p_close_error_node st2) as [st3|w] eqn:E3; [|discriminate].
  destruct (p_close_error_node_P cx _ _ E3) as (P23 & Hp3 & Hu3).
  pose proof (P_trans cx _ _ _ P12 P23) as P13. clear P12 P23.
  destruct P13 as (N13 & S13 & R13).
  (* the trailing-input branch *)
  match goal with |- match ?x with _ => _ end = _ -> _ => destruct x as [st7|w] eqn:E7; [|discriminate] end.
  destruct (c_close_root (cstd st7) 0 root) as [c8|w] eqn:E8; [|discriminate].
  intros [= <-]. cbn [gh add_event set_cst cstd].
  intros Hne.
  destruct (gh st7) as [g7|] eqn:G7; [|contradiction].
  destruct (a_close_root (g_abs g7) 0 root) as [t|] eqn:Ea; [|contradiction].
  (* the invariant reaches st7 with all tokens consumed *)
  assert (H7 : Inv (cstd st7) (snaps st7) g7 /\ tok_cells (nodes (cstd st7)) = combine (toks cx) (seq 0 (length (toks cx)))).
  { destruct (Nat.eqb_spec (pos st3) (length (toks cx))) as [Heq|Hneq].
    - injection E7 as <-.
      assert (Hg3 : gh st3 <> None) by (rewrite G7; discriminate).
      assert (Hg1 : gh st1 <> None) by (intro Hb; apply Hg3; auto).
      destruct (H1 Hg1) as (R1 & Hsn1).
      destruct (R13 R1 Hg3) as (g & G & HI & (T1 & T2 & T3) & _).
      rewrite G7 in G. injection G as <-. split; [assumption|].
      rewrite T3, Heq, firstn_all. reflexivity.
    - set (st4 := p_error st3 (mk_diag cx st3 msg)) in *.
      destruct (p_open st4) as [[et st5]|w] eqn:E5; [|discriminate].
      destruct (drain_toks cx (skipn (pos st5) (toks cx)) (cstd st5) (gh st5)) as [c6 g6] eqn:E6.
      match type of E7 with match ?x with _ => _ end = _ => destruct x as [c7|w] eqn:Ec7; [|discriminate] end.
      injection E7 as <-. cbn [gh add_event set_cst cstd snaps] in *.
      unfold gstep in G7. cbn [gh cstd] in G7.
      destruct g6 as [g6|]; [|discriminate].
      assert (Hg5 : gh st5 <> None).
      { intro Hb. rewrite Hb in E6. apply drain_none in E6. discriminate. }
      destruct (p_open_P cx _ _ _ E5) as (P45 & Hp5 & Hu5).
      pose proof (p_error_P cx st3 (mk_diag cx st3 msg)) as P34. fold st4 in P34.
      pose proof (P_trans cx _ _ _ P34 P45) as P35. destruct P35 as (N35 & S35 & R35).
      assert (Hg3 : gh st3 <> None) by (intro Hb; apply Hg5; auto).
      assert (Hg1 : gh st1 <> None) by (intro Hb; apply Hg3; auto).
      destruct (H1 Hg1) as (R1 & Hsn1).
      destruct (R35 (R13 R1 Hg3) Hg5) as (g5 & G5 & HI5 & (T1 & T2 & T3) & _).
      rewrite G5 in E6.
      destruct (drain_spec _ _ _ _ _ E6 (snaps st5) g5 (pos st5) eq_refl HI5 T2 T3 eq_refl T1) as (g6' & Hg6 & HI6 & Ht6 & Hc6);
        [discriminate|].
      injection Hg6 as <-.
      destruct (g_step g6 c6 (BClose et kError)) as [g7'|] eqn:Eg7; [|discriminate].
      injection G7 as <-.
      destruct (step_refines _ _ _ _ _ HI6 Eg7) as (c2 & sn2 & Hc2 & HI7).
      cbn [c_step] in Hc2. rewrite Ec7 in Hc2. injection Hc2 as <- <-.
      split; [assumption|].
      assert (Hne7 : g_step g6 c6 (BClose et kError) <> None) by (rewrite Eg7; discriminate).
      destruct (c_close_tok _ _ _ _ _ _ Ec7 HI6 Hne7) as (_ & Htk). rewrite Htk. assumption. }
  destruct H7 as (HI7 & Htok7).
  destruct (close_root_refines _ _ _ _ _ _ HI7 Ea) as (c8' & Hc8 & Hflat).
  rewrite E8 in Hc8. injection Hc8 as <-.
  exists t. split; [assumption|]. split; [rewrite Hflat; apply decode_flatten|].
  rewrite <- tok_cells_flatten, <- Hflat.
  (* close_root rewrites cell 0, a rule cell *)
  unfold c_close_root in E8. destruct (length (nodes (cstd st7)) <=? 0) eqn:El; [discriminate|].
  injection E8 as <-. cbn [nodes].
  pose proof (inv_match _ _ _ HI7) as Hm.
  unfold a_close_root in Ea. destruct (stack (g_abs g7)) as [|top [|? ?]] eqn:Est; try discriminate.
  destruct g7 as [[st tr lg] sn7]. cbn [g_abs stack] in *. subst st.
  rewrite layout_top in Hm. cbn [frames_cells app] in Hm.
  inversion Hm as [|x y n2 L2 Hx Hm2 Hxe]; subst. destruct Hx as (k0 & e0 & ->).
  rewrite <- Hxe in *. unfold set_nth. cbn [firstn skipn app tok_cells]. rewrite <- Htok7. reflexivity.
Qed.

End PE.
