(* C09, first sets: the map that calc_first returns is always closed under the first-set
   inclusions - so the closure certificate of FirstComplete.v is a theorem, not a
   per-grammar check.  Argument: every pass only grows the map (positionally: existing
   entries get supersets, new entries are appended); after a pass every node satisfies
   its inclusion with the children read from the map *before* the pass; the loop stops
   when the total size did not change, and a growing map of duplicate-free sets with
   unchanged total size is pointwise unchanged. *)
From Coq Require Import List Arith Lia Bool.
From LV Require Import Sema SetLemmas FirstSpec.
Import ListNotations.

Definition sub (s s' : set) : Prop := forall x, mem x s = true -> mem x s' = true.
Definition le (m m' : smap) : Prop := forall k, sub (get m k) (get m' k).

Lemma sub_refl s : sub s s. Proof. intros x H; exact H. Qed.
Lemma sub_trans a b c : sub a b -> sub b c -> sub a c. Proof. unfold sub; auto. Qed.
Lemma le_refl m : le m m. Proof. intros k; apply sub_refl. Qed.
Lemma le_trans a b c : le a b -> le b c -> le a c. Proof. intros H1 H2 k. eapply sub_trans; [apply H1|apply H2]. Qed.

(* positional growth of association lists *)
Inductive grow : smap -> smap -> Prop :=
| grow_nil extra : grow [] extra
| grow_cons k s s' r r' : sub s s' -> grow r r' -> grow ((k, s) :: r) ((k, s') :: r').

Lemma grow_refl m : grow m m.
Proof. induction m as [|[k s] r IH]; constructor; [apply sub_refl|assumption]. Qed.

Lemma grow_trans a b c : grow a b -> grow b c -> grow a c.
Proof.
  intros H. revert c. induction H as [extra|k s s' r r' Hs _ IH]; intros c Hc; [constructor|].
  inversion Hc as [|k0 s0 s'' r0 r'' Hs' Hr']; subst. constructor; [eapply sub_trans; eassumption|auto].
Qed.

Lemma grow_le m m' : grow m m' -> le m m'.
Proof.
  induction 1 as [extra|k s s' r r' Hs _ IH]; intros k0 x Hx; [cbn in Hx; discriminate|].
  cbn [get] in *. destruct (Nat.eqb k0 k); [apply Hs; assumption|apply IH; assumption].
Qed.

Lemma grow_put m k v : sub (get m k) v -> grow m (put m k v).
Proof.
  induction m as [|[k' v'] r IH]; intros H; cbn [put]; [constructor|].
  cbn [get] in H. destruct (Nat.eqb_spec k k') as [->|Hne].
  - constructor; [assumption|apply grow_refl].
  - constructor; [apply sub_refl|apply IH; assumption].
Qed.

Lemma grow_upd m k f : (forall s, sub s (f s)) -> grow m (upd m k f).
Proof. intros H. apply grow_put. apply H. Qed.

(* duplicate-free sets *)
Definition AllND (m : smap) : Prop := Forall (fun p => NoDup (snd p)) m.

Lemma NoDup_snoc {A} (s : list A) x : NoDup s -> ~ In x s -> NoDup (s ++ [x]).
Proof.
  induction 1 as [|a r Ha Hr IH]; intros Hx; cbn [app]; [constructor; [intros []|constructor]|].
  constructor.
  - rewrite in_app_iff. intros [H|[H|[]]]; [contradiction|]. apply Hx. left. symmetry. assumption.
  - apply IH. intro H. apply Hx. right. assumption.
Qed.

Lemma NoDup_add x s : NoDup s -> NoDup (add x s).
Proof.
  intros H. unfold add. destruct (mem x s) eqn:E; [assumption|].
  apply NoDup_snoc; [assumption|]. intro Hin. apply mem_In in Hin. congruence.
Qed.

Lemma NoDup_union s1 s2 : NoDup s1 -> NoDup (union s1 s2).
Proof.
  unfold union. revert s1. induction s2 as [|y r IH]; intros s1 H; cbn [fold_left]; [assumption|].
  apply IH. apply NoDup_add. assumption.
Qed.

Lemma get_nd m k : AllND m -> NoDup (get m k).
Proof.
  induction 1 as [|[k' v] r Hv _ IH]; cbn [get]; [constructor|].
  destruct (Nat.eqb k k'); assumption.
Qed.

Lemma AllND_put m k v : AllND m -> NoDup v -> AllND (put m k v).
Proof.
  intros H Hv. induction H as [|[k' v'] r Hv' Hr IH]; cbn [put]; [repeat constructor; assumption|].
  destruct (Nat.eqb k k'); constructor; assumption.
Qed.

Lemma AllND_upd m k f : AllND m -> (forall s, NoDup s -> NoDup (f s)) -> AllND (upd m k f).
Proof. intros H Hf. apply AllND_put; [assumption|]. apply Hf, get_nd, H. Qed.

(* the growing functions first_regex applies *)
Definition good (f : set -> set) : Prop := (forall s, sub s (f s)) /\ (forall s, NoDup s -> NoDup (f s)).

Lemma good_id : good (fun s => s).
Proof. split; [intros s; apply sub_refl|auto]. Qed.
Lemma good_add x : good (add x).
Proof. split; [intros s y Hy; apply mem_add; auto|intros s; apply NoDup_add]. Qed.
Lemma good_union X : good (fun s => union s X).
Proof. split; [intros s y Hy; apply mem_union; auto|intros s; apply NoDup_union]. Qed.
Lemma good_add_union x X : good (fun s => add x (union s X)).
Proof.
  split; [intros s y Hy; apply mem_add; right; apply mem_union; auto|].
  intros s H. apply NoDup_add, NoDup_union, H.
Qed.

Definition GN (m m' : smap) : Prop := grow m m' /\ (AllND m -> AllND m').

Lemma GN_refl m : GN m m. Proof. split; [apply grow_refl|auto]. Qed.
Lemma GN_trans a b c : GN a b -> GN b c -> GN a c.
Proof. intros (H1 & H2) (H3 & H4). split; [eapply grow_trans; eassumption|auto]. Qed.
Lemma GN_upd m k f : good f -> GN m (upd m k f).
Proof. intros (H1 & H2). split; [apply grow_upd; assumption|intros H; apply AllND_upd; assumption]. Qed.

Section Closed.
Variable g : grammar.

(* ---------- every visit grows the map ---------- *)
Definition alt_go (id : nat) :=
  fix go (l : list regex) (m : smap) : smap :=
    match l with
    | [] => m
    | op :: r =>
      let m1 := first_regex g op m in
      go r (upd m1 id (fun s => union s (get m1 (rid_of op))))
    end.

Definition cat_go :=
  fix go (l : list regex) (m : smap) (use_next : bool) (acc : set) : smap * bool * set :=
    match l with
    | [] => (m, use_next, acc)
    | op :: r =>
      let m1 := first_regex g op m in
      if use_next then
        let opf := get m1 (rid_of op) in
        go r m1 (mem Eps opf) (remove Eps (union acc opf))
      else go r m1 false acc
    end.

Lemma first_regex_alt id ops m :
  first_regex g (RAlt id ops) m = alt_go id ops (upd m id (fun s => s)).
Proof. reflexivity. Qed.
Lemma first_regex_choice id ops m :
  first_regex g (RChoice id ops) m = alt_go id ops (upd m id (fun s => s)).
Proof. reflexivity. Qed.
Lemma first_regex_cat id ops m :
  first_regex g (RCat id ops) m =
  match cat_go ops (upd m id (fun s => s)) true [] with
  | (m1, use_next, acc) => upd m1 id (fun s => union s (if use_next then add Eps acc else acc))
  end.
Proof. reflexivity. Qed.

Lemma alt_go_GN id : forall l, Forall (fun o => forall m, GN m (first_regex g o m)) l ->
  forall m, GN m (alt_go id l m).
Proof.
  induction l as [|op r IH]; intros Hl m; cbn [alt_go]; [apply GN_refl|].
  inversion Hl as [|? ? Hop Hr]; subst.
  eapply GN_trans; [apply Hop|]. eapply GN_trans; [apply GN_upd, good_union|]. apply IH. assumption.
Qed.

Lemma cat_go_GN : forall l, Forall (fun o => forall m, GN m (first_regex g o m)) l ->
  forall m un acc m' un' acc', cat_go l m un acc = (m', un', acc') -> GN m m'.
Proof.
  induction l as [|op r IH]; intros Hl m un acc m' un' acc' H; cbn [cat_go] in H.
  - injection H as <- _ _. apply GN_refl.
  - inversion Hl as [|? ? Hop Hr]; subst.
    destruct un; (eapply GN_trans; [apply Hop|]; eapply IH; eassumption).
Qed.

Theorem first_regex_GN : forall x m, GN m (first_regex g x m).
Proof.
  induction x as [i t|i r|i ops IH|i ops IH|i ops IH|i o IH|i o IH|i o IH|i|i o IH|i k] using regex_ind'; intros m.
  - cbn [first_regex rid_of]. apply GN_upd, good_add.
  - cbn [first_regex rid_of]. destruct (body_of g r); apply GN_upd; [apply good_union|apply good_add].
  - rewrite first_regex_cat.
    destruct (cat_go ops (upd m i (fun s => s)) true []) as [[m1 un] acc] eqn:E.
    eapply GN_trans; [apply GN_upd, good_id|]. eapply GN_trans; [eapply cat_go_GN; eassumption|].
    apply GN_upd, good_union.
  - rewrite first_regex_alt. eapply GN_trans; [apply GN_upd, good_id|]. apply alt_go_GN. assumption.
  - rewrite first_regex_choice. eapply GN_trans; [apply GN_upd, good_id|]. apply alt_go_GN. assumption.
  - cbn [first_regex rid_of]. eapply GN_trans; [apply GN_upd, good_id|]. eapply GN_trans; [apply IH|]. apply GN_upd, good_add_union.
  - cbn [first_regex rid_of]. eapply GN_trans; [apply GN_upd, good_id|]. eapply GN_trans; [apply IH|]. apply GN_upd, good_union.
  - cbn [first_regex rid_of]. eapply GN_trans; [apply GN_upd, good_id|]. eapply GN_trans; [apply IH|]. apply GN_upd, good_add_union.
  - cbn [first_regex rid_of]. apply GN_upd, good_add.
  - cbn [first_regex rid_of]. eapply GN_trans; [apply GN_upd, good_id|]. eapply GN_trans; [apply IH|]. apply GN_upd, good_union.
  - cbn [first_regex rid_of]. apply GN_upd, good_add.
Qed.

Lemma first_regex_le x m : le m (first_regex g x m).
Proof. apply grow_le, first_regex_GN. Qed.

(* ---------- the inclusion at a node, children read from [lo], the node from [hi] ---------- *)
Definition closed_at2 (lo hi : smap) (x : regex) : bool :=
  let s := get hi (rid_of x) in
  match x with
  | RTok _ t => mem (T t) s
  | RRule _ r => match body_of g r with Some b => subset (get lo (rid_of b)) s | None => mem Eps s end
  | RCat _ ops => subset (seq_first lo ops) s
  | RAlt _ ops | RChoice _ ops => forallb (fun o => subset (get lo (rid_of o)) s) ops
  | RStar _ o | ROpt _ o => subset (get lo (rid_of o)) s && mem Eps s
  | RPlus _ o => subset (get lo (rid_of o)) s
  | RParen _ (Some o) => subset (get lo (rid_of o)) s
  | RParen _ None | RLeaf _ _ => mem Eps s
  end.

Lemma closed_at_is m x : closed_at g m x = closed_at2 m m x.
Proof. destruct x as [| | | | | | | |? [?|]|]; reflexivity. Qed.

Lemma subset_sub s1 s2 : subset s1 s2 = true <-> sub s1 s2.
Proof. apply subset_spec. Qed.

Lemma seq_first_mono lo lo' : le lo' lo -> forall l, sub (seq_first lo' l) (seq_first lo l).
Proof.
  intros Hle. induction l as [|op r IH]; cbn [seq_first]; [apply sub_refl|].
  intros x Hx.
  destruct (mem Eps (get lo' (rid_of op))) eqn:E'.
  - assert (E : mem Eps (get lo (rid_of op)) = true) by (apply Hle; assumption). rewrite E.
    apply mem_union in Hx. apply mem_union. destruct Hx as [Hx|Hx]; [left|right; apply IH; assumption].
    apply mem_remove in Hx. apply mem_remove. destruct Hx as (H1 & H2). split; [assumption|apply Hle; assumption].
  - apply mem_remove in Hx. destruct Hx as (H1 & H2).
    assert (H3 : mem x (remove Eps (get lo (rid_of op))) = true) by (apply mem_remove; split; [assumption|apply Hle; assumption]).
    destruct (mem Eps (get lo (rid_of op))); [apply mem_union; left|]; assumption.
Qed.

Lemma closed_at2_mono lo lo' hi hi' x :
  le lo' lo -> le hi hi' -> closed_at2 lo hi x = true -> closed_at2 lo' hi' x = true.
Proof.
  intros Hlo Hhi.
  assert (Hm : forall s, mem s (get hi (rid_of x)) = true -> mem s (get hi' (rid_of x)) = true) by (intros s; apply Hhi).
  assert (Hs : forall k, subset (get lo k) (get hi (rid_of x)) = true -> subset (get lo' k) (get hi' (rid_of x)) = true).
  { intros k H. apply subset_sub. apply subset_sub in H. intros y Hy. apply Hm, H, Hlo, Hy. }
  destruct x as [i t|i r|i ops|i ops|i ops|i o|i o|i o|i [o|]|i k]; cbn [closed_at2 rid_of] in *; intros H; auto.
  - destruct (body_of g r); auto.
  - apply subset_sub. apply subset_sub in H. intros y Hy. apply Hm, H. eapply seq_first_mono; eassumption.
  - rewrite forallb_forall in *. auto.
  - rewrite forallb_forall in *. auto.
  - apply andb_prop in H. destruct H as (H1 & H2). rewrite (Hs _ H1), (Hm _ H2). reflexivity.
  - apply andb_prop in H. destruct H as (H1 & H2). rewrite (Hs _ H1), (Hm _ H2). reflexivity.
Qed.

(* ---------- after a visit, every visited node satisfies its inclusion w.r.t. the map before ---------- *)
Definition Post (m m' : smap) (x : regex) : Prop := forall y, In y (subs x) -> closed_at2 m m' y = true.

Lemma Post_lift m0 m1 m2 m3 x : le m0 m1 -> le m2 m3 -> Post m1 m2 x -> Post m0 m3 x.
Proof. intros H1 H2 HP y Hy. eapply closed_at2_mono; [exact H1|exact H2|]. apply HP. assumption. Qed.

Lemma upd_get_same m k f : get (upd m k f) k = f (get m k).
Proof. apply get_upd_same. Qed.

Lemma alt_go_post id : forall l,
  Forall (fun o => forall m, Post m (first_regex g o m) o) l ->
  forall m m0, le m0 m ->
    (forall o, In o l -> Post m0 (alt_go id l m) o)
    /\ (forall o, In o l -> sub (get m0 (rid_of o)) (get (alt_go id l m) id))
    /\ le m (alt_go id l m).
Proof.
  induction l as [|op r IH]; intros Hl m m0 H0; cbn [alt_go].
  - split; [intros o []|]. split; [intros o []|apply le_refl].
  - inversion Hl as [|? ? Hop Hr]; subst.
    set (m1 := first_regex g op m).
    set (m2 := upd m1 id (fun s => union s (get m1 (rid_of op)))).
    assert (L1 : le m m1) by apply first_regex_le.
    assert (L2 : le m1 m2) by (apply grow_le, grow_upd; intros s y Hy; apply mem_union; auto).
    destruct (IH Hr m2 m0) as (P1 & P2 & P3); [eapply le_trans; [exact H0|]; eapply le_trans; eassumption|].
    split; [|split].
    + intros o [<-|Ho]; [|apply P1; assumption].
      eapply Post_lift; [exact H0| |apply Hop]. eapply le_trans; [exact L2|exact P3].
    + intros o [<-|Ho]; [|apply P2; assumption].
      intros y Hy. apply P3. unfold m2. rewrite upd_get_same. apply mem_union. right.
      apply L1, H0. assumption.
    + eapply le_trans; [exact L1|]. eapply le_trans; [exact L2|exact P3].
Qed.

Lemma cat_go_post : forall l,
  Forall (fun o => forall m, Post m (first_regex g o m) o) l ->
  forall m m0 un acc m' un' acc', le m0 m ->
    cat_go l m un acc = (m', un', acc') ->
    (forall o, In o l -> Post m0 m' o)
    /\ le m m'
    /\ (forall y, y <> Eps -> mem y acc = true -> mem y acc' = true)
    /\ (un = true -> forall s, mem s (seq_first m0 l) = true ->
          (s <> Eps -> mem s acc' = true) /\ (s = Eps -> un' = true)).
Proof.
  induction l as [|op r IH]; intros Hl m m0 un acc m' un' acc' H0 H; cbn [cat_go] in H.
  - injection H as <- <- <-. split; [intros o []|]. split; [apply le_refl|]. split; [auto|].
    intros Hun s Hs. cbn in Hs. rewrite orb_false_r in Hs. apply sym_eqb_eq in Hs. subst s.
    split; [intros Hc; contradiction Hc; reflexivity|auto].
  - inversion Hl as [|? ? Hop Hr]; subst.
    set (m1 := first_regex g op m) in *.
    assert (L1 : le m m1) by apply first_regex_le.
    assert (H01 : le m0 m1) by (eapply le_trans; eassumption).
    destruct un.
    + destruct (IH Hr m1 m0 _ _ _ _ _ H01 H) as (P1 & P2 & P3 & P4).
      split; [|split; [|split]].
      * intros o [<-|Ho]; [|apply P1; assumption]. eapply Post_lift; [exact H0|exact P2|apply Hop].
      * eapply le_trans; eassumption.
      * intros y Hne Hy. apply P3; [assumption|]. apply mem_remove. split; [assumption|apply mem_union; left; assumption].
      * intros _ s Hs. cbn [seq_first] in Hs.
        assert (Hopf : sub (get m0 (rid_of op)) (get m1 (rid_of op))) by apply H01.
        destruct (mem Eps (get m0 (rid_of op))) eqn:E0.
        -- assert (E1 : mem Eps (get m1 (rid_of op)) = true) by (apply Hopf; assumption).
           apply mem_union in Hs. destruct Hs as [Hs|Hs].
           ++ apply mem_remove in Hs. destruct Hs as (Hne & Hs). split; [intros _|intros ->; contradiction Hne; reflexivity].
              apply P3; [assumption|]. apply mem_remove. split; [assumption|]. apply mem_union. right. apply Hopf. assumption.
           ++ apply P4; [exact E1|assumption].
        -- apply mem_remove in Hs. destruct Hs as (Hne & Hs). split; [intros _|intros ->; contradiction Hne; reflexivity].
           apply P3; [assumption|]. apply mem_remove. split; [assumption|]. apply mem_union. right. apply Hopf. assumption.
    + destruct (IH Hr m1 m0 _ _ _ _ _ H01 H) as (P1 & P2 & P3 & P4).
      split; [|split; [|split]].
      * intros o [<-|Ho]; [|apply P1; assumption]. eapply Post_lift; [exact H0|exact P2|apply Hop].
      * eapply le_trans; eassumption.
      * assumption.
      * discriminate.
Qed.

Lemma self_first x : In x (subs x). Proof. apply subs_self. Qed.

Lemma Post_children m m' x kids :
  subs x = x :: flat_map subs kids ->
  closed_at2 m m' x = true ->
  (forall o, In o kids -> Post m m' o) -> Post m m' x.
Proof.
  intros Hs Hx Hk y Hy. rewrite Hs in Hy. destruct Hy as [<-|Hy]; [assumption|].
  apply in_flat_map in Hy. destruct Hy as (o & Ho & Hy). eapply Hk; eassumption.
Qed.

Lemma Post_child m m' x o :
  subs x = x :: subs o -> closed_at2 m m' x = true -> Post m m' o -> Post m m' x.
Proof. intros Hs Hx Ho y Hy. rewrite Hs in Hy. destruct Hy as [<-|Hy]; auto. Qed.

Lemma le_upd m k f : (forall s, sub s (f s)) -> le m (upd m k f).
Proof. intros H. apply grow_le, grow_upd, H. Qed.

Theorem first_regex_post : forall x m, Post m (first_regex g x m) x.
Proof.
  induction x as [i t|i r|i ops IH|i ops IH|i ops IH|i o IH|i o IH|i o IH|i|i o IH|i k] using regex_ind'; intros m.
  - intros y [<-|[]]. cbn [closed_at2 first_regex rid_of]. rewrite upd_get_same. apply mem_add. left. reflexivity.
  - intros y [<-|[]]. cbn [closed_at2 first_regex rid_of]. destruct (body_of g r) as [b|].
    + rewrite upd_get_same. apply subset_sub. intros z Hz. apply mem_union. right. assumption.
    + rewrite upd_get_same. apply mem_add. left. reflexivity.
  - (* cat *)
    rewrite first_regex_cat.
    destruct (cat_go ops (upd m i (fun s => s)) true []) as [[m1 un] acc] eqn:E.
    assert (L0 : le m (upd m i (fun s => s))) by (apply le_upd; intros s; apply sub_refl).
    destruct (cat_go_post ops IH _ m true [] m1 un acc L0 E) as (P1 & P2 & P3 & P4).
    set (m2 := upd m1 i (fun s => union s (if un then add Eps acc else acc))).
    assert (L2 : le m1 m2) by (apply le_upd; intros s y Hy; apply mem_union; auto).
    apply (Post_children m m2 (RCat i ops) ops); [reflexivity| |].
    + cbn [closed_at2 rid_of]. unfold m2. rewrite upd_get_same. apply subset_sub. intros s Hs.
      apply mem_union. right. destruct (P4 eq_refl s Hs) as (Q1 & Q2).
      destruct (sym_eqb s Eps) eqn:Ee.
      * apply sym_eqb_eq in Ee. subst s. rewrite (Q2 eq_refl). apply mem_add. left. reflexivity.
      * assert (Hne : s <> Eps) by (intros ->; rewrite sym_eqb_refl in Ee; discriminate).
        destruct un; [apply mem_add; right|]; apply Q1; assumption.
    + intros o Ho. eapply Post_lift; [apply le_refl|exact L2|]. apply P1. assumption.
  - (* alt *)
    rewrite first_regex_alt.
    assert (L0 : le m (upd m i (fun s => s))) by (apply le_upd; intros s; apply sub_refl).
    destruct (alt_go_post i ops IH (upd m i (fun s => s)) m L0) as (P1 & P2 & P3).
    apply (Post_children _ _ (RAlt i ops) ops); [reflexivity| |assumption].
    cbn [closed_at2 rid_of]. apply forallb_forall. intros o Ho. apply subset_sub. apply P2. assumption.
  - (* choice *)
    rewrite first_regex_choice.
    assert (L0 : le m (upd m i (fun s => s))) by (apply le_upd; intros s; apply sub_refl).
    destruct (alt_go_post i ops IH (upd m i (fun s => s)) m L0) as (P1 & P2 & P3).
    apply (Post_children _ _ (RChoice i ops) ops); [reflexivity| |assumption].
    cbn [closed_at2 rid_of]. apply forallb_forall. intros o Ho. apply subset_sub. apply P2. assumption.
  - (* star *)
    cbn [first_regex rid_of].
    set (m0 := upd m i (fun s => s)). set (m1 := first_regex g o m0).
    set (m2 := upd m1 i (fun s => add Eps (union s (get m1 (rid_of o))))).
    assert (L0 : le m m0) by (apply le_upd; intros s; apply sub_refl).
    assert (L1 : le m0 m1) by apply first_regex_le.
    assert (L2 : le m1 m2) by (apply le_upd; intros s y Hy; apply mem_add; right; apply mem_union; auto).
    apply (Post_child _ _ (RStar i o) o); [reflexivity| |eapply Post_lift; [exact L0|exact L2|apply IH]].
    cbn [closed_at2 rid_of]. unfold m2. rewrite upd_get_same. apply andb_true_intro. split.
    + apply subset_sub. intros y Hy. apply mem_add. right. apply mem_union. right. apply L1, L0. assumption.
    + apply mem_add. left. reflexivity.
  - (* plus *)
    cbn [first_regex rid_of].
    set (m0 := upd m i (fun s => s)). set (m1 := first_regex g o m0).
    set (m2 := upd m1 i (fun s => union s (get m1 (rid_of o)))).
    assert (L0 : le m m0) by (apply le_upd; intros s; apply sub_refl).
    assert (L1 : le m0 m1) by apply first_regex_le.
    assert (L2 : le m1 m2) by (apply le_upd; intros s y Hy; apply mem_union; auto).
    apply (Post_child _ _ (RPlus i o) o); [reflexivity| |eapply Post_lift; [exact L0|exact L2|apply IH]].
    cbn [closed_at2 rid_of]. unfold m2. rewrite upd_get_same.
    apply subset_sub. intros y Hy. apply mem_union. right. apply L1, L0. assumption.
  - (* opt *)
    cbn [first_regex rid_of].
    set (m0 := upd m i (fun s => s)). set (m1 := first_regex g o m0).
    set (m2 := upd m1 i (fun s => add Eps (union s (get m1 (rid_of o))))).
    assert (L0 : le m m0) by (apply le_upd; intros s; apply sub_refl).
    assert (L1 : le m0 m1) by apply first_regex_le.
    assert (L2 : le m1 m2) by (apply le_upd; intros s y Hy; apply mem_add; right; apply mem_union; auto).
    apply (Post_child _ _ (ROpt i o) o); [reflexivity| |eapply Post_lift; [exact L0|exact L2|apply IH]].
    cbn [closed_at2 rid_of]. unfold m2. rewrite upd_get_same. apply andb_true_intro. split.
    + apply subset_sub. intros y Hy. apply mem_add. right. apply mem_union. right. apply L1, L0. assumption.
    + apply mem_add. left. reflexivity.
  - intros y [<-|[]]. cbn [closed_at2 first_regex rid_of]. rewrite upd_get_same. apply mem_add. left. reflexivity.
  - (* paren *)
    cbn [first_regex rid_of].
    set (m0 := upd m i (fun s => s)). set (m1 := first_regex g o m0).
    set (m2 := upd m1 i (fun s => union s (get m1 (rid_of o)))).
    assert (L0 : le m m0) by (apply le_upd; intros s; apply sub_refl).
    assert (L1 : le m0 m1) by apply first_regex_le.
    assert (L2 : le m1 m2) by (apply le_upd; intros s y Hy; apply mem_union; auto).
    apply (Post_child _ _ (RParen i (Some o)) o); [reflexivity| |eapply Post_lift; [exact L0|exact L2|apply IH]].
    cbn [closed_at2 rid_of]. unfold m2. rewrite upd_get_same.
    apply subset_sub. intros y Hy. apply mem_union. right. apply L1, L0. assumption.
  - intros y [<-|[]]. cbn [closed_at2 first_regex rid_of]. rewrite upd_get_same. apply mem_add. left. reflexivity.
Qed.

(* ---------- a whole pass ---------- *)
Lemma first_pass_facts m :
  GN m (first_pass g m) /\ forall y, In y (nodes_of g) -> closed_at2 m (first_pass g m) y = true.
Proof.
  unfold first_pass, nodes_of.
  generalize (g_rules g). intros l. revert m.
  induction l as [|ru l IH]; intros m; cbn [fold_left flat_map].
  - split; [apply GN_refl|intros y []].
  - destruct (r_body ru) as [b|] eqn:Eb.
    + destruct (IH (first_regex g b m)) as (G1 & P1).
      pose proof (first_regex_GN b m) as G0.
      split; [eapply GN_trans; eassumption|].
      intros y Hy. apply in_app_iff in Hy. destruct Hy as [Hy|Hy].
      * eapply closed_at2_mono; [apply le_refl|apply grow_le, G1|]. apply first_regex_post. assumption.
      * eapply closed_at2_mono; [apply grow_le, G0|apply le_refl|]. apply P1. assumption.
    + destruct (IH m) as (G1 & P1). split; [assumption|]. intros y Hy. apply P1. assumption.
Qed.

(* ---------- unchanged total size means unchanged sets ---------- *)
Lemma total_size_cons k s r : total_size ((k, s) :: r) = length s + total_size r.
Proof. reflexivity. Qed.

Lemma grow_size m m' : grow m m' -> AllND m -> AllND m' -> total_size m <= total_size m'.
Proof.
  induction 1 as [extra|k s s' r r' Hs _ IH]; intros H1 H2; [cbn; lia|].
  inversion H1 as [|? ? Hn1 Hr1]; inversion H2 as [|? ? Hn2 Hr2]; subst. cbn [snd] in *.
  rewrite !total_size_cons. specialize (IH Hr1 Hr2).
  assert (length s <= length s'); [|lia].
  apply NoDup_incl_length; [assumption|]. intros x Hx. apply mem_In. apply Hs. apply mem_In. assumption.
Qed.

Lemma size0_get m k : total_size m = 0 -> get m k = [].
Proof.
  induction m as [|[k' v] r IH]; intros H; [reflexivity|].
  rewrite total_size_cons in H. cbn [get]. destruct (Nat.eqb k k').
  - destruct v; [reflexivity|cbn in H; lia].
  - apply IH. lia.
Qed.

Lemma same_size_le m m' : grow m m' -> AllND m -> AllND m' -> total_size m' = total_size m -> le m' m.
Proof.
  induction 1 as [extra|k s s' r r' Hs Hg IH]; intros H1 H2 Hsz.
  - intros k0 x Hx. rewrite (size0_get extra k0) in Hx by (cbn in Hsz; assumption). discriminate.
  - inversion H1 as [|? ? Hn1 Hr1]; inversion H2 as [|? ? Hn2 Hr2]; subst. cbn [snd] in *.
    rewrite !total_size_cons in Hsz.
    pose proof (grow_size _ _ Hg Hr1 Hr2) as Hle.
    assert (Hlen : length s <= length s').
    { apply NoDup_incl_length; [assumption|]. intros x Hx. apply mem_In. apply Hs. apply mem_In. assumption. }
    assert (Hback : incl s' s).
    { apply NoDup_length_incl; [assumption|lia|]. intros x Hx. apply mem_In. apply Hs. apply mem_In. assumption. }
    intros k0 x Hx. cbn [get] in *. destruct (Nat.eqb k0 k).
    + apply mem_In. apply Hback. apply mem_In. assumption.
    + apply (IH Hr1 Hr2); [lia|assumption].
Qed.

(* ---------- the iteration ---------- *)
Lemma iterate_closed fuel : forall m m', AllND m ->
  iterate fuel (first_pass g) m = Some m' -> first_closed g m' = true.
Proof.
  induction fuel as [|fuel IH]; intros m m' Hnd H; cbn [iterate] in H; [discriminate|].
  destruct (first_pass_facts m) as ((Hg & Hn) & HP).
  destruct (Nat.eqb_spec (total_size (first_pass g m)) (total_size m)) as [Heq|Hne].
  - injection H as <-. unfold first_closed. apply forallb_forall. intros y Hy.
    rewrite closed_at_is.
    eapply closed_at2_mono; [|apply le_refl|apply HP; assumption].
    apply same_size_le; auto.
  - eapply IH; [|eassumption]. auto.
Qed.

Theorem calc_first_closed fuel m : calc_first g fuel = Some m -> first_closed g m = true.
Proof. unfold calc_first. apply iterate_closed. constructor. Qed.

End Closed.
