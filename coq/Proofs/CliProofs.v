(* C19 over the model's whole (finite) domain: a proof by complete enumeration,
   lifted with forallb_forall and the completeness of the enumeration. *)
From Coq Require Import List Bool Arith Lia.
From LV Require Import Cli.
Import ListNotations.

Lemma cli_table_ok : forallb row_ok all_rows = true.
Proof. vm_compute. reflexivity. Qed.

Lemma in_bools b : In b bools.
Proof. destruct b; cbn; auto. Qed.

Lemma all_rows_complete f w v : f_verbose f <= 2 -> In (f, w, v) all_rows.
Proof.
  intros Hv. destruct f as [c fm g s vb o], w as [l p ow fmt].
  unfold all_rows. apply in_flat_map. exists (mkFlags c fm g s vb o). split.
  - unfold all_flags.
    apply in_flat_map; exists c; split; [apply in_bools|].
    apply in_flat_map; exists fm; split; [apply in_bools|].
    apply in_flat_map; exists g; split; [apply in_bools|].
    apply in_flat_map; exists s; split; [apply in_bools|].
    apply in_flat_map; exists vb; split.
    + cbn in Hv. cbn. lia.
    + apply in_map. apply in_bools.
  - apply in_flat_map. exists (mkWorld l p ow fmt). split.
    + unfold all_worlds.
      apply in_flat_map; exists l; split; [apply in_bools|].
      apply in_flat_map; exists p; split; [apply in_bools|].
      apply in_flat_map; exists ow; split; [apply in_bools|].
      apply in_map. apply in_bools.
    + apply in_map. destruct v; cbn; auto 10.
Qed.

Theorem cli_ok f w v : f_verbose f <= 2 -> row_ok (f, w, v) = true.
Proof.
  intros Hv. pose proof cli_table_ok as H. rewrite forallb_forall in H.
  apply H. apply all_rows_complete. assumption.
Qed.

(* the verbosity count does not influence effects or exit status at all *)
Lemma run_verbose_irrelevant c fm g s v1 v2 o w v :
  run (mkFlags c fm g s v1 o) w v = run (mkFlags c fm g s v2 o) w v.
Proof. reflexivity. Qed.

Theorem cli_ok_any_verbosity f w v : row_ok (f, w, v) = true.
Proof.
  destruct f as [c fm g s vb o].
  assert (H : row_ok (mkFlags c fm g s 0 o, w, v) = true) by (apply cli_ok; cbn; lia).
  unfold row_ok in *. rewrite (run_verbose_irrelevant c fm g s vb 0 o w v). exact H.
Qed.

Theorem no_output_for_rejected f w v es ex :
  run f w v = (es, ex) -> has_error v = true ->
  writes PGenerated es = false /\ writes PLexer es = false /\ writes PParser es = false /\ writes PGraph es = false.
Proof.
  unfold run. intros H He. destruct v; try discriminate.
  all: destruct (f_format f); [destruct (f_check f)|]; cbn [has_error] in H; injection H as <- _; cbn; auto.
Qed.
