(* C09, follow sets, soundness: every token that calc_follow_regex (Sema.follow_regex) puts
   into a follow set is derivable by the textbook rules of FollowSpec.v; hence so is every
   token in the result of the iterated analysis. *)
From Coq Require Import List Arith Lia Bool.
From LV Require Import Sema SetLemmas FirstSpec FollowSpec.
Import ListNotations.

Section Sound.
Variable g : grammar.
Variable fi : smap.
Hypothesis Hwf : wf_ids g.

Notation Fol := (FollowSpec.Fol g fi).

Definition JF (fo : smap) : Prop :=
  forall y, In y (nodes_of g) -> forall a, mem (T a) (get fo (rid_of y)) = true -> Fol y a.

Lemma id_inj x y : In x (nodes_of g) -> In y (nodes_of g) -> rid_of x = rid_of y -> x = y.
Proof.
  unfold wf_ids in Hwf. generalize (nodes_of g) Hwf. intros l Hnd.
  induction l as [|z l IH]; intros Hx Hy He; [contradiction|].
  cbn in Hnd. inversion Hnd as [|? ? Hnin Hnd']; subst.
  destruct Hx as [->|Hx], Hy as [->|Hy].
  - reflexivity.
  - exfalso. apply Hnin. rewrite He. apply in_map. assumption.
  - exfalso. apply Hnin. rewrite <- He. apply in_map. assumption.
  - apply IH; assumption.
Qed.

Lemma JF_upd fo x f :
  JF fo -> In x (nodes_of g) ->
  (forall a, mem (T a) (f (get fo (rid_of x))) = true -> Fol x a) ->
  JF (upd fo (rid_of x) f).
Proof.
  intros HJ Hx Hf y Hy a Ha.
  destruct (Nat.eq_dec (rid_of y) (rid_of x)) as [He|Hne].
  - rewrite He, get_upd_same in Ha. rewrite (id_inj _ _ Hy Hx He). apply Hf. assumption.
  - rewrite get_upd_other in Ha by assumption. eapply HJ; eassumption.
Qed.

Lemma get_upd_id (m : smap) k k' : get (upd m k (fun s => s)) k' = get m k'.
Proof.
  destruct (Nat.eq_dec k' k) as [->|Hne]; [apply get_upd_same|apply get_upd_other; assumption].
Qed.

Lemma JF_touch fo k : JF fo -> JF (upd fo k (fun s => s)).
Proof. intros HJ y Hy a Ha. rewrite get_upd_id in Ha. eapply HJ; eassumption. Qed.

(* add the justified tokens of [extra] to the set of x *)
Lemma JF_union fo x extra :
  JF fo -> In x (nodes_of g) ->
  (forall a, mem (T a) extra = true -> Fol x a) ->
  JF (upd fo (rid_of x) (fun s => union s extra)).
Proof.
  intros HJ Hx He. apply JF_upd; try assumption.
  intros a Ha. apply mem_union in Ha. destruct Ha as [Ha|Ha]; [eapply HJ; eassumption|auto].
Qed.

Lemma child_node x o : In x (nodes_of g) -> In o (subs x) -> In o (nodes_of g).
Proof. apply sub_in_nodes. Qed.

(* ---------- the loops of follow_regex as named functions ---------- *)
Definition cat_fgo (rb : nat) :=
  fix go (l : list regex) (st : fstate) (follow : set) : fstate * set :=
    match l with
    | [] => (st, follow)
    | op :: r =>
      let '(st1, follow1) := go r st follow in
      let '(fo, lf) := st1 in
      let fo1 := upd fo (rid_of op) (fun s => union s follow1) in
      let opf := get fi (rid_of op) in
      let follow' := if mem Eps opf then remove Eps (union follow1 opf) else opf in
      (follow_regex g fi rb op (fo1, lf), follow')
    end.

Definition alt_fgo (rb : nat) (follow : set) :=
  fix go (l : list regex) (st : fstate) : fstate :=
    match l with
    | [] => st
    | op :: r =>
      let '(fo, lf) := st in
      go r (follow_regex g fi rb op (upd fo (rid_of op) (fun s => union s follow), lf))
    end.

Lemma follow_regex_cat rb id ops fo lf :
  follow_regex g fi rb (RCat id ops) (fo, lf) = fst (cat_fgo rb ops (upd fo id (fun s => s), lf) (get fo id)).
Proof. reflexivity. Qed.
Lemma follow_regex_alt rb id ops fo lf :
  follow_regex g fi rb (RAlt id ops) (fo, lf) = alt_fgo rb (get fo id) ops (upd fo id (fun s => s), lf).
Proof. reflexivity. Qed.
Lemma follow_regex_choice rb id ops fo lf :
  follow_regex g fi rb (RChoice id ops) (fo, lf) = alt_fgo rb (get fo id) ops (upd fo id (fun s => s), lf).
Proof. reflexivity. Qed.

Definition IHo (rb : nat) (o : regex) : Prop :=
  forall fo lf, JF fo -> JF (fst (follow_regex g fi rb o (fo, lf))).

Lemma alt_fgo_J rb x follow :
  In x (nodes_of g) ->
  (forall a, mem (T a) follow = true -> Fol x a) ->
  (forall o a, In o (match x with RAlt _ ops | RChoice _ ops => ops | _ => [] end) -> Fol x a -> Fol o a) ->
  forall l, (forall o, In o l -> In o (match x with RAlt _ ops | RChoice _ ops => ops | _ => [] end)
                               /\ In o (nodes_of g) /\ IHo rb o) ->
  forall st, JF (fst st) -> JF (fst (alt_fgo rb follow l st)).
Proof.
  intros Hx Hfol Hdown. induction l as [|op r IH]; intros Hl [fo lf] HJ; cbn [alt_fgo]; [assumption|].
  destruct (Hl op) as (Hin & Hn & Hrec); [left; reflexivity|].
  apply IH; [intros o Ho; apply Hl; right; assumption|].
  apply Hrec. cbn [fst] in HJ. apply JF_union; try assumption.
  intros a Ha. apply Hdown; auto.
Qed.

(* what may follow the operands in front of the suffix [l] of a sequence *)
Definition SeqF (base : set) (l : list regex) (a : tokn) : Prop :=
  (exists mid y post, l = mid ++ y :: post /\ Forall (nullable_fi fi) mid /\ first_fi fi y a)
  \/ (Forall (nullable_fi fi) l /\ mem (T a) base = true).

Lemma cat_fgo_spec rb id ops base :
  In (RCat id ops) (nodes_of g) ->
  (forall a, mem (T a) base = true -> Fol (RCat id ops) a) ->
  forall l pre st st1 follow1,
  ops = pre ++ l ->
  (forall o, In o l -> In o (nodes_of g) /\ IHo rb o) ->
  JF (fst st) ->
  cat_fgo rb l st base = (st1, follow1) ->
  JF (fst st1) /\ forall a, mem (T a) follow1 = true -> SeqF base l a.
Proof.
  intros Hcat Hbase. induction l as [|op r IH]; intros pre st st1 follow1 Hops Hl HJ H; cbn [cat_fgo] in H.
  - injection H as <- <-. split; [assumption|]. intros a Ha. right. split; [constructor|assumption].
  - destruct (cat_fgo rb r st base) as [st2 follow2] eqn:Er.
    destruct (IH (pre ++ [op]) st st2 follow2) as (HJ2 & HS2).
    { rewrite <- app_assoc. assumption. }
    { intros o Ho. apply Hl. right. assumption. }
    { assumption. }
    { assumption. }
    destruct st2 as [fo lf]. cbn [fst] in HJ2.
    destruct (Hl op) as (Hn & Hrec); [left; reflexivity|].
    injection H as <- <-. split.
    + apply Hrec. apply JF_union; try assumption.
      intros a Ha. destruct (HS2 a Ha) as [(mid & y & post & -> & Hmid & Hy)|(Hall & Hb)].
      * eapply F_cat_first; [exact Hcat|exact Hops|exact Hmid|exact Hy].
      * eapply F_cat_last; [exact Hcat|exact Hops|exact Hall|]. apply Hbase. assumption.
    + intros a Ha.
      assert (Hown : mem (T a) (get fi (rid_of op)) = true -> SeqF base (op :: r) a).
      { intros Hf. left. exists [], op, r. split; [reflexivity|]. split; [constructor|exact Hf]. }
      destruct (mem Eps (get fi (rid_of op))) eqn:Ee; [|auto].
      apply mem_remove in Ha. destruct Ha as (_ & Ha). apply mem_union in Ha. destruct Ha as [Ha|Ha]; [|auto].
      destruct (HS2 a Ha) as [(mid & y & post & -> & Hmid & Hy)|(Hall & Hb)].
      * left. exists (op :: mid), y, post. split; [reflexivity|]. split; [constructor; assumption|assumption].
      * right. split; [constructor; assumption|assumption].
Qed.

Theorem follow_regex_J : forall x rb fo lf, In x (nodes_of g) -> JF fo -> JF (fst (follow_regex g fi rb x (fo, lf))).
Proof.
  induction x as [i t|i r|i ops IH|i ops IH|i ops IH|i o IH|i o IH|i o IH|i|i o IH|i k] using regex_ind';
    intros rb fo lf Hx HJ.
  - (* tok *) exact HJ.
  - (* rule *)
    cbn [follow_regex rid_of]. destruct (body_of g r) as [b|] eqn:Eb; [|exact HJ]. cbn [fst].
    pose proof (body_in_nodes g _ _ Eb) as Hb.
    apply JF_union; [apply JF_touch, JF_touch; assumption|assumption|].
    intros a Ha. rewrite get_upd_id in Ha. eapply F_rule; [exact Hx|exact Eb|]. apply (HJ _ Hx). assumption.
  - (* cat *)
    rewrite follow_regex_cat.
    destruct (cat_fgo rb ops (upd fo i (fun s => s), lf) (get fo i)) as [st1 f1] eqn:Eg. cbn [fst].
    assert (Hch : forall o, In o ops -> In o (nodes_of g) /\ IHo rb o).
    { intros o Ho. assert (Hn : In o (nodes_of g)).
      { eapply child_node; [exact Hx|]. cbn [subs]. right. apply in_flat_map. exists o. split; [assumption|apply subs_self]. }
      split; [assumption|]. intros fo0 lf0 HJ0. rewrite Forall_forall in IH. apply IH; assumption. }
    destruct (cat_fgo_spec rb i ops (get fo i) Hx (fun a Ha => HJ _ Hx a Ha) ops [] _ _ _ eq_refl Hch
                           (JF_touch _ _ HJ : JF (fst (upd fo i (fun s => s), lf))) Eg) as (H1 & _).
    exact H1.
  - (* alt *)
    rewrite follow_regex_alt.
    apply (alt_fgo_J rb (RAlt i ops)); try assumption.
    + intros a Ha. apply (HJ _ Hx). assumption.
    + intros o a Ho Hf. eapply F_alt; eassumption.
    + intros o Ho. split; [assumption|].
      assert (Hn : In o (nodes_of g)).
      { eapply child_node; [exact Hx|]. cbn [subs]. right. apply in_flat_map. exists o. split; [assumption|apply subs_self]. }
      split; [assumption|]. intros fo0 lf0 HJ0. rewrite Forall_forall in IH. apply IH; assumption.
    + cbn [fst]. apply JF_touch. assumption.
  - (* choice *)
    rewrite follow_regex_choice.
    apply (alt_fgo_J rb (RChoice i ops)); try assumption.
    + intros a Ha. apply (HJ _ Hx). assumption.
    + intros o a Ho Hf. eapply F_choice; eassumption.
    + intros o Ho. split; [assumption|].
      assert (Hn : In o (nodes_of g)).
      { eapply child_node; [exact Hx|]. cbn [subs]. right. apply in_flat_map. exists o. split; [assumption|apply subs_self]. }
      split; [assumption|]. intros fo0 lf0 HJ0. rewrite Forall_forall in IH. apply IH; assumption.
    + cbn [fst]. apply JF_touch. assumption.
  - (* star *)
    assert (Ho : In o (nodes_of g)) by (eapply child_node; [exact Hx|]; cbn [subs]; right; apply subs_self).
    cbn [follow_regex rid_of]. apply IH; [assumption|].
    apply JF_upd; [apply JF_touch; assumption|assumption|].
    intros a Ha. rewrite get_upd_id in Ha. apply mem_union in Ha. destruct Ha as [Ha|Ha].
    + apply mem_remove in Ha. destruct Ha as (_ & Ha). apply mem_union in Ha. destruct Ha as [Ha|Ha].
      * apply (HJ _ Ho). assumption.
      * eapply F_star_again; [exact Hx|exact Ha].
    + eapply F_star; [exact Hx|]. apply (HJ _ Hx). assumption.
  - (* plus *)
    assert (Ho : In o (nodes_of g)) by (eapply child_node; [exact Hx|]; cbn [subs]; right; apply subs_self).
    cbn [follow_regex rid_of]. apply IH; [assumption|].
    apply JF_upd; [apply JF_touch; assumption|assumption|].
    intros a Ha. rewrite get_upd_id in Ha. apply mem_union in Ha. destruct Ha as [Ha|Ha].
    + apply mem_union in Ha. destruct Ha as [Ha|Ha].
      * apply (HJ _ Ho). assumption.
      * eapply F_plus_again; [exact Hx|exact Ha].
    + eapply F_plus; [exact Hx|]. apply (HJ _ Hx). assumption.
  - (* opt *)
    assert (Ho : In o (nodes_of g)) by (eapply child_node; [exact Hx|]; cbn [subs]; right; apply subs_self).
    cbn [follow_regex rid_of]. apply IH; [assumption|].
    apply JF_upd; [apply JF_touch; assumption|assumption|].
    intros a Ha. rewrite get_upd_id in Ha. apply mem_union in Ha. destruct Ha as [Ha|Ha].
    + apply (HJ _ Ho). assumption.
    + eapply F_opt; [exact Hx|]. apply (HJ _ Hx). assumption.
  - (* paren none *) exact HJ.
  - (* paren some *)
    assert (Ho : In o (nodes_of g)) by (eapply child_node; [exact Hx|]; cbn [subs]; right; apply subs_self).
    cbn [follow_regex rid_of]. apply IH; [assumption|].
    apply JF_upd; [apply JF_touch; assumption|assumption|].
    intros a Ha. rewrite get_upd_id in Ha. apply mem_union in Ha. destruct Ha as [Ha|Ha].
    + apply (HJ _ Ho). assumption.
    + eapply F_paren; [exact Hx|]. apply (HJ _ Hx). assumption.
  - (* leaf *) exact HJ.
Qed.

(* ---------- the whole analysis ---------- *)
Lemma follow_pass_J st : JF (fst st) -> JF (fst (follow_pass g fi st)).
Proof.
  unfold follow_pass.
  assert (H : forall l, (forall ru, In ru l -> In ru (g_rules g)) -> forall st, JF (fst st) ->
            JF (fst (fold_left (fun st ru =>
                                  match r_body ru with
                                  | Some b => let '(fo, lf) := st in
                                              follow_regex g fi (rid_of b) b (upd fo (rid_of b) (fun s => s), lf)
                                  | None => st
                                  end) l st))).
  { induction l as [|ru l IH]; intros Hl [fo lf] HJ; cbn [fold_left]; [assumption|].
    apply IH; [intros r Hr; apply Hl; right; assumption|].
    destruct (r_body ru) as [b|] eqn:Eb; [|assumption].
    apply follow_regex_J; [|apply JF_touch; assumption].
    unfold nodes_of. apply in_flat_map. exists ru. split; [apply Hl; left; reflexivity|]. rewrite Eb. apply subs_self. }
  apply H. auto.
Qed.

Lemma JF_add fo x t : JF fo -> In x (nodes_of g) -> Fol x t -> JF (upd fo (rid_of x) (add (T t))).
Proof.
  intros HJ Hx Hf. apply JF_upd; try assumption.
  intros a Ha. apply mem_add in Ha. destruct Ha as [Ha|Ha]; [injection Ha as ->; assumption|].
  eapply HJ; eassumption.
Qed.

Lemma follow_init_J : JF (fst (follow_init g)).
Proof.
  unfold follow_init. destruct (body_of g (g_start g)) as [sb|] eqn:Eb.
  - cbn [fst]. pose proof (body_in_nodes g _ _ Eb) as Hsb.
    assert (H : forall l, (forall p, In p l -> In p (g_parts g)) -> forall fo, JF fo ->
              JF (fold_left (fun fo p =>
                               match body_of g (fst p) with
                               | Some pb => upd (upd fo (rid_of sb) (add (T (snd p)))) (rid_of pb) (add (T (snd p)))
                               | None => fo
                               end) l fo)).
    { induction l as [|[p t] l IH]; intros Hl fo HJ; cbn [fold_left]; [assumption|].
      apply IH; [intros q Hq; apply Hl; right; assumption|].
      cbn [fst snd]. destruct (body_of g p) as [pb|] eqn:Ep; [|assumption].
      pose proof (body_in_nodes g _ _ Ep) as Hpb.
      assert (Hin : In (p, t) (g_parts g)) by (apply Hl; left; reflexivity).
      apply JF_add; [apply JF_add; [assumption|assumption|]|assumption|].
      - eapply F_part_at_start; eassumption.
      - eapply F_part; eassumption. }
    apply H; [auto|]. apply JF_add; [|assumption|apply F_start; assumption].
    intros y _ a Ha. cbn in Ha. discriminate.
  - intros y _ a Ha. cbn in Ha. discriminate.
Qed.

Lemma iterate_follow_J fuel : forall st st', JF (fst st) -> iterate_follow g fi fuel st = Some st' -> JF (fst st').
Proof.
  induction fuel as [|fuel IH]; intros st st' HJ H; cbn [iterate_follow] in H; [discriminate|].
  destruct (Nat.eqb _ _).
  - injection H as <-. apply follow_pass_J. assumption.
  - eapply IH; [|eassumption]. apply follow_pass_J. assumption.
Qed.

Theorem follow_sound fuel fo lf :
  calc_follow g fi fuel = Some (fo, lf) ->
  forall y a, In y (nodes_of g) -> mem (T a) (get fo (rid_of y)) = true -> Fol y a.
Proof.
  unfold calc_follow. intros H y a Hy Ha.
  pose proof (iterate_follow_J _ _ _ follow_init_J H) as HJ. cbn [fst] in HJ. eapply HJ; eassumption.
Qed.

End Sound.
