(* FmtProofs.v - theorems about the formatter's item generator (Model/Fmt.v), for ALL trees and
   source texts.  See notes/fmt.md for the one-line reading of each theorem. *)
From Coq Require Import List Arith Bool Lia.
From LV Require Import Fmt FmtLemmas.
Import ListNotations.

Arguments indent : simpl never.
Arguments dedent : simpl never.
Arguments space : simpl never.
Arguments c_newline : simpl never.
Arguments c_nl_or_space : simpl never.
Arguments c_alt_sep : simpl never.
Arguments c_alt_indent : simpl never.
Arguments push_text : simpl never.
Arguments push_text_chopped : simpl never.
Arguments space_before_comment : simpl never.

(* ------------------------------------------------------------------ induction on trees *)

Fixpoint tree_ind2 (P : tree -> Prop)
  (Ht : forall k txt s, P (FTok k txt s))
  (Hr : forall k cs, Forall P cs -> P (FRule k cs)) (t : tree) : P t :=
  match t with
  | FTok k txt s => Ht k txt s
  | FRule k cs =>
      Hr k cs ((fix go (l : list tree) : Forall P l :=
                  match l with
                  | [] => Forall_nil P
                  | c :: r => Forall_cons c (tree_ind2 P Ht Hr c) (go r)
                  end) cs)
  end.

Lemma gen_node_rule : forall src prev k cs,
  gen_node src prev (FRule k cs) = gen_rule src prev k (gen_subs src prev cs).
Proof.
  intros src prev k cs. simpl. f_equal. revert prev.
  induction cs as [|c r IH]; intros prev; simpl; [reflexivity|]. f_equal. apply IH.
Qed.

Lemma gen_subs_forall : forall (Q : tree -> list item -> Prop) src cs,
  Forall (fun c => forall prev, Q c (gen_node src prev c)) cs ->
  forall prev, Forall (fun cr => Q (fst cr) (snd cr)) (gen_subs src prev cs).
Proof.
  intros Q src cs H. induction H as [|c r Hc _ IH]; intros prev; simpl; constructor; [apply Hc|apply IH].
Qed.

Lemma gen_subs_fst : forall src cs prev, map fst (gen_subs src prev cs) = cs.
Proof. induction cs as [|c r IH]; intros prev; simpl; [reflexivity|]. f_equal. apply IH. Qed.

Lemma is_tok_inv : forall k t, is_tok k t = true -> exists txt s, t = FTok k txt s.
Proof.
  intros k [k' txt s|k' cs] H; simpl in H; [|discriminate].
  exists txt, s. destruct k, k'; try discriminate; reflexivity.
Qed.


Lemma paren_loop_cons : forall open cr rest,
  paren_loop open (cr :: rest) =
  if is_tok TLPar (fst cr) || is_tok TLBrak (fst cr) then
    snd cr ++ indent 2 ++ c_newline false :: paren_loop (S open) rest
  else if (is_tok TRPar (fst cr) || is_tok TRBrak (fst cr)) && (0 <? open) then
    dedent 2 ++ c_newline false :: snd cr ++ paren_loop (open - 1) rest
  else snd cr ++ paren_loop open rest.
Proof. reflexivity. Qed.

Lemma rule_loop_cons : forall open cr rest,
  rule_loop open (cr :: rest) =
  if is_tok TColon (fst cr) then
    snd cr ++ indent 2 ++ c_nl_or_space :: rule_loop (S open) rest
  else if is_tok TSemi (fst cr) && (0 <? open) then
    dedent 2 ++ c_newline true :: snd cr ++ rule_loop (open - 1) rest
  else snd cr ++ rule_loop open rest.
Proof. reflexivity. Qed.

Lemma semi_loop_cons : forall first cr rest,
  semi_loop first (cr :: rest) =
  if is_tok TWhitespace (fst cr) then semi_loop first rest
  else if is_tok TSemi (fst cr) then snd cr ++ semi_loop first rest
  else (if first then space else [ISig SpaceOrNewLine]) ++ snd cr ++ semi_loop false rest.
Proof. reflexivity. Qed.

(* ================================================================== part 1
   the measures that hold whether or not the generator crashes:
   every item is well-formed for the printer, indentation and new-line groups are balanced *)

(* ds / df: indentation still to be closed / opened by the caller *)
Definition MM (ds df : nat) (r : list item) : Prop :=
  Forall item_ok r
  /\ cnt is_si r + df = cnt is_fi r + ds
  /\ cnt is_altA r = cnt is_altB r
  /\ cnt is_sg r = cnt is_fg r.

Definition M := MM 0 0.

Ltac cn := repeat (rewrite cnt_cons || rewrite cnt_app || rewrite cnt_repeat); simpl in *; lia.

Lemma MM_nil : M [].
Proof. repeat split; constructor. Qed.

Lemma MM_app : forall a b s1 f1 s2 f2, MM s1 f1 a -> MM s2 f2 b -> MM (s1 + s2) (f1 + f2) (a ++ b).
Proof.
  intros a b s1 f1 s2 f2 (A1 & A2 & A3 & A4) (B1 & B2 & B3 & B4).
  repeat split; [apply Forall_app; split; assumption| | |]; cn.
Qed.

Lemma M_app : forall a b, M a -> M b -> M (a ++ b).
Proof. intros a b Ha Hb. exact (MM_app a b 0 0 0 0 Ha Hb). Qed.

Lemma MM_weaken : forall s f s' f' r, MM s f r -> s + f' = s' + f -> MM s' f' r.
Proof. intros s f s' f' r (A1 & A2 & A3 & A4) E. repeat split; try assumption; lia. Qed.

Lemma M_plainc : forall l, Forall plainc l -> M l.
Proof.
  intros l H. repeat split.
  - eapply Forall_impl; [|exact H]. apply plainc_ok.
  - rewrite (plainc_cnt0 is_si l plain_si eq_refl H), (plainc_cnt0 is_fi l plain_fi eq_refl H); reflexivity.
  - rewrite (plainc_cnt0 is_altA l plain_altA eq_refl H), (plainc_cnt0 is_altB l plain_altB eq_refl H); reflexivity.
  - rewrite (plainc_cnt0 is_sg l plain_sg eq_refl H), (plainc_cnt0 is_fg l plain_fg eq_refl H); reflexivity.
Qed.

Lemma M_plain : forall l, Forall plain l -> M l.
Proof. intros; apply M_plainc, plain_plainc; assumption. Qed.

(* a single item with explicit counters *)
Lemma MM_one : forall x s f, item_ok x -> is_si x + f = is_fi x + s -> is_altA x = is_altB x ->
  is_sg x = is_fg x -> MM s f [x].
Proof. intros x s f H1 H2 H3 H4. repeat split; [repeat constructor; exact H1| | |]; simpl; lia. Qed.

Lemma M_space : M space.
Proof. apply MM_one; try reflexivity. simpl. split; intros [H|[]]; discriminate. Qed.

Lemma M_sig : forall s, s <> StartIndent -> s <> FinishIndent -> s <> StartNewLineGroup -> s <> FinishNewLineGroup -> M [ISig s].
Proof. intros s H1 H2 H3 H4. apply MM_one; [exact I| | |]; destruct s; simpl; congruence. Qed.

Lemma M_info : forall n, M [IInfo n].
Proof. intros; apply MM_one; reflexivity || exact I. Qed.
Lemma M_anchor : forall n, M [IAnchor n].
Proof. intros; apply MM_one; reflexivity || exact I. Qed.
Lemma M_reeval : forall n, M [IReeval n].
Proof. intros; apply MM_one; reflexivity || exact I. Qed.
Lemma M_crash : forall c, M [ICrash c].
Proof. intros; apply MM_one; reflexivity || exact I. Qed.
Lemma M_c_newline : forall b, M [c_newline b].
Proof. intros; apply MM_one; try reflexivity. simpl; auto. Qed.
Lemma M_c_nl_or_space : M [c_nl_or_space].
Proof. apply MM_one; try reflexivity. simpl; auto. Qed.

Lemma MM_indent : forall w, MM w 0 (indent w).
Proof.
  intros w. unfold indent. repeat split.
  - apply Forall_repeat; exact I.
  - cn.
  - cn.
  - cn.
Qed.

Lemma MM_dedent : forall w, MM 0 w (dedent w).
Proof.
  intros w. unfold dedent. repeat split.
  - apply Forall_repeat; exact I.
  - cn.
  - cn.
  - cn.
Qed.

(* (a ++ b ++ …) goals: one tactic that splits an MM goal along ++ and :: with evars for the
   pending counts, closes the leaves with the lemmas above and leaves arithmetic to lia *)
Lemma MM_cons : forall x r s1 f1 s2 f2, MM s1 f1 [x] -> MM s2 f2 r -> MM (s1 + s2) (f1 + f2) (x :: r).
Proof. intros. change (x :: r) with ([x] ++ r). apply MM_app; assumption. Qed.

Definition SubsM (subs : subs_t) : Prop := Forall (fun cr => M (snd cr)) subs.

Lemma M_gen_token : forall src k txt s, M (gen_token src k txt s).
Proof.
  intros src k txt s. destruct k; simpl;
    try (apply M_plain, push_text_plain); try apply MM_nil.
  - apply M_app; [apply M_plainc, sbc_plainc|]. apply M_app; [apply M_plainc, push_text_chopped_plainc|].
    apply M_sig; discriminate.
  - apply M_app; [apply M_plainc, sbc_plainc|]. apply M_app; [apply M_plainc, push_text_chopped_plainc|].
    apply M_sig; discriminate.
  - apply M_app; [apply M_plainc, sbc_plainc|apply M_plain, push_text_plain].
Qed.

Lemma M_gen_children : forall subs, SubsM subs -> M (gen_children subs).
Proof.
  intros subs H. unfold gen_children. induction H as [|cr r Hc _ IH]; simpl; [apply MM_nil|].
  apply M_app; assumption.
Qed.

Lemma M_gen_error : forall subs, SubsM subs -> M (gen_error subs).
Proof.
  intros subs H. unfold gen_error. induction H as [|cr r Hc _ IH]; simpl; [apply MM_nil|].
  apply M_app; [|exact IH]. destruct (is_tok TWhitespace (fst cr)); [apply M_space|exact Hc].
Qed.

Lemma M_concat_rest : forall subs, SubsM subs -> M (concat_rest subs).
Proof.
  intros subs H. unfold concat_rest. induction H as [|cr r Hc _ IH]; simpl; [apply MM_nil|].
  apply M_app; [|exact IH].
  destruct (is_tok TWhitespace (fst cr)); [apply MM_nil|].
  destruct (is_comment (fst cr)); [exact Hc|].
  change (ISig SpaceOrNewLine :: snd cr) with ([ISig SpaceOrNewLine] ++ snd cr).
  apply M_app; [apply M_sig; discriminate|exact Hc].
Qed.

Lemma M_group : forall r, M r -> M (ISig StartNewLineGroup :: r ++ [ISig FinishNewLineGroup]).
Proof.
  intros r (A1 & A2 & A3 & A4). repeat split.
  - constructor; [exact I|]. apply Forall_app; split; [exact A1|repeat constructor].
  - cn.
  - cn.
  - cn.
Qed.

Lemma M_gen_concat : forall subs, SubsM subs -> M (gen_concat subs).
Proof.
  intros subs H. unfold gen_concat. apply M_group.
  destruct H as [|cr r Hc Hr]; [apply MM_nil|].
  apply M_app; [exact Hc|apply M_concat_rest; exact Hr].
Qed.

Lemma MM_paren_loop : forall subs, SubsM subs -> forall open, MM 0 (2 * open) (paren_loop open subs).
Proof.
  intros subs H. induction H as [|cr r Hc _ IH]; intros open; [apply MM_dedent|rewrite paren_loop_cons].
  - destruct (is_tok TLPar (fst cr) || is_tok TLBrak (fst cr)).
    + eapply MM_weaken.
      * apply MM_app; [exact Hc|]. apply MM_app; [apply (MM_indent 2)|].
        apply MM_cons; [apply M_c_newline|apply (IH (S open))].
      * lia.
    + destruct ((is_tok TRPar (fst cr) || is_tok TRBrak (fst cr)) && (0 <? open)) eqn:E.
      * apply andb_true_iff in E; destruct E as [_ E]. apply Nat.ltb_lt in E.
        eapply MM_weaken.
        -- apply MM_app; [apply (MM_dedent 2)|].
           apply MM_cons; [apply M_c_newline|]. apply MM_app; [exact Hc|apply (IH (open - 1))].
        -- lia.
      * eapply MM_weaken; [apply MM_app; [exact Hc|apply (IH open)]|lia].
Qed.

Lemma M_gen_paren : forall subs, SubsM subs -> M (gen_paren subs).
Proof.
  intros subs H. unfold gen_paren.
  change (IInfo LnStart :: IAnchor LnEnd :: paren_loop 0 subs ++ [IInfo LnEnd])
    with ([IInfo LnStart] ++ [IAnchor LnEnd] ++ paren_loop 0 subs ++ [IInfo LnEnd]).
  apply M_app; [apply M_info|]. apply M_app; [apply M_anchor|].
  apply M_app; [|apply M_info]. exact (MM_paren_loop subs H 0).
Qed.

Lemma M_alt_pair : forall force r, M r ->
  M (c_alt_sep force :: r ++ c_alt_indent force :: space).
Proof.
  intros force r (A1 & A2 & A3 & A4). repeat split.
  - constructor; [simpl; left; auto|]. apply Forall_app; split; [exact A1|].
    constructor; [simpl; right; auto|]. apply M_space.
  - cn.
  - cn.
  - cn.
Qed.

Lemma M_alt_rest : forall force subs, SubsM subs -> M (alt_rest force subs).
Proof.
  intros force subs H. unfold alt_rest. induction H as [|cr r Hc _ IH]; simpl; [apply MM_nil|].
  apply M_app; [|exact IH].
  destruct (is_tok TOr (fst cr) || is_tok TSlash (fst cr)); [apply M_alt_pair|]; exact Hc.
Qed.

Lemma alt_frame : forall x : list item,
  IInfo LnStart :: IAnchor LnEnd :: ISig StartNewLineGroup :: x ++ [ISig FinishNewLineGroup; IInfo LnEnd] =
  [IInfo LnStart] ++ [IAnchor LnEnd] ++ (ISig StartNewLineGroup :: x ++ [ISig FinishNewLineGroup]) ++ [IInfo LnEnd].
Proof. intros x. simpl. rewrite <- app_assoc. reflexivity. Qed.

Lemma M_gen_alt : forall src prev subs, SubsM subs -> M (gen_alt src prev subs).
Proof.
  intros src prev subs H. unfold gen_alt.
  destruct (force_multiline src prev (map fst subs)) as [force|c]; [|apply M_crash].
  rewrite alt_frame.
  apply M_app; [apply M_info|]. apply M_app; [apply M_anchor|]. apply M_app; [|apply M_info].
  apply M_group. destruct H as [|cr r Hc Hr]; [apply MM_nil|].
  apply M_app; [exact Hc|apply M_alt_rest; exact Hr].
Qed.

Lemma M_file_loop : forall src subs, SubsM subs -> forall ls, M (file_loop src ls subs).
Proof.
  intros src subs H. induction H as [|[c r] rest Hc _ IH]; intros ls; simpl file_loop; [apply MM_nil|].
  simpl in Hc.
  destruct c as [k txt s|k cs].
  - destruct k;
      try (apply M_app; [destruct (negb ls && is_decl _); [apply M_sig; discriminate|apply MM_nil]|apply M_app; [exact Hc|apply IH]]).
    + apply M_app; [apply M_plainc, sbc_plainc|]. apply M_app; [apply M_plainc, push_text_chopped_plainc|].
      change (ISig NewLine :: file_loop src true rest) with ([ISig NewLine] ++ file_loop src true rest).
      apply M_app; [apply M_sig; discriminate|apply IH].
    + apply M_app; [apply M_plainc, sbc_plainc|]. apply M_app; [apply M_plainc, push_text_chopped_plainc|].
      change (ISig NewLine :: file_loop src true rest) with ([ISig NewLine] ++ file_loop src true rest).
      apply M_app; [apply M_sig; discriminate|apply IH].
    + apply M_app; [apply M_plainc, sbc_plainc|]. apply M_app; [apply M_plain, push_text_plain|].
      change (ISig SpaceIfNotTrailing :: file_loop src ls rest) with ([ISig SpaceIfNotTrailing] ++ file_loop src ls rest).
      apply M_app; [apply M_sig; discriminate|apply IH].
    + destruct (0 <? count_nl txt); [|apply IH].
      apply M_app; [|apply IH]. apply M_plain, Forall_repeat. simpl; repeat split; discriminate.
  - apply M_app; [destruct (negb ls && is_decl _); [apply M_sig; discriminate|apply MM_nil]|apply M_app; [exact Hc|apply IH]].
Qed.

Lemma M_semi_loop : forall subs, SubsM subs -> forall first, M (semi_loop first subs).
Proof.
  intros subs H. induction H as [|cr r Hc _ IH]; intros first; [apply MM_nil|rewrite semi_loop_cons].
  destruct (is_tok TWhitespace (fst cr)); [apply IH|].
  destruct (is_tok TSemi (fst cr)); [apply M_app; [exact Hc|apply IH]|].
  apply M_app; [destruct first; [apply M_space|apply M_sig; discriminate]|].
  apply M_app; [exact Hc|apply IH].
Qed.

Lemma M_gen_semi_list : forall subs, SubsM subs -> M (gen_semi_list subs).
Proof.
  intros subs H. unfold gen_semi_list. destruct H as [|cr r Hc Hr]; [apply MM_nil|].
  cbv zeta. set (w := span_len (fst cr) + 1).
  apply M_app; [exact Hc|].
  eapply MM_weaken; [apply MM_app; [apply (MM_indent w)|apply MM_app; [apply (M_semi_loop r Hr true)|apply (MM_dedent w)]]|lia].
Qed.

Lemma MM_rule_loop : forall subs, SubsM subs -> forall open, MM 0 (2 * open) (rule_loop open subs).
Proof.
  intros subs H. induction H as [|cr r Hc _ IH]; intros open; [apply MM_dedent|rewrite rule_loop_cons].
  - destruct (is_tok TColon (fst cr)).
    + eapply MM_weaken.
      * apply MM_app; [exact Hc|]. apply MM_app; [apply (MM_indent 2)|].
        apply MM_cons; [apply M_c_nl_or_space|apply (IH (S open))].
      * lia.
    + destruct (is_tok TSemi (fst cr) && (0 <? open)) eqn:E.
      * apply andb_true_iff in E; destruct E as [_ E]. apply Nat.ltb_lt in E.
        eapply MM_weaken.
        -- apply MM_app; [apply (MM_dedent 2)|].
           apply MM_cons; [apply M_c_newline|]. apply MM_app; [exact Hc|apply (IH (open - 1))].
        -- lia.
      * eapply MM_weaken; [apply MM_app; [exact Hc|apply (IH open)]|lia].
Qed.

Lemma M_gen_rule_decl : forall subs, SubsM subs -> M (gen_rule_decl subs).
Proof.
  intros subs H. unfold gen_rule_decl. destruct H as [|cr r Hc Hr]; [apply MM_nil|].
  apply M_app; [exact Hc|].
  change (IInfo LnStart :: IAnchor LnEnd :: rule_loop 0 r ++ [IInfo LnEnd; IReeval (CNewLineIfMultipleLines true)])
    with ([IInfo LnStart] ++ [IAnchor LnEnd] ++ rule_loop 0 r ++ [IInfo LnEnd] ++ [IReeval (CNewLineIfMultipleLines true)]).
  apply M_app; [apply M_info|]. apply M_app; [apply M_anchor|].
  apply M_app; [exact (MM_rule_loop r Hr 0)|]. apply M_app; [apply M_info|apply M_reeval].
Qed.

Lemma M_gen_rule : forall src prev k subs, SubsM subs -> M (gen_rule src prev k subs).
Proof.
  intros src prev k subs H.
  destruct k; simpl;
    first [apply M_gen_children; exact H | apply M_gen_alt; exact H | apply M_gen_concat; exact H
          | apply M_crash | apply M_gen_error; exact H | apply M_file_loop; exact H
          | apply M_gen_paren; exact H | apply M_gen_semi_list; exact H | apply M_gen_rule_decl; exact H].
Qed.

Theorem gen_node_M : forall src t prev, M (gen_node src prev t).
Proof.
  intros src t. induction t as [k txt s|k cs IH] using tree_ind2; intros prev.
  - apply M_gen_token.
  - rewrite gen_node_rule. apply M_gen_rule.
    exact (gen_subs_forall (fun _ r => M r) src cs IH prev).
Qed.

(* ================================================================== part 2
   content preservation (C17 at item level) and the crash characterisation *)

(* what a token contributes: whitespace tokens nothing, a line / doc comment its text minus the last
   byte (the '\n' the lexer includes), every other token its text - non-whitespace bytes only *)
Definition tok_content (k : tkind) (txt : list byte) : list byte :=
  match k with
  | TWhitespace => []
  | TLineComment | TDocComment => nonws (removelast txt)
  | _ => nonws txt
  end.

Fixpoint content (t : tree) : list byte :=
  match t with
  | FTok k txt _ => tok_content k txt
  | FRule _ cs => flat_map content cs
  end.

Definition bad_kind (k : rkind) : bool :=
  match k with RDecl | RPostfix | RRegex => true | _ => false end.

(* a node of kind Decl / Postfix / Regex occurs in the tree *)
Fixpoint has_bad (t : tree) : bool :=
  match t with
  | FTok _ _ _ => false
  | FRule k cs => bad_kind k || existsb has_bad cs
  end.

Definition contents (subs : subs_t) : list byte := flat_map (fun cr => content (fst cr)) subs.
Definition NoBad (subs : subs_t) : Prop := Forall (fun cr => has_bad (fst cr) = false) subs.

Definition CH (cr : tree * list item) : Prop :=
  NoCrash (snd cr) -> chars (snd cr) = content (fst cr) /\ has_bad (fst cr) = false.
Definition CC (subs : subs_t) (out : list item) : Prop :=
  NoCrash out -> chars out = contents subs /\ NoBad subs.

Lemma NoCrash_cons : forall x l, NoCrash (x :: l) <-> not_crash x /\ NoCrash l.
Proof. intros x l; split; [intros H; inversion H; auto|intros [H1 H2]; constructor; assumption]. Qed.

Lemma chars_indent : forall w, chars (indent w) = [].
Proof. intros; apply chars_repeat_sig. Qed.
Lemma chars_dedent : forall w, chars (dedent w) = [].
Proof. intros; apply chars_repeat_sig. Qed.
Lemma chars_space : chars space = [].
Proof. reflexivity. Qed.
Lemma chars_nil : chars [] = [].
Proof. reflexivity. Qed.
Lemma chars_c_newline : forall b l, chars (c_newline b :: l) = chars l.
Proof. reflexivity. Qed.
Lemma chars_c_nl_or_space : forall l, chars (c_nl_or_space :: l) = chars l.
Proof. reflexivity. Qed.
Lemma chars_c_alt_sep : forall b l, chars (c_alt_sep b :: l) = chars l.
Proof. reflexivity. Qed.
Lemma chars_c_alt_indent : forall b l, chars (c_alt_indent b :: l) = chars l.
Proof. reflexivity. Qed.
Lemma chars_sig : forall s l, chars (ISig s :: l) = chars l.
Proof. reflexivity. Qed.
Lemma chars_info : forall s l, chars (IInfo s :: l) = chars l.
Proof. reflexivity. Qed.
Lemma chars_anchor : forall s l, chars (IAnchor s :: l) = chars l.
Proof. reflexivity. Qed.
Lemma chars_reeval : forall s l, chars (IReeval s :: l) = chars l.
Proof. reflexivity. Qed.
Lemma chars_repeat : forall s n, chars (repeat (ISig s) n) = [].
Proof. apply chars_repeat_sig. Qed.

Lemma content_tok_eq : forall k t, is_tok k t = true -> content t = match t with FTok k' txt _ => tok_content k' txt | _ => [] end /\ has_bad t = false.
Proof. intros k t H. destruct (is_tok_inv k t H) as (txt & s & ->). split; reflexivity. Qed.

Lemma content_ws : forall t, is_tok TWhitespace t = true -> content t = [] /\ has_bad t = false.
Proof. intros t H. destruct (is_tok_inv _ t H) as (txt & s & ->). split; reflexivity. Qed.

(* decompose every NoCrash hypothesis, then use the child / induction hypotheses they enable *)
Ltac nc :=
  repeat match goal with
  | H : NoCrash (_ ++ _) |- _ => apply NoCrash_app in H; destruct H
  | H : NoCrash (_ :: _) |- _ => apply NoCrash_cons in H; destruct H
  end.

Ltac use_hyps :=
  repeat match goal with
  | Hn : NoCrash (snd ?c), Hc : CH ?c |- _ =>
      let E1 := fresh "E" in let E2 := fresh "B" in destruct (Hc Hn) as [E1 E2]; clear Hc
  | Hn : NoCrash ?r, Hc : CH (?c, ?r) |- _ =>
      let E1 := fresh "E" in let E2 := fresh "B" in destruct (Hc Hn) as [E1 E2]; clear Hc
  | Hn : NoCrash ?l, IH : CC _ ?l |- _ =>
      let E1 := fresh "E" in let E2 := fresh "B" in destruct (IH Hn) as [E1 E2]; clear IH
  | Hn : NoCrash ?l, IH : NoCrash ?l -> _ |- _ =>
      let E1 := fresh "E" in let E2 := fresh "B" in destruct (IH Hn) as [E1 E2]; clear IH
  | Hn : NoCrash (?f ?a ?l), IH : forall x, CC ?l (?f x ?l) |- _ =>
      let E1 := fresh "E" in let E2 := fresh "B" in destruct (IH a Hn) as [E1 E2]; clear IH
  | Hn : NoCrash (?f ?s ?a ?l), IH : forall x, CC ?l (?f ?s x ?l) |- _ =>
      let E1 := fresh "E" in let E2 := fresh "B" in destruct (IH a Hn) as [E1 E2]; clear IH
  end.

Ltac chs :=
  repeat (rewrite chars_app || rewrite chars_indent || rewrite chars_dedent || rewrite chars_space
          || rewrite chars_c_newline || rewrite chars_c_nl_or_space || rewrite chars_c_alt_sep
          || rewrite chars_c_alt_indent || rewrite chars_sig || rewrite chars_info || rewrite chars_anchor
          || rewrite chars_reeval || rewrite chars_nil || rewrite sbc_chars || rewrite push_text_chars
          || rewrite push_text_chopped_chars || rewrite chars_repeat).

Ltac fin := split; [chs; simpl; repeat match goal with E : chars _ = _ |- _ => rewrite E; clear E end; rewrite ?app_nil_r; reflexivity
                   |constructor; assumption].

Definition SubsC (subs : subs_t) : Prop := Forall CH subs.

Lemma CC_nil : forall out, chars out = [] -> CC [] out.
Proof. intros out E _. split; [exact E|constructor]. Qed.

Lemma C_gen_children : forall subs, SubsC subs -> CC subs (gen_children subs).
Proof.
  intros subs H. unfold gen_children. induction H as [|cr r Hc _ IH]; simpl flat_map; [apply CC_nil; reflexivity|].
  intros NC. nc. use_hyps. unfold contents; simpl flat_map. fin.
Qed.

Lemma C_gen_error : forall subs, SubsC subs -> CC subs (gen_error subs).
Proof.
  intros subs H. unfold gen_error. induction H as [|cr r Hc _ IH]; simpl flat_map; [apply CC_nil; reflexivity|].
  intros NC. unfold contents; simpl flat_map. destruct (is_tok TWhitespace (fst cr)) eqn:Ew.
  - destruct (content_ws _ Ew) as [Ec Eb]. nc. use_hyps. rewrite Ec. fin.
  - nc. use_hyps. fin.
Qed.

Lemma C_concat_rest : forall subs, SubsC subs -> CC subs (concat_rest subs).
Proof.
  intros subs H. unfold concat_rest. induction H as [|cr r Hc _ IH]; simpl flat_map; [apply CC_nil; reflexivity|].
  intros NC. unfold contents; simpl flat_map. destruct (is_tok TWhitespace (fst cr)) eqn:Ew.
  - destruct (content_ws _ Ew) as [Ec Eb]. nc. use_hyps. rewrite Ec. fin.
  - destruct (is_comment (fst cr)); nc; use_hyps; fin.
Qed.

Lemma C_gen_concat : forall subs, SubsC subs -> CC subs (gen_concat subs).
Proof.
  intros subs H. unfold gen_concat. destruct H as [|cr r Hc Hr].
  - apply CC_nil; reflexivity.
  - pose proof (C_concat_rest r Hr) as IH. intros NC. nc. use_hyps. unfold contents; simpl flat_map. fin.
Qed.

Lemma C_paren_loop : forall subs, SubsC subs -> forall open, CC subs (paren_loop open subs).
Proof.
  intros subs H. induction H as [|cr r Hc _ IH]; intros open.
  - apply CC_nil. simpl. apply chars_dedent.
  - rewrite paren_loop_cons. intros NC. unfold contents; simpl flat_map.
    destruct (is_tok TLPar (fst cr) || is_tok TLBrak (fst cr)); [nc; use_hyps; fin|].
    destruct ((is_tok TRPar (fst cr) || is_tok TRBrak (fst cr)) && (0 <? open)); nc; use_hyps; fin.
Qed.

Lemma C_gen_paren : forall subs, SubsC subs -> CC subs (gen_paren subs).
Proof.
  intros subs H. unfold gen_paren. pose proof (C_paren_loop subs H 0) as IH.
  intros NC. nc. use_hyps. split; [chs; rewrite E, app_nil_r; reflexivity|assumption].
Qed.

Lemma C_alt_rest : forall force subs, SubsC subs -> CC subs (alt_rest force subs).
Proof.
  intros force subs H. unfold alt_rest. induction H as [|cr r Hc _ IH]; simpl flat_map; [apply CC_nil; reflexivity|].
  intros NC. unfold contents; simpl flat_map.
  destruct (is_tok TOr (fst cr) || is_tok TSlash (fst cr)); nc; use_hyps; fin.
Qed.

Lemma C_gen_alt : forall src prev subs, SubsC subs -> CC subs (gen_alt src prev subs).
Proof.
  intros src prev subs H. unfold gen_alt.
  destruct (force_multiline src prev (map fst subs)) as [force|c].
  - destruct H as [|cr r Hc Hr].
    + apply CC_nil; reflexivity.
    + pose proof (C_alt_rest force r Hr) as IH. intros NC. nc. use_hyps. unfold contents; simpl flat_map. fin.
  - intros NC. exfalso. nc. assumption.
Qed.

Lemma C_file_loop : forall src subs, SubsC subs -> forall ls, CC subs (file_loop src ls subs).
Proof.
  intros src subs H. induction H as [|[c r] rest Hc _ IH]; intros ls; [apply CC_nil; reflexivity|].
  simpl file_loop. intros NC. unfold contents; simpl flat_map.
  destruct c as [k txt s|k cs].
  - destruct k; simpl is_decl in *; rewrite ?andb_false_r in *;
      try (nc; use_hyps; simpl in *; split; [chs; rewrite ?E, ?E0; reflexivity|constructor; [reflexivity|assumption]]).
    destruct (0 <? count_nl txt); nc; use_hyps; (split; [chs; rewrite E; reflexivity|constructor; [reflexivity|assumption]]).
  - nc; use_hyps. simpl in *. split; [|constructor; assumption].
    chs. rewrite E, E0. destruct (negb ls && _); reflexivity.
Qed.

Lemma C_semi_loop : forall subs, SubsC subs -> forall first, CC subs (semi_loop first subs).
Proof.
  intros subs H. induction H as [|cr r Hc _ IH]; intros first; [apply CC_nil; reflexivity|].
  rewrite semi_loop_cons. intros NC. unfold contents; simpl flat_map.
  destruct (is_tok TWhitespace (fst cr)) eqn:Ew.
  - destruct (content_ws _ Ew) as [Ec Eb]. use_hyps. rewrite Ec. split; [simpl; assumption|constructor; assumption].
  - destruct (is_tok TSemi (fst cr)); [nc; use_hyps; fin|].
    nc; use_hyps. split; [|constructor; assumption].
    chs. rewrite E, E0. destruct first; reflexivity.
Qed.

Lemma C_gen_semi_list : forall subs, SubsC subs -> CC subs (gen_semi_list subs).
Proof.
  intros subs H. unfold gen_semi_list. destruct H as [|cr r Hc Hr]; [apply CC_nil; reflexivity|].
  cbv zeta. pose proof (C_semi_loop r Hr true) as IH. intros NC. nc. use_hyps. unfold contents; simpl flat_map. fin.
Qed.

Lemma C_rule_loop : forall subs, SubsC subs -> forall open, CC subs (rule_loop open subs).
Proof.
  intros subs H. induction H as [|cr r Hc _ IH]; intros open.
  - apply CC_nil. simpl. apply chars_dedent.
  - rewrite rule_loop_cons. intros NC. unfold contents; simpl flat_map.
    destruct (is_tok TColon (fst cr)); [nc; use_hyps; fin|].
    destruct (is_tok TSemi (fst cr) && (0 <? open)); nc; use_hyps; fin.
Qed.

Lemma C_gen_rule_decl : forall subs, SubsC subs -> CC subs (gen_rule_decl subs).
Proof.
  intros subs H. unfold gen_rule_decl. destruct H as [|cr r Hc Hr]; [apply CC_nil; reflexivity|].
  pose proof (C_rule_loop r Hr 0) as IH. intros NC. nc. use_hyps. unfold contents; simpl flat_map. fin.
Qed.

Lemma C_gen_rule : forall src prev k subs, SubsC subs ->
  NoCrash (gen_rule src prev k subs) -> chars (gen_rule src prev k subs) = contents subs /\ NoBad subs /\ bad_kind k = false.
Proof.
  intros src prev k subs H NC.
  assert (X : forall out, CC subs out -> NoCrash out -> chars out = contents subs /\ NoBad subs /\ false = false).
  { intros out Hcc Hn. destruct (Hcc Hn); auto. }
  destruct k; simpl in *;
    first [ apply X; [|exact NC];
            first [apply C_gen_children; exact H | apply C_gen_alt; exact H | apply C_gen_concat; exact H
                  | apply C_gen_error; exact H | apply C_file_loop; exact H
                  | apply C_gen_paren; exact H | apply C_gen_semi_list; exact H | apply C_gen_rule_decl; exact H]
          | exfalso; nc; assumption ].
Qed.

Lemma gen_token_chars : forall src k txt s, chars (gen_token src k txt s) = tok_content k txt.
Proof. intros src k txt s. destruct k; simpl; chs; simpl; rewrite ?app_nil_r; reflexivity. Qed.

Lemma contents_map : forall subs, contents subs = flat_map content (map fst subs).
Proof. induction subs as [|cr r IH]; simpl; [reflexivity|]. unfold contents in *; simpl. rewrite IH; reflexivity. Qed.

Lemma NoBad_existsb : forall subs, NoBad subs -> existsb has_bad (map fst subs) = false.
Proof. intros subs H; induction H as [|cr r Hc _ IH]; simpl; [reflexivity|]. rewrite Hc, IH; reflexivity. Qed.

Theorem gen_node_content : forall src t prev,
  NoCrash (gen_node src prev t) -> chars (gen_node src prev t) = content t /\ has_bad t = false.
Proof.
  intros src t. induction t as [k txt s|k cs IH] using tree_ind2; intros prev NC.
  - split; [apply gen_token_chars|reflexivity].
  - rewrite gen_node_rule in *.
    pose proof (gen_subs_forall (fun c r => NoCrash r -> chars r = content c /\ has_bad c = false) src cs IH prev) as Hs.
    destruct (C_gen_rule src prev k _ Hs NC) as (E & B & K).
    pose proof (NoBad_existsb _ B) as B'. rewrite gen_subs_fst in B'.
    rewrite E, contents_map, gen_subs_fst. simpl. rewrite K, B'. split; reflexivity.
Qed.

(* ================================================================== part 3
   resolutions of the conditions, and the theorems about `gen` *)

(* A resolution of the conditions of an item list.  rho answers the k-th condition that is not named
   "multilineAlt".  alpha answers per alternation separator: the j-th multilineAlt condition that has a
   false path (pushed in front of a `|` or `/`) and the j-th multilineAlt condition that has none
   (pushed behind that token) both get alpha j - this is the pairing. *)
Fixpoint resolve (rho alpha : nat -> bool) (k ja jb : nat) (l : list item) : list item :=
  match l with
  | [] => []
  | ICond (CMultilineAlt _) t (e :: e') :: r =>
      (if alpha ja then t else e :: e') ++ resolve rho alpha k (S ja) jb r
  | ICond (CMultilineAlt _) t [] :: r =>
      (if alpha jb then t else []) ++ resolve rho alpha k ja (S jb) r
  | ICond _ t e :: r => (if rho k then t else e) ++ resolve rho alpha (S k) ja jb r
  | x :: r => x :: resolve rho alpha k ja jb r
  end.

Definition count_true (alpha : nat -> bool) (j n : nat) : nat := length (filter alpha (seq j n)).

Lemma count_true_S : forall alpha j n,
  count_true alpha j (S n) = (if alpha j then 1 else 0) + count_true alpha (S j) n.
Proof. intros; unfold count_true; simpl. destruct (alpha j); reflexivity. Qed.

Lemma resolve_counts : forall rho alpha l, Forall item_ok l -> forall k ja jb,
  cnt is_si (resolve rho alpha k ja jb l) = cnt is_si l + 2 * count_true alpha jb (cnt is_altB l)
  /\ cnt is_fi (resolve rho alpha k ja jb l) = cnt is_fi l + 2 * count_true alpha ja (cnt is_altA l)
  /\ cnt is_sg (resolve rho alpha k ja jb l) = cnt is_sg l
  /\ cnt is_fg (resolve rho alpha k ja jb l) = cnt is_fg l.
Proof.
  intros rho alpha l H. induction H as [|x l Hx _ IH]; intros k ja jb; [repeat split|].
  destruct x as [s|s|n t e| | | |];
    try (simpl resolve; rewrite !cnt_cons; destruct (IH k ja jb) as (I1 & I2 & I3 & I4);
         rewrite I1, I2, I3, I4; simpl; repeat split; lia).
  simpl in Hx. destruct n as [st|f|].
  - destruct Hx as [-> ->]. simpl resolve. rewrite !cnt_app, !cnt_cons.
    destruct (IH (S k) ja jb) as (I1 & I2 & I3 & I4). rewrite I1, I2, I3, I4.
    destruct (rho k); simpl; repeat split; lia.
  - destruct Hx as [[-> ->]|[-> ->]]; simpl resolve; rewrite !cnt_app, !cnt_cons.
    + destruct (IH k (S ja) jb) as (I1 & I2 & I3 & I4). rewrite I1, I2, I3, I4.
      change (is_altA (ICond (CMultilineAlt f) [ISig NewLine; ISig FinishIndent; ISig FinishIndent] [ISig SpaceOrNewLine])) with 1.
      rewrite (count_true_S alpha ja).
      destruct (alpha ja); simpl; repeat split; lia.
    + destruct (IH k ja (S jb)) as (I1 & I2 & I3 & I4). rewrite I1, I2, I3, I4.
      change (is_altB (ICond (CMultilineAlt f) [ISig StartIndent; ISig StartIndent] [])) with 1.
      rewrite (count_true_S alpha jb).
      destruct (alpha jb); simpl; repeat split; lia.
  - destruct Hx as [-> ->]. simpl resolve. rewrite !cnt_app, !cnt_cons.
    destruct (IH (S k) ja jb) as (I1 & I2 & I3 & I4). rewrite I1, I2, I3, I4.
    destruct (rho k); simpl; repeat split; lia.
Qed.

Lemma gen_ok : forall src t its, gen src t = Ok its -> its = gen_node src 0 t /\ NoCrash its.
Proof.
  intros src t its H. unfold gen in H. destruct (first_crash (gen_node src 0 t)) eqn:E; [discriminate|].
  inversion H; subst. split; [reflexivity|apply first_crash_none; exact E].
Qed.

(* ---- (a) content preservation *)
Theorem fmt_content_preserved : forall src t its,
  gen src t = Ok its -> nonws (strs its) = content t.
Proof.
  intros src t its H. destruct (gen_ok _ _ _ H) as [-> NC].
  exact (proj1 (gen_node_content src t 0 NC)).
Qed.

(* the text of the token leaves in order *)
Fixpoint leaves (t : tree) : list byte :=
  match t with
  | FTok _ txt _ => txt
  | FRule _ cs => flat_map leaves cs
  end.

(* the token texts have the shape the lexer guarantees: a Whitespace token consists of whitespace
   bytes, a line / doc comment is not empty and ends with a whitespace byte (its '\n') *)
Fixpoint lexed (t : tree) : bool :=
  match t with
  | FTok TWhitespace txt _ => is_nil (nonws txt)
  | FTok TLineComment txt _ | FTok TDocComment txt _ => negb (is_nil txt) && is_ws (last txt 0)
  | FTok _ _ _ => true
  | FRule _ cs => forallb lexed cs
  end.

Lemma nonws_removelast : forall txt, negb (is_nil txt) && is_ws (last txt 0) = true ->
  nonws (removelast txt) = nonws txt.
Proof.
  intros txt H. apply andb_true_iff in H. destruct H as [Hn Hw].
  assert (Hne : txt <> []) by (destruct txt; [discriminate|discriminate]).
  rewrite (app_removelast_last 0 Hne) at 2. rewrite nonws_app. simpl. rewrite Hw. simpl.
  rewrite app_nil_r; reflexivity.
Qed.

Lemma content_lexed : forall t, lexed t = true -> content t = nonws (leaves t).
Proof.
  induction t as [k txt s|k cs IH] using tree_ind2; intros H.
  - destruct k; simpl in *; try reflexivity.
    + apply nonws_removelast; exact H.
    + apply nonws_removelast; exact H.
    + destruct (nonws txt); [reflexivity|discriminate].
  - simpl in *. induction IH as [|c r Hc _ IHr]; simpl; [reflexivity|].
    simpl in H. apply andb_true_iff in H. destruct H as [H1 H2].
    rewrite nonws_app, (Hc H1), (IHr H2). reflexivity.
Qed.

Theorem fmt_nonws_preserved : forall src t its,
  gen src t = Ok its -> lexed t = true -> nonws (strs its) = nonws (leaves t).
Proof.
  intros src t its H L. rewrite (fmt_content_preserved _ _ _ H). apply content_lexed; exact L.
Qed.

(* conditions contribute no strings: every condition has one of the four shapes, whose branches
   hold signals only *)
Theorem fmt_conditions_hold_signals_only : forall src t its n tb fb,
  gen src t = Ok its -> In (ICond n tb fb) its ->
  cond_shape n tb fb /\ Forall is_sig tb /\ Forall is_sig fb.
Proof.
  intros src t its n tb fb H Hin. destruct (gen_ok _ _ _ H) as [-> _].
  destruct (gen_node_M src t 0) as (Hok & _).
  pose proof (proj1 (Forall_forall _ _) Hok _ Hin) as Hs. simpl in Hs.
  split; [exact Hs|].
  destruct n; simpl in Hs.
  - destruct Hs as [-> ->]; split; repeat constructor.
  - destruct Hs as [[-> ->]|[-> ->]]; split; repeat constructor.
  - destruct Hs as [-> ->]; split; repeat constructor.
Qed.

(* ---- (b) printer preconditions *)
Theorem fmt_strings_have_no_tab_or_newline : forall src t its s,
  gen src t = Ok its -> In (IStr s) its -> ~ In b_tab s /\ ~ In b_nl s.
Proof.
  intros src t its s H Hin. destruct (gen_ok _ _ _ H) as [-> _].
  destruct (gen_node_M src t 0) as (Hok & _).
  exact (proj1 (Forall_forall _ _) Hok _ Hin).
Qed.

Theorem fmt_indentation_balanced : forall src t its rho alpha k j,
  gen src t = Ok its ->
  cnt is_si (resolve rho alpha k j j its) = cnt is_fi (resolve rho alpha k j j its).
Proof.
  intros src t its rho alpha k j H. destruct (gen_ok _ _ _ H) as [-> _].
  destruct (gen_node_M src t 0) as (Hok & Hi & Ha & _).
  destruct (resolve_counts rho alpha _ Hok k j j) as (I1 & I2 & _).
  rewrite I1, I2, Ha. lia.
Qed.

(* the two multilineAlt conditions come in equal numbers (one pair per `|` / `/`) *)
Theorem fmt_alt_conditions_paired : forall src t its,
  gen src t = Ok its -> cnt is_altA its = cnt is_altB its.
Proof.
  intros src t its H. destruct (gen_ok _ _ _ H) as [-> _].
  destruct (gen_node_M src t 0) as (_ & _ & Ha & _). exact Ha.
Qed.

Theorem fmt_newline_groups_balanced : forall src t its rho alpha k ja jb,
  gen src t = Ok its ->
  cnt is_sg (resolve rho alpha k ja jb its) = cnt is_fg (resolve rho alpha k ja jb its).
Proof.
  intros src t its rho alpha k ja jb H. destruct (gen_ok _ _ _ H) as [-> _].
  destruct (gen_node_M src t 0) as (Hok & _ & _ & Hg).
  destruct (resolve_counts rho alpha _ Hok k ja jb) as (_ & _ & I3 & I4).
  rewrite I3, I4. exact Hg.
Qed.

(* ---- crashes *)
Theorem fmt_ok_means_no_unreachable_kind : forall src t its,
  gen src t = Ok its -> has_bad t = false.
Proof.
  intros src t its H. destruct (gen_ok _ _ _ H) as [-> NC].
  exact (proj2 (gen_node_content src t 0 NC)).
Qed.

(* a node of kind Decl / Postfix / Regex handed to gen_node is the unreachable!() panic *)
Theorem fmt_unreachable_kind_crashes : forall src prev k cs,
  bad_kind k = true -> gen_node src prev (FRule k cs) = [ICrash CUnreachable].
Proof. intros src prev k cs H. rewrite gen_node_rule. destruct k; try discriminate; reflexivity. Qed.
