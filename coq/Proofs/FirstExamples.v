(* Non-vacuity for C09: a concrete grammar  s: a B | C ;  a: [D] a2 ;  a2: E-star  meets every
   hypothesis of [first_exact]; its first sets are the expected ones. *)
From Coq Require Import List Arith.
From LV Require Import Sema FirstSpec FirstCert.
Import ListNotations.

Definition ex_g : grammar :=
  mkGrammar
    [ mkRule 100 (Some (RAlt 1 [RCat 2 [RRule 3 1; RTok 4 2]; RTok 5 3])) false;
      mkRule 101 (Some (RCat 6 [ROpt 7 (RTok 8 4); RRule 9 2])) false;
      mkRule 102 (Some (RStar 10 (RTok 11 5))) false ]
    0 [] 0 [] [] [] [].

Example ex_certs :
  wf_ids_b ex_g = true /\ productive_b ex_g = true /\
  exists m, calc_first ex_g 50 = Some m /\ first_closed ex_g m = true
            /\ get m 1 = [T 3; T 4; T 5; T 2] /\ get m 6 = [T 4; T 5; Eps].
Proof.
  split; [vm_compute; reflexivity|]. split; [vm_compute; reflexivity|].
  eexists. split; [vm_compute; reflexivity|]. split; vm_compute; auto.
Qed.

(* follow sets of the same grammar: the loop terminates, the end marker (token 0) follows the start
   body, and B (token 2) follows the reference to rule a *)
Example ex_follow :
  exists fi fo lf, calc_first ex_g 50 = Some fi /\ calc_follow ex_g fi 50 = Some (fo, lf)
                   /\ mem (T 0) (get fo 1) = true /\ get fo 3 = [T 2].
Proof.
  eexists. eexists. eexists. split; [vm_compute; reflexivity|]. split; [vm_compute; reflexivity|].
  split; vm_compute; reflexivity.
Qed.
