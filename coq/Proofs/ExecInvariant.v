(* A generic induction principle for the interpreter: a state invariant that every runtime
   operation preserves, together with an invariant of saved parser states that save
   establishes and restore consumes, is preserved by every statement of every program
   (all inputs, oracles, fuel).  Instance: NoSkip.v (C16: the current token is never a
   skipped token). *)
From Coq Require Import List Arith Lia Bool.
From LV Require Import Cst Tree ABuild Runtime Exec ListLemmas.
Import ListNotations.

Opaque p_get_state p_set_state p_release p_error p_advance p_advance_with_error p_open p_open_before p_close p_mark p_close_error_node add_event set_in_choice push_assert_diag find_rule deletable tok_in env_get env_set env_leave active_error mk_diag.

Section GI.
Variable cx : pctx.
Variable prog : program.
Variable orc : oracles.
Variable I : pstate -> Prop.
Variable SI : saved -> Prop.

Hypothesis H_adv : forall st e s, I st -> p_advance cx st e = Ok s -> I s.
Hypothesis H_err : forall st d, I st -> I (p_error st d).
Hypothesis H_awe : forall st m s, I st -> p_advance_with_error cx st m = Ok s -> I s.
Hypothesis H_open : forall st mk s, I st -> p_open st = Ok (mk, s) -> I s.
Hypothesis H_ob : forall st m mk s, I st -> p_open_before st m = Ok (mk, s) -> I s.
Hypothesis H_close : forall st m k mk s, I st -> p_close st m k = Ok (mk, s) -> I s.
Hypothesis H_mark : forall st mk s, I st -> p_mark st = Ok (mk, s) -> I s.
Hypothesis H_ev : forall st e, I st -> I (add_event st e).
Hypothesis H_sic : forall st b, I st -> I (set_in_choice st b).
Hypothesis H_pad : forall st, I st -> I (push_assert_diag cx st).
Hypothesis H_get : forall st sv st0, I st -> p_get_state st = (sv, st0) -> I st0 /\ SI sv.
Hypothesis H_set : forall del st sv, I st -> SI sv -> I (p_set_state del st sv).
Hypothesis H_rel : forall st, I st -> I (p_release st).

Definition G (st st' : pstate) : Prop := I st -> I st'.
Lemma G_refl st : G st st. Proof. intro H; exact H. Qed.
Lemma G_trans a b c : G a b -> G b c -> G a c. Proof. unfold G; auto. Qed.
Lemma p_advance_G st e s : p_advance cx st e = Ok s -> G st s. Proof. intros E H; eauto. Qed.
Lemma p_error_G st d : G st (p_error st d). Proof. intros H; eauto. Qed.
Lemma p_advance_with_error_G st m s : p_advance_with_error cx st m = Ok s -> G st s. Proof. intros E H; eauto. Qed.
Lemma p_open_G st mk s : p_open st = Ok (mk, s) -> G st s. Proof. intros E H; eauto. Qed.
Lemma p_open_before_G st m mk s : p_open_before st m = Ok (mk, s) -> G st s. Proof. intros E H; eauto. Qed.
Lemma p_close_G st m k mk s : p_close st m k = Ok (mk, s) -> G st s. Proof. intros E H; eauto. Qed.
Lemma p_mark_G st mk s : p_mark st = Ok (mk, s) -> G st s. Proof. intros E H; eauto. Qed.
Lemma add_event_G st e : G st (add_event st e). Proof. intros H; eauto. Qed.
Lemma set_in_choice_G st b : G st (set_in_choice st b). Proof. intros H; eauto. Qed.
Lemma push_assert_diag_G st : G st (push_assert_diag cx st). Proof. intros H; eauto. Qed.
Lemma p_release_G st : G st (p_release st). Proof. intros H; eauto. Qed.

Theorem exec_I : forall fuel,
  (forall rec_of s e st o e' st',
      exec cx prog orc fuel rec_of s e st = XOk (o, e', st') -> G st st')
  /\ (forall rec_of b e st o e' st',
      exec_block cx prog orc fuel rec_of b e st = XOk (o, e', st') -> G st st')
  /\ (forall rec_of n l e st o e' st',
      exec_seq cx prog orc fuel rec_of n l e st = XOk (o, e', st') -> G st st')
  /\ (forall rec_of sv sel sk alts lp last m e1 st1 o e' st',
      exec_alts cx prog orc fuel rec_of sv sel sk alts lp last m e1 st1 = XOk (o, e', st') ->
      SI sv -> G st1 st')
  /\ (forall f st some st',
      call_fn cx prog orc fuel f st = XOk (some, st') -> G st st').
Proof.
  induction fuel as [|fuel IH].
  { repeat split; intros; discriminate. }
  destruct IH as (IHe & IHb & IHs & IHa & IHc).
  split; [|split; [|split; [|split]]].
  - (* exec *)
    intros rec_of s e st o e' st' H.
    destruct s; simpl in H.
    + (* SExpect *)
      destruct (Nat.eqb (cur st) t).
      * destruct (p_advance cx st false) as [s1|w] eqn:E; [|discriminate]. injection H as _ _ <-.
        eapply p_advance_G. eassumption.
      * destruct (try_ && in_choice st); injection H as _ _ <-; [apply G_refl|apply p_error_G].
    + (* SCall *)
      destruct (find_rule prog r) as [f|]; [|discriminate].
      destruct (call_fn cx prog orc fuel f st) as [[some s1]| | |] eqn:E; try discriminate.
      apply IHc in E. destruct (q && negb some); injection H as _ _ <-; assumption.
    + (* SRec *)
      destruct rec_of as [[[opt hb] body]|]; [|discriminate].
      destruct (env_get e v) as [mk|]; [|discriminate].
      match type of H with match ?x with _ => _ end = _ => destruct x as [[[o1 e1] s1]| | |] eqn:E; try discriminate end.
      apply IHb in E.
      match type of H with (if ?c then _ else _) = _ => destruct c end; injection H as _ _ <-; assumption.
    + (* SLetMark *)
      destruct (p_mark st) as [[mk s1]|w] eqn:E; [|discriminate]. injection H as _ _ <-.
      eapply p_mark_G. eassumption.
    + (* SLetOpen *)
      destruct (p_open st) as [[mk s1]|w] eqn:E; [|discriminate]. injection H as _ _ <-.
      eapply p_open_G. eassumption.
    + (* SLetOpenBefore *)
      destruct (env_get e v) as [x|]; [|discriminate].
      destruct (p_open_before st x) as [[mk s1]|w] eqn:E; [|discriminate]. injection H as _ _ <-.
      eapply p_open_before_G. eassumption.
    + injection H as _ _ <-. apply G_refl.
    + destruct (env_set e VElide 1); [|discriminate]. injection H as _ _ <-. apply G_refl.
    + (* SKind *)
      destruct decl.
      * injection H as _ _ <-. apply G_refl.
      * destruct (env_set e VKind k); [|discriminate]. injection H as _ _ <-. apply G_refl.
    + (* SClose *)
      destruct (env_get e VM) as [m|]; [|discriminate].
      destruct (match k with Some k0 => Some k0 | None => env_get e VKind end) as [k0|]; [|discriminate].
      destruct (p_close st m k0) as [[closed s1]|w] eqn:E; [|discriminate].
      apply p_close_G in E.
      assert (G st (add_event s1 (ECreate k0 closed))) by (eapply G_trans; [exact E|apply add_event_G]).
      destruct assign_lhs.
      * destruct (env_set e VLhs closed); [|discriminate]. injection H as _ _ <-. assumption.
      * injection H as _ _ <-. assumption.
    + (* SIfNotElide *)
      destruct (env_get e VElide) as [[|n]|]; [| |discriminate].
      * eapply IHb. eassumption.
      * injection H as _ _ <-. apply G_refl.
    + (* SCreate *)
      destruct (env_get e v) as [x|]; [|discriminate].
      destruct (p_open_before st x) as [[on s1]|w] eqn:E1; [|discriminate].
      destruct (p_close s1 on k) as [[c2 s2]|w] eqn:E2; [|discriminate].
      injection H as _ _ <-.
      apply p_open_before_G in E1. apply p_close_G in E2.
      eapply G_trans; [apply E1|]. eapply G_trans; [apply E2|]. apply add_event_G.
    + injection H as _ _ <-. apply add_event_G.
    + (* SAssert *)
      destruct (o_assert orc n st).
      * destruct (ocr && in_choice st); injection H as _ _ <-; [apply G_refl|apply push_assert_diag_G].
      * injection H as _ _ <-. apply G_refl.
    + injection H as _ _ <-. apply set_in_choice_G.
    + (* SMatch *)
      eapply IHb. eassumption.
    + (* SLoop *)
      destruct (exec_block cx prog orc fuel rec_of b e st) as [[[o1 e1] s1]| | |] eqn:E; try discriminate.
      apply IHb in E.
      destruct o1.
      * eapply G_trans; [exact E|]. eapply IHe. eassumption.
      * injection H as _ _ <-. assumption.
      * eapply G_trans; [exact E|]. eapply IHe. eassumption.
      * injection H as _ _ <-. assumption.
      * injection H as _ _ <-. assumption.
    + injection H as _ _ <-. apply G_refl.
    + injection H as _ _ <-. apply G_refl.
    + (* SIfBpBreak *)
      destruct (env_get e VMinBp) as [mb|]; [|discriminate].
      destruct (n <? mb); injection H as _ _ <-; apply G_refl.
    + (* SOrdChoice *)
      destruct (if save_elide then env_get e VElide else Some 0) as [el0|]; [|discriminate].
      destruct (if save_kind then env_get e VKind else Some 0) as [k0|]; [|discriminate].
      destruct (p_get_state st) as [sv st0] eqn:Eg.
      intros HI. destruct (H_get _ _ _ HI Eg) as (HI0 & HS). exact (IHa _ _ _ _ _ _ _ _ _ _ _ _ _ H HS HI0).
    + (* SReturnIfError *)
      destruct (active_error st).
      * destruct e0.
        -- destruct (env_get e VM) as [m|]; [|discriminate].
           destruct (p_close st m kError) as [[closed s1]|w] eqn:E; [|discriminate]. injection H as _ _ <-.
           apply p_close_G in E. eapply G_trans; [apply E|apply add_event_G].
        -- injection H as _ _ <-. apply G_refl.
        -- destruct (env_get e VElide) as [[|n]|]; [| |discriminate].
           ++ destruct (env_get e VStart) as [x|]; [|discriminate].
              destruct (p_open_before st x) as [[m s1]|w] eqn:E1; [|discriminate].
              destruct (p_close s1 m kError) as [[closed s2]|w] eqn:E2; [|discriminate].
              injection H as _ _ <-.
              apply p_open_before_G in E1. apply p_close_G in E2.
              eapply G_trans; [apply E1|]. eapply G_trans; [apply E2|]. apply add_event_G.
           ++ destruct (env_get e VStart); [|discriminate]. injection H as _ _ <-. apply G_refl.
      * injection H as _ _ <-. apply G_refl.
    + injection H as _ _ <-. apply p_error_G.
    + (* SAdvErr *)
      destruct (p_advance_with_error cx st m) as [s1|w] eqn:E; [|discriminate]. injection H as _ _ <-.
      eapply p_advance_with_error_G. eassumption.
    + destruct (in_choice st); injection H as _ _ <-; apply G_refl.
  - (* exec_block *)
    intros rec_of b e st o e' st' H. simpl in H. eapply IHs. eassumption.
  - (* exec_seq *)
    intros rec_of n l e st o e' st' H.
    destruct l as [|s r]; simpl in H.
    + injection H as _ _ <-. apply G_refl.
    + destruct (exec cx prog orc fuel rec_of s e st) as [[[o1 e1] s1]| | |] eqn:E; try discriminate.
      apply IHe in E.
      destruct o1; try (injection H as _ _ <-; assumption).
      eapply G_trans; [exact E|]. eapply IHs. eassumption.
  - (* exec_alts *)
    intros rec_of sv sel sk alts lp last m e1 st1 o e' st' H HS.
    destruct alts as [|[pats body] r]; simpl in H.
    + set (st2 := set_in_choice st1 false) in *.
      assert (G12 : G st1 st2) by apply set_in_choice_G.
      destruct (tok_in (cur st2) lp).
      * destruct (exec_block cx prog orc fuel rec_of last e1 st2) as [[[o1 e2] st3]| | |] eqn:E; try discriminate.
        injection H as _ _ <-. apply IHb in E.
        eapply G_trans; [exact G12|]. eapply G_trans; [exact E|apply p_release_G].
      * destruct (p_advance_with_error cx st2 m) as [st3|w] eqn:E; [|discriminate].
        injection H as _ _ <-. apply p_advance_with_error_G in E.
        eapply G_trans; [exact G12|]. eapply G_trans; [exact E|apply p_release_G].
    + destruct (tok_in (cur st1) pats).
      * destruct (exec_block cx prog orc fuel rec_of body e1 st1) as [[[o1 e2] st2]| | |] eqn:E; try discriminate.
        apply IHb in E.
        destruct o1; try discriminate.
        -- injection H as _ _ <-. eapply G_trans; [exact E|apply p_release_G].
        -- destruct (if fst sel then env_set e2 VElide (snd sel) else Some e2) as [e3|]; [|discriminate].
           destruct (if fst sk then env_set e3 VKind (snd sk) else Some e3) as [e4|]; [|discriminate].
           intros HI. eapply (IHa _ _ _ _ _ _ _ _ _ _ _ _ _ H HS). apply H_set; [apply E; assumption|assumption].
      * eapply IHa; eassumption.
  - (* call_fn *)
    intros f st some st' H. cbn [call_fn] in H.
    match type of H with match ?x with _ => _ end = _ => destruct x as [[[o1 e1] s1]| | |] eqn:E; try discriminate end.
    injection H as _ <-. eapply IHb. eassumption.
Qed.

End GI.
