(* C14: the iterative elimination of RecoverySetGenerator::run (Sema.dom_iter, with its
   in-place updates and its `change |=` quirk) computes the dominators of the
   predecessor graph: every member of the computed set of n lies on every path from
   the start node to n (from a boolean fixpoint certificate), and every node that lies
   on every such path is a member (by an invariant of the iteration). *)
From Coq Require Import List Arith Lia Bool.
From LV Require Import Sema SetLemmas.
Import ListNotations.

Section Dom.
Variable pg : pgraph.
Variable start : nat.

(* paths, listed from the node back to the start node *)
Inductive reach : nat -> list nat -> Prop :=
| R_start : reach start [start]
| R_step v u l : reach u l -> In u (dget pg v) -> reach v (v :: l).

Definition dominates (x n : nat) : Prop := forall l, reach n l -> In x l.

Lemma reach_head v l : reach v l -> In v l.
Proof. destruct 1; left; reflexivity. Qed.

Lemma nmem_In x l : nmem x l = true <-> In x l.
Proof.
  unfold nmem. rewrite existsb_exists. split.
  - intros (y & Hy & He). apply Nat.eqb_eq in He. subst. assumption.
  - intros H. exists x. split; [assumption|apply Nat.eqb_refl].
Qed.

Lemma In_nadd x y l : In x (nadd y l) <-> x = y \/ In x l.
Proof.
  unfold nadd. destruct (nmem y l) eqn:E.
  - apply nmem_In in E. split; [auto|]. intros [->|H]; assumption.
  - rewrite in_app_iff. cbn. intuition.
Qed.

Lemma In_ninter x a b : In x (ninter a b) <-> In x a /\ In x b.
Proof. unfold ninter. rewrite filter_In, nmem_In. reflexivity. Qed.

Lemma In_fold_ninter (d : dmap) x ps : forall a,
  In x (fold_left (fun a q => ninter a (dget d q)) ps a) <-> In x a /\ forall q, In q ps -> In x (dget d q).
Proof.
  induction ps as [|q r IH]; intros a; cbn [fold_left].
  - split; [intros H; split; [assumption|contradiction]|intros (H & _); assumption].
  - rewrite IH, In_ninter. split.
    + intros ((H1 & H2) & H3). split; [assumption|]. intros q' [<-|Hq]; auto.
    + intros (H1 & H2). split; [split; [assumption|apply H2; left; reflexivity]|]. intros q' Hq. apply H2. right. assumption.
Qed.

Lemma dget_dput_same (d : dmap) k v : dget (dput d k v) k = v.
Proof.
  induction d as [|[k' v'] r IH]; cbn.
  - rewrite Nat.eqb_refl. reflexivity.
  - destruct (Nat.eqb_spec k k') as [->|Hne]; cbn.
    + rewrite Nat.eqb_refl. reflexivity.
    + destruct (Nat.eqb_spec k k'); [contradiction|]. assumption.
Qed.

Lemma dget_dput_other (d : dmap) k k' v : k' <> k -> dget (dput d k v) k' = dget d k'.
Proof.
  intros Hne. induction d as [|[k0 v0] r IH]; cbn.
  - destruct (Nat.eqb_spec k' k); [contradiction|reflexivity].
  - destruct (Nat.eqb_spec k k0) as [->|Hn0]; cbn.
    + destruct (Nat.eqb_spec k' k0); [contradiction|reflexivity].
    + destruct (Nat.eqb_spec k' k0); [reflexivity|assumption].
Qed.

(* ---------- soundness from the fixpoint certificate ---------- *)
Definition dom_fixed (d : dmap) : bool :=
  match dget d start with [s] => Nat.eqb s start | _ => false end
  && forallb (fun n =>
                forallb (fun x => Nat.eqb x n || forallb (fun q => nmem x (dget d q)) (dget pg n)) (dget d n))
             (map fst pg).

Lemma dget_key (m : dmap) n u : In u (dget m n) -> In n (map fst m).
Proof.
  induction m as [|[k v] r IH]; cbn; [contradiction|].
  destruct (Nat.eqb_spec n k) as [->|Hne]; [left; reflexivity|]. intros H. right. auto.
Qed.

Theorem dom_sound d : dom_fixed d = true -> forall n l, reach n l -> forall x, In x (dget d n) -> In x l.
Proof.
  unfold dom_fixed. intros H. apply andb_prop in H. destruct H as (Hs & Hf).
  rewrite forallb_forall in Hf.
  induction 1 as [|v u l Hr IH Hu]; intros x Hx.
  - destruct (dget d start) as [|s [|? ?]]; try discriminate. apply Nat.eqb_eq in Hs. subst s. assumption.
  - pose proof (Hf v (dget_key pg v u Hu)) as Hv. rewrite forallb_forall in Hv.
    specialize (Hv x Hx). apply orb_prop in Hv. destruct Hv as [Hv|Hv].
    + apply Nat.eqb_eq in Hv. left. auto.
    + right. rewrite forallb_forall in Hv. apply IH. apply nmem_In. apply Hv. assumption.
Qed.

(* ---------- completeness by an invariant of the iteration ---------- *)
Variable nns : list nat.                    (* nodes_no_start: the keys of the graph in hash order *)
Let nodes := nadd start nns.

Definition graph_ok : bool :=
  forallb (fun n => match dget pg n with [] => false | _ => true end) nns
  && forallb (fun n => forallb (fun q => nmem q nodes) (dget pg n)) nns.

Hypothesis Hg : graph_ok = true.

Definition CInv (d : dmap) : Prop :=
  forall n x, In n nodes -> In x nodes -> dominates x n -> In x (dget d n).

Lemma dominates_pred x n q : dominates x n -> x <> n -> In q (dget pg n) -> dominates x q.
Proof.
  intros Hd Hne Hq l Hl. destruct (Hd (n :: l)) as [He|Hin]; [econstructor; eassumption|congruence|assumption].
Qed.

Lemma dom_pass_inv : forall order d ch d' ch',
  (forall n, In n order -> In n nns) ->
  CInv d -> dom_pass pg order d ch = (d', ch') -> CInv d'.
Proof.
  unfold dom_pass. induction order as [|n r IH]; intros d ch d' ch' Hsub HI H; cbn [fold_left] in H.
  - injection H as <- _. assumption.
  - assert (Hn : In n nns) by (apply Hsub; left; reflexivity).
    assert (Hsub' : forall m, In m r -> In m nns) by (intros m Hm; apply Hsub; right; assumption).
    unfold graph_ok in Hg. apply andb_prop in Hg. destruct Hg as (G1 & G2).
    rewrite forallb_forall in G1, G2. specialize (G1 n Hn). specialize (G2 n Hn). rewrite forallb_forall in G2.
    destruct (dget pg n) as [|p ps] eqn:Ep; [discriminate|].
    match type of H with fold_left _ _ (?dd, ?cc) = _ => apply (IH dd cc d' ch' Hsub') in H end; [assumption|].
    match goal with |- CInv (if ?c then _ else _) => destruct c end; [|assumption].
    intros m x Hm Hx Hd. destruct (Nat.eq_dec m n) as [->|Hne].
    + rewrite dget_dput_same. apply In_nadd. destruct (Nat.eq_dec x n) as [->|Hxn]; [left; reflexivity|right].
      apply In_fold_ninter. split.
      * apply HI; [apply nmem_In, G2; left; reflexivity|assumption|].
        eapply dominates_pred; [exact Hd|assumption|rewrite Ep; left; reflexivity].
      * intros q Hq. apply HI; [apply nmem_In, G2; right; assumption|assumption|].
        eapply dominates_pred; [exact Hd|assumption|rewrite Ep; right; assumption].
    + rewrite dget_dput_other by assumption. apply HI; assumption.
Qed.

Lemma dom_iter_inv : forall fuel d d', CInv d -> dom_iter fuel pg nns d = Some d' -> CInv d'.
Proof.
  induction fuel as [|fuel IH]; intros d d' HI H; cbn [dom_iter] in H; [discriminate|].
  destruct (dom_pass pg nns d false) as [d1 ch] eqn:Ep.
  pose proof (dom_pass_inv nns d false d1 ch (fun n H => H) HI Ep) as H1.
  destruct ch; [eapply IH; eassumption|]. injection H as <-. assumption.
Qed.

Definition d_init : dmap := fold_left (fun d n => dput d n nodes) nns (dput [] start [start]).

Lemma d_init_get : forall l d n, dget (fold_left (fun d n => dput d n nodes) l d) n = if nmem n l then nodes else dget d n.
Proof.
  induction l as [|m r IH]; intros d n; cbn [fold_left]; [reflexivity|].
  rewrite IH. cbn [nmem existsb]. fold (nmem n r). destruct (nmem n r); [rewrite orb_true_r; reflexivity|].
  rewrite orb_false_r. destruct (Nat.eqb_spec n m) as [->|Hne]; [apply dget_dput_same|apply dget_dput_other; assumption].
Qed.

Lemma d_init_inv : CInv d_init.
Proof.
  intros n x Hn Hx Hd. unfold d_init. rewrite d_init_get.
  destruct (nmem n nns) eqn:E; [assumption|].
  apply In_nadd in Hn. destruct Hn as [->|Hn]; [|apply nmem_In in Hn; congruence].
  rewrite dget_dput_same. apply (Hd [start]). constructor.
Qed.

Theorem dom_complete fuel d :
  dom_iter fuel pg nns d_init = Some d ->
  forall n x, In n nodes -> In x nodes -> dominates x n -> In x (dget d n).
Proof. intros H. exact (dom_iter_inv fuel d_init d d_init_inv H). Qed.

End Dom.

(* both directions for the elimination loop as RecoverySetGenerator::run starts it *)
Theorem dominators_exact pg start nns fuel d :
  graph_ok pg start nns = true ->
  dom_iter fuel pg nns (d_init start nns) = Some d ->
  dom_fixed pg start d = true ->
  forall n x, In n (nadd start nns) -> In x (nadd start nns) ->
    (In x (dget d n) <-> dominates pg start x n).
Proof.
  intros Hg Hi Hf n x Hn Hx. split.
  - intros Hin l Hl. eapply dom_sound; eassumption.
  - intros Hd. eapply dom_complete; eassumption.
Qed.
