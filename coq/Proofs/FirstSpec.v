(* Specification side for C09 (first sets): derivations of the grammar as written
   (EBNF operators; ordered choice read as union; node operators, predicates and
   actions derive the empty word), the nodes of a grammar, and the boolean
   closure certificate. *)
From Coq Require Import List Arith Lia Bool.
From LV Require Import Sema SetLemmas.
Import ListNotations.

(* induction principle for the nested regex type *)
Section RegexInd.
  Variable P : regex -> Prop.
  Hypothesis Ht : forall i t, P (RTok i t).
  Hypothesis Hr : forall i r, P (RRule i r).
  Hypothesis Hc : forall i ops, Forall P ops -> P (RCat i ops).
  Hypothesis Ha : forall i ops, Forall P ops -> P (RAlt i ops).
  Hypothesis Hch : forall i ops, Forall P ops -> P (RChoice i ops).
  Hypothesis Hs : forall i o, P o -> P (RStar i o).
  Hypothesis Hp : forall i o, P o -> P (RPlus i o).
  Hypothesis Ho : forall i o, P o -> P (ROpt i o).
  Hypothesis Hpa0 : forall i, P (RParen i None).
  Hypothesis Hpa1 : forall i o, P o -> P (RParen i (Some o)).
  Hypothesis Hl : forall i k, P (RLeaf i k).
  Fixpoint regex_ind' (x : regex) : P x :=
    let fix go (l : list regex) : Forall P l :=
        match l with [] => Forall_nil P | y :: r => Forall_cons y (regex_ind' y) (go r) end in
    match x with
    | RTok i t => Ht i t
    | RRule i r => Hr i r
    | RCat i ops => Hc i ops (go ops)
    | RAlt i ops => Ha i ops (go ops)
    | RChoice i ops => Hch i ops (go ops)
    | RStar i o => Hs i o (regex_ind' o)
    | RPlus i o => Hp i o (regex_ind' o)
    | ROpt i o => Ho i o (regex_ind' o)
    | RParen i None => Hpa0 i
    | RParen i (Some o) => Hpa1 i o (regex_ind' o)
    | RLeaf i k => Hl i k
    end.
End RegexInd.

Section Spec.
Variable g : grammar.

Inductive derives : regex -> list tokn -> Prop :=
| D_tok i t : derives (RTok i t) [t]
| D_rule i r b w : body_of g r = Some b -> derives b w -> derives (RRule i r) w
| D_rule_empty i r : body_of g r = None -> derives (RRule i r) []
| D_cat i ops w : derives_list ops w -> derives (RCat i ops) w
| D_alt i ops x w : In x ops -> derives x w -> derives (RAlt i ops) w
| D_choice i ops x w : In x ops -> derives x w -> derives (RChoice i ops) w
| D_star i x w : derives_star x w -> derives (RStar i x) w
| D_plus i x w1 w2 : derives x w1 -> derives_star x w2 -> derives (RPlus i x) (w1 ++ w2)
| D_opt0 i x : derives (ROpt i x) []
| D_opt1 i x w : derives x w -> derives (ROpt i x) w
| D_paren0 i : derives (RParen i None) []
| D_paren1 i x w : derives x w -> derives (RParen i (Some x)) w
| D_leaf i k : derives (RLeaf i k) []
with derives_list : list regex -> list tokn -> Prop :=
| DL_nil : derives_list [] []
| DL_cons x r w1 w2 : derives x w1 -> derives_list r w2 -> derives_list (x :: r) (w1 ++ w2)
with derives_star : regex -> list tokn -> Prop :=
| DS_nil x : derives_star x []
| DS_cons x w1 w2 : derives x w1 -> derives_star x w2 -> derives_star x (w1 ++ w2).

Scheme derives_mind := Induction for derives Sort Prop
  with derives_list_mind := Induction for derives_list Sort Prop
  with derives_star_mind := Induction for derives_star Sort Prop.
Combined Scheme derives_mutind from derives_mind, derives_list_mind, derives_star_mind.

(* textbook sets *)
Definition First_spec (x : regex) (a : tokn) : Prop := exists w, derives x (a :: w).
Definition Nullable_spec (x : regex) : Prop := derives x [].

(* the regex occurrences of the grammar *)
Fixpoint subs (x : regex) : list regex :=
  x :: match x with
       | RCat _ ops | RAlt _ ops | RChoice _ ops => flat_map subs ops
       | RStar _ o | RPlus _ o | ROpt _ o => subs o
       | RParen _ (Some o) => subs o
       | _ => []
       end.

Definition nodes_of : list regex :=
  flat_map (fun ru => match r_body ru with Some b => subs b | None => [] end) (g_rules g).

Definition wf_ids : Prop := NoDup (map rid_of nodes_of).
Definition productive : Prop := forall x, In x nodes_of -> exists w, derives x w.

(* first set of a sequence, from the sets of its operands *)
Fixpoint seq_first (m : smap) (ops : list regex) : set :=
  match ops with
  | [] => [Eps]
  | op :: r =>
    let f := get m (rid_of op) in
    if mem Eps f then union (remove Eps f) (seq_first m r) else remove Eps f
  end.

(* the first-set equations hold (as inclusions) at a node *)
Definition closed_at (m : smap) (x : regex) : bool :=
  let s := get m (rid_of x) in
  match x with
  | RTok _ t => mem (T t) s
  | RRule _ r => match body_of g r with Some b => subset (get m (rid_of b)) s | None => mem Eps s end
  | RCat _ ops => subset (seq_first m ops) s
  | RAlt _ ops | RChoice _ ops => forallb (fun o => subset (get m (rid_of o)) s) ops
  | RStar _ o | ROpt _ o => subset (get m (rid_of o)) s && mem Eps s
  | RPlus _ o => subset (get m (rid_of o)) s
  | RParen _ (Some o) => subset (get m (rid_of o)) s
  | RParen _ None | RLeaf _ _ => mem Eps s
  end.

Definition first_closed (m : smap) : bool := forallb (closed_at m) nodes_of.

(* ---------- structure of nodes_of ---------- *)
Lemma subs_self x : In x (subs x).
Proof. destruct x; cbn; auto. Qed.

Lemma subs_trans x : forall y z, In y (subs x) -> In z (subs y) -> In z (subs x).
Proof.
  induction x as [i t|i r|i ops IH|i ops IH|i ops IH|i o IH|i o IH|i o IH|i|i o IH|i k] using regex_ind';
    intros y z Hy Hz; cbn [subs] in Hy; destruct Hy as [<-|Hy]; try assumption; try (cbn in Hy; contradiction).
  all: try (cbn [subs]; right;
            apply in_flat_map in Hy; destruct Hy as (o & Ho & Hy);
            apply in_flat_map; exists o; split; [assumption|];
            rewrite Forall_forall in IH; eapply IH; eassumption).
  all: try (cbn [subs]; right; eapply IH; eassumption).
Qed.

Lemma body_in_nodes r b : body_of g r = Some b -> In b nodes_of.
Proof.
  unfold body_of, nth_rule, nodes_of. destruct (nth_error (g_rules g) r) as [ru|] eqn:E; [|discriminate].
  intros Hb. apply in_flat_map. exists ru. split; [eapply nth_error_In; eassumption|].
  rewrite Hb. apply subs_self.
Qed.

Lemma sub_in_nodes x y : In x nodes_of -> In y (subs x) -> In y nodes_of.
Proof.
  unfold nodes_of. intros Hx Hy. apply in_flat_map in Hx. destruct Hx as (ru & Hru & Hx).
  apply in_flat_map. exists ru. split; [assumption|].
  destruct (r_body ru) as [b|]; [|contradiction]. eapply subs_trans; eassumption.
Qed.

Lemma child_in_subs_list i ops o (x := RCat i ops) : In o ops -> In o (flat_map subs ops).
Proof. intros H. apply in_flat_map. exists o. split; [assumption|apply subs_self]. Qed.

End Spec.
