(* C02, second clause: create_node is announced for the node that was just closed, with the kind it
   was closed with.  In the command language SClose / SCreate / the error paths log [ECreate k ref]
   right after [p_close st m k] returned [ref]; this lemma says what that reference is. *)
From Coq Require Import List Arith Lia Bool.
From LV Require Import Cst Tree ABuild Runtime.
Import ListNotations.

Lemma set_nth_get {A} (l : list A) n x : n < length l -> nth_error (set_nth n x l) n = Some x.
Proof.
  revert n. induction l as [|y r IH]; intros n H; [cbn in H; lia|].
  destruct n as [|n]; cbn [set_nth nth_error]; [reflexivity|]. apply IH. cbn in H. lia.
Qed.

Lemma c_close_cell c m k c' :
  c_close c m k = Ok c' -> exists off, nth_error (nodes c') m = Some (NRule k off).
Proof.
  unfold c_close. destruct (nsl c) as [|len]; [discriminate|].
  destruct (Nat.leb_spec (length (nodes c)) m) as [|Hlt]; [discriminate|].
  destruct (len <? m); intros [= <-]; cbn [nodes]; eexists; apply set_nth_get; assumption.
Qed.

Theorem p_close_truthful st m k ref st' :
  p_close st m k = Ok (ref, st') ->
  ref = m /\ exists off, nth_error (nodes (cstd st')) ref = Some (NRule k off).
Proof.
  unfold p_close. destruct (p_close_error_node st) as [s|w]; [|discriminate].
  destruct (c_close (cstd s) m k) as [c'|w] eqn:E; [|discriminate]. intros [= <- <-].
  split; [reflexivity|]. cbn [set_cst cstd]. eapply c_close_cell. eassumption.
Qed.
