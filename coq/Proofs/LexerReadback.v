(* Read-back (C13, lexing stage): every sequence of well-formed lexical items - tokens AND trivia -
   rendered one after the other lexes back to exactly those items, with no diagnostic, provided
   that no item can fuse with what follows it.

   item      abstract token or trivia with a well-formed lexeme (`wf`): keywords, punctuation,
             identifiers that are not keywords, strings built from plain characters and the escapes
             \' and \\, `?n` `?t` `#n` `!n` `<n`, `@` / `@name`, `n>` / `>` / `n>name` / `>name`,
             whitespace runs, line comments, doc comments, block comments.
   nofuse    the side condition between an item and THE TEXT BEHIND IT (boolean, decided on the first
             character of that text, for `/` on more):
               word (keyword, identifier, @name, n>name)   : next character is not [a-zA-Z_0-9]
               `@`, `n>`, `>`                              : next character is not a letter
               ?n #n !n <n                                 : next character is not a digit
               whitespace                                  : next character is not whitespace
               `/`                                         : next is not `*`, and not (`/` with a newline
                                                             somewhere behind it)
               everything else (punctuation, strings, ?t, all comments) : no condition.
             It is exact: `nofuse_necessary` shows that when it fails the first token of the text is
             NOT the item.  A separator may therefore be empty exactly where nofuse holds.
   theorems  lex_items            lex (render_all items) = (expected tokens, [])
             lex_interleaved      the same in the shape tokens + layouts (a layout = list of trivia)
             nofuse_necessary     the condition cannot be weakened *)
From Coq Require Import List NArith Arith Bool Lia.
From LV Require Import Lexer LexerProofs.
Import ListNotations.

Local Open Scope N_scope.
Arguments N.eqb : simpl never.
Arguments N.leb : simpl never.
Arguments N.ltb : simpl never.

(* ---------------------------------------------------------------- booleans over N *)

Ltac b2p :=
  repeat match goal with
  | H : _ && _ = true |- _ => apply andb_true_iff in H; destruct H
  | H : _ || _ = false |- _ => apply orb_false_iff in H; destruct H
  | H : negb _ = true |- _ => apply negb_true_iff in H
  | H : negb _ = false |- _ => apply negb_false_iff in H
  | H : (_ =? _) = true |- _ => apply N.eqb_eq in H
  | H : (_ =? _) = false |- _ => apply N.eqb_neq in H
  | H : (_ <=? _) = true |- _ => apply N.leb_le in H
  | H : (_ <=? _) = false |- _ => apply N.leb_gt in H
  end.

Lemma is_ws_range : forall c, is_ws c = true -> c <= 32.
Proof.
  intros c H. unfold is_ws in H.
  repeat (apply orb_true_iff in H; destruct H as [H|H]); apply N.eqb_eq in H; lia.
Qed.

Lemma is_alpha_range : forall c, is_alpha c = true -> (65 <= c <= 90) \/ (97 <= c <= 122).
Proof.
  intros c H. unfold is_alpha in H. apply orb_true_iff in H. destruct H as [H|H]; b2p; lia.
Qed.

Lemma is_digit_range : forall c, is_digit c = true -> 48 <= c <= 57.
Proof. intros c H. unfold is_digit in H. b2p. lia. Qed.

Lemma eqb_false_of : forall c v, c <> v -> (c =? v) = false.
Proof. intros c v H. apply N.eqb_neq. exact H. Qed.

Lemma is_alpha_not_ws : forall c, is_alpha c = true -> is_ws c = false.
Proof.
  intros c H. apply is_alpha_range in H. destruct (is_ws c) eqn:E; [|reflexivity].
  apply is_ws_range in E. lia.
Qed.

Lemma is_digit_not_ws : forall c, is_digit c = true -> is_ws c = false.
Proof.
  intros c H. apply is_digit_range in H. destruct (is_ws c) eqn:E; [|reflexivity].
  apply is_ws_range in E. lia.
Qed.

Lemma is_digit_not_alpha : forall c, is_digit c = true -> is_alpha c = false.
Proof.
  intros c H. apply is_digit_range in H. destruct (is_alpha c) eqn:E; [|reflexivity].
  apply is_alpha_range in E. lia.
Qed.

Lemma is_alpha_idc : forall c, is_alpha c = true -> is_idc c = true.
Proof. intros c H. unfold is_idc. rewrite H. reflexivity. Qed.

Lemma classify_ws : forall c, is_ws c = true -> classify c = CWs.
Proof. intros c H. unfold classify. rewrite H. reflexivity. Qed.

Lemma classify_alpha : forall c, is_alpha c = true -> classify c = CAlpha.
Proof. intros c H. unfold classify. rewrite (is_alpha_not_ws c H), H. reflexivity. Qed.

Lemma classify_digit : forall c, is_digit c = true -> classify c = CDigit.
Proof.
  intros c H. unfold classify. rewrite (is_digit_not_ws c H), (is_digit_not_alpha c H), H. reflexivity.
Qed.

Lemma classify_punct : forall c k, punct_kind c = Some k -> classify c = CPunct k.
Proof.
  intros c k H. unfold punct_kind in H.
  repeat match type of H with
  | (if (?a =? ?b) then _ else _) = _ =>
      destruct (N.eqb_spec a b) as [->|_]; [inversion H; subst; reflexivity|]
  end.
  discriminate.
Qed.

(* ---------------------------------------------------------------- scanners on rendered lexemes *)

Definition hd_not (p : N -> bool) (r : text) : bool :=
  match r with
  | [] => true
  | d :: _ => negb (p d)
  end.

Lemma count_while_app : forall p a b,
  forallb p a = true -> hd_not p b = true -> count_while p (a ++ b) = length a.
Proof.
  induction a as [|c a IH]; intros b Ha Hb.
  - simpl. destruct b as [|d b]; [reflexivity|]. simpl in Hb. apply negb_true_iff in Hb.
    simpl. rewrite Hb. reflexivity.
  - simpl in Ha. apply andb_true_iff in Ha. destruct Ha as [Hc Ha].
    simpl. rewrite Hc. rewrite (IH b Ha Hb). reflexivity.
Qed.

Lemma count_while_stop : forall p b, hd_not p b = true -> count_while p b = 0%nat.
Proof. intros p b H. apply (count_while_app p [] b eq_refl H). Qed.

Definition is_ident (w : text) : bool :=
  match w with
  | c :: a => is_alpha c && forallb is_idc a
  | [] => false
  end.

(* an optional name as in `@name`, `n>name` *)
Definition opt_ident_ok (w : text) : bool := match w with [] => true | _ => is_ident w end.
Definition name_nofuse (w rest : text) : bool :=
  match w with [] => hd_not is_alpha rest | _ => hd_not is_idc rest end.

Lemma opt_ident_app : forall w rest,
  opt_ident_ok w = true -> name_nofuse w rest = true -> opt_ident (w ++ rest) = length w.
Proof.
  intros w rest Hw Hr. destruct w as [|c a].
  - simpl in *. destruct rest as [|d rest]; [reflexivity|]. simpl in Hr. apply negb_true_iff in Hr.
    unfold opt_ident. rewrite Hr. reflexivity.
  - simpl in Hw, Hr. apply andb_true_iff in Hw. destruct Hw as [Hc Ha].
    change ((c :: a) ++ rest) with (c :: (a ++ rest)).
    unfold opt_ident. rewrite Hc.
    change (c :: (a ++ rest)) with ((c :: a) ++ rest).
    apply count_while_app; [|exact Hr]. simpl. rewrite (is_alpha_idc c Hc), Ha. reflexivity.
Qed.

(* ---------------------------------------------------------------- items *)

Inductive keyword := WToken | WStart | WRight | WSkip | WPart.
Inductive schar := SPlain (c : N) | SEsc (c : N).

Inductive item :=
| IKw (k : keyword)
| IPunct (c : N)                   (* one of : ; = ( ) [ ] | * + ^ ~ & / *)
| IId (w : text)
| IStr (body : list schar)
| IPredNum (ds : text)             (* ?n *)
| IPredT                           (* ?t *)
| IAction (ds : text)              (* #n *)
| IAssert (ds : text)              (* !n *)
| IMarker (ds : text)              (* <n *)
| IRename (w : text)               (* @ or @name *)
| ICreate (ds w : text)            (* > n> >name n>name *)
| IWs (s : text)
| ILine (b : text)                 (* //b\n *)
| IDoc (b : text)                  (* ///b\n *)
| IBlock (b : text).               (* /*b*/ *)

Definition kw_text (k : keyword) : text :=
  match k with WToken => kw_token | WStart => kw_start | WRight => kw_right | WSkip => kw_skip | WPart => kw_part end.
Definition kw_kind (k : keyword) : kind :=
  match k with WToken => KToken | WStart => KStart | WRight => KRight | WSkip => KSkip | WPart => KPart end.

Definition render_schar (x : schar) : text := match x with SPlain c => [c] | SEsc c => [92; c] end.
Definition str_body (body : list schar) : text := concat (map render_schar body).

Definition render (a : item) : text :=
  match a with
  | IKw k => kw_text k
  | IPunct c => [c]
  | IId w => w
  | IStr body => 39 :: str_body body ++ [39]
  | IPredNum ds => 63 :: ds
  | IPredT => [63; 116]
  | IAction ds => 35 :: ds
  | IAssert ds => 33 :: ds
  | IMarker ds => 60 :: ds
  | IRename w => 64 :: w
  | ICreate ds w => ds ++ 62 :: w
  | IWs s => s
  | ILine b => 47 :: 47 :: b ++ [10]
  | IDoc b => 47 :: 47 :: 47 :: b ++ [10]
  | IBlock b => 47 :: 42 :: b ++ [42; 47]
  end.

Definition punct_or_slash (c : N) : option kind := if c =? 47 then Some KSlash else punct_kind c.

Definition kind_of (a : item) : kind :=
  match a with
  | IKw k => kw_kind k
  | IPunct c => match punct_or_slash c with Some k => k | None => KError end
  | IId _ => KId
  | IStr _ => KStr
  | IPredNum _ | IPredT => KPredicate
  | IAction _ => KAction
  | IAssert _ => KAssertion
  | IMarker _ => KNodeMarker
  | IRename _ => KNodeRename
  | ICreate _ _ => KNodeCreation
  | IWs _ => KWhitespace
  | ILine _ => KLineComment
  | IDoc _ => KDocComment
  | IBlock _ => KBlockComment
  end.

Definition is_trivia (a : item) : bool :=
  match a with IWs _ | ILine _ | IDoc _ | IBlock _ => true | _ => false end.

Definition nonempty (s : text) : bool := match s with [] => false | _ => true end.
Definition is_number (ds : text) : bool := nonempty ds && forallb is_digit ds.
Definition is_kw (w : text) : bool := match kw_or_id w with KId => false | _ => true end.

Definition wf_schar (x : schar) : bool :=
  match x with
  | SPlain c => negb (c =? 39) && negb (c =? 10) && negb (c =? 92)
  | SEsc c => (c =? 39) || (c =? 92)
  end.

(* no `*/` inside *)
Fixpoint no_close (b : text) : bool :=
  match b with
  | [] => true
  | c :: r => match r with
              | [] => true
              | d :: _ => negb ((c =? 42) && (d =? 47)) && no_close r
              end
  end.

Definition wf (a : item) : bool :=
  match a with
  | IKw _ => true
  | IPunct c => match punct_or_slash c with Some _ => true | None => false end
  | IId w => is_ident w && negb (is_kw w)
  | IStr body => forallb wf_schar body
  | IPredNum ds | IAction ds | IAssert ds | IMarker ds => is_number ds
  | IPredT => true
  | IRename w => opt_ident_ok w
  | ICreate ds w => forallb is_digit ds && opt_ident_ok w
  | IWs s => nonempty s && forallb is_ws s
  | ILine b => forallb not_nl b && hd_not (fun c => c =? 47) b
  | IDoc b => forallb not_nl b
  | IBlock b => no_close b
  end.

Definition has_nl (r : text) : bool := existsb (fun c => c =? 10) r.

Definition slash_ok (rest : text) : bool :=
  match rest with
  | [] => true
  | d :: r1 => negb (d =? 42) && negb ((d =? 47) && has_nl r1)
  end.

(* may `rest` follow the item directly? *)
Definition nofuse (a : item) (rest : text) : bool :=
  match a with
  | IKw _ | IId _ => hd_not is_idc rest
  | IPunct c => if c =? 47 then slash_ok rest else true
  | IStr _ | IPredT | ILine _ | IDoc _ | IBlock _ => true
  | IPredNum _ | IAction _ | IAssert _ | IMarker _ => hd_not is_digit rest
  | IRename w => name_nofuse w rest
  | ICreate _ w => name_nofuse w rest
  | IWs _ => hd_not is_ws rest
  end.

(* ---------------------------------------------------------------- one token: the step lemma *)

Lemma next_token_word : forall c l rest,
  is_alpha c = true -> forallb is_idc l = true -> hd_not is_idc rest = true ->
  next_token c (l ++ rest) = (LOk (kw_or_id (c :: l)), length l).
Proof.
  intros c l rest Hc Hl Hr. unfold next_token. rewrite (classify_alpha c Hc).
  rewrite (count_while_app is_idc l rest Hl Hr). rewrite firstn_length_app. reflexivity.
Qed.

Lemma scan_str_body : forall body rest,
  forallb wf_schar body = true ->
  scan_str (str_body body ++ 39 :: rest) = (S (length (str_body body)), true).
Proof.
  induction body as [|x body IH]; intros rest H.
  - reflexivity.
  - simpl in H. apply andb_true_iff in H. destruct H as [Hx Hb].
    specialize (IH rest Hb). unfold str_body in *. simpl concat. simpl map.
    destruct x as [c|c]; simpl in Hx; simpl render_schar.
    + b2p. change (([c] ++ concat (map render_schar body)) ++ 39 :: rest)
        with (c :: (concat (map render_schar body) ++ 39 :: rest)).
      simpl scan_str. rewrite (eqb_false_of c 39), (eqb_false_of c 10), (eqb_false_of c 92) by assumption.
      rewrite IH. reflexivity.
    + change (([92; c] ++ concat (map render_schar body)) ++ 39 :: rest)
        with (92 :: c :: (concat (map render_schar body) ++ 39 :: rest)).
      simpl scan_str. change (92 =? 39) with false. change (92 =? 10) with false. change (92 =? 92) with true.
      cbv iota. rewrite IH. reflexivity.
Qed.

Lemma scan_block_body : forall b rest,
  no_close b = true -> scan_block (b ++ 42 :: 47 :: rest) = Some (length b + 2)%nat.
Proof.
  induction b as [|c b IH]; intros rest H.
  - reflexivity.
  - destruct b as [|d b'].
    + simpl. change (42 =? 47) with false. rewrite andb_false_r. change (42 =? 42) with true.
      change (47 =? 47) with true. reflexivity.
    + simpl in H. apply andb_true_iff in H. destruct H as [Hcd Hb]. apply negb_true_iff in Hcd.
      specialize (IH rest Hb).
      change ((c :: d :: b') ++ 42 :: 47 :: rest) with (c :: d :: (b' ++ 42 :: 47 :: rest)).
      change ((d :: b') ++ 42 :: 47 :: rest) with (d :: (b' ++ 42 :: 47 :: rest)) in IH.
      simpl scan_block at 1. rewrite Hcd.
      change (match b' ++ 42 :: 47 :: rest with
              | [] => None
              | d0 :: _ => if (d =? 42) && (d0 =? 47) then Some 2%nat
                           else option_map S (scan_block (b' ++ 42 :: 47 :: rest))
              end) with (scan_block (d :: (b' ++ 42 :: 47 :: rest))).
      rewrite IH. reflexivity.
Qed.

Lemma no_nl_skip : forall r, has_nl r = false -> skipn (count_while not_nl r) r = [].
Proof.
  induction r as [|c r IH]; intro H; [reflexivity|].
  simpl in H. apply orb_false_iff in H. destruct H as [Hc Hr].
  simpl. unfold not_nl at 1. rewrite Hc. simpl. apply IH. exact Hr.
Qed.

Lemma num_tok_digits : forall k ds rest,
  is_number ds = true -> hd_not is_digit rest = true -> num_tok k (ds ++ rest) = (LOk k, length ds).
Proof.
  intros k ds rest Hds Hr. unfold is_number in Hds. apply andb_true_iff in Hds. destruct Hds as [Hne Hd].
  unfold num_tok. rewrite (count_while_app is_digit ds rest Hd Hr).
  destruct ds; [discriminate|reflexivity].
Qed.

Lemma next_token_item : forall a rest,
  wf a = true -> nofuse a rest = true ->
  exists c l, render a = c :: l /\ next_token c (l ++ rest) = (LOk (kind_of a), length l).
Proof.
  intros a rest Hwf Hnf. destruct a; simpl in Hwf, Hnf.
  - (* keyword *)
    destruct k; eexists; eexists; (split; [reflexivity|]);
      (rewrite next_token_word; [reflexivity|reflexivity|reflexivity|exact Hnf]).
  - (* punctuation *)
    exists c, []. split; [reflexivity|]. simpl app. simpl kind_of. unfold punct_or_slash in *.
    destruct (N.eqb_spec c 47) as [->|Hc].
    + unfold next_token. change (classify 47) with CSlash.
      destruct rest as [|d r1]; [reflexivity|].
      simpl in Hnf. apply andb_true_iff in Hnf. destruct Hnf as [H1 H2].
      apply negb_true_iff in H1. rewrite H1.
      apply negb_true_iff in H2. apply andb_false_iff in H2.
      destruct (d =? 47) eqn:E47; [|reflexivity].
      destruct H2 as [H2|H2]; [discriminate|]. rewrite (no_nl_skip r1 H2). reflexivity.
    + destruct (punct_kind c) as [k|] eqn:Hk; [|discriminate].
      unfold next_token. rewrite (classify_punct c k Hk). reflexivity.
  - (* identifier *)
    apply andb_true_iff in Hwf. destruct Hwf as [Hid Hkw]. apply negb_true_iff in Hkw.
    destruct w as [|c l]; [discriminate|]. simpl in Hid. apply andb_true_iff in Hid. destruct Hid as [Hc Hl].
    exists c, l. split; [reflexivity|]. rewrite (next_token_word c l rest Hc Hl Hnf).
    unfold is_kw in Hkw. simpl kind_of. destruct (kw_or_id (c :: l)); try discriminate. reflexivity.
  - (* string *)
    exists 39, (str_body body ++ [39]). split; [reflexivity|].
    unfold next_token. change (classify 39) with CQuote.
    rewrite <- app_assoc. simpl app. rewrite (scan_str_body body rest Hwf).
    rewrite app_length. simpl. f_equal. lia.
  - (* ?n *)
    exists 63, ds. split; [reflexivity|]. unfold next_token. change (classify 63) with CQuest.
    unfold is_number in Hwf. apply andb_true_iff in Hwf. destruct Hwf as [Hne Hd].
    destruct ds as [|d ds']; [discriminate|].
    rewrite (count_while_app is_digit (d :: ds') rest Hd Hnf).
    simpl in Hd. apply andb_true_iff in Hd. destruct Hd as [Hd _].
    change ((d :: ds') ++ rest) with (d :: (ds' ++ rest)). cbv iota. rewrite Hd. reflexivity.
  - (* ?t *)
    exists 63, [116]. split; reflexivity.
  - (* #n *)
    exists 35, ds. split; [reflexivity|]. unfold next_token. change (classify 35) with CHash.
    apply num_tok_digits; assumption.
  - (* !n *)
    exists 33, ds. split; [reflexivity|]. unfold next_token. change (classify 33) with CBang.
    apply num_tok_digits; assumption.
  - (* <n *)
    exists 60, ds. split; [reflexivity|]. unfold next_token. change (classify 60) with CLt.
    apply num_tok_digits; assumption.
  - (* @name *)
    exists 64, w. split; [reflexivity|]. unfold next_token. change (classify 64) with CAt.
    rewrite (opt_ident_app w rest Hwf Hnf). reflexivity.
  - (* n>name *)
    apply andb_true_iff in Hwf. destruct Hwf as [Hds Hw].
    destruct ds as [|d ds'].
    + exists 62, w. split; [reflexivity|]. unfold next_token. change (classify 62) with CGt.
      rewrite (opt_ident_app w rest Hw Hnf). reflexivity.
    + exists d, (ds' ++ 62 :: w). split; [reflexivity|].
      simpl in Hds. apply andb_true_iff in Hds. destruct Hds as [Hd Hds'].
      unfold next_token. rewrite (classify_digit d Hd).
      rewrite <- app_assoc. change ((62 :: w) ++ rest) with (62 :: (w ++ rest)).
      rewrite (count_while_app is_digit ds' (62 :: (w ++ rest)) Hds' eq_refl).
      rewrite skipn_length_app. change (62 =? 62) with true. cbv iota.
      rewrite (opt_ident_app w rest Hw Hnf). rewrite app_length. simpl. f_equal. lia.
  - (* whitespace *)
    apply andb_true_iff in Hwf. destruct Hwf as [Hne Hs].
    destruct s as [|c l]; [discriminate|]. simpl in Hs. apply andb_true_iff in Hs. destruct Hs as [Hc Hl].
    exists c, l. split; [reflexivity|]. unfold next_token. rewrite (classify_ws c Hc).
    rewrite (count_while_app is_ws l rest Hl Hnf). reflexivity.
  - (* line comment *)
    apply andb_true_iff in Hwf. destruct Hwf as [Hb Hh].
    exists 47, (47 :: b ++ [10]). split; [reflexivity|].
    unfold next_token. change (classify 47) with CSlash.
    change ((47 :: b ++ [10]) ++ rest) with (47 :: ((b ++ [10]) ++ rest)).
    cbv iota. change (47 =? 42) with false. change (47 =? 47) with true. cbv iota.
    rewrite <- app_assoc. change ([10] ++ rest) with (10 :: rest).
    rewrite (count_while_app not_nl b (10 :: rest) Hb eq_refl).
    rewrite skipn_length_app.
    assert (Hk : match b ++ 10 :: rest with
                 | [] => KLineComment
                 | e :: _ => if e =? 47 then KDocComment else KLineComment
                 end = KLineComment).
    { destruct b as [|e b']; [reflexivity|]. simpl in Hh. apply negb_true_iff in Hh. simpl. rewrite Hh. reflexivity. }
    rewrite Hk. simpl kind_of. simpl length. rewrite app_length. simpl. f_equal. f_equal. lia.
  - (* doc comment *)
    exists 47, (47 :: 47 :: b ++ [10]). split; [reflexivity|].
    unfold next_token. change (classify 47) with CSlash.
    change ((47 :: 47 :: b ++ [10]) ++ rest) with (47 :: ((47 :: b) ++ [10]) ++ rest).
    cbv iota. change (47 =? 42) with false. change (47 =? 47) with true. cbv iota.
    rewrite <- app_assoc. change ([10] ++ rest) with (10 :: rest).
    assert (Hb : forallb not_nl (47 :: b) = true) by (simpl; rewrite Hwf; reflexivity).
    rewrite (count_while_app not_nl (47 :: b) (10 :: rest) Hb eq_refl).
    rewrite skipn_length_app.
    change ((47 :: b) ++ 10 :: rest) with (47 :: (b ++ 10 :: rest)). cbv iota.
    change (47 =? 47) with true. cbv iota.
    simpl kind_of. simpl length. rewrite app_length. simpl. f_equal. f_equal. lia.
  - (* block comment *)
    exists 47, (42 :: b ++ [42; 47]). split; [reflexivity|].
    unfold next_token. change (classify 47) with CSlash.
    change ((42 :: b ++ [42; 47]) ++ rest) with (42 :: ((b ++ [42; 47]) ++ rest)).
    cbv iota. change (42 =? 42) with true. cbv iota.
    rewrite <- app_assoc. change ([42; 47] ++ rest) with (42 :: 47 :: rest).
    rewrite (scan_block_body b rest Hwf). simpl kind_of. simpl length. rewrite app_length. simpl. f_equal; lia.
Qed.

(* ---------------------------------------------------------------- sequences of items *)

Definition render_all (items : list item) : text := concat (map render items).

Fixpoint layout_ok (items : list item) : bool :=
  match items with
  | [] => true
  | a :: post => wf a && nofuse a (render_all post) && layout_ok post
  end.

Definition chunk_of (a : item) : chunk := mkchunk (LOk (kind_of a)) (render a).

Lemma chunks_item : forall a rest,
  wf a = true -> nofuse a rest = true -> chunks (render a ++ rest) = chunk_of a :: chunks rest.
Proof.
  intros a rest Hwf Hnf. destruct (next_token_item a rest Hwf Hnf) as (c & l & Hr & Hn).
  unfold chunk_of. rewrite Hr. change ((c :: l) ++ rest) with (c :: (l ++ rest)).
  rewrite chunks_cons. rewrite Hn. simpl fst. simpl snd.
  rewrite firstn_length_app, skipn_length_app. reflexivity.
Qed.

Lemma chunks_items : forall items, layout_ok items = true -> chunks (render_all items) = map chunk_of items.
Proof.
  induction items as [|a post IH]; intro H; [reflexivity|].
  simpl in H. apply andb_true_iff in H. destruct H as [H Hpost]. apply andb_true_iff in H. destruct H as [Hwf Hnf].
  change (render_all (a :: post)) with (render a ++ render_all post).
  rewrite (chunks_item a _ Hwf Hnf). rewrite (IH Hpost). reflexivity.
Qed.

(* the tokens one expects: kinds of the items, spans by byte lengths of their lexemes *)
Fixpoint expected (pos : nat) (items : list item) : list tok :=
  match items with
  | [] => []
  | a :: post => (kind_of a, pos, (blen (render a) + pos)%nat) :: expected (blen (render a) + pos)%nat post
  end.

Lemma check_str_valid : forall body off tail,
  forallb wf_schar body = true -> (forall o, check_str o tail = []) -> check_str off (str_body body ++ tail) = [].
Proof.
  induction body as [|x body IH]; intros off tail H Ht; [apply Ht|].
  simpl in H. apply andb_true_iff in H. destruct H as [Hx Hb].
  unfold str_body in *. simpl concat. simpl map. destruct x as [c|c]; simpl in Hx; simpl render_schar.
  - b2p. change (([c] ++ concat (map render_schar body)) ++ tail) with (c :: (concat (map render_schar body) ++ tail)).
    simpl check_str. rewrite (eqb_false_of c 92) by assumption. apply IH; assumption.
  - change (([92; c] ++ concat (map render_schar body)) ++ tail) with (92 :: c :: (concat (map render_schar body) ++ tail)).
    simpl check_str. change (92 =? 92) with true. cbv iota. rewrite Hx. apply IH; assumption.
Qed.

Lemma kind_of_str : forall a, wf a = true -> kind_is_str (kind_of a) = true -> exists body, a = IStr body.
Proof.
  intros a Hwf H. destruct a; simpl in H; try discriminate.
  - destruct k; discriminate.
  - exfalso. simpl in Hwf. unfold punct_or_slash in *. destruct (c =? 47); [discriminate|].
    unfold punct_kind in *.
    repeat match type of H with
    | context [if ?b then _ else _] => destruct b; [discriminate|]
    end. discriminate.
  - exists body. reflexivity.
Qed.

Lemma place_items : forall items pos,
  Forall (fun a => wf a = true) items -> place pos (map chunk_of items) = (expected pos items, []).
Proof.
  induction items as [|a post IH]; intros pos H; [reflexivity|].
  inversion H as [|? ? Ha Hpost]; subst.
  simpl map. simpl place. rewrite (IH _ Hpost). simpl expected.
  destruct (kind_is_str (kind_of a)) eqn:Ek; [|reflexivity].
  destruct (kind_of_str a Ha Ek) as [body ->]. simpl in Ha.
  simpl render. change (39 :: str_body body ++ [39]) with (39 :: (str_body body ++ [39])).
  simpl check_str at 1. change (39 =? 92) with false. cbv iota.
  rewrite (check_str_valid body _ [39] Ha); [reflexivity|]. intro o. reflexivity.
Qed.

Lemma layout_ok_wf : forall items, layout_ok items = true -> Forall (fun a => wf a = true) items.
Proof.
  induction items as [|a post IH]; intro H; [constructor|].
  simpl in H. apply andb_true_iff in H. destruct H as [H Hpost]. apply andb_true_iff in H. destruct H as [Hwf _].
  constructor; [exact Hwf|apply IH; exact Hpost].
Qed.

(* READ-BACK: exactly these items - tokens and trivia -, exactly these spans, no diagnostic *)
Theorem lex_items : forall items,
  layout_ok items = true -> lex (render_all items) = (expected 0 items, []).
Proof.
  intros items H. unfold lex. rewrite (chunks_items items H). apply place_items. apply layout_ok_wf. exact H.
Qed.

(* ---------------------------------------------------------------- the shape "tokens and layouts" *)

(* `lay0 tok1 lay1 tok2 lay2 …`: a layout is a list of trivia items (possibly empty) *)
Fixpoint interleave (lay0 : list item) (toks : list (item * list item)) : list item :=
  match toks with
  | [] => lay0
  | (t, lay) :: more => lay0 ++ t :: interleave lay more
  end.

Definition grammar_ok (lay0 : list item) (toks : list (item * list item)) : bool :=
  forallb is_trivia lay0
  && forallb (fun p => negb (is_trivia (fst p)) && forallb is_trivia (snd p)) toks
  && layout_ok (interleave lay0 toks).

Theorem lex_interleaved : forall lay0 toks,
  grammar_ok lay0 toks = true ->
  lex (render_all (interleave lay0 toks)) = (expected 0 (interleave lay0 toks), []).
Proof.
  intros lay0 toks H. unfold grammar_ok in H. apply andb_true_iff in H. destruct H as [_ H].
  apply lex_items. exact H.
Qed.

(* the significant tokens that come back are the written ones, in order *)
Lemma interleave_tokens : forall toks lay0,
  forallb is_trivia lay0 = true ->
  forallb (fun p => negb (is_trivia (fst p)) && forallb is_trivia (snd p)) toks = true ->
  filter (fun a => negb (is_trivia a)) (interleave lay0 toks) = map fst toks.
Proof.
  assert (Hf : forall l, forallb is_trivia l = true -> forall tl, filter (fun a => negb (is_trivia a)) (l ++ tl) = filter (fun a => negb (is_trivia a)) tl).
  { induction l as [|x l IHl]; intros Hl tl; [reflexivity|].
    simpl in Hl. apply andb_true_iff in Hl. destruct Hl as [Hx Hl]. simpl. rewrite Hx. simpl. apply IHl. exact Hl. }
  induction toks as [|[t lay] more IH]; intros lay0 H0 H.
  - simpl. rewrite <- (app_nil_r lay0). rewrite (Hf lay0 H0). reflexivity.
  - simpl in H. apply andb_true_iff in H. destruct H as [Ht Hmore]. apply andb_true_iff in Ht. destruct Ht as [Ht Hlay].
    simpl interleave. rewrite (Hf lay0 H0). simpl. rewrite Ht. simpl. f_equal. apply IH; assumption.
Qed.

(* ---------------------------------------------------------------- the side condition is necessary *)

(* If a well-formed item may NOT be followed by `rest` (nofuse fails), the first token the lexer cuts
   from `render a ++ rest` is not the item: it is longer, or it is another kind. *)
Definition first_chunk (t : text) : option chunk := match chunks t with [] => None | ch :: _ => Some ch end.

Lemma count_while_more : forall p a d b,
  forallb p a = true -> p d = true -> (length a < count_while p (a ++ d :: b))%nat.
Proof.
  induction a as [|c a IH]; intros d b Ha Hd.
  - simpl. rewrite Hd. lia.
  - simpl in Ha. apply andb_true_iff in Ha. destruct Ha as [Hc Ha]. simpl. rewrite Hc.
    specialize (IH d b Ha Hd). lia.
Qed.

Lemma first_chunk_cons : forall c r,
  first_chunk (c :: r) = Some (mkchunk (fst (next_token c r)) (c :: firstn (snd (next_token c r)) r)).
Proof. intros c r. unfold first_chunk. rewrite chunks_cons. reflexivity. Qed.

Lemma firstn_longer : forall (l : text) d rest n, (length l < n)%nat -> firstn n (l ++ d :: rest) <> l.
Proof.
  intros l d rest n Hn Heq.
  assert (Hlen : length (firstn n (l ++ d :: rest)) = length l) by (rewrite Heq; reflexivity).
  rewrite firstn_length, app_length in Hlen. simpl in Hlen. lia.
Qed.

Lemma hd_not_false : forall p rest, hd_not p rest = false -> exists d r, rest = d :: r /\ p d = true.
Proof.
  intros p [|d r] H; simpl in H; [discriminate|]. apply negb_false_iff in H. exists d, r. split; [reflexivity|exact H].
Qed.

Lemma opt_ident_more : forall w rest,
  opt_ident_ok w = true -> name_nofuse w rest = false -> (length w < opt_ident (w ++ rest))%nat.
Proof.
  intros w rest Hw Hr. destruct w as [|c a].
  - simpl in Hr. apply hd_not_false in Hr. destruct Hr as (d & r & -> & Hd).
    simpl. unfold opt_ident. rewrite Hd. simpl. rewrite (is_alpha_idc d Hd). lia.
  - simpl in Hr. apply hd_not_false in Hr. destruct Hr as (d & r & -> & Hd).
    simpl in Hw. apply andb_true_iff in Hw. destruct Hw as [Hc Ha].
    change ((c :: a) ++ d :: r) with (c :: (a ++ d :: r)). unfold opt_ident. rewrite Hc.
    change (c :: (a ++ d :: r)) with ((c :: a) ++ d :: r).
    apply count_while_more; [|exact Hd]. simpl. rewrite (is_alpha_idc c Hc), Ha. reflexivity.
Qed.

Theorem nofuse_necessary : forall a rest,
  wf a = true -> nofuse a rest = false -> first_chunk (render a ++ rest) <> Some (chunk_of a).
Proof.
  intros a rest Hwf Hnf Heq.
  assert (Hlen : forall c l n res, render a = c :: l -> next_token c (l ++ rest) = (res, n) ->
                 (exists d r, rest = d :: r) -> (length l < n)%nat -> False).
  { intros c l n res Hr Hn (d & r & ->) Hlt. rewrite Hr in Heq.
    change ((c :: l) ++ d :: r) with (c :: (l ++ d :: r)) in Heq. rewrite first_chunk_cons in Heq.
    rewrite Hn in Heq. simpl fst in Heq. simpl snd in Heq. unfold chunk_of in Heq. rewrite Hr in Heq.
    inversion Heq as [[H1 H2]]. exact (firstn_longer l d r n Hlt H2). }
  destruct a; simpl in Hwf, Hnf; try discriminate.
  - (* keyword *)
    apply hd_not_false in Hnf. destruct Hnf as (d & r & -> & Hd).
    destruct k;
      (eapply (Hlen _ _ _ _ eq_refl);
       [unfold next_token; rewrite classify_alpha by reflexivity; reflexivity
       |eauto
       |apply count_while_more; [reflexivity|exact Hd]]).
  - (* slash *)
    unfold punct_or_slash in Hwf. destruct (N.eqb_spec c 47) as [->|Hc]; [|discriminate].
    destruct rest as [|d r1]; [discriminate|]. simpl in Hnf.
    simpl in Heq. rewrite first_chunk_cons in Heq. unfold chunk_of in Heq. simpl in Heq.
    inversion Heq as [[H1 H2]]. clear Heq.
    unfold next_token in H1, H2. change (classify 47) with CSlash in H1, H2. cbv iota in H1, H2.
    destruct (d =? 42) eqn:E42.
    + destruct (scan_block r1); simpl in H2; discriminate.
    + simpl in Hnf. apply negb_false_iff in Hnf. apply andb_true_iff in Hnf. destruct Hnf as [E47 Hnl].
      rewrite E47 in H1, H2.
      assert (Hsk : skipn (count_while not_nl r1) r1 <> []).
      { clear - Hnl. induction r1 as [|x r1 IH]; [discriminate|]. simpl in Hnl. simpl. unfold not_nl at 1.
        destruct (x =? 10) eqn:Ex; simpl; [discriminate|]. apply IH. exact Hnl. }
      destruct (skipn (count_while not_nl r1) r1); [congruence|]. simpl in H2. discriminate.
  - (* identifier *)
    apply hd_not_false in Hnf. destruct Hnf as (d & r & -> & Hd).
    apply andb_true_iff in Hwf. destruct Hwf as [Hid _].
    destruct w as [|c l]; [discriminate|]. simpl in Hid. apply andb_true_iff in Hid. destruct Hid as [Hc Hl].
    apply (Hlen c l (count_while is_idc (l ++ d :: r)) (LOk (kw_or_id (c :: firstn (count_while is_idc (l ++ d :: r)) (l ++ d :: r)))) eq_refl).
    + unfold next_token. rewrite (classify_alpha c Hc). reflexivity.
    + eauto.
    + apply count_while_more; assumption.
  - (* ?n *)
    apply hd_not_false in Hnf. destruct Hnf as (d & r & -> & Hd).
    unfold is_number in Hwf. apply andb_true_iff in Hwf. destruct Hwf as [Hne Hds].
    destruct ds as [|x ds']; [discriminate|].
    apply (Hlen 63 (x :: ds') (count_while is_digit ((x :: ds') ++ d :: r)) (LOk KPredicate) eq_refl).
    + unfold next_token. change (classify 63) with CQuest. simpl in Hds. apply andb_true_iff in Hds. destruct Hds as [Hx _].
      change ((x :: ds') ++ d :: r) with (x :: (ds' ++ d :: r)). cbv iota. rewrite Hx. reflexivity.
    + eauto.
    + apply count_while_more; assumption.
  - (* #n *)
    apply hd_not_false in Hnf. destruct Hnf as (d & r & -> & Hd).
    unfold is_number in Hwf. apply andb_true_iff in Hwf. destruct Hwf as [Hne Hds].
    pose proof (count_while_more is_digit ds d r Hds Hd) as Hm.
    apply (Hlen 35 ds (count_while is_digit (ds ++ d :: r)) (LOk KAction) eq_refl); [|eauto|exact Hm].
    unfold next_token. change (classify 35) with CHash. unfold num_tok.
    destruct (count_while is_digit (ds ++ d :: r)); [lia|reflexivity].
  - (* !n *)
    apply hd_not_false in Hnf. destruct Hnf as (d & r & -> & Hd).
    unfold is_number in Hwf. apply andb_true_iff in Hwf. destruct Hwf as [Hne Hds].
    pose proof (count_while_more is_digit ds d r Hds Hd) as Hm.
    apply (Hlen 33 ds (count_while is_digit (ds ++ d :: r)) (LOk KAssertion) eq_refl); [|eauto|exact Hm].
    unfold next_token. change (classify 33) with CBang. unfold num_tok.
    destruct (count_while is_digit (ds ++ d :: r)); [lia|reflexivity].
  - (* <n *)
    apply hd_not_false in Hnf. destruct Hnf as (d & r & -> & Hd).
    unfold is_number in Hwf. apply andb_true_iff in Hwf. destruct Hwf as [Hne Hds].
    pose proof (count_while_more is_digit ds d r Hds Hd) as Hm.
    apply (Hlen 60 ds (count_while is_digit (ds ++ d :: r)) (LOk KNodeMarker) eq_refl); [|eauto|exact Hm].
    unfold next_token. change (classify 60) with CLt. unfold num_tok.
    destruct (count_while is_digit (ds ++ d :: r)); [lia|reflexivity].
  - (* @name *)
    pose proof (opt_ident_more w rest Hwf Hnf) as Hm.
    assert (Hrest : exists d r, rest = d :: r).
    { destruct rest as [|d r]; [|eauto]. destruct w; simpl in Hnf; discriminate. }
    apply (Hlen 64 w (opt_ident (w ++ rest)) (LOk KNodeRename) eq_refl); [|exact Hrest|exact Hm].
    unfold next_token. change (classify 64) with CAt. reflexivity.
  - (* n>name *)
    apply andb_true_iff in Hwf. destruct Hwf as [Hds Hw].
    pose proof (opt_ident_more w rest Hw Hnf) as Hm.
    assert (Hrest : exists d r, rest = d :: r).
    { destruct rest as [|d r]; [|eauto]. destruct w; simpl in Hnf; discriminate. }
    destruct ds as [|x ds'].
    + apply (Hlen 62 w (opt_ident (w ++ rest)) (LOk KNodeCreation) eq_refl); [|exact Hrest|exact Hm].
      unfold next_token. change (classify 62) with CGt. reflexivity.
    + simpl in Hds. apply andb_true_iff in Hds. destruct Hds as [Hx Hds'].
      apply (Hlen x (ds' ++ 62 :: w) (S (length ds' + opt_ident (w ++ rest))) (LOk KNodeCreation) eq_refl); [|exact Hrest|].
      * unfold next_token. rewrite (classify_digit x Hx).
        rewrite <- app_assoc. change ((62 :: w) ++ rest) with (62 :: (w ++ rest)).
        rewrite (count_while_app is_digit ds' (62 :: (w ++ rest)) Hds' eq_refl).
        rewrite skipn_length_app. change (62 =? 62) with true. reflexivity.
      * rewrite app_length. simpl. lia.
  - (* whitespace *)
    apply hd_not_false in Hnf. destruct Hnf as (d & r & -> & Hd).
    apply andb_true_iff in Hwf. destruct Hwf as [Hne Hs].
    destruct s as [|c l]; [discriminate|]. simpl in Hs. apply andb_true_iff in Hs. destruct Hs as [Hc Hl].
    apply (Hlen c l (count_while is_ws (l ++ d :: r)) (LOk KWhitespace) eq_refl).
    + unfold next_token. rewrite (classify_ws c Hc). reflexivity.
    + eauto.
    + apply count_while_more; assumption.
Qed.

(* ---------------------------------------------------------------- example: hypotheses are satisfiable *)

(* /// d
   token Num='\'\\';start s;s:e(/* c */'+'e)*1>bin@x ?1 #2<3 / ?t!4;  - separators empty wherever allowed *)
Definition ex_items : list item :=
  [ IDoc [32; 100];
    IKw WToken; IWs [32]; IId [78; 117; 109]; IPunct 61; IStr [SEsc 39; SEsc 92; SPlain 233]; IPunct 59;
    IKw WStart; IWs [32; 10]; IId [115]; IPunct 59;
    IId [115]; IPunct 58; IId [101]; IPunct 40; IBlock [32; 99; 32]; IStr [SPlain 43]; IId [101]; IPunct 41; IPunct 42;
    ICreate [49] [98; 105; 110]; IRename [120]; IWs [32]; IPredNum [49]; IWs [32]; IAction [50]; IMarker [51]; IWs [32];
    IPunct 47; IWs [32]; IPredT; IAssert [52]; IPunct 59; ILine [32; 47; 42] ].

Example ex_layout_ok : layout_ok ex_items = true.
Proof. vm_compute. reflexivity. Qed.

Example ex_readback : lex (render_all ex_items) = (expected 0 ex_items, []).
Proof. exact (lex_items ex_items ex_layout_ok). Qed.

Example ex_readback_computed : map (fun x => fst (fst x)) (fst (lex (render_all ex_items))) = map kind_of ex_items.
Proof. vm_compute. reflexivity. Qed.

(* `token` directly followed by `s` is refused by the side condition - and indeed lexes as the identifier `tokens` *)
Example ex_fuse : layout_ok [IKw WToken; IId [115]] = false
  /\ fst (lex (render_all [IKw WToken; IId [115]])) = [(KId, 0, 6)]%nat.
Proof. split; vm_compute; reflexivity. Qed.
