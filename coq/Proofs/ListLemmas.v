(* List surgery lemmas used by the refinement proofs. *)
From Coq Require Import List Arith Lia Bool.
From LV Require Import Cst.
Import ListNotations.

Lemma set_nth_length {A} n (x : A) l : n < length l -> length (set_nth n x l) = length l.
Proof.
  intros H. unfold set_nth. rewrite app_length. cbn [length].
  rewrite firstn_length, skipn_length. lia.
Qed.

Lemma insert_at_length {A} n (x : A) l : n <= length l -> length (insert_at n x l) = S (length l).
Proof.
  intros H. unfold insert_at. rewrite app_length. cbn [length].
  rewrite firstn_length, skipn_length. lia.
Qed.

Lemma skipn_S_app_mid {A} (l1 : list A) y l2 : skipn (S (length l1)) (l1 ++ y :: l2) = l2.
Proof. induction l1 as [|x l1 IH]; cbn in *; [reflexivity|exact IH]. Qed.

Lemma set_nth_app_mid {A} (l1 : list A) y x l2 :
  set_nth (length l1) x (l1 ++ y :: l2) = l1 ++ x :: l2.
Proof.
  unfold set_nth.
  rewrite firstn_app, Nat.sub_diag, firstn_all. cbn [firstn]. rewrite app_nil_r.
  rewrite skipn_S_app_mid. reflexivity.
Qed.

Lemma insert_at_app_mid {A} (l1 : list A) x l2 :
  insert_at (length l1) x (l1 ++ l2) = l1 ++ x :: l2.
Proof.
  unfold insert_at.
  rewrite firstn_app, Nat.sub_diag, firstn_all. cbn [firstn]. rewrite app_nil_r.
  rewrite skipn_app, Nat.sub_diag, skipn_all. reflexivity.
Qed.

Lemma Forall2_length {A B} (R : A -> B -> Prop) l l' : Forall2 R l l' -> length l = length l'.
Proof. induction 1; cbn; congruence. Qed.

Lemma Forall2_set_nth {A B} (R : A -> B -> Prop) l1 y1 l2 l1' y2 l2' x1 x2 :
  Forall2 R (l1 ++ y1 :: l2) (l1' ++ y2 :: l2') -> length l1 = length l1' -> R x1 x2 ->
  Forall2 R (l1 ++ x1 :: l2) (l1' ++ x2 :: l2').
Proof.
  intros H Hl Hx.
  apply Forall2_app_inv_l in H. destruct H as (a & b & Ha & Hb & Heq).
  assert (length a = length l1') by (apply Forall2_length in Ha; lia).
  assert (a = l1' /\ b = y2 :: l2') as [-> ->].
  { clear - Heq H. revert l1' Heq H. induction a as [|z a IH]; intros [|w l1'] Heq H; cbn in *; try lia.
    - split; congruence.
    - injection Heq as -> Heq. destruct (IH l1' Heq) as [-> ->]; [lia|]. split; reflexivity. }
  inversion Hb; subst.
  apply Forall2_app; [assumption|]. constructor; assumption.
Qed.

Lemma app_eq_len {A} (a b c d : list A) : a ++ b = c ++ d -> length a = length c -> a = c /\ b = d.
Proof.
  revert c. induction a as [|x a IH]; intros [|y c] H Hl; cbn in *; try lia.
  - split; congruence.
  - injection H as -> H. destruct (IH c H) as [-> ->]; [lia|]. split; reflexivity.
Qed.

Lemma Forall2_insert {A B} (R : A -> B -> Prop) l1 l2 l1' l2' x1 x2 :
  Forall2 R (l1 ++ l2) (l1' ++ l2') -> length l1 = length l1' -> R x1 x2 ->
  Forall2 R (l1 ++ x1 :: l2) (l1' ++ x2 :: l2').
Proof.
  intros H Hl Hx.
  apply Forall2_app_inv_l in H. destruct H as (a & b & Ha & Hb & Heq).
  assert (length a = length l1') by (apply Forall2_length in Ha; lia).
  destruct (app_eq_len _ _ _ _ (eq_sym Heq)) as [-> ->]; [lia|].
  apply Forall2_app; [assumption|]. constructor; assumption.
Qed.

Lemma firstn_app_exact {A} (l1 l2 : list A) : firstn (length l1) (l1 ++ l2) = l1.
Proof. rewrite firstn_app, Nat.sub_diag, firstn_all. cbn. apply app_nil_r. Qed.

Lemma skipn_app_exact {A} (l1 l2 : list A) : skipn (length l1) (l1 ++ l2) = l2.
Proof. rewrite skipn_app, Nat.sub_diag, skipn_all. reflexivity. Qed.

Lemma split_at {A} (l : list A) n : n <= length l -> exists a b, l = a ++ b /\ length a = n.
Proof.
  intros H. exists (firstn n l), (skipn n l). split.
  - symmetry. apply firstn_skipn.
  - rewrite firstn_length. lia.
Qed.
