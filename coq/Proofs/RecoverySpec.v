(* C14: the recovery set of a repetition or option, as RecoverySetGenerator::run computes it
   (Sema.calc_recovery), is the union of the follow sets of its dominators minus the tokens
   that can start or follow its body; the dominators are those of Dominators.v. *)
From Coq Require Import List Arith Lia Bool.
From LV Require Import Sema SetLemmas Dominators.
Import ListNotations.

Lemma mem_diff x s1 s2 : mem x (diff s1 s2) = true <-> mem x s1 = true /\ mem x s2 = false.
Proof.
  unfold diff. rewrite (mem_In x (filter _ _)), filter_In, negb_true_iff, <- mem_In. reflexivity.
Qed.

Lemma mem_fold_union (fo : smap) x l : forall s,
  mem x (fold_left (fun s dn => union s (get fo dn)) l s) = true <->
  mem x s = true \/ exists dn, In dn l /\ mem x (get fo dn) = true.
Proof.
  induction l as [|y r IH]; intros s; cbn [fold_left].
  - split; [auto|]. intros [H|(dn & [] & _)]. assumption.
  - rewrite IH, mem_union. split.
    + intros [[H|H]|(dn & Hd & H)]; auto.
      * right. exists y. split; [left; reflexivity|assumption].
      * right. exists dn. split; [right; assumption|assumption].
    + intros [H|(dn & [<-|Hd] & H)]; auto. right. exists dn. auto.
Qed.

Fixpoint nodup_b (l : list nat) : bool :=
  match l with [] => true | x :: r => negb (existsb (Nat.eqb x) r) && nodup_b r end.

Section Rec.
Variable g : grammar.
Variable fi fo : smap.
Variable d : dmap.

Definition loop_body (n : nat) : option regex :=
  match node_of g n with
  | Some (RStar _ op) | Some (RPlus _ op) | Some (ROpt _ op) => Some op
  | _ => None
  end.

Definition rec_step (rc : smap) (n : nat) : smap :=
  match node_of g n with
  | Some (RStar _ op) | Some (RPlus _ op) | Some (ROpt _ op) =>
    let all := fold_left (fun s dn => union s (get fo dn)) (dget d n) (get rc n) in
    put rc n (diff (diff all (get fi (rid_of op))) (get fo (rid_of op)))
  | _ => rc
  end.

Lemma rec_step_other rc n m : m <> n -> get (rec_step rc n) m = get rc m.
Proof.
  intros Hne. unfold rec_step.
  destruct (node_of g n) as [[ | | | | |? ?|? ?|? ?| | ]|]; try reflexivity; apply get_put_other; assumption.
Qed.

Lemma rec_fold_other l : forall rc m, ~ In m l -> get (fold_left rec_step l rc) m = get rc m.
Proof.
  induction l as [|n r IH]; intros rc m Hm; cbn [fold_left]; [reflexivity|].
  rewrite IH by (intro H; apply Hm; right; assumption).
  apply rec_step_other. intro H. apply Hm. left. auto.
Qed.

Lemma rec_step_same rc n op :
  loop_body n = Some op ->
  get (rec_step rc n) n =
  diff (diff (fold_left (fun s dn => union s (get fo dn)) (dget d n) (get rc n)) (get fi (rid_of op))) (get fo (rid_of op)).
Proof.
  unfold loop_body, rec_step.
  destruct (node_of g n) as [[ | | | | |? ?|? ?|? ?| | ]|]; try discriminate; intros [= ->]; apply get_put_same.
Qed.

Theorem recovery_formula l rc0 n op :
  nodup_b l = true -> In n l -> loop_body n = Some op -> get rc0 n = [] ->
  forall s, mem s (get (fold_left rec_step l rc0) n) = true <->
    (exists dn, In dn (dget d n) /\ mem s (get fo dn) = true)
    /\ mem s (get fi (rid_of op)) = false /\ mem s (get fo (rid_of op)) = false.
Proof.
  revert rc0. induction l as [|m r IH]; intros rc0 Hnd Hin Hb H0 s; [contradiction|].
  cbn [nodup_b] in Hnd. apply andb_prop in Hnd. destruct Hnd as (Hm & Hnd).
  cbn [fold_left]. destruct (Nat.eq_dec m n) as [->|Hne].
  - assert (Hnr : ~ In n r).
    { intro H. apply negb_true_iff in Hm.
      assert (existsb (Nat.eqb n) r = true); [|congruence].
      apply existsb_exists. exists n. split; [assumption|apply Nat.eqb_refl]. }
    rewrite rec_fold_other by assumption. rewrite (rec_step_same rc0 n op Hb).
    rewrite !mem_diff, mem_fold_union, H0. cbn [mem existsb]. split.
    + intros (([H|H] & H1) & H2); [discriminate|auto].
    + intros (H & H1 & H2). auto.
  - destruct Hin as [Hin|Hin]; [contradiction|].
    apply IH; try assumption. rewrite rec_step_other by auto. assumption.
Qed.

End Rec.

(* what calc_recovery returns *)
Theorem calc_recovery_spec g fi fo used fuel order rc d pg sb :
  body_of g (g_start g) = Some sb ->
  calc_recovery g fi fo used fuel order = Some (rc, d, pg) ->
  let start := rid_of sb in
  let nns := order (map fst pg) in
  graph_ok pg start nns = true -> dom_fixed pg start d = true -> nodup_b nns = true ->
  (* the dominator sets are the dominators of the predecessor graph *)
  (forall n x, In n (nadd start nns) -> In x (nadd start nns) -> (In x (dget d n) <-> dominates pg start x n))
  (* and every loop/option gets the dominator-follow set minus what starts or follows its body *)
  /\ (forall n op, In n nns -> loop_body g n = Some op ->
        forall s, mem s (get rc n) = true <->
          (exists dn, In dn (dget d n) /\ mem s (get fo dn) = true)
          /\ mem s (get fi (rid_of op)) = false /\ mem s (get fo (rid_of op)) = false).
Proof.
  intros Hb H start nns Hg Hf Hnd. unfold calc_recovery in H. rewrite Hb in H.
  destruct (build_preds g used (rid_of sb)) as [u pg'] eqn:Ebp.
  destruct (dom_iter fuel pg' (order (map fst pg')) _) as [d'|] eqn:Ed; [|discriminate].
  injection H as <- <- <-. split.
  - intros n x Hn Hx. eapply dominators_exact; eassumption.
  - intros n op Hn Hl s.
    match goal with |- context [fold_left ?f _ ?r0] =>
      change f with (rec_step g fi fo d') end.
    apply recovery_formula; try assumption.
    destruct sb; cbn; try reflexivity; unfold upd; cbn;
      match goal with |- (if ?c then _ else _) = _ => destruct c; reflexivity end.
Qed.

(* the three certificates for the graph that analyse builds (iteration order = key order) *)
Definition recovery_cert (g : grammar) (d : dmap) : bool :=
  match body_of g (g_start g) with
  | Some sb =>
    let '(u, pg) := build_preds g (calc_used g) (rid_of sb) in
    let nns := map fst pg in
    graph_ok pg (rid_of sb) nns && dom_fixed pg (rid_of sb) d && nodup_b nns
  | None => true
  end.

(* the start node lies on every path, so everything that may follow the start body (the end-of-input markers)
   is in the recovery set of every loop/option unless it can start or follow the loop body *)
Lemma start_on_every_path pg start n l : reach pg start n l -> In start l.
Proof. induction 1 as [|v u l Hr IH Hu]; [left; reflexivity|right; assumption]. Qed.

Theorem end_of_input_recovered g fi fo used fuel order rc d pg sb :
  body_of g (g_start g) = Some sb ->
  calc_recovery g fi fo used fuel order = Some (rc, d, pg) ->
  let start := rid_of sb in
  let nns := order (map fst pg) in
  graph_ok pg start nns = true -> dom_fixed pg start d = true -> nodup_b nns = true ->
  forall n op, In n nns -> loop_body g n = Some op ->
  forall s, mem s (get fo start) = true ->
    mem s (get rc n) = true \/ mem s (get fi (rid_of op)) = true \/ mem s (get fo (rid_of op)) = true.
Proof.
  intros Hb H start nns Hg Hf Hnd n op Hn Hl s Hs.
  destruct (calc_recovery_spec g fi fo used fuel order rc d pg sb Hb H Hg Hf Hnd) as (Hdom & Hrec).
  destruct (mem s (get fi (rid_of op))) eqn:E1; [auto|].
  destruct (mem s (get fo (rid_of op))) eqn:E2; [auto|].
  left. apply (Hrec n op Hn Hl s). split; [|auto].
  exists start. split; [|exact Hs].
  apply (Hdom n start).
  - apply Dominators.In_nadd. right. assumption.
  - apply Dominators.In_nadd. left. reflexivity.
  - intros l Hr. eapply start_on_every_path. eassumption.
Qed.
