(* C14: the dominator map that the elimination loop returns always satisfies the fixpoint
   inclusions - the certificate [dom_fixed] of Dominators.v is a theorem.  Argument: the map
   only shrinks, every stored set stays a superset of what the next recomputation yields
   (a pre-fixpoint from above), the loop stops after a sweep in which every recomputed set has
   the length of the stored one, and for duplicate-free sets inclusion plus equal length is
   equality. *)
From Coq Require Import List Arith Lia Bool.
From LV Require Import Sema SetLemmas Dominators.
Import ListNotations.

Section DF.
Variable pg : pgraph.
Variable start : nat.
Variable nns : list nat.
Let nodes := nadd start nns.

Hypothesis Hg : graph_ok pg start nns = true.
Hypothesis Hnd : NoDup nns.
Hypothesis Hstart : ~ In start nns.

Definition newdom (d : dmap) (n : nat) : list nat :=
  match dget pg n with
  | [] => [n]
  | p :: ps => nadd n (fold_left (fun a q => ninter a (dget d q)) ps (dget d p))
  end.

Lemma preds_nonempty n : In n nns -> dget pg n <> [].
Proof.
  intros Hn. unfold graph_ok in Hg. apply andb_prop in Hg. destruct Hg as (G1 & _).
  rewrite forallb_forall in G1. specialize (G1 n Hn). destruct (dget pg n); [discriminate|discriminate].
Qed.

Lemma In_newdom d n x : In n nns ->
  (In x (newdom d n) <-> x = n \/ forall q, In q (dget pg n) -> In x (dget d q)).
Proof.
  intros Hn. unfold newdom. pose proof (preds_nonempty n Hn) as Hp.
  destruct (dget pg n) as [|p ps]; [contradiction|].
  rewrite (In_nadd x n), (In_fold_ninter d x ps). split.
  - intros [->|(H1 & H2)]; [left; reflexivity|right]. intros q [<-|Hq]; auto.
  - intros [->|H]; [left; reflexivity|right]. split; [apply H; left; reflexivity|]. intros q Hq. apply H. right. assumption.
Qed.

Lemma NoDup_ninter a b : NoDup a -> NoDup (ninter a b).
Proof. intros H. unfold ninter. apply NoDup_filter. assumption. Qed.

Lemma NoDup_nadd x l : NoDup l -> NoDup (nadd x l).
Proof.
  intros H. unfold nadd. destruct (nmem x l) eqn:E; [assumption|].
  assert (Hx : ~ In x l) by (intro Hi; apply (nmem_In x l) in Hi; congruence).
  clear E. induction H as [|a r Ha Hr IH]; cbn [app]; [constructor; [intros []|constructor]|].
  constructor.
  - rewrite in_app_iff. intros [Hi|[Hi|[]]]; [contradiction|]. apply Hx. left. symmetry. assumption.
  - apply IH. intro Hi. apply Hx. right. assumption.
Qed.

Lemma NoDup_fold_ninter (d : dmap) ps : forall a, NoDup a -> NoDup (fold_left (fun a q => ninter a (dget d q)) ps a).
Proof. induction ps as [|q r IH]; intros a H; cbn [fold_left]; [assumption|]. apply IH, NoDup_ninter, H. Qed.

(* invariant of the iteration *)
Record DI (d : dmap) : Prop := {
  di_nd : forall k, NoDup (dget d k);
  di_pre : forall n, In n nns -> incl (newdom d n) (dget d n);
  di_start : dget d start = [start]
}.

Lemma newdom_nd d n : (forall k, NoDup (dget d k)) -> NoDup (newdom d n).
Proof.
  intros H. unfold newdom. destruct (dget pg n) as [|p ps]; [repeat constructor; intros []|].
  apply NoDup_nadd, NoDup_fold_ninter, H.
Qed.

Lemma newdom_mono d d' n : In n nns -> (forall k, incl (dget d' k) (dget d k)) -> incl (newdom d' n) (newdom d n).
Proof.
  intros Hn Hle x Hx. apply (In_newdom d' n x Hn) in Hx. apply (In_newdom d n x Hn).
  destruct Hx as [->|H]; [left; reflexivity|right]. intros q Hq. apply Hle. apply H. assumption.
Qed.

Lemma DI_update d n : DI d -> In n nns -> DI (dput d n (newdom d n)).
Proof.
  intros [H1 H2 H3] Hn.
  assert (Hle : forall k, incl (dget (dput d n (newdom d n)) k) (dget d k)).
  { intros k. destruct (Nat.eq_dec k n) as [->|Hne].
    - rewrite dget_dput_same. apply H2. assumption.
    - rewrite dget_dput_other by assumption. apply incl_refl. }
  constructor.
  - intros k. destruct (Nat.eq_dec k n) as [->|Hne].
    + rewrite dget_dput_same. apply newdom_nd. assumption.
    + rewrite dget_dput_other by assumption. apply H1.
  - intros m Hm. destruct (Nat.eq_dec m n) as [->|Hne].
    + rewrite dget_dput_same. apply newdom_mono; assumption.
    + rewrite dget_dput_other by assumption.
      eapply incl_tran; [apply newdom_mono; [assumption|exact Hle]|apply H2; assumption].
  - rewrite dget_dput_other; [assumption|]. intros ->. contradiction.
Qed.

(* one sweep *)
Lemma dom_pass_step order : forall d ch d' ch',
  (forall n, In n order -> In n nns) -> DI d ->
  dom_pass pg order d ch = (d', ch') ->
  DI d' /\ (ch = true -> ch' = true)
  /\ (ch' = false -> d' = d /\ forall n, In n order -> length (newdom d n) = length (dget d n)).
Proof.
  unfold dom_pass. induction order as [|n r IH]; intros d ch d' ch' Hsub HD H; cbn [fold_left] in H.
  - injection H as <- <-. split; [assumption|]. split; [auto|]. intros _. split; [reflexivity|intros n []].
  - assert (Hn : In n nns) by (apply Hsub; left; reflexivity).
    assert (Hsub' : forall m, In m r -> In m nns) by (intros m Hm; apply Hsub; right; assumption).
    pose proof (preds_nonempty n Hn) as Hp.
    assert (Hnew : newdom d n = match dget pg n with [] => [n] | p :: ps => nadd n (fold_left (fun a q => ninter a (dget d q)) ps (dget d p)) end) by reflexivity.
    destruct (dget pg n) as [|p ps] eqn:Ep; [contradiction|].
    rewrite <- Hnew in H.
    set (c1 := ch || negb (Nat.eqb (length (newdom d n)) (length (dget d n)))) in *.
    destruct c1 eqn:Ec.
    + destruct (IH _ _ _ _ Hsub' (DI_update d n HD Hn) H) as (D1 & C1 & _).
      split; [assumption|]. split; [intros _; apply C1; reflexivity|]. intros Hf. rewrite C1 in Hf by reflexivity. discriminate.
    + destruct (IH _ _ _ _ Hsub' HD H) as (D1 & C1 & F1).
      apply orb_false_elim in Ec. destruct Ec as (Ech & Elen).
      apply negb_false_iff, Nat.eqb_eq in Elen.
      split; [assumption|]. split; [intros Hc; congruence|].
      intros Hf. destruct (F1 Hf) as (-> & Hl). split; [reflexivity|].
      intros m [<-|Hm]; [assumption|apply Hl; assumption].
Qed.

Lemma dom_iter_DI : forall fuel d d', DI d -> dom_iter fuel pg nns d = Some d' ->
  DI d' /\ forall n, In n nns -> length (newdom d' n) = length (dget d' n).
Proof.
  induction fuel as [|fuel IH]; intros d d' HD H; cbn [dom_iter] in H; [discriminate|].
  destruct (dom_pass pg nns d false) as [d1 ch] eqn:Ep.
  destruct (dom_pass_step nns d false d1 ch (fun n H => H) HD Ep) as (D1 & _ & F1).
  destruct ch; [eapply IH; eassumption|].
  injection H as <-. destruct (F1 eq_refl) as (-> & Hl). split; assumption.
Qed.

Lemma d_init_DI : DI (d_init start nns).
Proof.
  assert (Hget : forall k, dget (d_init start nns) k = if nmem k nns then nodes else dget (dput [] start [start]) k).
  { intros k. unfold d_init. apply d_init_get. }
  assert (Hnodes : NoDup nodes) by (apply NoDup_nadd; assumption).
  constructor.
  - intros k. rewrite Hget. destruct (nmem k nns); [assumption|].
    destruct (Nat.eq_dec k start) as [->|Hne]; [rewrite dget_dput_same; repeat constructor; intros []|].
    rewrite dget_dput_other by assumption. constructor.
  - intros n Hn x Hx. rewrite Hget. apply (nmem_In n nns) in Hn as Hn'. rewrite Hn'.
    apply (In_newdom _ n x Hn) in Hx. destruct Hx as [->|Hx]; [apply In_nadd; right; assumption|].
    pose proof (preds_nonempty n Hn) as Hp. destruct (dget pg n) as [|p ps] eqn:Ep; [contradiction|].
    specialize (Hx p (or_introl eq_refl)). rewrite Hget in Hx.
    destruct (nmem p nns); [assumption|].
    destruct (Nat.eq_dec p start) as [->|Hne].
    + rewrite dget_dput_same in Hx. destruct Hx as [<-|[]]. apply In_nadd. left. reflexivity.
    + rewrite dget_dput_other in Hx by assumption. destruct Hx.
  - rewrite Hget. destruct (nmem start nns) eqn:E; [apply nmem_In in E; contradiction|]. apply dget_dput_same.
Qed.

Theorem dom_fixed_holds fuel d :
  (forall k, In k (map fst pg) -> In k nns) ->
  dom_iter fuel pg nns (d_init start nns) = Some d ->
  dom_fixed pg start d = true.
Proof.
  intros Hkeys H. destruct (dom_iter_DI fuel _ _ d_init_DI H) as ([H1 H2 H3] & Hl).
  unfold dom_fixed. rewrite H3, Nat.eqb_refl. cbn [andb].
  apply forallb_forall. intros n Hn. apply Hkeys in Hn.
  apply forallb_forall. intros x Hx.
  assert (Hback : incl (dget d n) (newdom d n)).
  { apply NoDup_length_incl; [apply newdom_nd; assumption|rewrite Hl by assumption; lia|apply H2; assumption]. }
  apply Hback in Hx. apply (In_newdom d n x Hn) in Hx. destruct Hx as [->|Hx].
  - rewrite Nat.eqb_refl. reflexivity.
  - apply orb_true_intro. right. apply forallb_forall. intros q Hq. apply nmem_In. apply Hx. assumption.
Qed.

End DF.

(* exactness without the fixpoint certificate *)
Theorem dominators_exact_any pg start nns fuel d :
  graph_ok pg start nns = true -> NoDup nns -> ~ In start nns ->
  (forall k, In k (map fst pg) -> In k nns) ->
  dom_iter fuel pg nns (d_init start nns) = Some d ->
  forall n x, In n (nadd start nns) -> In x (nadd start nns) ->
    (In x (dget d n) <-> dominates pg start x n).
Proof.
  intros Hg Hnd Hs Hk Hi. eapply dominators_exact; [exact Hg|exact Hi|].
  eapply dom_fixed_holds; eassumption.
Qed.
