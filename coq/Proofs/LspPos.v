(* LspPos.v - position conversion of the language server (Model/Lsp.v part 2b):
   for every text, line, character and byte offset, no bound. *)
From Coq Require Import List Arith NArith Bool Lia.
From LV Require Import Lsp.
Import ListNotations.

(* ------------------------------------------------------------------ lengths *)

Lemma utf8_len_pos : forall c, 1 <= utf8_len c.
Proof. intro c. unfold utf8_len. repeat destruct (_ <? _)%N; lia. Qed.

Lemma utf16_len_pos : forall c, 1 <= utf16_len c.
Proof. intro c. unfold utf16_len. destruct (_ <? _)%N; lia. Qed.

Lemma utf8_len_nl : forall c, (c =? NL)%N = true -> utf8_len c = 1.
Proof. intros c Hc. apply N.eqb_eq in Hc. subst c. reflexivity. Qed.

Lemma blen_app : forall a b, blen (a ++ b) = blen a + blen b.
Proof. induction a as [|c a IH]; intro b; simpl; [reflexivity|]. rewrite IH. lia. Qed.

Lemma ulen_app : forall a b, ulen (a ++ b) = ulen a + ulen b.
Proof. induction a as [|c a IH]; intro b; simpl; [reflexivity|]. rewrite IH. lia. Qed.

Lemma blen_firstn_le : forall k t, blen (firstn k t) <= blen t.
Proof.
  intros k t. rewrite <- (firstn_skipn k t) at 2. rewrite blen_app. lia.
Qed.

Lemma no_nl_app : forall a b, no_nl (a ++ b) = no_nl a && no_nl b.
Proof. intros a b. unfold no_nl. apply forallb_app. Qed.

(* ------------------------------------------------------------------ lines *)

Lemma split_nl_hd : forall t, exists ls, split_nl t = first_line t :: ls.
Proof.
  induction t as [|c t IH]; simpl.
  - eauto.
  - destruct (c =? NL)%N; [eauto|]. destruct IH as [ls Hls]. rewrite Hls. eauto.
Qed.

Lemma split_nl_cons_other : forall c t, (c =? NL)%N = false ->
  split_nl (c :: t) = (c :: first_line t) :: tl (split_nl t).
Proof.
  intros c t Hc. simpl. rewrite Hc. destruct (split_nl_hd t) as [ls Hls]. rewrite Hls. reflexivity.
Qed.

Lemma first_line_prefix : forall t, exists rest, t = first_line t ++ rest.
Proof.
  induction t as [|c t IH]; simpl.
  - exists []. reflexivity.
  - destruct (c =? NL)%N.
    + exists (c :: t). reflexivity.
    + destruct IH as [rest Hr]. exists rest. simpl. rewrite <- Hr. reflexivity.
Qed.

Lemma first_line_length : forall t, length (first_line t) <= length t.
Proof.
  induction t as [|c t IH]; simpl; [lia|]. destruct (c =? NL)%N; simpl; lia.
Qed.

Lemma firstn_first_line : forall t k, k <= length (first_line t) ->
  firstn k (first_line t) = firstn k t.
Proof.
  induction t as [|c t IH]; intros k Hk; simpl in *.
  - reflexivity.
  - destruct (c =? NL)%N; simpl in *.
    + replace k with 0 by lia. reflexivity.
    + destruct k as [|k]; [reflexivity|]. simpl. f_equal. apply IH. lia.
Qed.

Lemma split_nl_nonl_app : forall acc s, no_nl acc = true ->
  split_nl (acc ++ s) = (acc ++ first_line s) :: tl (split_nl s).
Proof.
  induction acc as [|c acc IH]; intros s Hn.
  - simpl. destruct (split_nl_hd s) as [ls Hls]. rewrite Hls. reflexivity.
  - simpl in Hn. apply andb_true_iff in Hn. destruct Hn as [Hc Hn].
    apply negb_true_iff in Hc.
    change ((c :: acc) ++ s) with (c :: (acc ++ s)).
    rewrite (split_nl_cons_other c (acc ++ s) Hc).
    rewrite (IH s Hn). simpl.
    destruct (first_line_prefix (acc ++ s)) as [rest Hrest].
    f_equal. f_equal.
    (* first_line (acc ++ s) = acc ++ first_line s *)
    clear - Hn. induction acc as [|d acc IHa]; simpl; [reflexivity|].
    simpl in Hn. apply andb_true_iff in Hn. destruct Hn as [Hd Hn]. apply negb_true_iff in Hd.
    rewrite Hd. f_equal. apply IHa. exact Hn.
Qed.

Lemma split_nl_nonl_nl : forall acc c s, no_nl acc = true -> (c =? NL)%N = true ->
  split_nl (acc ++ c :: s) = acc :: split_nl s.
Proof.
  intros acc c s Hn Hc. rewrite (split_nl_nonl_app acc (c :: s) Hn). simpl. rewrite Hc.
  rewrite app_nil_r. reflexivity.
Qed.

(* ------------------------------------------------------------------ position -> offset *)

Lemma scan_spec : forall r off units ch,
  exists k, k <= length (first_line r) /\ scan r off units ch = off + blen (firstn k (first_line r)).
Proof.
  induction r as [|c r IH]; intros off units ch; simpl.
  - exists 0. simpl. split; lia.
  - destruct (ch <=? units) eqn:Hle; simpl.
    + exists 0. simpl. split; lia.
    + destruct (c =? NL)%N eqn:Hnl; simpl.
      * exists 0. simpl. split; lia.
      * destruct (c =? CR)%N eqn:Hcr; simpl.
        -- exists 0. simpl. split; lia.
        -- destruct (IH (off + utf8_len c) (units + utf16_len c) ch) as [k [Hk Hs]].
           exists (S k). simpl. split; [lia|]. rewrite Hs. lia.
Qed.

Lemma drop_lines_some : forall t l off r a,
  drop_lines t l off = Some (r, a) ->
  exists pre, t = pre ++ r /\ a = off + blen pre
              /\ nth_error (split_nl t) l = Some (first_line r) /\ blen pre = line_off t l.
Proof.
  induction t as [|c t IH]; intros l off r a H.
  - destruct l as [|l]; simpl in H; [|discriminate].
    inversion H; subst. exists []. repeat split; try reflexivity; simpl; lia.
  - destruct l as [|l].
    + simpl in H. inversion H; subst. exists []. split; [reflexivity|]. split; [simpl; lia|]. split.
      * destruct (split_nl_hd (c :: t)) as [ls Hls]. rewrite Hls. reflexivity.
      * reflexivity.
    + simpl in H. destruct (c =? NL)%N eqn:Hc.
      * destruct (IH _ _ _ _ H) as [pre [Ht [Ha [Hn Hb]]]].
        exists (c :: pre). split; [simpl; rewrite <- Ht; reflexivity|].
        split; [simpl; lia|]. split.
        -- simpl. rewrite Hc. simpl. exact Hn.
        -- unfold line_off. simpl. rewrite Hc. simpl. fold (line_off t l). rewrite <- Hb.
           rewrite (utf8_len_nl c Hc). lia.
      * destruct (IH _ _ _ _ H) as [pre [Ht [Ha [Hn Hb]]]].
        exists (c :: pre). split; [simpl; rewrite <- Ht; reflexivity|].
        split; [simpl; lia|].
        unfold line_off in *.
        rewrite (split_nl_cons_other c t Hc).
        destruct (split_nl_hd t) as [ls Hls]. rewrite Hls in *. split.
        -- simpl. simpl in Hn. exact Hn.
        -- simpl in *. lia.
Qed.

Lemma drop_lines_none : forall t l off, drop_lines t l off = None -> length (split_nl t) <= l.
Proof.
  induction t as [|c t IH]; intros l off H.
  - destruct l; simpl in H; [discriminate|]. simpl. lia.
  - destruct l as [|l]; simpl in H; [discriminate|].
    destruct (c =? NL)%N eqn:Hc.
    + simpl. rewrite Hc. simpl. apply IH in H. lia.
    + rewrite (split_nl_cons_other c t Hc). apply IH in H.
      destruct (split_nl_hd t) as [ls Hls]. rewrite Hls in *. simpl in *. lia.
Qed.

(* the addressed line exists: the offset lies in that line, on a character boundary of it;
   it does not exist: the end of the document *)
Theorem position_to_offset_in_line : forall t l ch ln,
  nth_error (split_nl t) l = Some ln ->
  exists k, k <= length ln /\ position_to_offset t l ch = line_off t l + blen (firstn k ln).
Proof.
  intros t l ch ln Hln. unfold position_to_offset.
  destruct (drop_lines t l 0) as [[r a]|] eqn:Hd.
  - destruct (drop_lines_some _ _ _ _ _ Hd) as [pre [Ht [Ha [Hn Hb]]]].
    rewrite Hln in Hn. inversion Hn; subst ln.
    destruct (scan_spec r a 0 ch) as [k [Hk Hs]]. exists k. split; [exact Hk|]. rewrite Hs. lia.
  - apply drop_lines_none in Hd. apply nth_error_None in Hd. rewrite Hd in Hln. discriminate.
Qed.

Theorem position_to_offset_no_line : forall t l ch,
  nth_error (split_nl t) l = None -> position_to_offset t l ch = blen t.
Proof.
  intros t l ch Hln. unfold position_to_offset.
  destruct (drop_lines t l 0) as [[r a]|] eqn:Hd; [|reflexivity].
  destruct (drop_lines_some _ _ _ _ _ Hd) as [pre [Ht [Ha [Hn Hb]]]].
  rewrite Hln in Hn. discriminate.
Qed.

(* a character boundary of the text: the byte length of a prefix of code points *)
Theorem position_to_offset_boundary : forall t l ch,
  exists k, k <= length t /\ position_to_offset t l ch = blen (firstn k t).
Proof.
  intros t l ch. unfold position_to_offset.
  destruct (drop_lines t l 0) as [[r a]|] eqn:Hd.
  - destruct (drop_lines_some _ _ _ _ _ Hd) as [pre [Ht [Ha [Hn Hb]]]].
    destruct (scan_spec r a 0 ch) as [k [Hk Hs]].
    pose proof (first_line_length r) as Hlen.
    exists (length pre + k). split.
    + rewrite Ht, app_length. lia.
    + rewrite Hs, Ht. rewrite firstn_app_2, blen_app.
      rewrite (firstn_first_line r k Hk). lia.
  - exists (length t). split; [lia|]. rewrite firstn_all. reflexivity.
Qed.

Theorem position_to_offset_le_len : forall t l ch, position_to_offset t l ch <= blen t.
Proof.
  intros t l ch. destruct (position_to_offset_boundary t l ch) as [k [_ Hk]]. rewrite Hk.
  apply blen_firstn_le.
Qed.

(* ------------------------------------------------------------------ offset -> position *)

Lemma o2p_go_walk : forall pre suf cur line acc,
  o2p_go (pre ++ suf) (cur + blen pre) cur line (ulen acc)
  = Some (fst (walk pre line acc), ulen (snd (walk pre line acc))).
Proof.
  induction pre as [|c p IH]; intros suf cur line acc.
  - simpl. rewrite Nat.add_0_r. destruct suf; simpl; rewrite Nat.eqb_refl; reflexivity.
  - pose proof (utf8_len_pos c) as Hpos.
    change ((c :: p) ++ suf) with (c :: (p ++ suf)).
    cbn [o2p_go blen walk].
    destruct (Nat.eqb_spec cur (cur + (utf8_len c + blen p))) as [He|_]; [lia|].
    destruct (Nat.ltb_spec (cur + (utf8_len c + blen p)) (cur + utf8_len c)) as [Hl|_]; [lia|].
    replace (cur + (utf8_len c + blen p)) with ((cur + utf8_len c) + blen p) by lia.
    destruct (c =? NL)%N.
    + change 0 with (ulen []). apply IH.
    + replace (ulen acc + utf16_len c) with (ulen (acc ++ [c])) by (rewrite ulen_app; simpl; lia).
      apply IH.
Qed.

Lemma walk_spec : forall pre suf line acc l a,
  no_nl acc = true -> walk pre line acc = (l, a) ->
  line <= l /\ no_nl a = true
  /\ nth_error (split_nl (acc ++ pre ++ suf)) (l - line) = Some (a ++ first_line suf).
Proof.
  induction pre as [|c p IH]; intros suf line acc l a Hacc Hw.
  - simpl in Hw. inversion Hw; subst. split; [lia|]. split; [exact Hacc|].
    rewrite Nat.sub_diag. simpl. rewrite (split_nl_nonl_app a suf Hacc). reflexivity.
  - simpl in Hw. destruct (c =? NL)%N eqn:Hc.
    + destruct (IH suf (S line) [] l a eq_refl Hw) as [Hle [Hna Hn]].
      split; [lia|]. split; [exact Hna|].
      change ((c :: p) ++ suf) with (c :: (p ++ suf)).
      rewrite (split_nl_nonl_nl acc c (p ++ suf) Hacc Hc).
      replace (l - line) with (S (l - S line)) by lia. simpl. exact Hn.
    + assert (Hacc' : no_nl (acc ++ [c]) = true).
      { rewrite no_nl_app, Hacc. simpl. rewrite Hc. reflexivity. }
      destruct (IH suf line (acc ++ [c]) l a Hacc' Hw) as [Hle [Hna Hn]].
      split; [exact Hle|]. split; [exact Hna|].
      rewrite <- app_assoc in Hn. exact Hn.
Qed.

(* every character boundary of the text - the end of the text included - converts, and the
   position lies inside the document: its line exists and its character is at most the UTF-16
   length of that line (the '\r' of a "\r\n" counts as part of the line) *)
Theorem offset_to_position_inside : forall t k,
  exists l c ln, offset_to_position t (blen (firstn k t)) = Some (l, c)
                 /\ nth_error (split_nl t) l = Some ln /\ c <= ulen ln.
Proof.
  intros t k. unfold offset_to_position.
  pose proof (o2p_go_walk (firstn k t) (skipn k t) 0 0 []) as Hgo.
  rewrite firstn_skipn in Hgo. simpl in Hgo.
  destruct (walk (firstn k t) 0 []) as [l a] eqn:Hw.
  destruct (walk_spec (firstn k t) (skipn k t) 0 [] l a eq_refl Hw) as [_ [_ Hn]].
  simpl in Hn. rewrite firstn_skipn, Nat.sub_0_r in Hn.
  exists l, (ulen a), (a ++ first_line (skipn k t)).
  split; [exact Hgo|]. split; [exact Hn|]. rewrite ulen_app. lia.
Qed.

(* the position is the number of newlines in front of the offset and the UTF-16 length of what
   stands between the last of them and the offset *)
Theorem offset_to_position_exact : forall t k,
  offset_to_position t (blen (firstn k t))
  = Some (line_of (firstn k t), ulen (line_prefix (firstn k t))).
Proof.
  intros t k. unfold offset_to_position, line_of, line_prefix.
  pose proof (o2p_go_walk (firstn k t) (skipn k t) 0 0 []) as Hgo.
  rewrite firstn_skipn in Hgo. exact Hgo.
Qed.

(* conversely the conversion fails (the server unwraps: the analysis thread dies) exactly for
   offsets that are not character boundaries of the text *)
Lemma o2p_go_some_boundary : forall t off cur line units p,
  o2p_go t off cur line units = Some p -> exists k, off = cur + blen (firstn k t).
Proof.
  induction t as [|c t IH]; intros off cur line units p H.
  - simpl in H. destruct (Nat.eqb_spec cur off) as [He|Hne]; [|discriminate].
    exists 0. simpl. lia.
  - cbn [o2p_go] in H. destruct (Nat.eqb_spec cur off) as [He|Hne].
    + exists 0. simpl. lia.
    + destruct (off <? cur + utf8_len c); [discriminate|].
      destruct (c =? NL)%N; apply IH in H; destruct H as [k Hk]; exists (S k); simpl; lia.
Qed.

Theorem offset_to_position_none_off_boundary : forall t off,
  (forall k, off <> blen (firstn k t)) -> offset_to_position t off = None.
Proof.
  intros t off Hno. unfold offset_to_position.
  destruct (o2p_go t off 0 0 0) as [p|] eqn:H; [|reflexivity].
  apply o2p_go_some_boundary in H. destruct H as [k Hk]. exfalso. apply (Hno k). lia.
Qed.

(* ------------------------------------------------------------------ round trip *)

Lemma drop_lines_0 : forall t off, drop_lines t 0 off = Some (t, off).
Proof. intros t off. destruct t; reflexivity. Qed.

Lemma drop_lines_nonl : forall acc c r n off, no_nl acc = true -> (c =? NL)%N = true ->
  drop_lines (acc ++ c :: r) (S n) off = drop_lines r n (off + blen acc + utf8_len c).
Proof.
  induction acc as [|d acc IH]; intros c r n off Hn Hc.
  - simpl. rewrite Hc. f_equal. lia.
  - simpl in Hn. apply andb_true_iff in Hn. destruct Hn as [Hd Hn]. apply negb_true_iff in Hd.
    simpl. rewrite Hd. rewrite (IH c r n _ Hn Hc). f_equal. lia.
Qed.

Lemma drop_walk : forall pre suf line acc l a off,
  no_nl acc = true -> walk pre line acc = (l, a) ->
  line <= l /\ exists s, drop_lines (acc ++ pre ++ suf) (l - line) off = Some (a ++ suf, s)
                         /\ s + blen a = off + blen acc + blen pre.
Proof.
  induction pre as [|c p IH]; intros suf line acc l a off Hacc Hw.
  - simpl in Hw. inversion Hw; subst. split; [lia|]. rewrite Nat.sub_diag. simpl.
    exists off. split; [apply drop_lines_0|lia].
  - simpl in Hw. destruct (c =? NL)%N eqn:Hc.
    + destruct (IH suf (S line) [] l a (off + blen acc + utf8_len c) eq_refl Hw) as [Hle [s [Hd Hs]]].
      split; [lia|]. exists s. split.
      * change ((c :: p) ++ suf) with (c :: (p ++ suf)).
        replace (l - line) with (S (l - S line)) by lia.
        rewrite (drop_lines_nonl acc c (p ++ suf) _ off Hacc Hc). exact Hd.
      * simpl in *. lia.
    + assert (Hacc' : no_nl (acc ++ [c]) = true).
      { rewrite no_nl_app, Hacc. simpl. rewrite Hc. reflexivity. }
      destruct (IH suf line (acc ++ [c]) l a off Hacc' Hw) as [Hle [s [Hd Hs]]].
      split; [exact Hle|]. exists s. split.
      * rewrite <- app_assoc in Hd. exact Hd.
      * rewrite blen_app in Hs. simpl in *. lia.
Qed.

Lemma scan_exact : forall a suf off u,
  no_nl a = true -> no_cr a = true -> scan (a ++ suf) off u (u + ulen a) = off + blen a.
Proof.
  induction a as [|c a IH]; intros suf off u Hn Hr.
  - simpl. rewrite Nat.add_0_r. destruct suf as [|d suf]; simpl; [lia|].
    rewrite Nat.leb_refl. simpl. lia.
  - simpl in Hn, Hr. apply andb_true_iff in Hn. destruct Hn as [Hcn Hn].
    apply andb_true_iff in Hr. destruct Hr as [Hcr Hr].
    apply negb_true_iff in Hcn. apply negb_true_iff in Hcr.
    pose proof (utf16_len_pos c) as Hpos.
    simpl. rewrite Hcn, Hcr.
    destruct (Nat.leb_spec (u + (utf16_len c + ulen a)) u) as [Hl|_]; [lia|]. simpl.
    replace (u + (utf16_len c + ulen a)) with ((u + utf16_len c) + ulen a) by lia.
    rewrite (IH suf _ _ Hn Hr). lia.
Qed.

(* side condition: no '\r' between the start of the offset's line and the offset.  In a text whose
   only '\r' are those of "\r\n" this excludes exactly the offset between '\r' and '\n'. *)
Theorem round_trip : forall t k l c,
  no_cr (line_prefix (firstn k t)) = true ->
  offset_to_position t (blen (firstn k t)) = Some (l, c) ->
  position_to_offset t l c = blen (firstn k t).
Proof.
  intros t k l c Hcr Ho. rewrite offset_to_position_exact in Ho. inversion Ho; subst l c. clear Ho.
  unfold line_of, line_prefix in *.
  destruct (walk (firstn k t) 0 []) as [l a] eqn:Hw. simpl in *.
  destruct (walk_spec (firstn k t) (skipn k t) 0 [] l a eq_refl Hw) as [_ [Hna _]].
  destruct (drop_walk (firstn k t) (skipn k t) 0 [] l a 0 eq_refl Hw) as [_ [s [Hd Hs]]].
  simpl in Hd. rewrite firstn_skipn, Nat.sub_0_r in Hd.
  unfold position_to_offset. rewrite Hd.
  pose proof (scan_exact a (skipn k t) s 0 Hna Hcr) as Hsc. simpl in Hsc. rewrite Hsc.
  simpl in Hs. lia.
Qed.

(* ------------------------------------------------------------------ witnesses *)

(* "a\r\n": the boundary between '\r' and '\n' converts to (0, 2) - one unit behind the line
   "a" as an editor counts it - and does not convert back *)
Lemma round_trip_refuted_inside_crlf :
  let t := [97; 13; 10]%N in
  offset_to_position t 2 = Some (0, 2) /\ position_to_offset t 0 2 = 1.
Proof. vm_compute. split; reflexivity. Qed.

(* a lone '\r' is a line terminator of the protocol, not of the server: "a\rb", the client's
   line 1 does not exist for the server (-> end of the document), and 'b' is reported on line 0 *)
Lemma lone_cr_is_not_a_line_end :
  let t := [97; 13; 98]%N in
  position_to_offset t 1 0 = 3 /\ offset_to_position t 2 = Some (0, 2) /\ position_to_offset t 0 2 = 1.
Proof. vm_compute. repeat split; reflexivity. Qed.

(* inside a surrogate pair: rounded up behind the character *)
Lemma mid_surrogate_rounds_up :
  let t := [97; 128512; 98]%N in
  position_to_offset t 0 1 = 1 /\ position_to_offset t 0 2 = 5 /\ position_to_offset t 0 3 = 5.
Proof. vm_compute. repeat split; reflexivity. Qed.

(* offsets inside a character or behind the end do not convert (span_to_range panics) *)
Lemma offset_to_position_refuted_off_boundary :
  offset_to_position [233; 98]%N 1 = None /\ offset_to_position [233; 98]%N 4 = None.
Proof. vm_compute. split; reflexivity. Qed.

(* non-vacuity: "é😀\r\nb😀" - two-byte, astral, "\r\n", last line without newline *)
Definition ex_text : text := [233; 128512; 13; 10; 98; 128512]%N.

Example ex_positions :
  blen ex_text = 13 /\ split_nl ex_text = [[233; 128512; 13]; [98; 128512]]%N
  /\ map (fun k => offset_to_position ex_text (blen (firstn k ex_text))) [0; 1; 2; 3; 4; 5; 6]
     = [Some (0, 0); Some (0, 1); Some (0, 3); Some (0, 4); Some (1, 0); Some (1, 1); Some (1, 3)]
  /\ map (fun p => position_to_offset ex_text (fst p) (snd p))
         [(0, 0); (0, 1); (0, 2); (0, 3); (0, 4); (0, 99); (1, 0); (1, 2); (1, 3); (1, 4); (2, 0)]
     = [0; 2; 6; 6; 6; 6; 8; 13; 13; 13; 13].
Proof. vm_compute. repeat split; reflexivity. Qed.

Example ex_round_trip_hypothesis :
  forallb (fun k => no_cr (line_prefix (firstn k ex_text))) [0; 1; 2; 4; 5; 6] = true
  /\ no_cr (line_prefix (firstn 3 ex_text)) = false.
Proof. vm_compute. split; reflexivity. Qed.
