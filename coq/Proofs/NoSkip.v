(* C16, third clause: the generated parser never dispatches on a skipped token and the
   lookahead offered to predicates never contains one.  [NS] (the current token is the
   token at the cursor and is not a skipped token) is established by init_skip and
   preserved by every statement of every program (instance of ExecInvariant.exec_I). *)
From Coq Require Import List Arith Lia Bool.
From LV Require Import Cst Tree ABuild Runtime Exec ListLemmas ExecInvariant.
Import ListNotations.

Transparent p_get_state p_set_state p_release p_error p_advance p_advance_with_error p_open p_open_before p_close p_mark p_close_error_node add_event set_in_choice push_assert_diag.

Section NS.
Variable cx : pctx.

Definition NS (st : pstate) : Prop :=
  cur st = nth (pos st) (toks cx) (eoi cx)
  /\ (pos st < length (toks cx) -> is_skipped cx (cur st) = false).

Definition NSsaved (sv : saved) : Prop :=
  sv_cur sv = nth (sv_pos sv) (toks cx) (eoi cx)
  /\ (sv_pos sv < length (toks cx) -> is_skipped cx (sv_cur sv) = false).

Lemma skip_loop_ns : forall fuel p c g p' t' c' g',
  skip_loop cx fuel p c g = (p', t', c', g') ->
  length (toks cx) - p <= fuel ->
  t' = nth p' (toks cx) (eoi cx) /\ (p' < length (toks cx) -> is_skipped cx t' = false).
Proof.
  induction fuel as [|fuel IH]; intros p c g p' t' c' g' H Hf; cbn [skip_loop] in H.
  - injection H as <- <- _ _. split; [rewrite nth_overflow by lia; reflexivity|lia].
  - destruct (nth_error (toks cx) p) as [t|] eqn:En.
    + destruct (is_skipped cx t) eqn:Esk.
      * apply IH in H; [assumption|].
        assert (p < length (toks cx)) by (apply nth_error_Some; congruence). lia.
      * injection H as <- <- _ _. split; [symmetry; apply nth_error_nth; assumption|intros _; assumption].
    + injection H as <- <- _ _. apply nth_error_None in En.
      split; [rewrite nth_overflow by lia; reflexivity|lia].
Qed.

Lemma same_cursor st st' : pos st' = pos st -> cur st' = cur st -> NS st -> NS st'.
Proof. unfold NS. intros -> ->. auto. Qed.

Lemma cen_cursor st s : p_close_error_node st = Ok s -> pos s = pos st /\ cur s = cur st.
Proof.
  unfold p_close_error_node. destruct (err_node st); [|intros [= <-]; auto].
  destruct (c_close (cstd st) n kError); [|discriminate]. intros [= <-]. auto.
Qed.

Lemma ns_advance st e s : NS st -> p_advance cx st e = Ok s -> NS s.
Proof.
  intros _. unfold p_advance.
  match goal with |- match ?pre with _ => _ end = _ -> _ => destruct pre as [s0|w]; [|discriminate] end.
  destruct (skip_loop cx (length (toks cx)) (S (pos s0)) _ _) as [[[p' t'] c'] g'] eqn:Es.
  intros [= <-]. apply skip_loop_ns in Es; [|lia]. unfold NS. cbn [cur pos]. exact Es.
Qed.

Lemma ns_error st d : NS st -> NS (p_error st d).
Proof. unfold p_error. destruct (active_error st); [auto|]. apply same_cursor; reflexivity. Qed.

Lemma ns_awe st m s : NS st -> p_advance_with_error cx st m = Ok s -> NS s.
Proof.
  intros H. unfold p_advance_with_error.
  pose proof (ns_error st (mk_diag cx st m) H) as H1.
  destruct (length (toks cx) <=? pos (p_error st (mk_diag cx st m))); [intros [= <-]; assumption|].
  apply ns_advance. destruct (err_node (p_error st (mk_diag cx st m))); [assumption|].
  destruct (c_open (cstd (p_error st (mk_diag cx st m)))) as [mk c']. eapply same_cursor; [| |exact H1]; reflexivity.
Qed.

Lemma ns_open st mk s : NS st -> p_open st = Ok (mk, s) -> NS s.
Proof.
  intros H. unfold p_open. destruct (p_close_error_node st) as [s0|w] eqn:E; [|discriminate].
  destruct (cen_cursor _ _ E) as (E1 & E2). destruct (c_open (cstd s0)) as [mk' c']. intros [= _ <-].
  eapply same_cursor; [| |exact H]; cbn; assumption.
Qed.

Lemma ns_ob st m mk s : NS st -> p_open_before st m = Ok (mk, s) -> NS s.
Proof.
  intros H. unfold p_open_before. destruct (p_close_error_node st) as [s0|w] eqn:E; [|discriminate].
  destruct (cen_cursor _ _ E) as (E1 & E2). destruct (c_open_before (cstd s0) m); [|discriminate]. intros [= _ <-].
  eapply same_cursor; [| |exact H]; cbn; assumption.
Qed.

Lemma ns_close st m k mk s : NS st -> p_close st m k = Ok (mk, s) -> NS s.
Proof.
  intros H. unfold p_close. destruct (p_close_error_node st) as [s0|w] eqn:E; [|discriminate].
  destruct (cen_cursor _ _ E) as (E1 & E2). destruct (c_close (cstd s0) m k); [|discriminate]. intros [= _ <-].
  eapply same_cursor; [| |exact H]; cbn; assumption.
Qed.

Lemma ns_mark st mk s : NS st -> p_mark st = Ok (mk, s) -> NS s.
Proof.
  intros H. unfold p_mark. destruct (p_close_error_node st) as [s0|w] eqn:E; [|discriminate].
  destruct (cen_cursor _ _ E) as (E1 & E2). intros [= _ <-]. eapply same_cursor; [| |exact H]; assumption.
Qed.

Lemma ns_get st sv st0 : NS st -> p_get_state st = (sv, st0) -> NS st0 /\ NSsaved sv.
Proof. unfold p_get_state. intros H [= <- <-]. split; exact H. Qed.

Lemma ns_set del st sv : NS st -> NSsaved sv -> NS (p_set_state del st sv).
Proof. intros _ H. exact H. Qed.

Lemma ns_init_skip st : NS (p_init_skip cx st).
Proof.
  unfold p_init_skip.
  destruct (skip_loop cx (length (toks cx)) (pos st) (cstd st) (gh st)) as [[[p' t'] c'] g'] eqn:Es.
  apply skip_loop_ns in Es; [|lia]. exact Es.
Qed.

Variable prog : program.
Variable orc : oracles.

(* every rule function, entered with the invariant, returns with it: at every dispatch the
   current token is a non-skipped token or the end-of-input marker *)
Theorem call_fn_no_skip fuel f st some st' :
  call_fn cx prog orc fuel f st = XOk (some, st') -> NS st -> NS st'.
Proof.
  intros H.
  destruct (exec_I cx prog orc NS NSsaved ns_advance ns_error ns_awe ns_open ns_ob ns_close ns_mark
                   (fun st e H => same_cursor st (add_event st e) eq_refl eq_refl H)
                   (fun st b H => same_cursor st (set_in_choice st b) eq_refl eq_refl H)
                   (fun st H => same_cursor st (push_assert_diag cx st) eq_refl eq_refl H)
                   ns_get ns_set
                   (fun st H => same_cursor st (p_release st) eq_refl eq_refl H) fuel) as (_ & _ & _ & _ & Hc).
  exact (Hc _ _ _ _ H).
Qed.

Theorem exec_no_skip fuel rec_of s e st o e' st' :
  exec cx prog orc fuel rec_of s e st = XOk (o, e', st') -> NS st -> NS st'.
Proof.
  intros H.
  destruct (exec_I cx prog orc NS NSsaved ns_advance ns_error ns_awe ns_open ns_ob ns_close ns_mark
                   (fun st e H => same_cursor st (add_event st e) eq_refl eq_refl H)
                   (fun st b H => same_cursor st (set_in_choice st b) eq_refl eq_refl H)
                   (fun st H => same_cursor st (push_assert_diag cx st) eq_refl eq_refl H)
                   ns_get ns_set
                   (fun st H => same_cursor st (p_release st) eq_refl eq_refl H) fuel) as (He & _).
  exact (He _ _ _ _ _ _ _ H).
Qed.

(* lookahead for predicates: peek / peek_left only ever return non-skipped tokens (or the marker) *)
Lemma nth_filter_ns (l : list tok) n :
  nth n (filter (fun t => negb (is_skipped cx t)) l) (eoi cx) = eoi cx
  \/ is_skipped cx (nth n (filter (fun t => negb (is_skipped cx t)) l) (eoi cx)) = false.
Proof.
  destruct (Nat.lt_ge_cases n (length (filter (fun t => negb (is_skipped cx t)) l))) as [Hlt|Hge].
  - right. pose proof (nth_In _ (eoi cx) Hlt) as Hin. apply filter_In in Hin. destruct Hin as (_ & Hn).
    apply negb_true_iff in Hn. exact Hn.
  - left. apply nth_overflow. assumption.
Qed.

Theorem peek_no_skip st n : p_peek cx st n = eoi cx \/ is_skipped cx (p_peek cx st n) = false.
Proof. apply nth_filter_ns. Qed.

Theorem peek_left_no_skip st n : p_peek_left cx st n = eoi cx \/ is_skipped cx (p_peek_left cx st n) = false.
Proof. apply nth_filter_ns. Qed.

End NS.
