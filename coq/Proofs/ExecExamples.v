(* Non-vacuity of the execution-level theorems: a translated program (lelwel's output for
     token A B C D Num Plus='+' Star='*' LP='(' RP=')' Ws; skip Ws; right '*'; start s;
     s: stmt* e;  stmt^: A <1 B [D] 1>pair | C e ~ B / C B;  e: e '*' e | e '+' e | '(' e ')' | Num;
   through tools/rust2cmd.py) runs on concrete inputs with the ghost still defined. *)
From Coq Require Import List Arith Bool.
From LV Require Import Cst Tree ABuild Runtime Exec.
Import ListNotations.

Definition prog : program := mkProg
 [(* s *) (0, mkFn false [(SLoop [(SMatch [([2; 4], None, [(SCall 1 false)]); ([6; 7], None, [SBreak]); ([0], None, [(SError 2); SBreak])] [(SAdvErr 2)])]); (SCall 2 false)] None);
  (* stmt *) (1, mkFn false [(SMatch [([2], None, [(SExpect 2 false 3); (SLetMark (VMk 1)); (SExpect 3 false 4); (SLoop [(SMatch [([8], None, [(SExpect 8 false 5); SBreak]); ([2; 4; 6; 7], None, [SBreak]); ([0], None, [(SError 6); SBreak])] [(SAdvErr 6)])]); (SCreate (VMk 1) 2)]); ([4], None, [(SSetChoice true); (SOrdChoice false false [([4], [(SExpect 4 true 7); (SCall 2 true); (SSetChoice false); (SExpect 3 false 4)])] [4] [(SExpect 4 false 7); (SExpect 3 false 4)] 8); (SSetChoice false)])] [(SError 9)])] None);
  (* e *) (2, mkFn true [(SLetMark VLhs); (SRec (Some 0) VLhs true)] (Some (true, [(SMatch [([6], None, [SLetOpen; (SExpect 6 true 10); (SCall 2 true); (SExpect 9 true 11); (SClose (Some 1) false)]); ([7], None, [SLetOpen; (SExpect 7 true 12); (SClose (Some 1) false)])] [SOcr; (SError 13)]); (SLoop [(SMatch [([10], None, [(SIfBpBreak 5); (SLetOpenBefore VLhs); (SExpect 10 true 14); (SLetMark VRhs); (SRec (Some 4) VRhs true); (SClose (Some 1) true); SContinue]); ([11], None, [(SIfBpBreak 2); (SLetOpenBefore VLhs); (SExpect 11 true 15); (SLetMark VRhs); (SRec (Some 3) VRhs true); (SClose (Some 1) true); SContinue])] [SBreak])])])))]
 0 3 0 [1; 0].


(* tokens: EOF 0, Error 1, A 2, B 3, C 4, Ws 5, LP 6, Num 7, D 8, RP 9, Star 10, Plus 11 *)
Definition cx_of (ts : list tok) : pctx :=
  mkCtx ts (map (fun i => (i, S i)) (seq 0 (length ts))) (length ts) 0 [1; 5].
Definition orc0 : oracles := mkOr (fun _ _ => false) (fun _ _ => false).

(* "ws A B D ws C Num B Num * Num * Num + Num ws": markers, creation, committed choice, Pratt, trivia *)
Definition input1 : list tok := [5; 2; 3; 8; 5; 4; 7; 3; 7; 10; 7; 10; 7; 11; 7; 5].

Example run1_ghost_defined :
  match parse_entry (cx_of input1) prog orc0 400 0 3 1 with
  | XOk st => gh st <> None /\ diags st = []
  | _ => False
  end.
Proof. vm_compute. split; [discriminate|reflexivity]. Qed.

(* garbage: error recovery, error nodes, an abandoned alternative after a pending error, trailing input *)
Definition input2 : list tok := [3; 3; 4; 9; 9; 2; 11; 1; 7].

Example run2_ghost_defined :
  match parse_entry (cx_of input2) prog orc0 400 0 3 1 with
  | XOk st => gh st <> None /\ length (diags st) = 3
  | _ => False
  end.
Proof. vm_compute. split; [discriminate|reflexivity]. Qed.
