(* C08: every statement of the command language preserves the snapshot stack of the ghost
   and only appends to the diagnostic list and the callback log (relation G), for every
   program, input, oracle and fuel; consequently restoring a ParserState after an abandoned
   ordered-choice alternative brings back the abstract tree state and the scalar state. *)
From Coq Require Import List Arith Lia Bool.
From LV Require Import Cst Tree ABuild Runtime Exec ListLemmas GhostStack.
Import ListNotations.

Opaque p_get_state p_set_state p_release p_error p_advance p_advance_with_error p_open p_open_before p_close p_mark p_close_error_node add_event set_in_choice push_assert_diag find_rule deletable tok_in env_get env_set env_leave active_error mk_diag.

Section EX.
Variable cx : pctx.
Variable prog : program.
Variable orc : oracles.

Lemma release_closes st sv st0 st3 : p_get_state st = (sv, st0) -> G st0 st3 -> G st (p_release st3).
Proof.
  intros Hg (A1 & (d & A2) & (l & A3)).
  destruct (p_get_state_fields _ _ _ Hg) as (_ & _ & _ & _ & _ & F6 & F7 & _).
  split; [|split].
  - intros g' H. destruct (p_release_ghost _ _ H) as (g3 & H3 & E3).
    destruct (A1 g3 H3) as (g0 & H0 & E0).
    destruct (p_get_state_ghost _ _ _ _ Hg H0) as (g & Hgs & ->). cbn [g_snaps] in E0.
    exists g. split; [assumption|]. rewrite E3, E0. reflexivity.
  - exists d. Transparent p_release. unfold p_release. Opaque p_release. cbn [diags]. rewrite A2, F6. reflexivity.
  - exists l. Transparent p_release. unfold p_release. Opaque p_release. cbn [log]. rewrite A3, F7. reflexivity.
Qed.

Theorem exec_G : forall fuel,
  (forall rec_of s e st o e' st',
      exec cx prog orc fuel rec_of s e st = XOk (o, e', st') -> G st st')
  /\ (forall rec_of b e st o e' st',
      exec_block cx prog orc fuel rec_of b e st = XOk (o, e', st') -> G st st')
  /\ (forall rec_of n l e st o e' st',
      exec_seq cx prog orc fuel rec_of n l e st = XOk (o, e', st') -> G st st')
  /\ (forall rec_of sv sel sk alts lp last m e1 st1 o e' st' st st0,
      exec_alts cx prog orc fuel rec_of sv sel sk alts lp last m e1 st1 = XOk (o, e', st') ->
      p_get_state st = (sv, st0) -> G st0 st1 -> G st st')
  /\ (forall f st some st',
      call_fn cx prog orc fuel f st = XOk (some, st') -> G st st').
Proof.
  induction fuel as [|fuel IH].
  { repeat split; intros; discriminate. }
  destruct IH as (IHe & IHb & IHs & IHa & IHc).
  split; [|split; [|split; [|split]]].
  - (* exec *)
    intros rec_of s e st o e' st' H.
    destruct s; simpl in H.
    + (* SExpect *)
      destruct (Nat.eqb (cur st) t).
      * destruct (p_advance cx st false) as [s1|w] eqn:E; [|discriminate]. injection H as _ _ <-.
        eapply p_advance_G. eassumption.
      * destruct (try_ && in_choice st); injection H as _ _ <-; [apply G_refl|apply p_error_G].
    + (* SCall *)
      destruct (find_rule prog r) as [f|]; [|discriminate].
      destruct (call_fn cx prog orc fuel f st) as [[some s1]| | |] eqn:E; try discriminate.
      apply IHc in E. destruct (q && negb some); injection H as _ _ <-; assumption.
    + (* SRec *)
      destruct rec_of as [[[opt hb] body]|]; [|discriminate].
      destruct (env_get e v) as [mk|]; [|discriminate].
      match type of H with match ?x with _ => _ end = _ => destruct x as [[[o1 e1] s1]| | |] eqn:E; try discriminate end.
      apply IHb in E.
      match type of H with (if ?c then _ else _) = _ => destruct c end; injection H as _ _ <-; assumption.
    + (* SLetMark *)
      destruct (p_mark st) as [[mk s1]|w] eqn:E; [|discriminate]. injection H as _ _ <-.
      eapply p_mark_G. eassumption.
    + (* SLetOpen *)
      destruct (p_open st) as [[mk s1]|w] eqn:E; [|discriminate]. injection H as _ _ <-.
      eapply p_open_G. eassumption.
    + (* SLetOpenBefore *)
      destruct (env_get e v) as [x|]; [|discriminate].
      destruct (p_open_before st x) as [[mk s1]|w] eqn:E; [|discriminate]. injection H as _ _ <-.
      eapply p_open_before_G. eassumption.
    + injection H as _ _ <-. apply G_refl.
    + destruct (env_set e VElide 1); [|discriminate]. injection H as _ _ <-. apply G_refl.
    + (* SKind *)
      destruct decl.
      * injection H as _ _ <-. apply G_refl.
      * destruct (env_set e VKind k); [|discriminate]. injection H as _ _ <-. apply G_refl.
    + (* SClose *)
      destruct (env_get e VM) as [m|]; [|discriminate].
      destruct (match k with Some k0 => Some k0 | None => env_get e VKind end) as [k0|]; [|discriminate].
      destruct (p_close st m k0) as [[closed s1]|w] eqn:E; [|discriminate].
      apply p_close_G in E.
      assert (G st (add_event s1 (ECreate k0 closed))) by (eapply G_trans; [exact E|apply add_event_G]).
      destruct assign_lhs.
      * destruct (env_set e VLhs closed); [|discriminate]. injection H as _ _ <-. assumption.
      * injection H as _ _ <-. assumption.
    + (* SIfNotElide *)
      destruct (env_get e VElide) as [[|n]|]; [| |discriminate].
      * eapply IHb. eassumption.
      * injection H as _ _ <-. apply G_refl.
    + (* SCreate *)
      destruct (env_get e v) as [x|]; [|discriminate].
      destruct (p_open_before st x) as [[on s1]|w] eqn:E1; [|discriminate].
      destruct (p_close s1 on k) as [[c2 s2]|w] eqn:E2; [|discriminate].
      injection H as _ _ <-.
      apply p_open_before_G in E1. apply p_close_G in E2.
      eapply G_trans; [apply E1|]. eapply G_trans; [apply E2|]. apply add_event_G.
    + injection H as _ _ <-. apply add_event_G.
    + (* SAssert *)
      destruct (o_assert orc n st).
      * destruct (ocr && in_choice st); injection H as _ _ <-; [apply G_refl|apply push_assert_diag_G].
      * injection H as _ _ <-. apply G_refl.
    + injection H as _ _ <-. apply set_in_choice_G.
    + (* SMatch *)
      eapply IHb. eassumption.
    + (* SLoop *)
      destruct (exec_block cx prog orc fuel rec_of b e st) as [[[o1 e1] s1]| | |] eqn:E; try discriminate.
      apply IHb in E.
      destruct o1.
      * eapply G_trans; [exact E|]. eapply IHe. eassumption.
      * injection H as _ _ <-. assumption.
      * eapply G_trans; [exact E|]. eapply IHe. eassumption.
      * injection H as _ _ <-. assumption.
      * injection H as _ _ <-. assumption.
    + injection H as _ _ <-. apply G_refl.
    + injection H as _ _ <-. apply G_refl.
    + (* SIfBpBreak *)
      destruct (env_get e VMinBp) as [mb|]; [|discriminate].
      destruct (n <? mb); injection H as _ _ <-; apply G_refl.
    + (* SOrdChoice *)
      destruct (if save_elide then env_get e VElide else Some 0) as [el0|]; [|discriminate].
      destruct (if save_kind then env_get e VKind else Some 0) as [k0|]; [|discriminate].
      destruct (p_get_state st) as [sv st0] eqn:Eg.
      eapply IHa; [exact H|exact Eg|apply G_refl].
    + (* SReturnIfError *)
      destruct (active_error st).
      * destruct e0.
        -- destruct (env_get e VM) as [m|]; [|discriminate].
           destruct (p_close st m kError) as [[closed s1]|w] eqn:E; [|discriminate]. injection H as _ _ <-.
           apply p_close_G in E. eapply G_trans; [apply E|apply add_event_G].
        -- injection H as _ _ <-. apply G_refl.
        -- destruct (env_get e VElide) as [[|n]|]; [| |discriminate].
           ++ destruct (env_get e VStart) as [x|]; [|discriminate].
              destruct (p_open_before st x) as [[m s1]|w] eqn:E1; [|discriminate].
              destruct (p_close s1 m kError) as [[closed s2]|w] eqn:E2; [|discriminate].
              injection H as _ _ <-.
              apply p_open_before_G in E1. apply p_close_G in E2.
              eapply G_trans; [apply E1|]. eapply G_trans; [apply E2|]. apply add_event_G.
           ++ destruct (env_get e VStart); [|discriminate]. injection H as _ _ <-. apply G_refl.
      * injection H as _ _ <-. apply G_refl.
    + injection H as _ _ <-. apply p_error_G.
    + (* SAdvErr *)
      destruct (p_advance_with_error cx st m) as [s1|w] eqn:E; [|discriminate]. injection H as _ _ <-.
      eapply p_advance_with_error_G. eassumption.
    + destruct (in_choice st); injection H as _ _ <-; apply G_refl.
  - (* exec_block *)
    intros rec_of b e st o e' st' H. simpl in H. eapply IHs. eassumption.
  - (* exec_seq *)
    intros rec_of n l e st o e' st' H.
    destruct l as [|s r]; simpl in H.
    + injection H as _ _ <-. apply G_refl.
    + destruct (exec cx prog orc fuel rec_of s e st) as [[[o1 e1] s1]| | |] eqn:E; try discriminate.
      apply IHe in E.
      destruct o1; try (injection H as _ _ <-; assumption).
      eapply G_trans; [exact E|]. eapply IHs. eassumption.
  - (* exec_alts *)
    intros rec_of sv sel sk alts lp last m e1 st1 o e' st' st st0 H Hg G01.
    destruct alts as [|[pats body] r]; simpl in H.
    + set (st2 := set_in_choice st1 false) in *.
      assert (G02 : G st0 st2) by (eapply G_trans; [exact G01|apply set_in_choice_G]).
      destruct (tok_in (cur st2) lp).
      * destruct (exec_block cx prog orc fuel rec_of last e1 st2) as [[[o1 e2] st3]| | |] eqn:E; try discriminate.
        injection H as _ _ <-. apply IHb in E.
        eapply release_closes; [exact Hg|]. eapply G_trans; eassumption.
      * destruct (p_advance_with_error cx st2 m) as [st3|w] eqn:E; [|discriminate].
        injection H as _ _ <-. apply p_advance_with_error_G in E.
        eapply release_closes; [exact Hg|]. eapply G_trans; eassumption.
    + destruct (tok_in (cur st1) pats).
      * destruct (exec_block cx prog orc fuel rec_of body e1 st1) as [[[o1 e2] st2]| | |] eqn:E; try discriminate.
        apply IHb in E.
        assert (G02 : G st0 st2) by (eapply G_trans; eassumption).
        destruct o1; try discriminate.
        -- injection H as _ _ <-. eapply release_closes; eassumption.
        -- destruct (if fst sel then env_set e2 VElide (snd sel) else Some e2) as [e3|]; [|discriminate].
           destruct (if fst sk then env_set e3 VKind (snd sk) else Some e3) as [e4|]; [|discriminate].
           eapply IHa; [exact H|exact Hg|]. eapply p_set_state_G; eassumption.
      * eapply IHa; eassumption.
  - (* call_fn *)
    intros f st some st' H. cbn [call_fn] in H.
    match type of H with match ?x with _ => _ end = _ => destruct x as [[[o1 e1] s1]| | |] eqn:E; try discriminate end.
    injection H as _ <-. eapply IHb. eassumption.
Qed.

(* ---------- C08: an abandoned alternative leaves no trace ---------- *)
Theorem attempt_leaves_no_trace fuel rec_of body e st sv st0 o e2 st2 :
  p_get_state st = (sv, st0) ->
  exec_block cx prog orc fuel rec_of body e st0 = XOk (o, e2, st2) ->
  let st3 := p_set_state (deletable prog) st2 sv in
  pos st3 = pos st /\ cur st3 = cur st /\ diags st3 = diags st
  /\ err_node st3 = err_node st /\ esa st3 = esa st
  /\ (exists l, log st3 = log st ++ l)
  /\ forall g3, gh st3 = Some g3 ->
       exists g, gh st = Some g /\ g_abs g3 = g_abs g
                 /\ g_snaps g3 = mkSnap (c_mark_truncation (cstd st)) (g_abs g) :: g_snaps g.
Proof.
  intros Hg He. apply restore_exact with (st0 := st0); [assumption|].
  destruct (exec_G fuel) as (_ & Hb & _). eapply Hb. eassumption.
Qed.

(* a whole ordered choice: the snapshot stack is what it was, diagnostics and log only grow *)
Theorem ord_choice_balanced fuel rec_of a b alts lp last m e st o e' st' :
  exec cx prog orc fuel rec_of (SOrdChoice a b alts lp last m) e st = XOk (o, e', st') -> G st st'.
Proof. destruct (exec_G fuel) as (He & _). apply He. Qed.

End EX.
