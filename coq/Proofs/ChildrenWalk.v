(* C01/C02: the public child iterator (CstChildren, Cst.walk_children / c_children) applied to the
   pre-order layout of a tree yields exactly the roots of the child subtrees, in order. *)
From Coq Require Import List Arith Lia Bool.
From LV Require Import Cst Tree.
Import ListNotations.

Fixpoint child_offsets (f : list tree) (off : nat) : list nat :=
  match f with
  | [] => []
  | t :: r => off :: child_offsets r (off + tsize t)
  end.

Lemma flatten_len : forall t, length (flatten t) = tsize t.
Proof.
  fix IH 1. intros [k cs|t i]; cbn [flatten tsize length]; [|reflexivity].
  f_equal. induction cs as [|c cs IHcs]; cbn [flat_map map list_sum]; [reflexivity|].
  rewrite app_length, IH, IHcs. reflexivity.
Qed.

Lemma fflatten_len f : length (fflatten f) = fsize f.
Proof.
  unfold fflatten, fsize. induction f as [|t r IH]; cbn [flat_map map]; [reflexivity|].
  rewrite app_length, flatten_len, IH. reflexivity.
Qed.

Lemma walk_children_forest : forall f fuel off,
  length f <= fuel -> walk_children fuel (fflatten f) off = child_offsets f off.
Proof.
  induction f as [|t r IH]; intros fuel off Hf.
  - destruct fuel; reflexivity.
  - destruct fuel as [|fuel]; [cbn in Hf; lia|]. cbn [length] in Hf.
    unfold fflatten. cbn [flat_map]. destruct t as [k cs|tk i]; cbn [flatten app walk_children child_offsets tsize].
    + fold (fflatten cs). fold (fsize cs).
      rewrite skipn_app. rewrite <- (fflatten_len cs) at 1. rewrite skipn_all. cbn [app].
      rewrite fflatten_len, Nat.sub_diag. cbn [skipn]. fold (fflatten r).
      rewrite IH by lia. f_equal. f_equal. lia.
    + fold (fflatten r). rewrite IH by lia. f_equal. f_equal. lia.
Qed.

Lemma forest_len_le f : length f <= fsize f.
Proof.
  unfold fsize. induction f as [|t r IH]; cbn [length map list_sum]; [lia|].
  assert (1 <= tsize t) by (destruct t; cbn; lia).
  change (list_sum (tsize t :: map tsize r)) with (tsize t + list_sum (map tsize r)). lia.
Qed.

Theorem children_of_root c k cs :
  nodes c = flatten (TNode k cs) -> c_children c 0 = Ok (child_offsets cs 1).
Proof.
  intros Hn. unfold c_children. rewrite Hn. cbn [flatten nth_error length]. fold (fflatten cs). fold (fsize cs).
  rewrite fflatten_len.
  destruct (Nat.ltb_spec (S (fsize cs)) (0 + fsize cs + 1)) as [H|H]; [lia|].
  cbn [skipn]. rewrite <- (fflatten_len cs) at 1 2. rewrite firstn_all.
  rewrite fflatten_len. rewrite walk_children_forest by apply forest_len_le. reflexivity.
Qed.
