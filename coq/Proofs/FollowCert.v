(* C09, follow sets: soundness and completeness combined. *)
From Coq Require Import List Arith Bool.
From LV Require Import Sema SetLemmas FirstSpec FirstCert FollowSpec FollowSound FollowClosed.
Import ListNotations.

Theorem follow_exact g fi fuel fo lf :
  wf_ids_b g = true ->
  calc_follow g fi fuel = Some (fo, lf) ->
  fol_closed g fi fo = true ->
  forall y a, In y (nodes_of g) -> (mem (T a) (get fo (rid_of y)) = true <-> Fol g fi y a).
Proof.
  intros Hw Hc Hcl y a Hy. split.
  - intros Ha. eapply follow_sound; [apply wf_ids_b_spec; exact Hw|exact Hc|exact Hy|exact Ha].
  - intros Hf. eapply follow_complete; eassumption.
Qed.

(* the closure hypothesis is itself a theorem (FollowClosed.calc_follow_closed) *)
Theorem follow_exact_any g fi fuel fo lf :
  wf_ids_b g = true ->
  calc_follow g fi fuel = Some (fo, lf) ->
  forall y a, In y (nodes_of g) -> (mem (T a) (get fo (rid_of y)) = true <-> Fol g fi y a).
Proof.
  intros Hw Hc. eapply follow_exact; try eassumption.
  eapply calc_follow_closed; [apply wf_ids_b_spec; exact Hw|exact Hc].
Qed.
