(* C13 - reading a grammar file recovers what was written: the LEXING stage, on the model of
   src/frontend/lexer.rs.  For every list of well-formed lexical items (tokens of every class and trivia:
   whitespace, line, doc and block comments) in which no item can fuse with the text behind it (`layout_ok`:
   boolean; a separator may be empty wherever `nofuse` holds), lexing the rendered text returns exactly these
   items - kinds, byte spans - and no diagnostic.  The side condition is necessary: where it fails, the first
   token cut from the text is not the item.  `lex_interleaved` is the same statement in the shape
   "tokens and layouts between them".  The parser / typed-view half of C13 is decided by exploration. *)
From Coq Require Import List NArith Arith Bool.
From LV Require Import Lexer LexerProofs LexerReadback.

Theorem C13_lexer_reads_back_items :
  forall items, layout_ok items = true -> lex (render_all items) = (expected 0 items, nil).
Proof. exact lex_items. Qed.

Theorem C13_lexer_reads_back_tokens_and_layouts :
  forall lay0 toks, grammar_ok lay0 toks = true ->
  lex (render_all (interleave lay0 toks)) = (expected 0 (interleave lay0 toks), nil).
Proof. exact lex_interleaved. Qed.

Theorem C13_written_tokens_are_the_non_trivia_items :
  forall toks lay0,
  forallb is_trivia lay0 = true ->
  forallb (fun p => negb (is_trivia (fst p)) && forallb is_trivia (snd p)) toks = true ->
  filter (fun a => negb (is_trivia a)) (interleave lay0 toks) = map fst toks.
Proof. exact interleave_tokens. Qed.

Theorem C13_separator_condition_is_necessary :
  forall a rest, wf a = true -> nofuse a rest = false ->
  first_chunk (render a ++ rest) <> Some (chunk_of a).
Proof. exact nofuse_necessary. Qed.

Print Assumptions C13_lexer_reads_back_items.
Print Assumptions C13_lexer_reads_back_tokens_and_layouts.
Print Assumptions C13_written_tokens_are_the_non_trivia_items.
Print Assumptions C13_separator_condition_is_necessary.
