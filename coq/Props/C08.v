(* C08 - ordered-choice backtracking leaves no trace.  For every program of the command language,
   every input, oracle and fuel: when an alternative of an ordered choice has run (arbitrarily far,
   including nested choices and rule calls) and is abandoned, the state the parser continues from
   has the position, current token, diagnostics, error node and error flag it had before the
   attempt, the callback log is the old one extended (created nodes are followed by their
   deletions, checked by K3), and - whenever the ghost is defined - the abstract tree state
   (finished subtrees, open frames, pending trivia) is identical to the one before the attempt and
   the concrete node vector represents it again.  A whole ordered choice leaves the snapshot stack
   as it was and only appends diagnostics and callbacks. *)
From Coq Require Import List Arith.
From LV Require Import Cst Tree ABuild Runtime Exec Refine RuntimeInv GhostStack ExecGhost AttemptTree.

Theorem C08_abandoned_attempt_leaves_no_trace :
  forall cx prog orc fuel rec_of body e st sv st0 o e2 st2,
  p_get_state st = (sv, st0) ->
  exec_block cx prog orc fuel rec_of body e st0 = XOk (o, e2, st2) ->
  let st3 := p_set_state (deletable prog) st2 sv in
  pos st3 = pos st /\ cur st3 = cur st /\ diags st3 = diags st
  /\ err_node st3 = err_node st /\ esa st3 = esa st
  /\ (exists l, log st3 = log st ++ l)
  /\ forall g3, gh st3 = Some g3 ->
       exists g, gh st = Some g /\ g_abs g3 = g_abs g
                 /\ g_snaps g3 = mkSnap (c_mark_truncation (cstd st)) (g_abs g) :: g_snaps g.
Proof. exact attempt_leaves_no_trace. Qed.

Theorem C08_tree_restored :
  forall cx prog orc fuel rec_of body e st sv st0 o e2 st2,
  RInv cx st ->
  p_get_state st = (sv, st0) ->
  exec_block cx prog orc fuel rec_of body e st0 = XOk (o, e2, st2) ->
  let st3 := p_set_state (deletable prog) st2 sv in
  gh st3 <> None ->
  RInv cx st3
  /\ exists g g3, gh st = Some g /\ gh st3 = Some g3 /\ g_abs g3 = g_abs g
     /\ Inv (cstd st) (snaps st) g /\ Inv (cstd st3) (snaps st3) g3.
Proof. exact attempt_restores_tree. Qed.

Theorem C08_choice_balanced :
  forall cx prog orc fuel rec_of a b alts lp last m e st o e' st',
  exec cx prog orc fuel rec_of (SOrdChoice a b alts lp last m) e st = XOk (o, e', st') -> G st st'.
Proof. exact ord_choice_balanced. Qed.

Print Assumptions C08_abandoned_attempt_leaves_no_trace.
Print Assumptions C08_tree_restored.
Print Assumptions C08_choice_balanced.
