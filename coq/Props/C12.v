(* C12 - the grammar front end accepts any text with valid spans: the LEXING stage, on the model of
   src/frontend/lexer.rs (Model/Lexer.v, tied to the real lexer by the K4L correspondence on every run).
   For every text (list of code points), no bound: `lex` is total (Gallina; fuel = length of the text never
   runs out), its token spans are contiguous from byte 0 to the UTF-8 byte length of the text, every token
   is non-empty and every span boundary is the byte length of a prefix of the text (a character boundary);
   every lexer diagnostic (invalid token, unterminated string literal, unterminated comment, invalid escape
   sequence with check_string's span arithmetic) has a non-empty span inside the text on character boundaries.
   Parser and analysis stages are decided by exploration and the parser tie (DESIGN.md section 6), not here. *)
From Coq Require Import List NArith Arith.
From LV Require Import Lexer LexerProofs.

Theorem C12_lexer_spans_tile_the_text :
  forall t ts ds, lex t = (ts, ds) ->
  tiles 0 ts (blen t)
  /\ Forall (fun x => boundary t (tok_start x) /\ boundary t (tok_end x)) ts.
Proof. exact lex_tiling. Qed.

Theorem C12_lexer_token_spans_valid :
  forall t ts ds, lex t = (ts, ds) -> Forall (fun x => span_ok t (tok_start x) (tok_end x)) ts.
Proof. exact lex_token_spans_valid. Qed.

Theorem C12_lexer_diagnostic_spans_valid :
  forall t ts ds, lex t = (ts, ds) -> Forall (fun d => span_ok t (d_start d) (d_end d)) ds.
Proof. exact lex_diag_spans. Qed.

Print Assumptions C12_lexer_spans_tile_the_text.
Print Assumptions C12_lexer_token_spans_valid.
Print Assumptions C12_lexer_diagnostic_spans_valid.
