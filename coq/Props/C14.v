(* C14 - recovery sets are the dominator-follow sets the documentation defines.
   For every grammar, every first/follow map, every iteration order of the node set and enough
   fuel: if the transcription of RecoverySetGenerator::run returns (recovery, dominators, graph) and
   three boolean certificates hold for that result (every listed node has a predecessor and all
   predecessors are listed; the dominator map satisfies the fixpoint inclusions; node ids are
   listed once - all evaluated on every grammar of the K2 correspondence), then
   (1) x is in the computed dominator set of n iff x lies on every path from the start node to n
       in the predecessor graph, and
   (2) a token is in the recovery set of a repetition/option n iff it is in the follow set of some
       dominator of n and can neither start nor follow the body of n. *)
From Coq Require Import List Arith.
From LV Require Import Sema Dominators DomFixed RecoverySpec Cst Tree ABuild Runtime Exec Compile CompileLoop.
Import ListNotations.

Theorem C14_dominators_exact :
  forall pg start nns fuel d,
  graph_ok pg start nns = true ->
  dom_iter fuel pg nns (d_init start nns) = Some d ->
  dom_fixed pg start d = true ->
  forall n x, In n (nadd start nns) -> In x (nadd start nns) ->
    (In x (dget d n) <-> dominates pg start x n).
Proof. exact dominators_exact. Qed.

(* the fixpoint certificate is itself a theorem: with a graph in which every listed node has a
   predecessor and all predecessors are listed, nodes listed once, and the start node not among
   them (it cannot be referenced, E009), whatever the elimination loop returns is exact *)
Theorem C14_dominators_exact_without_certificate :
  forall pg start nns fuel d,
  graph_ok pg start nns = true -> NoDup nns -> ~ In start nns ->
  (forall k, In k (map fst pg) -> In k nns) ->
  dom_iter fuel pg nns (d_init start nns) = Some d ->
  forall n x, In n (nadd start nns) -> In x (nadd start nns) ->
    (In x (dget d n) <-> dominates pg start x n).
Proof. exact dominators_exact_any. Qed.

Theorem C14_recovery_sets_are_dominator_follow_sets :
  forall g fi fo used fuel order rc d pg sb,
  body_of g (g_start g) = Some sb ->
  calc_recovery g fi fo used fuel order = Some (rc, d, pg) ->
  let start := rid_of sb in
  let nns := order (map fst pg) in
  graph_ok pg start nns = true -> dom_fixed pg start d = true -> nodup_b nns = true ->
  (forall n x, In n (nadd start nns) -> In x (nadd start nns) -> (In x (dget d n) <-> dominates pg start x n))
  /\ (forall n op, In n nns -> loop_body g n = Some op ->
        forall s, mem s (get rc n) = true <->
          (exists dn, In dn (dget d n) /\ mem s (get fo dn) = true)
          /\ mem s (get fi (rid_of op)) = false /\ mem s (get fo (rid_of op)) = false).
Proof. exact calc_recovery_spec. Qed.

(* second clause: whatever may follow the start body - the end-of-input marker and the part end markers - is
   in the recovery set of every repetition/option unless it can start or follow the loop body, so no loop is
   left without an arm for the end of input *)
Theorem C14_end_of_input_is_recovered_or_followed :
  forall g fi fo used fuel order rc d pg sb,
  body_of g (g_start g) = Some sb ->
  calc_recovery g fi fo used fuel order = Some (rc, d, pg) ->
  let start := rid_of sb in
  let nns := order (map fst pg) in
  graph_ok pg start nns = true -> dom_fixed pg start d = true -> nodup_b nns = true ->
  forall n op, In n nns -> loop_body g n = Some op ->
  forall s, mem s (get fo start) = true ->
    mem s (get rc n) = true \/ mem s (get fi (rid_of op)) = true \/ mem s (get fo (rid_of op)) = true.
Proof. exact end_of_input_recovered. Qed.

(* The loop the back end emits for a repetition or option (Compile.c_recover; the KB correspondence
   ties it to src/backend/rust.rs output_recovering_operation) is left - without moving the cursor
   or touching the tree, with at most one diagnostic - whenever the current token cannot start the
   body and lies in the follow set or the recovery set of the construct.  With
   C14_end_of_input_is_recovered_or_followed this is the property's last sentence: every repetition
   and option is left when the end of input is reached.  For every program context, oracle,
   environment, state, body and fuel. *)
Theorem C14_compiled_loop_is_left_at_follow_and_recovery_tokens :
  forall cx prog orc sm rec_of id op body il ic e st fuel,
    tok_in (cur st) (pats (s_first sm) (rid_of op)) = false ->
    tok_in (cur st) (pats (s_follow sm) id) = true \/ tok_in (cur st) (pats (s_recovery sm) id) = true ->
    exists o e' st',
      exec cx prog orc (10 + fuel) rec_of (c_recover sm id op body il ic) e st = XOk (o, e', st')
      /\ pos st' = pos st /\ cstd st' = cstd st /\ cur st' = cur st /\ (o = ONormal \/ o = ORetNone).
Proof. exact recover_loop_exits. Qed.

Theorem C14_star_plus_option_compile_to_that_loop :
  forall g sm ci cxr id op,
    c_regex g sm ci cxr (RStar id op) = [c_recover sm id op (c_regex g sm ci cxr op) true (inch sm id)]
    /\ c_regex g sm ci cxr (RPlus id op)
       = c_regex g sm ci cxr op ++ [c_recover sm id op (c_regex g sm ci cxr op) true (inch sm id)]
    /\ c_regex g sm ci cxr (ROpt id op) = [c_recover sm id op (c_regex g sm ci cxr op) false (inch sm id)].
Proof. intros. repeat split. Qed.

Print Assumptions C14_dominators_exact.
Print Assumptions C14_recovery_sets_are_dominator_follow_sets.
Print Assumptions C14_dominators_exact_without_certificate.
Print Assumptions C14_end_of_input_is_recovered_or_followed.
Print Assumptions C14_compiled_loop_is_left_at_follow_and_recovery_tokens.
Print Assumptions C14_star_plus_option_compile_to_that_loop.
