(* C15 - output is reproducible and independent of declaration order: one clause only.
   The iteration order of the hash set of nodes in RecoverySetGenerator::run does not influence the
   dominator sets it computes (and the recovery sets are a function of those, the follow sets and the
   first sets): for any two orders that list the same nodes, with the graph and fixpoint
   certificates of C14, membership in the computed sets coincides.
   A second clause: the first sets do not depend on the order of the rule declarations.
   Byte-identical output across processes and the behaviour of the generated parser under permuted
   declarations are observed on the real binary (see DESIGN.md), not theorems. *)
From Coq Require Import List Arith.
From LV Require Import Sema Dominators OrderIndep FirstSpec FirstCert FirstOrder FollowOrder.

Theorem C15_dominators_independent_of_iteration_order :
  forall pg start nns1 nns2 fuel1 fuel2 d1 d2,
  (forall k, In k nns1 <-> In k nns2) ->
  graph_ok pg start nns1 = true -> graph_ok pg start nns2 = true ->
  dom_iter fuel1 pg nns1 (d_init start nns1) = Some d1 ->
  dom_iter fuel2 pg nns2 (d_init start nns2) = Some d2 ->
  dom_fixed pg start d1 = true -> dom_fixed pg start d2 = true ->
  forall n x, In n (nadd start nns1) -> In x (nadd start nns1) ->
    (In x (dget d1 n) <-> In x (dget d2 n)).
Proof. exact dominators_order_independent. Qed.

(* Reordering the rule declarations does not change the first sets: two grammars that hold the same
   rules at permuted positions ([s] maps old positions to new ones, [t] is its inverse; references are
   renamed accordingly, node ids kept) get the same first set at every node, whatever the fuel.
   Both are the derivation-defined set (C09_first_sets_exact), and derivations do not see positions. *)
Theorem C15_first_sets_independent_of_declaration_order :
  forall g1 g2 s t fuel1 fuel2 m1 m2,
  (forall r, t (s r) = r) -> (forall r, s (t r) = r) ->
  (forall r, body_of g2 (s r) = option_map (rename s) (body_of g1 r)) ->
  wf_ids_b g1 = true -> productive_b g1 = true -> wf_ids_b g2 = true -> productive_b g2 = true ->
  calc_first g1 fuel1 = Some m1 -> calc_first g2 fuel2 = Some m2 ->
  forall x, In x (nodes_of g1) ->
  forall y, mem y (get m1 (rid_of x)) = mem y (get m2 (rid_of x)).
Proof. exact first_sets_order_independent. Qed.

(* ... nor the follow and predict sets (tokens; the empty-word marker in follow sets is ignored as in C09):
   same rules at permuted positions, same start rule, end marker and parts *)
Theorem C15_analysis_sets_independent_of_declaration_order :
  forall g1 g2 s t fuel1 fuel2 fuel3 fuel4 fi1 fi2 fo1 lf1 fo2 lf2,
  (forall r, t (s r) = r) -> (forall r, s (t r) = r) ->
  (forall r, body_of g2 (s r) = option_map (rename s) (body_of g1 r)) ->
  g_start g2 = s (g_start g1) -> g_eof g2 = g_eof g1 ->
  (forall p a, In (p, a) (g_parts g1) <-> In (s p, a) (g_parts g2)) ->
  wf_ids_b g1 = true -> productive_b g1 = true -> wf_ids_b g2 = true -> productive_b g2 = true ->
  calc_first g1 fuel1 = Some fi1 -> calc_first g2 fuel2 = Some fi2 ->
  calc_follow g1 fi1 fuel3 = Some (fo1, lf1) -> calc_follow g2 fi2 fuel4 = Some (fo2, lf2) ->
  forall x, In x (nodes_of g1) ->
    (forall y, mem y (get fi1 (rid_of x)) = mem y (get fi2 (rid_of x)))
    /\ (forall a, mem (T a) (get fo1 (rid_of x)) = mem (T a) (get fo2 (rid_of x)))
    /\ (forall a, mem (T a) (get (calc_predict fi1 fo1) (rid_of x)) = mem (T a) (get (calc_predict fi2 fo2) (rid_of x))).
Proof. exact analysis_sets_order_independent. Qed.

Print Assumptions C15_dominators_independent_of_iteration_order.
Print Assumptions C15_first_sets_independent_of_declaration_order.
Print Assumptions C15_analysis_sets_independent_of_declaration_order.
