(* C15 - output is reproducible and independent of declaration order: one clause only.
   The iteration order of the hash set of nodes in RecoverySetGenerator::run does not influence the
   dominator sets it computes (and the recovery sets are a function of those, the follow sets and the
   first sets): for any two orders that list the same nodes, with the graph and fixpoint
   certificates of C14, membership in the computed sets coincides.
   Byte-identical output across processes and behaviour under permuted declarations are runtime
   behaviour observed on the real binary (see DESIGN.md), not theorems. *)
From Coq Require Import List Arith.
From LV Require Import Sema Dominators OrderIndep.

Theorem C15_dominators_independent_of_iteration_order :
  forall pg start nns1 nns2 fuel1 fuel2 d1 d2,
  (forall k, In k nns1 <-> In k nns2) ->
  graph_ok pg start nns1 = true -> graph_ok pg start nns2 = true ->
  dom_iter fuel1 pg nns1 (d_init start nns1) = Some d1 ->
  dom_iter fuel2 pg nns2 (d_init start nns2) = Some d2 ->
  dom_fixed pg start d1 = true -> dom_fixed pg start d2 = true ->
  forall n x, In n (nadd start nns1) -> In x (nadd start nns1) ->
    (In x (dget d1 n) <-> In x (dget d2 n)).
Proof. exact dominators_order_independent. Qed.

Print Assumptions C15_dominators_independent_of_iteration_order.
