(* C16 - skipped tokens are transparent: the clause "lookahead offered to predicates never sees a
   skipped token", and its counterpart for the parser's own one-token lookahead.  For every program
   of the command language, every input, oracle and fuel: every rule function (and every statement)
   entered with the current token at the cursor and not skipped returns in such a state; init_skip
   establishes that state; peek and peek_left return non-skipped tokens or the end-of-input marker.
   The main clause (inserting or removing skipped tokens changes neither tree nor diagnostics) is
   decided by the K1/K3 correspondence and the trivia-pair oracle, not by a theorem. *)
From Coq Require Import List Arith.
From LV Require Import Cst Tree ABuild Runtime Exec ExecInvariant NoSkip.

Theorem C16_init_skip_establishes : forall cx st, NS cx (p_init_skip cx st).
Proof. exact ns_init_skip. Qed.

Theorem C16_current_token_never_skipped :
  forall cx prog orc fuel f st some st',
  call_fn cx prog orc fuel f st = XOk (some, st') -> NS cx st -> NS cx st'.
Proof. exact call_fn_no_skip. Qed.

Theorem C16_every_statement :
  forall cx prog orc fuel rec_of s e st o e' st',
  exec cx prog orc fuel rec_of s e st = XOk (o, e', st') -> NS cx st -> NS cx st'.
Proof. exact exec_no_skip. Qed.

Theorem C16_predicate_lookahead_never_skipped :
  forall cx st n,
  (p_peek cx st n = eoi cx \/ is_skipped cx (p_peek cx st n) = false)
  /\ (p_peek_left cx st n = eoi cx \/ is_skipped cx (p_peek_left cx st n) = false).
Proof. intros cx st n. split; [apply peek_no_skip|apply peek_left_no_skip]. Qed.

Print Assumptions C16_init_skip_establishes.
Print Assumptions C16_current_token_never_skipped.
Print Assumptions C16_every_statement.
Print Assumptions C16_predicate_lookahead_never_skipped.
