(* C17 - formatting never changes what the file says: the supporting clause about the LEXER that the
   token-level comparison of C17 rests on (model of src/frontend/lexer.rs): lexing loses no character.
   For every text the lexemes of `lex` concatenate to the text, and so do the slices of the text cut out by
   the token spans; the kinds reported are those of the chunks.  The formatter itself (dprint-core) is not
   modelled; the main clause is decided by exploration. *)
From Coq Require Import List NArith Arith.
From LV Require Import Lexer LexerProofs.

Theorem C17_lexemes_concatenate_to_the_text :
  forall t, concat (map ck_lexeme (chunks t)) = t.
Proof. exact chunks_lossless. Qed.

Theorem C17_token_slices_concatenate_to_the_text :
  forall t, concat (map (fun x => slice t (tok_start x) (tok_end x)) (fst (lex t))) = t.
Proof. exact lex_slices_lossless. Qed.

Theorem C17_token_kinds_are_the_chunk_results :
  forall t, map tok_kind (fst (lex t)) = map (fun ch => res_kind (ck_res ch)) (chunks t).
Proof. exact lex_kinds. Qed.

Print Assumptions C17_lexemes_concatenate_to_the_text.
Print Assumptions C17_token_slices_concatenate_to_the_text.
Print Assumptions C17_token_kinds_are_the_chunk_results.
