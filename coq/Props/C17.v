(* C17 - formatting never changes what the file says: the supporting clause about the LEXER that the
   token-level comparison of C17 rests on (model of src/frontend/lexer.rs): lexing loses no character.
   For every text the lexemes of `lex` concatenate to the text, and so do the slices of the text cut out by
   the token spans; the kinds reported are those of the chunks.  The formatter itself (dprint-core) is not
   modelled; the main clause is decided by exploration. *)
From Coq Require Import List NArith Arith.
From LV Require Import Lexer LexerProofs.

Theorem C17_lexemes_concatenate_to_the_text :
  forall t, concat (map ck_lexeme (chunks t)) = t.
Proof. exact chunks_lossless. Qed.

Theorem C17_token_slices_concatenate_to_the_text :
  forall t, concat (map (fun x => slice t (tok_start x) (tok_end x)) (fst (lex t))) = t.
Proof. exact lex_slices_lossless. Qed.

Theorem C17_token_kinds_are_the_chunk_results :
  forall t, map tok_kind (fst (lex t)) = map (fun ch => res_kind (ck_res ch)) (chunks t).
Proof. exact lex_kinds. Qed.

Print Assumptions C17_lexemes_concatenate_to_the_text.
Print Assumptions C17_token_slices_concatenate_to_the_text.
Print Assumptions C17_token_kinds_are_the_chunk_results.

(* ---- the formatter's item generator (src/backend/format.rs, model Model/Fmt.v, tied to the code by
   tools/k4_fmtmodel.py on every run).  For ALL trees and source texts.  `gen` is gen_cst: the list of
   dprint-core print items, or the first panic.  What dprint-core's printer does with the items is
   not modelled (trusted / tested).  Names are qualified because Fmt and Lexer both define `slice`. *)
From LV Require Fmt FmtLemmas FmtProofs.

Theorem C17_items_keep_the_content :
  forall src t its, Fmt.gen src t = Fmt.Ok its ->
  Fmt.nonws (FmtLemmas.strs its) = FmtProofs.content t.
Proof. exact FmtProofs.fmt_content_preserved. Qed.

Theorem C17_items_keep_the_non_whitespace_characters :
  forall src t its, Fmt.gen src t = Fmt.Ok its -> FmtProofs.lexed t = true ->
  Fmt.nonws (FmtLemmas.strs its) = Fmt.nonws (FmtProofs.leaves t).
Proof. exact FmtProofs.fmt_nonws_preserved. Qed.

Theorem C17_conditions_hold_signals_only :
  forall src t its n tb fb, Fmt.gen src t = Fmt.Ok its -> In (Fmt.ICond n tb fb) its ->
  FmtLemmas.cond_shape n tb fb /\ Forall FmtLemmas.is_sig tb /\ Forall FmtLemmas.is_sig fb.
Proof. exact FmtProofs.fmt_conditions_hold_signals_only. Qed.

Theorem C17_strings_have_no_tab_or_newline :
  forall src t its s, Fmt.gen src t = Fmt.Ok its -> In (Fmt.IStr s) its ->
  ~ In Fmt.b_tab s /\ ~ In Fmt.b_nl s.
Proof. exact FmtProofs.fmt_strings_have_no_tab_or_newline. Qed.

Theorem C17_indentation_balanced_on_every_paired_resolution :
  forall src t its rho alpha k j, Fmt.gen src t = Fmt.Ok its ->
  FmtLemmas.cnt FmtLemmas.is_si (FmtProofs.resolve rho alpha k j j its)
  = FmtLemmas.cnt FmtLemmas.is_fi (FmtProofs.resolve rho alpha k j j its).
Proof. exact FmtProofs.fmt_indentation_balanced. Qed.

Theorem C17_alt_conditions_come_in_pairs :
  forall src t its, Fmt.gen src t = Fmt.Ok its ->
  FmtLemmas.cnt FmtLemmas.is_altA its = FmtLemmas.cnt FmtLemmas.is_altB its.
Proof. exact FmtProofs.fmt_alt_conditions_paired. Qed.

Theorem C17_newline_groups_balanced :
  forall src t its rho alpha k ja jb, Fmt.gen src t = Fmt.Ok its ->
  FmtLemmas.cnt FmtLemmas.is_sg (FmtProofs.resolve rho alpha k ja jb its)
  = FmtLemmas.cnt FmtLemmas.is_fg (FmtProofs.resolve rho alpha k ja jb its).
Proof. exact FmtProofs.fmt_newline_groups_balanced. Qed.

Theorem C17_generator_returns_only_without_unreachable_kinds :
  forall src t its, Fmt.gen src t = Fmt.Ok its -> FmtProofs.has_bad t = false.
Proof. exact FmtProofs.fmt_ok_means_no_unreachable_kind. Qed.

Theorem C17_unreachable_kind_is_the_panic :
  forall src prev k cs, FmtProofs.bad_kind k = true ->
  Fmt.gen_node src prev (Fmt.FRule k cs) = (Fmt.ICrash Fmt.CUnreachable :: nil).
Proof. exact FmtProofs.fmt_unreachable_kind_crashes. Qed.

Print Assumptions C17_items_keep_the_content.
Print Assumptions C17_items_keep_the_non_whitespace_characters.
Print Assumptions C17_conditions_hold_signals_only.
Print Assumptions C17_strings_have_no_tab_or_newline.
Print Assumptions C17_indentation_balanced_on_every_paired_resolution.
Print Assumptions C17_alt_conditions_come_in_pairs.
Print Assumptions C17_newline_groups_balanced.
Print Assumptions C17_generator_returns_only_without_unreachable_kinds.
Print Assumptions C17_unreachable_kind_is_the_panic.
