(* placeholder: theorems in progress *)
From LV Require Import Sema.
