(* C09 - first, follow and predict sets are the textbook sets.  First sets:
   For every grammar whose node ids are unique and in which every node derives some token string
   (both boolean certificates about the grammar, evaluated on every grammar of the K2
   correspondence), if the transcription of LL1Validator::calc_first terminates, then for every
   sub-expression x:
   a token is in first(x) iff some string derived from x starts with it, and the empty-word
   marker is in first(x) iff x derives the empty string. *)
From Coq Require Import List Arith.
From LV Require Import Sema FirstSpec FirstComplete FirstSound FirstClosed FirstCert PredictSpec FollowSpec FollowSound FollowClosed FollowCert.

Theorem C09_first_sets_exact :
  forall g fuel m,
  wf_ids_b g = true -> productive_b g = true ->
  calc_first g fuel = Some m ->
  forall x, In x (nodes_of g) ->
    (forall a, mem (T a) (get m (rid_of x)) = true <-> First_spec g x a)
    /\ (mem Eps (get m (rid_of x)) = true <-> Nullable_spec g x).
Proof. exact first_exact_any. Qed.

(* the map calc_first returns always satisfies the first-set inclusions *)
Theorem C09_first_sets_closed :
  forall g fuel m, calc_first g fuel = Some m -> first_closed g m = true.
Proof. exact calc_first_closed. Qed.

(* soundness alone needs no closure certificate: whatever calc_first returns is justified *)
Theorem C09_first_sets_sound :
  forall g, wf_ids g -> productive g ->
  forall fuel m x, calc_first g fuel = Some m -> In x (nodes_of g) ->
    (forall a, mem (T a) (get m (rid_of x)) = true -> First_spec g x a)
    /\ (mem Eps (get m (rid_of x)) = true -> Nullable_spec g x).
Proof. exact first_sound. Qed.

(* follow sets (tokens; the empty-word marker in follow sets is ignored, as the property says):
   for every grammar with unique node ids and every first-set map fi, if the transcription of
   LL1Validator::calc_follow terminates, a token is in follow(y)
   iff the textbook rules [Fol] (end markers of the start rule and of parts; what can start the
   rest of a sequence; the follow of the enclosing construct when the rest is nullable; the first
   set of a loop body after itself; rule references pass their follow to the rule body) derive it. *)
Theorem C09_follow_sets_exact :
  forall g fi fuel fo lf,
  wf_ids_b g = true ->
  calc_follow g fi fuel = Some (fo, lf) ->
  forall y a, In y (nodes_of g) -> (mem (T a) (get fo (rid_of y)) = true <-> Fol g fi y a).
Proof. exact follow_exact_any. Qed.

(* the map calc_follow returns always satisfies the follow inclusions, although the loop only watches
   the follow sets of rule bodies *)
Theorem C09_follow_sets_closed :
  forall g fi, wf_ids g -> forall fuel fo lf, calc_follow g fi fuel = Some (fo, lf) -> fol_closed g fi fo = true.
Proof. exact calc_follow_closed. Qed.

(* predict is first, extended by follow when the node is nullable (the empty-word marker is dropped) *)
Theorem C09_predict_is_first_extended_by_follow :
  forall fi fo k s,
  mem s (get (calc_predict fi fo) k) = true <->
  (s <> Eps /\ mem s (get fi k) = true) \/ (mem Eps (get fi k) = true /\ mem s (get fo k) = true).
Proof. exact predict_spec. Qed.

Print Assumptions C09_first_sets_exact.
Print Assumptions C09_first_sets_closed.
Print Assumptions C09_first_sets_sound.
Print Assumptions C09_predict_is_first_extended_by_follow.
Print Assumptions C09_follow_sets_exact.
Print Assumptions C09_follow_sets_closed.
