(* C09 - first sets are exactly the textbook sets (first part of the property; follow and predict
   are decided by the K2 correspondence and the textbook oracle, see DESIGN.md).
   For every grammar whose node ids are unique and in which every node derives some token string
   (both boolean certificates, evaluated on every grammar of the K2 correspondence), if the
   transcription of LL1Validator::calc_first terminates with a map that satisfies the first-set
   inclusions ([first_closed], evaluated likewise), then for every sub-expression x:
   a token is in first(x) iff some string derived from x starts with it, and the empty-word
   marker is in first(x) iff x derives the empty string. *)
From Coq Require Import List Arith.
From LV Require Import Sema FirstSpec FirstComplete FirstSound FirstCert.

Theorem C09_first_sets_exact :
  forall g fuel m,
  wf_ids_b g = true -> productive_b g = true ->
  calc_first g fuel = Some m -> first_closed g m = true ->
  forall x, In x (nodes_of g) ->
    (forall a, mem (T a) (get m (rid_of x)) = true <-> First_spec g x a)
    /\ (mem Eps (get m (rid_of x)) = true <-> Nullable_spec g x).
Proof. exact first_exact. Qed.

(* soundness alone needs no closure certificate: whatever calc_first returns is justified *)
Theorem C09_first_sets_sound :
  forall g, wf_ids g -> productive g ->
  forall fuel m x, calc_first g fuel = Some m -> In x (nodes_of g) ->
    (forall a, mem (T a) (get m (rid_of x)) = true -> First_spec g x a)
    /\ (mem Eps (get m (rid_of x)) = true -> Nullable_spec g x).
Proof. exact first_sound. Qed.

Print Assumptions C09_first_sets_exact.
Print Assumptions C09_first_sets_sound.
