(* C07 - precedence and associativity: the clause about the binding-power table only.
   For every list of recursive branches, every grammar and first-set map: an operator introduced
   by an earlier branch gets strictly larger powers than one from a later branch; a branch groups
   to the left (right power = left power + 1) unless its operator set contains a token declared
   `right`, then to the right (left power = right power + 1) - whether it has one such token or
   several.  That the generated Pratt loop returns the unique tree consistent with the table is
   decided by the K2/K3 correspondence and the precedence oracle, not by a theorem. *)
From Coq Require Import List Arith.
From LV Require Import Sema BindingPowers.

Theorem C07_earlier_branch_binds_tighter :
  forall g fi bs i j idi li ri idj lj rj,
  i < j ->
  nth_error (binding_powers g fi bs) i = Some (idi, (li, ri)) ->
  nth_error (binding_powers g fi bs) j = Some (idj, (lj, rj)) ->
  Nat.max lj rj < Nat.min li ri.
Proof. exact bp_earlier_binds_tighter. Qed.

Theorem C07_left_unless_declared_right :
  forall g fi bs i id l r,
  nth_error (binding_powers g fi bs) i = Some (id, (l, r)) ->
  exists b, nth_error bs i = Some b
            /\ (right_branch g fi b = false -> r = l + 1)
            /\ (right_branch g fi b = true -> l = r + 1).
Proof. exact bp_associativity. Qed.

Print Assumptions C07_earlier_branch_binds_tighter.
Print Assumptions C07_left_unless_declared_right.
