(* placeholder until the first theorems land *)
From LV Require Import Cst.
