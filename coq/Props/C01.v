(* C01 - generated parsers build a lossless syntax tree for every input.
   Statement pins, [exact] and Print Assumptions only. *)
From Coq Require Import List.
From LV Require Import Cst Tree ABuild Runtime Exec Refine ParseEntry ChildrenWalk.
Import ListNotations.

(* the token cells of the pre-order layout of a tree are its leaves, in order *)
Theorem C01_tok_cells_flatten : forall t, tok_cells (flatten t) = leaves t.
Proof. exact tok_cells_flatten. Qed.

(* a valid builder history closed at the root yields the layout of the reference tree,
   and decoding that layout gives the tree back (so walking it visits exactly its cells) *)
Theorem C01_close_root : forall c sn g m k t,
  Inv c sn g -> a_close_root (g_abs g) m k = Some t ->
  exists c', c_close_root c m k = Ok c' /\ nodes c' = flatten t.
Proof. exact close_root_refines. Qed.

Theorem C01_decode_flatten : forall t, decode (flatten t) = Some t.
Proof. exact decode_flatten. Qed.

(* Execution level, for every program of the command language (hence for whatever the back end
   emits, as translated on every run), every token sequence, every predicate/assertion oracle and
   every fuel: if the parse returns and the builder discipline was respected (ghost defined), the
   node vector is the layout of a tree whose leaves are exactly the input tokens in input order,
   each with its index into the span table. *)
Theorem C01_lossless_exec : forall cx prog orc fuel r root msg st,
  parse_entry cx prog orc fuel r root msg = XOk st ->
  gh st <> None ->
  exists t,
    nodes (cstd st) = flatten t
    /\ decode (nodes (cstd st)) = Some t
    /\ leaves t = combine (toks cx) (seq 0 (length (toks cx))).
Proof. exact parse_entry_tree. Qed.

(* the public child iterator on such a layout yields exactly the roots of the child subtrees, in order *)
Theorem C01_children_are_the_subtree_roots : forall c k cs,
  nodes c = flatten (TNode k cs) -> c_children c 0 = Ok (child_offsets cs 1).
Proof. exact children_of_root. Qed.

Print Assumptions C01_lossless_exec.
Print Assumptions C01_children_are_the_subtree_roots.
Print Assumptions C01_tok_cells_flatten.
Print Assumptions C01_close_root.
Print Assumptions C01_decode_flatten.
