(* C11 - rejected grammars yield no parser file (driver model, whole domain).
   "Compiles" is rustc's judgment and is decided by compiling every sampled parser. *)
From Coq Require Import List Bool Arith.
From LV Require Import Cli CliProofs.

Theorem C11_no_parser_file_for_rejected : forall f w v es ex,
  run f w v = (es, ex) -> has_error v = true ->
  writes PGenerated es = false /\ writes PLexer es = false /\ writes PParser es = false /\ writes PGraph es = false.
Proof. exact no_output_for_rejected. Qed.

Print Assumptions C11_no_parser_file_for_rejected.
