(* C11 - rejected grammars yield no parser file (driver model, whole domain).
   "Compiles" is rustc's judgment and is decided by compiling every sampled parser. *)
From Coq Require Import List Bool Arith.
From LV Require Import Cli CliProofs.
From LV Require Exec Scoped.

Theorem C11_no_parser_file_for_rejected : forall f w v es ex,
  run f w v = (es, ex) -> has_error v = true ->
  writes PGenerated es = false /\ writes PLexer es = false /\ writes PParser es = false /\ writes PGraph es = false.
Proof. exact no_output_for_rejected. Qed.

(* The name-binding and control-flow part of "the emitted parser compiles": the interpreter's
   [XStuck] results are exactly the statements rustc would reject for an unbound variable, a call of
   a rule function that does not exist, a `rec` call with the wrong arity or a break / continue /
   plain return that leaves the closure of an ordered-choice alternative.  [prog_scoped] is a boolean
   check of a program (evaluated on the translation of every emitted parser of a run and on
   [Compile.compile] of its grammar); a program that passes it never reaches such a statement, on any
   input, with any oracle, for any fuel.  Types, lifetimes and the preamble of the emitted file are
   rustc's business and stay decided by compiling every sampled parser. *)
Theorem C11_scoped_program_never_stuck :
  forall prog cx orc, Scoped.prog_scoped prog = true ->
  forall fuel r root msg w,
    Exec.find_rule prog r <> None -> Exec.parse_entry cx prog orc fuel r root msg <> Exec.XStuck w.
Proof. exact Scoped.parse_entry_not_stuck. Qed.

Theorem C11_scoped_rule_functions_never_stuck :
  forall prog cx orc, Scoped.prog_scoped prog = true ->
  forall fuel f st, Scoped.fn_scoped prog f = true -> Scoped.okfn (Exec.call_fn cx prog orc fuel f st).
Proof. intros prog cx orc H fuel. exact (proj2 (proj2 (proj2 (proj2 (Scoped.exec_scoped prog cx orc H fuel))))). Qed.

Print Assumptions C11_no_parser_file_for_rejected.
Print Assumptions C11_scoped_program_never_stuck.
Print Assumptions C11_scoped_rule_functions_never_stuck.
