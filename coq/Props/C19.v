(* C19 - the tool only writes what it promises.  Proof over the whole domain of
   the driver model (Cli.v): every combination of flags, file states and verdicts. *)
From Coq Require Import List Bool Arith.
From LV Require Import Cli CliProofs.

Theorem C19_every_configuration : forall f w v, row_ok (f, w, v) = true.
Proof. exact cli_ok_any_verbosity. Qed.

Theorem C19_table_complete : forall f w v, f_verbose f <= 2 -> In (f, w, v) all_rows.
Proof. exact all_rows_complete. Qed.

Print Assumptions C19_every_configuration.
Print Assumptions C19_table_complete.
