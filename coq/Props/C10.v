(* C10 - LL(1) conflicts are reported exactly where the grammar has them (rules that are not left
   recursive and every construct nested anywhere; the operator checks of left-recursive rules are
   decided by the K2 correspondence and the definitional oracle, see DESIGN.md).
   For all first/follow/predict maps, every regular expression x and enough fuel (analyse passes
   S (rsize x)): the transcription of LL1Validator::check reports E011/E013/E014 at a node iff
   the definition of a conflict holds there ([Conflict]: an unguarded branch shares a predict token
   with a later branch; an unguarded loop/option body shares a predict token with its follow set). *)
From Coq Require Import List Arith.
From LV Require Import Sema FirstSpec Conflicts.

Theorem C10_conflicts_reported_exactly :
  forall fi fo pr lf fuel x, rsize x <= fuel -> forall c n, is_ll1 c = true ->
  (In (c, n) (check_regex fi fo pr lf fuel x nil) <-> Conflict fo pr x c n).
Proof. exact check_regex_exact. Qed.

Theorem C10_conflict_free_iff_ll1 :
  forall fi fo pr lf x,
  (forall c n, is_ll1 c = true -> ~ In (c, n) (check_regex fi fo pr lf (S (rsize x)) x nil))
  <-> (forall c n, ~ Conflict fo pr x c n).
Proof. exact conflict_free_iff. Qed.

Print Assumptions C10_conflicts_reported_exactly.
Print Assumptions C10_conflict_free_iff_ll1.
