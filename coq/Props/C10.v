(* C10 - LL(1) conflicts are reported exactly where the grammar has them: alternations, loops and
   options of rules that are not left recursive and of every nested construct (first two theorems)
   and the operator conflicts of left-recursive rules (third theorem).
   For all first/follow/predict maps, every regular expression x and enough fuel (analyse passes
   S (rsize x)): the transcription of LL1Validator::check reports E011/E013/E014 at a node iff
   the definition of a conflict holds there ([Conflict]: an unguarded branch shares a predict token
   with a later branch; an unguarded loop/option body shares a predict token with its follow set). *)
From Coq Require Import List Arith.
From LV Require Import Sema FirstSpec Conflicts.

Theorem C10_conflicts_reported_exactly :
  forall fi fo pr lf fuel x, rsize x <= fuel -> forall c n, is_ll1 c = true ->
  (In (c, n) (check_regex fi fo pr lf fuel x nil) <-> Conflict fo pr x c n).
Proof. exact check_regex_exact. Qed.

Theorem C10_conflict_free_iff_ll1 :
  forall fi fo pr lf x,
  (forall c n, is_ll1 c = true -> ~ In (c, n) (check_regex fi fo pr lf (S (rsize x)) x nil))
  <-> (forall c n, ~ Conflict fo pr x c n).
Proof. exact conflict_free_iff. Qed.

(* the operator part of a left-recursive rule: E012 is reported at an operator iff its branch has no
   leading predicate and the operator's predict set shares a token with the rule's outside follow
   (left_rec_local_follow) or with the operator of a later left-recursive branch *)
Theorem C10_operator_conflicts_exact :
  forall fi fo pr lf fuel id alts recs n,
  In (E012, n) (check_regex fi fo pr lf (S fuel) (RAlt id alts) recs) <-> OpConflict pr lf recs id n.
Proof. exact operator_conflicts_exact. Qed.

(* a left-recursive rule as a whole: its branches that are not left recursive are checked against each other like
   those of any alternation, and every construct nested in any branch as in the first theorem *)
Theorem C10_left_recursive_rule_alternation_exact :
  forall fi fo pr lf fuel id alts recs c n,
  is_ll1 c = true -> list_sum (map rsize alts) <= fuel ->
  (In (c, n) (check_regex fi fo pr lf (S fuel) (RAlt id alts) recs) <->
   (c = E011 /\ exists i op, nth_error (nonleft_of recs alts) i = Some op /\ n = rid_of op /\ has_predicate op = false
                 /\ exists j o, i < j /\ nth_error (nonleft_of recs alts) j = Some o
                                /\ share (get pr (rid_of op)) (get pr (rid_of o)))
   \/ exists o, In o alts /\ Conflict fo pr o c n).
Proof. exact top_alternation_exact. Qed.

Print Assumptions C10_conflicts_reported_exactly.
Print Assumptions C10_conflict_free_iff_ll1.
Print Assumptions C10_operator_conflicts_exact.
Print Assumptions C10_left_recursive_rule_alternation_exact.
