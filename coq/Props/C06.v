(* C06 - later syntax diagnostics have strictly increasing positions (at most one per token) and
   every diagnostic span lies inside the source.  For every program of the command language without
   assertion and ordered-choice statements ([prog_ok], a boolean evaluated on every translated
   parser), every token sequence whose spans are increasing and non-empty, every oracle and fuel. *)
From Coq Require Import List Arith Sorted.
From LV Require Import Cst Tree ABuild Runtime Exec Sema Compile DiagMono CompileOk.

Theorem C06_diagnostics_strictly_increasing_and_in_bounds :
  forall cx prog orc, spans_ok cx -> prog_ok prog = true ->
  forall fuel r root msg st,
    parse_entry cx prog orc fuel r root msg = XOk st ->
    gh st <> None ->
    StronglySorted lt (map d_start (diags st))
    /\ forall d, In d (diags st) -> d_start d <= d_end d /\ d_end d <= max_off cx.
Proof. exact diag_monotone. Qed.

(* The same for the back-end model: for every grammar without ordered choice and assertions, whatever
   the analysis returns for it and whatever names stand behind its node kinds, the program
   [Compile.compile] produces (the function tied to src/backend/rust.rs by the KB correspondence:
   program equality with the translation of the emitted parser) meets [prog_ok]; no per-parser
   certificate is needed. *)
Theorem C06_compiled_program_has_no_choice_or_assertion :
  forall g ntoks order sm ci,
    analyse g ntoks order = Some sm -> grammar_plain g = true -> prog_ok (compile g sm ci) = true.
Proof. exact compile_prog_ok. Qed.

Theorem C06_compiled_parsers :
  forall g ntoks order sm ci, analyse g ntoks order = Some sm -> grammar_plain g = true ->
  forall cx orc, spans_ok cx ->
  forall fuel r root msg st,
    parse_entry cx (compile g sm ci) orc fuel r root msg = XOk st ->
    gh st <> None ->
    StronglySorted lt (map d_start (diags st))
    /\ forall d, In d (diags st) -> d_start d <= d_end d /\ d_end d <= max_off cx.
Proof. exact compiled_parser_diag_monotone. Qed.

Print Assumptions C06_diagnostics_strictly_increasing_and_in_bounds.
Print Assumptions C06_compiled_program_has_no_choice_or_assertion.
Print Assumptions C06_compiled_parsers.
