(* C06 - later syntax diagnostics have strictly increasing positions (at most one per token) and
   every diagnostic span lies inside the source.  For every program of the command language without
   assertion and ordered-choice statements ([prog_ok], a boolean evaluated on every translated
   parser), every token sequence whose spans are increasing and non-empty, every oracle and fuel. *)
From Coq Require Import List Arith Sorted.
From LV Require Import Cst Tree ABuild Runtime Exec DiagMono.

Theorem C06_diagnostics_strictly_increasing_and_in_bounds :
  forall cx prog orc, spans_ok cx -> prog_ok prog = true ->
  forall fuel r root msg st,
    parse_entry cx prog orc fuel r root msg = XOk st ->
    gh st <> None ->
    StronglySorted lt (map d_start (diags st))
    /\ forall d, In d (diags st) -> d_start d <= d_end d /\ d_end d <= max_off cx.
Proof. exact diag_monotone. Qed.

Print Assumptions C06_diagnostics_strictly_increasing_and_in_bounds.
