(* C03 - generated parsers are total: one supporting theorem only.
   For every program of the command language, every input and oracle: a run that returns anything
   but "out of fuel" returns the same result for every larger fuel.  So a parse either has one
   definite result (a tree, a panic, a stuck state) or exhausts every fuel; non-termination of the
   generated parser is the only behaviour the model's XFuel stands for, which is what the K3
   correspondence compares with the watchdog of the compiled parser.  That accepted productive
   grammars never reach panic, stuck or fuel exhaustion is decided by that correspondence and the
   catch_unwind/watchdog oracle, not by a theorem. *)
From Coq Require Import List Arith.
From LV Require Import Cst Tree ABuild Runtime Exec FuelMono.

Theorem C03_result_independent_of_fuel :
  forall cx prog orc f1 f2 r root msg,
  f1 <= f2 -> not_fuel (parse_entry cx prog orc f1 r root msg) ->
  parse_entry cx prog orc f2 r root msg = parse_entry cx prog orc f1 r root msg.
Proof. exact parse_entry_fuel_irrelevant. Qed.

Print Assumptions C03_result_independent_of_fuel.
