(* C03 - generated parsers are total: one supporting theorem only.
   For every program of the command language, every input and oracle: a run that returns anything
   but "out of fuel" returns the same result for every larger fuel.  So a parse either has one
   definite result (a tree, a panic, a stuck state) or exhausts every fuel; non-termination of the
   generated parser is the only behaviour the model's XFuel stands for, which is what the K3
   correspondence compares with the watchdog of the compiled parser.  That accepted productive
   grammars never reach panic, stuck or fuel exhaustion is decided by that correspondence and the
   catch_unwind/watchdog oracle, not by a theorem. *)
From Coq Require Import List Arith.
From LV Require Import Cst Tree ABuild Runtime Exec Sema Compile FuelMono CompileLoop.
Import ListNotations.

Theorem C03_result_independent_of_fuel :
  forall cx prog orc f1 f2 r root msg,
  f1 <= f2 -> not_fuel (parse_entry cx prog orc f1 r root msg) ->
  parse_entry cx prog orc f2 r root msg = parse_entry cx prog orc f1 r root msg.
Proof. exact parse_entry_fuel_irrelevant. Qed.

(* The loop the back end emits for a repetition or option (Compile.c_recover; the KB correspondence
   ties it to src/backend/rust.rs output_recovering_operation) is left - without moving the cursor
   or touching the tree, with at most one diagnostic - whenever the current token cannot start the
   body and lies in the follow set or the recovery set of the construct.  With
   C14_end_of_input_is_recovered_or_followed this is the property's last sentence: every repetition
   and option is left when the end of input is reached.  For every program context, oracle,
   environment, state, body and fuel. *)
Theorem C03_compiled_loop_is_left_at_follow_and_recovery_tokens :
  forall cx prog orc sm rec_of id op body il ic e st fuel,
    tok_in (cur st) (pats (s_first sm) (rid_of op)) = false ->
    tok_in (cur st) (pats (s_follow sm) id) = true \/ tok_in (cur st) (pats (s_recovery sm) id) = true ->
    exists o e' st',
      exec cx prog orc (10 + fuel) rec_of (c_recover sm id op body il ic) e st = XOk (o, e', st')
      /\ pos st' = pos st /\ cstd st' = cstd st /\ cur st' = cur st /\ (o = ONormal \/ o = ORetNone).
Proof. exact recover_loop_exits. Qed.

Theorem C03_star_plus_option_compile_to_that_loop :
  forall g sm ci cxr id op,
    c_regex g sm ci cxr (RStar id op) = [c_recover sm id op (c_regex g sm ci cxr op) true (inch sm id)]
    /\ c_regex g sm ci cxr (RPlus id op)
       = c_regex g sm ci cxr op ++ [c_recover sm id op (c_regex g sm ci cxr op) true (inch sm id)]
    /\ c_regex g sm ci cxr (ROpt id op) = [c_recover sm id op (c_regex g sm ci cxr op) false (inch sm id)].
Proof. intros. repeat split. Qed.

Print Assumptions C03_result_independent_of_fuel.
Print Assumptions C03_compiled_loop_is_left_at_follow_and_recovery_tokens.
Print Assumptions C03_star_plus_option_compile_to_that_loop.
