(* placeholder: theorems in progress *)
From LV Require Import Exec.
