(* C20 - the language server survives any session and answers from the latest text.
   Model: Model/Lsp.v (document store of lelwel-ls.rs / ide::Cache as a state machine over an
   abstract analysis; compat::position_to_offset and span_to_range over codespan).  The theorems
   hold for every analysis function, every history, text, position and offset.  Threads, transport,
   JSON and the analysis itself are not modelled; tools/k6_lspmodel.py ties the model to the code. *)
From Coq Require Import List Arith NArith Bool.
From LV Require Import Lsp LspPos LspProofs.
Import ListNotations.

(* (a) the store *)

Theorem C20_conformant_history_never_crashes :
  forall (A : Type) (analyse : text -> A) (h : history),
  conformant h = true -> ~ In Crash (run A analyse [] h).
Proof. exact conformant_never_crashes. Qed.

Theorem C20_outputs_are_those_of_the_latest_text :
  forall (A : Type) (analyse : text -> A) (h : history),
  run A analyse [] h = spec_run A analyse [] h.
Proof. exact run_is_latest. Qed.

Theorem C20_request_answered_from_latest_text :
  forall (A : Type) (analyse : text -> A) past k u line ch rest,
  let h := past ++ Request k u line ch :: rest in
  conformant h = true ->
  exists t l, latest past u = Some t /\ locate t k line ch = Some l
              /\ nth_error (run A analyse [] h) (length past) = Some (Answer k u (analyse t) l).
Proof. exact request_answered_from_latest. Qed.

Theorem C20_open_published_from_latest_text :
  forall (A : Type) (analyse : text -> A) past u t rest,
  nth_error (run A analyse [] (past ++ Open u t :: rest)) (length past) = Some (Publish u (analyse t))
  /\ latest (past ++ [Open u t]) u = Some t.
Proof. exact open_published_from_latest. Qed.

Theorem C20_change_published_from_latest_text :
  forall (A : Type) (analyse : text -> A) past u c r rest,
  nth_error (run A analyse [] (past ++ Change u (c :: r) :: rest)) (length past)
    = Some (Publish u (analyse (last r c)))
  /\ latest (past ++ [Change u (c :: r)]) u = Some (last r c).
Proof. exact change_published_from_latest. Qed.

Theorem C20_empty_change_is_silent :
  forall (A : Type) (analyse : text -> A) s u, step A analyse s (Change u []) = (s, Silent).
Proof. exact empty_change_is_silent. Qed.

Theorem C20_documents_are_independent :
  forall (A : Type) (analyse : text -> A) s o u,
  uri_of o <> u -> lookup u (fst (step A analyse s o)) = lookup u s.
Proof. exact step_other_document. Qed.

Theorem C20_one_publication_per_text_notification :
  forall (A : Type) (analyse : text -> A) h s u,
  map (publishes_for A u) (run A analyse s h) = map (carries_text_for u) h.
Proof. exact one_publication_per_text. Qed.

Theorem C20_request_without_document_crashes :
  forall (A : Type) (analyse : text -> A) s k u line ch,
  lookup u s = None -> step A analyse s (Request k u line ch) = (s, Crash).
Proof. exact request_without_document_crashes. Qed.

Theorem C20_request_on_closed_document_refuted :
  run_id [] [Request Hover 7 0 0] = [Crash]
  /\ run_id [] [Open 7 t1; Close 7; Request Completion 7 0 0] = [Publish 7 t1; Silent; Crash].
Proof. exact request_on_closed_document_refuted. Qed.

(* (b) positions *)

Theorem C20_position_to_offset_within_text :
  forall t l ch, position_to_offset t l ch <= blen t.
Proof. exact position_to_offset_le_len. Qed.

Theorem C20_position_to_offset_on_character_boundary :
  forall t l ch, exists k, k <= length t /\ position_to_offset t l ch = blen (firstn k t).
Proof. exact position_to_offset_boundary. Qed.

Theorem C20_position_to_offset_in_addressed_line :
  forall t l ch ln, nth_error (split_nl t) l = Some ln ->
  exists k, k <= length ln /\ position_to_offset t l ch = line_off t l + blen (firstn k ln).
Proof. exact position_to_offset_in_line. Qed.

Theorem C20_position_to_offset_missing_line_is_document_end :
  forall t l ch, nth_error (split_nl t) l = None -> position_to_offset t l ch = blen t.
Proof. exact position_to_offset_no_line. Qed.

Theorem C20_offset_to_position_inside_document :
  forall t k, exists l c ln,
  offset_to_position t (blen (firstn k t)) = Some (l, c)
  /\ nth_error (split_nl t) l = Some ln /\ c <= ulen ln.
Proof. exact offset_to_position_inside. Qed.

Theorem C20_offset_to_position_fails_off_boundary :
  forall t off, (forall k, off <> blen (firstn k t)) -> offset_to_position t off = None.
Proof. exact offset_to_position_none_off_boundary. Qed.

Theorem C20_round_trip :
  forall t k l c,
  no_cr (line_prefix (firstn k t)) = true ->
  offset_to_position t (blen (firstn k t)) = Some (l, c) ->
  position_to_offset t l c = blen (firstn k t).
Proof. exact round_trip. Qed.

Theorem C20_round_trip_refuted_inside_crlf :
  let t := [97; 13; 10]%N in
  offset_to_position t 2 = Some (0, 2) /\ position_to_offset t 0 2 = 1.
Proof. exact round_trip_refuted_inside_crlf. Qed.

Print Assumptions C20_conformant_history_never_crashes.
Print Assumptions C20_outputs_are_those_of_the_latest_text.
Print Assumptions C20_request_answered_from_latest_text.
Print Assumptions C20_open_published_from_latest_text.
Print Assumptions C20_change_published_from_latest_text.
Print Assumptions C20_empty_change_is_silent.
Print Assumptions C20_documents_are_independent.
Print Assumptions C20_one_publication_per_text_notification.
Print Assumptions C20_request_without_document_crashes.
Print Assumptions C20_request_on_closed_document_refuted.
Print Assumptions C20_position_to_offset_within_text.
Print Assumptions C20_position_to_offset_on_character_boundary.
Print Assumptions C20_position_to_offset_in_addressed_line.
Print Assumptions C20_position_to_offset_missing_line_is_document_end.
Print Assumptions C20_offset_to_position_inside_document.
Print Assumptions C20_offset_to_position_fails_off_boundary.
Print Assumptions C20_round_trip.
Print Assumptions C20_round_trip_refuted_inside_crlf.
