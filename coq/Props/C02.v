(* C02 - every returned syntax tree is structurally well formed.
   Builder level (unbounded over histories of open / close / advance / mark /
   insert-before-mark / truncate): every history whose operations are valid for
   the reference tree model (ABuild.v) runs on the concrete CstData model without
   panic and keeps the node vector equal to the layout of the reference state;
   closing the root yields exactly the pre-order layout [flatten t] of the
   reference tree, which [decode] reads back.  This file holds statement pins,
   [exact] and Print Assumptions only. *)
From Coq Require Import List.
From LV Require Import Cst Tree ABuild Runtime Exec Refine ExecInv ParseEntry CreateTruthful.
Import ListNotations.

Theorem C02_step_refines : forall c sn g o g',
  Inv c sn g -> g_step g c o = Some g' ->
  exists c' sn', c_step c sn o = Ok (c', sn') /\ Inv c' sn' g'.
Proof. exact step_refines. Qed.

Theorem C02_history_refines : forall h c sn g r,
  Inv c sn g ->
  run_history h c sn (Some g) = r ->
  match r with
  | Ok (c', sn', Some g') => Inv c' sn' g'
  | Ok (_, _, None) => True
  | Panic _ => exists pre o post c1 sn1 g1,
      h = pre ++ o :: post /\ run_history pre c sn (Some g) = Ok (c1, sn1, Some g1) /\ g_step g1 c1 o = None
  end.
Proof. exact history_refines. Qed.

Theorem C02_init : Inv empty_cst [] ghost_empty.
Proof. exact inv_init. Qed.

Theorem C02_close_root : forall c sn g m k t,
  Inv c sn g -> a_close_root (g_abs g) m k = Some t ->
  exists c', c_close_root c m k = Ok c' /\ nodes c' = flatten t.
Proof. exact close_root_refines. Qed.

Theorem C02_decode_flatten : forall t, decode (flatten t) = Some t.
Proof. exact decode_flatten. Qed.

(* Execution level: every statement of the command language preserves the runtime invariant
   (the concrete CstData is the layout of the reference builder state) as long as the ghost is
   defined; the returned vector then decodes to a tree (all programs, inputs, oracles, fuels). *)
Theorem C02_exec_well_formed : forall cx prog orc fuel r root msg st,
  parse_entry cx prog orc fuel r root msg = XOk st ->
  gh st <> None ->
  exists t, nodes (cstd st) = flatten t /\ decode (nodes (cstd st)) = Some t.
Proof.
  intros cx prog orc fuel r root msg st H Hg.
  destruct (parse_entry_tree cx prog orc fuel r root msg st H Hg) as (t & H1 & H2 & _).
  exists t. split; assumption.
Qed.

(* second clause: the reference passed to create_node is the node that was just closed, and the cell it
   names carries the kind it was closed with (SClose, SCreate and the error paths of the command language
   log [ECreate k ref] with exactly the result of this call) *)
Theorem C02_create_node_truthful : forall st m k ref st',
  p_close st m k = Ok (ref, st') ->
  ref = m /\ exists off, nth_error (nodes (cstd st')) ref = Some (NRule k off).
Proof. exact p_close_truthful. Qed.

Print Assumptions C02_exec_well_formed.
Print Assumptions C02_step_refines.
Print Assumptions C02_history_refines.
Print Assumptions C02_init.
Print Assumptions C02_close_root.
Print Assumptions C02_decode_flatten.
Print Assumptions C02_create_node_truthful.
