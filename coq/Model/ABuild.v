(* The abstract tree builder (reference tree model) and the validity
   discipline for builder operations.  A state is a stack of open frames
   (innermost first), each holding its finished children oldest-first, plus the
   run of trailing skipped leaves ("trail") that no node has claimed yet, plus
   [lag]: the number of already-claimed skipped cells that the concrete
   [non_skip_len] still lags behind after an insert-at-end (repaired by the
   next close / open / non-skipped advance).
   Operations return [None] when the operation is *invalid* in that state.
   No proofs in this file. *)
From Coq Require Import List Arith Bool.
From LV Require Import Cst Tree.
Import ListNotations.

Definition frame := list tree.

Record abs := mkAbs { stack : list frame; trail : list (tok * nat); lag : nat }.

Definition leaf_of (p : tok * nat) : tree := TLeaf (fst p) (snd p).
Definition tleaves (tr : list (tok * nat)) : list tree := map leaf_of tr.

(* layout with placeholders as wildcards ([None]) *)
Definition ocells (f : list tree) : list (option node) := map Some (fflatten f).

Fixpoint frames_cells (st : list frame) : list (option node) :=
  match st with
  | [] => []
  | f :: outer => frames_cells outer ++ None :: ocells f
  end.

Definition layout (a : abs) : list (option node) :=
  frames_cells (stack a) ++ ocells (tleaves (trail a)).

(* number of cells in front of the top frame's placeholder *)
Definition base (a : abs) : nat :=
  match stack a with
  | [] => 0
  | _ :: outer => length (frames_cells outer)
  end.

Definition abs_empty : abs := mkAbs [] [] 0.

Definition flush_into (f : frame) (tr : list (tok * nat)) : frame := f ++ tleaves tr.

Definition a_open (a : abs) : option abs :=
  match stack a with
  | [] => match trail a with
          | [] => Some (mkAbs [[]] [] 0)
          | _ => None
          end
  | top :: outer => Some (mkAbs ([] :: flush_into top (trail a) :: outer) [] 0)
  end.

Definition a_advance (a : abs) (t : tok) (idx : nat) (skip : bool) : option abs :=
  match stack a with
  | [] => None
  | top :: outer =>
    if skip then Some (mkAbs (stack a) (trail a ++ [(t, idx)]) (lag a))
    else Some (mkAbs ((flush_into top (trail a) ++ [TLeaf t idx]) :: outer) [] 0)
  end.

(* close the top frame; [m] is the mark the caller passes *)
Definition a_close (a : abs) (m : nat) (k : kind) : option abs :=
  match stack a with
  | top :: next :: outer =>
    if m =? base a
    then Some (mkAbs ((next ++ [TNode k top]) :: outer) (trail a) 0)
    else None
  | _ => None
  end.

Definition a_close_root (a : abs) (m : nat) (k : kind) : option tree :=
  match stack a with
  | [top] => if m =? 0 then Some (TNode k (flush_into top (trail a))) else None
  | _ => None
  end.

(* split a forest where the prefix occupies exactly [off] cells *)
Fixpoint split_forest (f : list tree) (off : nat) : option (list tree * list tree) :=
  match off with
  | 0 => Some ([], f)
  | _ =>
    match f with
    | [] => None
    | t :: r =>
      if tsize t <=? off then
        match split_forest r (off - tsize t) with
        | Some (p, s) => Some (t :: p, s)
        | None => None
        end
      else None
    end
  end.

(* insert a new frame in front of position [p] of the layout *)
Definition a_open_before (a : abs) (p : nat) : option abs :=
  match stack a with
  | [] => None
  | top :: outer =>
    if p <=? base a then None
    else
      let off := p - base a - 1 in
      match split_forest top off with
      | Some (k1, k2) => Some (mkAbs (k2 :: k1 :: outer) (trail a) (lag a))
      | None =>
        let j := off - fsize top in
        if (fsize top <? off) && (j <=? length (trail a))
        then Some (mkAbs ([] :: flush_into top (firstn j (trail a)) :: outer)
                         (skipn j (trail a)) (lag a + j))
        else None
      end
  end.

(* ghost state: abstract builder + live snapshots (newest first).
   A snapshot remembers the truncation mark and the abstract state. *)
Record snap := mkSnap { sn_mark : tmark; sn_abs : abs }.
Record ghost := mkGhost { g_abs : abs; g_snaps : list snap }.

Definition ghost_empty : ghost := mkGhost abs_empty [].

Definition snaps_allow (sn : list snap) (p : nat) : bool :=
  forallb (fun s => tm_nodes (sn_mark s) <=? p) sn.

(* builder operations, as they appear in histories *)
Inductive bop :=
| BOpen
| BClose (m : nat) (k : kind)
| BAdvance (t : tok) (skip : bool)
| BOpenBefore (p : nat)
| BSnap                       (* mark_truncation, pushed on the snapshot stack *)
| BRestore (i : nat)          (* truncate to the i-th newest live snapshot (0 = newest); newer ones die *)
| BRelease.                   (* the newest snapshot dies *)

Definition c_step (c : cst) (sn : list tmark) (o : bop) : res (cst * list tmark) :=
  match o with
  | BOpen => Ok (snd (c_open c), sn)
  | BClose m k => match c_close c m k with Ok c' => Ok (c', sn) | Panic w => Panic w end
  | BAdvance t s => Ok (c_advance c t s, sn)
  | BOpenBefore p => match c_open_before c p with Ok c' => Ok (c', sn) | Panic w => Panic w end
  | BSnap => Ok (c, c_mark_truncation c :: sn)
  | BRestore i =>
    match nth_error sn i with
    | Some tm => Ok (c_truncate c tm, skipn i sn)
    | None => Panic pUnwrap
    end
  | BRelease => Ok (c, tl sn)
  end.

(* [g_step g c o]: ghost step; needs the concrete state only to read the token
   index ([tcount]) and the truncation mark that [BSnap] records. *)
Definition g_step (g : ghost) (c : cst) (o : bop) : option ghost :=
  match o with
  | BOpen => option_map (fun a => mkGhost a (g_snaps g)) (a_open (g_abs g))
  | BClose m k => option_map (fun a => mkGhost a (g_snaps g)) (a_close (g_abs g) m k)
  | BAdvance t s => option_map (fun a => mkGhost a (g_snaps g)) (a_advance (g_abs g) t (tcount c) s)
  | BOpenBefore p =>
    if snaps_allow (g_snaps g) p
    then option_map (fun a => mkGhost a (g_snaps g)) (a_open_before (g_abs g) p)
    else None
  | BSnap => Some (mkGhost (g_abs g) (mkSnap (c_mark_truncation c) (g_abs g) :: g_snaps g))
  | BRestore i =>
    match nth_error (g_snaps g) i with
    | Some s => Some (mkGhost (sn_abs s) (skipn i (g_snaps g)))
    | None => None
    end
  | BRelease =>
    match g_snaps g with
    | [] => None
    | _ :: r => Some (mkGhost (g_abs g) r)
    end
  end.

(* run a whole history from the empty builder *)
Fixpoint run_history (h : list bop) (c : cst) (sn : list tmark) (g : option ghost)
  : res (cst * list tmark * option ghost) :=
  match h with
  | [] => Ok (c, sn, g)
  | o :: r =>
    match c_step c sn o with
    | Panic w => Panic w
    | Ok (c', sn') =>
      run_history r c' sn' (match g with Some g0 => g_step g0 c o | None => None end)
    end
  end.
