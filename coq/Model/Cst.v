(* Concrete, bug-compatible model of `CstData` / `CstChildren`
   (src/skeleton/generated.rs).  Indices, offsets and counts are `nat`
   (usize below 2^48; the CstIndex packing is the identity there).
   Debug-build semantics: underflow, out-of-range indexing and slicing are
   explicit [Panic] results.  No proofs in this file. *)
From Coq Require Import List Arith Bool.
Import ListNotations.

Definition kind := nat.   (* Rule enum discriminant; 0 is Rule::Error *)
Definition tok  := nat.   (* Token enum discriminant *)
Definition kError : kind := 0.

Inductive node :=
| NRule (k : kind) (off : nat)
| NTok  (t : tok)  (idx : nat).

Record cst := mkCst { nodes : list node; tcount : nat; nsl : nat }.

Inductive res (A : Type) :=
| Ok (a : A)
| Panic (why : nat).
Arguments Ok {A} a.
Arguments Panic {A} why.

(* panic reasons (only "panicked or not" is compared with the implementation) *)
Definition pUnderflow := 1.
Definition pIndex := 2.
Definition pInsert := 3.
Definition pSlice := 4.
Definition pUnwrap := 5.

Definition empty_cst : cst := mkCst [] 0 0.

Definition set_nth {A} (n : nat) (x : A) (l : list A) : list A :=
  firstn n l ++ x :: skipn (S n) l.

Definition insert_at {A} (n : nat) (x : A) (l : list A) : list A :=
  firstn n l ++ x :: skipn n l.

(* fn open(&mut self) -> MarkOpened *)
Definition c_open (c : cst) : nat * cst :=
  (length (nodes c),
   mkCst (nodes c ++ [NRule kError 0]) (tcount c) (S (length (nodes c)))).

(* fn close(&mut self, mark, rule) -> MarkClosed *)
Definition c_close (c : cst) (m : nat) (k : kind) : res cst :=
  match nsl c with
  | 0 => Panic pUnderflow
  | S len =>
    if length (nodes c) <=? m then Panic pIndex
    else if len <? m
      then Ok (mkCst (set_nth m (NRule k 0) (nodes c)) (tcount c) (nsl c + (m - len)))
      else Ok (mkCst (set_nth m (NRule k (len - m)) (nodes c)) (tcount c) (nsl c))
  end.

(* fn close_root(&mut self, mark, rule) -> MarkClosed *)
Definition c_close_root (c : cst) (m : nat) (k : kind) : res cst :=
  if length (nodes c) <=? m then Panic pUnderflow
  else Ok (mkCst (set_nth m (NRule k (length (nodes c) - 1 - m)) (nodes c)) (tcount c) (nsl c)).

(* fn advance(&mut self, token, skip) *)
Definition c_advance (c : cst) (t : tok) (skip : bool) : cst :=
  mkCst (nodes c ++ [NTok t (tcount c)]) (S (tcount c))
        (if skip then nsl c else S (length (nodes c))).

(* fn open_before(&mut self, mark) -> MarkOpened   (Vec::insert panics if index > len) *)
Definition c_open_before (c : cst) (m : nat) : res cst :=
  if length (nodes c) <? m then Panic pInsert
  else Ok (mkCst (insert_at m (NRule kError 0) (nodes c)) (tcount c) (S (nsl c))).

Definition c_mark (c : cst) : nat := length (nodes c).

Record tmark := mkTmark { tm_nodes : nat; tm_tcount : nat; tm_nsl : nat }.

Definition c_mark_truncation (c : cst) : tmark :=
  mkTmark (length (nodes c)) (tcount c) (nsl c).

Definition c_truncate (c : cst) (tm : tmark) : cst :=
  mkCst (firstn (tm_nodes tm) (nodes c)) (tm_tcount tm) (tm_nsl tm).

(* CstChildren::next, iterated: [walk_children sl off] is the list of NodeRefs the
   iterator yields for slice [sl] starting at reference [off].  [fuel] only bounds
   the recursion; [length sl] always suffices. *)
Fixpoint walk_children (fuel : nat) (sl : list node) (off : nat) : list nat :=
  match fuel with
  | 0 => []
  | S fuel' =>
    match sl with
    | [] => []
    | NRule _ e :: rest => off :: walk_children fuel' (skipn e rest) (S off + e)
    | NTok _ _ :: rest => off :: walk_children fuel' rest (S off)
    end
  end.

(* pub fn children(&self, node_ref) -> CstChildren *)
Definition c_children (c : cst) (i : nat) : res (list nat) :=
  match nth_error (nodes c) i with
  | None => Panic pIndex
  | Some (NTok _ _) => Ok []
  | Some (NRule _ e) =>
    if length (nodes c) <? i + e + 1 then Panic pSlice
    else let sl := firstn e (skipn (S i) (nodes c)) in
         Ok (walk_children (length sl) sl (S i))
  end.

Definition c_get (c : cst) (i : nat) : res node :=
  match nth_error (nodes c) i with
  | None => Panic pIndex
  | Some n => Ok n
  end.

(* span(): [spans] is the token span table *)
Fixpoint find_token (l : list node) : option nat :=
  match l with
  | [] => None
  | NTok _ i :: _ => Some i
  | NRule _ _ :: r => find_token r
  end.

Definition c_span (spans : list (nat * nat)) (c : cst) (i : nat) : res (nat * nat) :=
  match nth_error (nodes c) i with
  | None => Panic pIndex
  | Some (NTok _ idx) =>
    match nth_error spans idx with Some s => Ok s | None => Panic pIndex end
  | Some (NRule _ e) =>
    if length (nodes c) <? i + e + 1 then Panic pSlice
    else
      let sl := firstn e (skipn (S i) (nodes c)) in
      match find_token sl, find_token (rev sl) with
      | Some f, Some l =>
        match nth_error spans f, nth_error spans l with
        | Some (s, _), Some (_, e') => Ok (s, e')
        | _, _ => Panic pIndex
        end
      | _, _ =>
        match find_token (rev (firstn i (nodes c))) with
        | None => Ok (0, 0)
        | Some b =>
          match nth_error spans b with
          | Some (_, e') => Ok (e', e')
          | None => Panic pIndex
          end
        end
      end
  end.
