(* Model of the `Parser` runtime of src/skeleton/generated.rs: one definition
   per method, same order of effects.  The builder ghost (ABuild.v) is stepped
   in lock-step; [ghost = None] records that some builder operation was invalid
   (sticky).  No proofs in this file. *)
From Coq Require Import List Arith Bool.
From LV Require Import Cst Tree ABuild.
Import ListNotations.

Definition msgid := nat.
Record diag := mkDiag { d_start : nat; d_end : nat; d_msg : msgid }.

Inductive event :=
| ECreate (k : kind) (idx : nat)       (* create_node_<k>(NodeRef(idx)) *)
| EDelete (k : kind) (idx : nat)       (* delete_node(k, NodeRef(idx)) *)
| EAction (n : nat) (pos : nat).

(* immutable parse context *)
Record pctx := mkCtx {
  toks : list tok;
  spans : list (nat * nat);
  max_off : nat;
  eoi : tok;
  skipped : list tok;      (* Token::Error and the grammar's skip list *)
}.

Record pstate := mkSt {
  cstd : cst;
  pos : nat;
  cur : tok;
  err_node : option nat;
  in_choice : bool;
  esa : bool;                 (* error_since_advance *)
  diags : list diag;          (* oldest first *)
  log : list event;           (* oldest first *)
  gh : option ghost;
  snaps : list tmark;         (* concrete truncation marks of live ParserStates, newest first (ghost bookkeeping only) *)
}.

Definition is_skipped (cx : pctx) (t : tok) : bool := existsb (Nat.eqb t) (skipped cx).

Definition gstep (st : pstate) (o : bop) : option ghost :=
  match gh st with
  | Some g => g_step g (cstd st) o
  | None => None
  end.

Definition set_cst (st : pstate) (c : cst) (g : option ghost) : pstate :=
  mkSt c (pos st) (cur st) (err_node st) (in_choice st) (esa st) (diags st) (log st) g (snaps st).

Definition active_error (st : pstate) : bool :=
  match err_node st with Some _ => true | None => esa st end.

(* fn error(&mut self, diags, diag) *)
Definition p_error (st : pstate) (d : diag) : pstate :=
  if active_error st then st
  else mkSt (cstd st) (pos st) (cur st) (err_node st) (in_choice st) true (diags st ++ [d]) (log st)
            (gh st) (snaps st).

(* fn span(&self) -> Span *)
Definition p_span (cx : pctx) (st : pstate) : nat * nat :=
  match nth_error (spans cx) (pos st) with
  | Some s => s
  | None => (max_off cx, max_off cx)
  end.

Definition mk_diag (cx : pctx) (st : pstate) (m : msgid) : diag :=
  let s := p_span cx st in mkDiag (fst s) (snd s) m.

(* fn close_error_node(&mut self, diags) *)
Definition p_close_error_node (st : pstate) : res pstate :=
  match err_node st with
  | None => Ok st
  | Some m =>
    match c_close (cstd st) m kError with
    | Panic w => Panic w
    | Ok c' =>
      Ok (mkSt c' (pos st) (cur st) None (in_choice st) (esa st) (diags st)
               (log st ++ [ECreate kError m]) (gstep st (BClose m kError)) (snaps st))
    end
  end.

(* the skipping loop shared by advance and init_skip: push skipped tokens
   starting at index [p]; returns the new position and current token.
   [fuel] bounds the loop by the number of remaining tokens. *)
Fixpoint skip_loop (cx : pctx) (fuel : nat) (p : nat) (c : cst) (g : option ghost)
  : nat * tok * cst * option ghost :=
  match fuel with
  | 0 => (p, eoi cx, c, g)
  | S fuel' =>
    match nth_error (toks cx) p with
    | None => (p, eoi cx, c, g)
    | Some t =>
      if is_skipped cx t
      then skip_loop cx fuel' (S p) (c_advance c t true)
             (match g with Some g0 => g_step g0 c (BAdvance t true) | None => None end)
      else (p, t, c, g)
    end
  end.

(* fn advance(&mut self, error: bool, diags) *)
Definition p_advance (cx : pctx) (st : pstate) (error : bool) : res pstate :=
  match (if error then Ok st else
           match p_close_error_node st with
           | Ok s => Ok (mkSt (cstd s) (pos s) (cur s) (err_node s) (in_choice s) false (diags s) (log s)
                              (gh s) (snaps s))
           | Panic w => Panic w
           end) with
  | Panic w => Panic w
  | Ok s =>
    let c1 := c_advance (cstd s) (cur s) false in
    (* consuming the end-of-input marker is recorded as a discipline violation *)
    let g1 := if pos s <? length (toks cx) then gstep s (BAdvance (cur s) false) else None in
    match skip_loop cx (length (toks cx)) (S (pos s)) c1 g1 with
    | (p', t', c', g') =>
      Ok (mkSt c' p' t' (err_node s) (in_choice s) (esa s) (diags s) (log s) g' (snaps s))
    end
  end.

(* fn init_skip(&mut self) *)
Definition p_init_skip (cx : pctx) (st : pstate) : pstate :=
  match skip_loop cx (length (toks cx)) (pos st) (cstd st) (gh st) with
  | (p', t', c', g') =>
    mkSt c' p' t' (err_node st) (in_choice st) (esa st) (diags st) (log st) g' (snaps st)
  end.

(* fn advance_with_error(&mut self, diags, diag) *)
Definition p_advance_with_error (cx : pctx) (st : pstate) (m : msgid) : res pstate :=
  let s1 := p_error st (mk_diag cx st m) in
  if length (toks cx) <=? pos s1 then Ok s1 else
  let s2 :=
    match err_node s1 with
    | Some _ => s1
    | None =>
      let (mk, c') := c_open (cstd s1) in
      mkSt c' (pos s1) (cur s1) (Some mk) (in_choice s1) (esa s1) (diags s1) (log s1)
           (gstep s1 BOpen) (snaps s1)
    end in
  p_advance cx s2 true.

(* fn peek(&self, lookahead) / peek_left(&self, lookbehind) *)
Definition p_peek (cx : pctx) (st : pstate) (n : nat) : tok :=
  nth n (filter (fun t => negb (is_skipped cx t)) (skipn (pos st) (toks cx))) (eoi cx).

Definition p_peek_left (cx : pctx) (st : pstate) (n : nat) : tok :=
  nth n (filter (fun t => negb (is_skipped cx t)) (rev (firstn (S (pos st)) (toks cx)))) (eoi cx).

(* wrappers: every one calls close_error_node first *)
Definition p_open (st : pstate) : res (nat * pstate) :=
  match p_close_error_node st with
  | Panic w => Panic w
  | Ok s =>
    let (mk, c') := c_open (cstd s) in
    Ok (mk, set_cst s c' (gstep s BOpen))
  end.

Definition p_open_before (st : pstate) (m : nat) : res (nat * pstate) :=
  match p_close_error_node st with
  | Panic w => Panic w
  | Ok s =>
    match c_open_before (cstd s) m with
    | Panic w => Panic w
    | Ok c' => Ok (m, set_cst s c' (gstep s (BOpenBefore m)))
    end
  end.

Definition p_close (st : pstate) (m : nat) (k : kind) : res (nat * pstate) :=
  match p_close_error_node st with
  | Panic w => Panic w
  | Ok s =>
    match c_close (cstd s) m k with
    | Panic w => Panic w
    | Ok c' => Ok (m, set_cst s c' (gstep s (BClose m k)))
    end
  end.

Definition p_mark (st : pstate) : res (nat * pstate) :=
  match p_close_error_node st with
  | Panic w => Panic w
  | Ok s => Ok (c_mark (cstd s), s)
  end.

(* ParserState *)
Record saved := mkSaved { sv_pos : nat; sv_cur : tok; sv_tm : tmark; sv_diags : nat; sv_err : option nat; sv_esa : bool }.

Definition p_get_state (st : pstate) : saved * pstate :=
  (mkSaved (pos st) (cur st) (c_mark_truncation (cstd st)) (length (diags st)) (err_node st) (esa st),
   mkSt (cstd st) (pos st) (cur st) (err_node st) (in_choice st) (esa st) (diags st) (log st)
        (gstep st BSnap) (c_mark_truncation (cstd st) :: snaps st)).

(* delete_node calls for every rule cell above the truncation point; [deletable]
   says which kinds have a delete arm in the emitted `delete_node` *)
Fixpoint delete_events (deletable : kind -> bool) (l : list node) (i : nat) : list event :=
  match l with
  | [] => []
  | NRule k _ :: r =>
    (if deletable k then [EDelete k i] else []) ++ delete_events deletable r (S i)
  | NTok _ _ :: r => delete_events deletable r (S i)
  end.

(* fn set_state(&mut self, state, diags); the newest live snapshot is the one restored *)
Definition p_set_state (deletable : kind -> bool) (st : pstate) (sv : saved) : pstate :=
  let n := tm_nodes (sv_tm sv) in
  (* a pending error node that the abandoned alternative closed (and announced) is announced as deleted *)
  let del_err := match sv_err sv, err_node st with
                 | Some m, None => if deletable kError then [EDelete kError m] else []
                 | _, _ => []
                 end in
  mkSt (c_truncate (cstd st) (sv_tm sv)) (sv_pos sv) (sv_cur sv) (sv_err sv) (in_choice st) (sv_esa sv)
       (firstn (sv_diags sv) (diags st))
       (log st ++ del_err ++ delete_events deletable (skipn n (nodes (cstd st))) n)
       (gstep st (BRestore 0)) (snaps st).

(* end of life of the newest ParserState (ghost only) *)
Definition p_release (st : pstate) : pstate :=
  mkSt (cstd st) (pos st) (cur st) (err_node st) (in_choice st) (esa st) (diags st) (log st)
       (gstep st BRelease) (tl (snaps st)).

Definition init_state : pstate :=
  mkSt empty_cst 0 0 None false false [] [] (Some ghost_empty) [].
