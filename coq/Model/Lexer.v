(* Executable model of lelwel's grammar-file lexer: /repo/src/frontend/lexer.rs
   (`#[derive(Logos)] enum Token`, the callbacks `parse_string` / `parse_block_comment`,
   `check_string` and `tokenize`).

   A text is a list of Unicode code points (`N`); positions are BYTE offsets of the UTF-8
   encoding (`utf8_len`), as in the real lexer.  The model is bug-compatible with what logos 0.16
   generates for the patterns of `Token`:
     - longest match; on equal length the more specific pattern wins (keywords beat `Id`,
       `DocComment` beats `LineComment`);
     - the only place where the automaton runs past its last accepting state is `//…` without a
       closing newline: the token is then the single `/` (`Slash`);
     - when no pattern matches, the `Error` token extends over the bytes the automaton consumed
       before it died, at least one character: a lone `?`, `#`, `!`, `<` is one Error, digits
       not followed by `>` are one Error spanning the digits, any other character is an Error of
       that one character (all of its UTF-8 bytes);
     - `'` starts `parse_string` (stops before a newline; a backslash takes the next character
       with it, whatever it is, even a newline);
     - `/*` starts `parse_block_comment` (first `*/` in the remainder, else everything).
   Every scanner returns a NUMBER OF CHARACTERS; lexeme and remainder are `firstn` / `skipn`. *)
From Coq Require Import List NArith Arith Bool.
Import ListNotations.
Local Open Scope N_scope.

Definition text := list N.

(* ---------------------------------------------------------------- UTF-8 *)

Definition utf8_len (c : N) : nat :=
  if c <? 128 then 1%nat else if c <? 2048 then 2%nat else if c <? 65536 then 3%nat else 4%nat.

Fixpoint blen (t : text) : nat :=
  match t with
  | [] => 0%nat
  | c :: r => (utf8_len c + blen r)%nat
  end.

(* ---------------------------------------------------------------- token kinds: the variants of `Token` *)

Inductive kind :=
| KEOF | KLineComment | KBlockComment | KDocComment | KWhitespace
| KToken | KStart | KRight | KSkip | KPart
| KColon | KSemi | KEqual | KLPar | KRPar | KLBrak | KRBrak | KOr | KStar | KPlus | KHat | KTilde
| KAnd | KSlash | KId | KStr | KPredicate | KAction | KAssertion | KNodeRename | KNodeMarker
| KNodeCreation | KError.

(* `LexerError` *)
Inductive lexerr := Invalid | UnterminatedString | UnterminatedComment.

(* what `lexer.spanned()` yields: Ok(token) or Err(error) *)
Inductive lres := LOk (k : kind) | LErr (e : lexerr).

(* diagnostics pushed by `tokenize` / `check_string` *)
Inductive dkind := DInvalidToken | DUnterminatedString | DUnterminatedComment | DInvalidEscape.

Definition tok := (kind * nat * nat)%type.
Definition diag := (dkind * nat * nat)%type.

(* ---------------------------------------------------------------- character classes *)

Definition is_ws (c : N) : bool :=           (* [ \t\r\n\f] *)
  (c =? 32) || (c =? 9) || (c =? 13) || (c =? 10) || (c =? 12).
Definition is_digit (c : N) : bool := (48 <=? c) && (c <=? 57).
Definition is_alpha (c : N) : bool := ((65 <=? c) && (c <=? 90)) || ((97 <=? c) && (c <=? 122)).
Definition is_idc (c : N) : bool := is_alpha c || is_digit c || (c =? 95).   (* [a-zA-Z_0-9] *)
Definition not_nl (c : N) : bool := negb (c =? 10).

Definition punct_kind (c : N) : option kind :=
  if c =? 58 then Some KColon else if c =? 59 then Some KSemi else if c =? 61 then Some KEqual
  else if c =? 40 then Some KLPar else if c =? 41 then Some KRPar
  else if c =? 91 then Some KLBrak else if c =? 93 then Some KRBrak
  else if c =? 124 then Some KOr else if c =? 42 then Some KStar else if c =? 43 then Some KPlus
  else if c =? 94 then Some KHat else if c =? 126 then Some KTilde else if c =? 38 then Some KAnd
  else None.

Inductive cclass :=
| CWs | CAlpha | CDigit | CGt | CAt | CQuest | CHash | CBang | CLt | CQuote | CSlash
| CPunct (k : kind) | COther.

Definition classify (c : N) : cclass :=
  if is_ws c then CWs
  else if is_alpha c then CAlpha
  else if is_digit c then CDigit
  else if c =? 62 then CGt
  else if c =? 64 then CAt
  else if c =? 63 then CQuest
  else if c =? 35 then CHash
  else if c =? 33 then CBang
  else if c =? 60 then CLt
  else if c =? 39 then CQuote
  else if c =? 47 then CSlash
  else match punct_kind c with Some k => CPunct k | None => COther end.

(* ---------------------------------------------------------------- scanners *)

Fixpoint count_while (p : N -> bool) (r : text) : nat :=
  match r with
  | c :: r' => if p c then S (count_while p r') else 0%nat
  | [] => 0%nat
  end.

(* optional identifier: a letter followed by letters, digits, underscores *)
Definition opt_ident (r : text) : nat :=
  match r with
  | d :: _ => if is_alpha d then count_while is_idc r else 0%nat
  | [] => 0%nat
  end.

Fixpoint text_eqb (a b : text) : bool :=
  match a, b with
  | [], [] => true
  | x :: a', y :: b' => (x =? y) && text_eqb a' b'
  | _, _ => false
  end.

Definition kw_token : text := [116; 111; 107; 101; 110].
Definition kw_start : text := [115; 116; 97; 114; 116].
Definition kw_right : text := [114; 105; 103; 104; 116].
Definition kw_skip : text := [115; 107; 105; 112].
Definition kw_part : text := [112; 97; 114; 116].

Definition kw_or_id (w : text) : kind :=
  if text_eqb w kw_token then KToken
  else if text_eqb w kw_start then KStart
  else if text_eqb w kw_right then KRight
  else if text_eqb w kw_skip then KSkip
  else if text_eqb w kw_part then KPart
  else KId.

(* `parse_string` on the remainder behind the opening quote: (characters bumped, Ok?) *)
Fixpoint scan_str (r : text) : nat * bool :=
  match r with
  | [] => (0%nat, false)
  | c :: r' =>
      if c =? 39 then (1%nat, true)
      else if c =? 10 then (0%nat, false)
      else if c =? 92 then
        match r' with
        | [] => (1%nat, false)
        | _ :: r'' => let (n, ok) := scan_str r'' in (S (S n), ok)
        end
      else let (n, ok) := scan_str r' in (S n, ok)
  end.

(* `remainder.find("*/").map(|i| i + 2)` counted in characters *)
Fixpoint scan_block (r : text) : option nat :=
  match r with
  | [] => None
  | c :: r' =>
      match r' with
      | [] => None
      | d :: _ => if (c =? 42) && (d =? 47) then Some 2%nat else option_map S (scan_block r')
      end
  end.

(* `X[0-9]+` for X in # ! < : number of digits, or Error of the one character *)
Definition num_tok (k : kind) (r : text) : lres * nat :=
  match count_while is_digit r with
  | O => (LErr Invalid, 0%nat)
  | n => (LOk k, n)
  end.

(* One step of the logos automaton (plus callback) at a text `c :: r`.
   Result (res, n): the token is `c :: firstn n r`, the lexer continues at `skipn n r`. *)
Definition next_token (c : N) (r : text) : lres * nat :=
  match classify c with
  | CWs => (LOk KWhitespace, count_while is_ws r)
  | CAlpha => let n := count_while is_idc r in (LOk (kw_or_id (c :: firstn n r)), n)
  | CDigit =>
      let n := count_while is_digit r in
      match skipn n r with
      | g :: b => if g =? 62 then (LOk KNodeCreation, S (n + opt_ident b))%nat else (LErr Invalid, n)
      | [] => (LErr Invalid, n)
      end
  | CGt => (LOk KNodeCreation, opt_ident r)
  | CAt => (LOk KNodeRename, opt_ident r)
  | CQuest =>
      match r with
      | d :: _ => if is_digit d then (LOk KPredicate, count_while is_digit r)
                  else if d =? 116 then (LOk KPredicate, 1%nat)
                  else (LErr Invalid, 0%nat)
      | [] => (LErr Invalid, 0%nat)
      end
  | CHash => num_tok KAction r
  | CBang => num_tok KAssertion r
  | CLt => num_tok KNodeMarker r
  | CQuote => let (n, ok) := scan_str r in ((if ok then LOk KStr else LErr UnterminatedString), n)
  | CSlash =>
      match r with
      | d :: r1 =>
          if d =? 42 then
            match scan_block r1 with
            | Some n => (LOk KBlockComment, S n)
            | None => (LErr UnterminatedComment, length r)
            end
          else if d =? 47 then
            let n := count_while not_nl r1 in
            match skipn n r1 with
            | [] => (LOk KSlash, 0%nat)               (* `//…` without newline: backtrack to `/` *)
            | _ :: _ =>
                (LOk (match r1 with
                      | e :: _ => if e =? 47 then KDocComment else KLineComment
                      | [] => KLineComment
                      end), S (S n))
            end
          else (LOk KSlash, 0%nat)
      | [] => (LOk KSlash, 0%nat)
      end
  | CPunct k => (LOk k, 0%nat)
  | COther => (LErr Invalid, 0%nat)
  end.

(* ---------------------------------------------------------------- the token loop *)

Record chunk := mkchunk { ck_res : lres; ck_lexeme : text }.

Fixpoint chunks_fuel (fuel : nat) (t : text) : list chunk :=
  match fuel with
  | O => []
  | S f =>
      match t with
      | [] => []
      | c :: r =>
          let (res, n) := next_token c r in
          mkchunk res (c :: firstn n r) :: chunks_fuel f (skipn n r)
      end
  end.

Definition chunks (t : text) : list chunk := chunks_fuel (length t) t.

(* `check_string(value, span, diags)`: `off` is span.start + (byte index of the head of `s`) *)
Fixpoint check_str (off : nat) (s : text) : list diag :=
  match s with
  | [] => []
  | c :: s' =>
      if c =? 92 then
        match s' with
        | [] => []                                          (* unreachable!() in the source *)
        | d :: s'' =>
            let i := (utf8_len c + off)%nat in              (* span.start + i *)
            let rest := check_str (utf8_len d + i)%nat s'' in
            if (d =? 39) || (d =? 92) then rest
            else (DInvalidEscape, (i - 1)%nat, (utf8_len d + i)%nat) :: rest
        end
      else check_str (utf8_len c + off)%nat s'
  end.

Definition kind_is_str (k : kind) : bool := match k with KStr => true | _ => false end.

(* `tokenize`: tokens with byte spans, and the diagnostics in the order they are pushed *)
Fixpoint place (pos : nat) (cs : list chunk) : list tok * list diag :=
  match cs with
  | [] => ([], [])
  | ch :: cs' =>
      let e := (blen (ck_lexeme ch) + pos)%nat in
      let (ts, ds) := place e cs' in
      match ck_res ch with
      | LOk k => ((k, pos, e) :: ts, (if kind_is_str k then check_str pos (ck_lexeme ch) else []) ++ ds)
      | LErr UnterminatedComment => ((KBlockComment, pos, e) :: ts, (DUnterminatedComment, pos, e) :: ds)
      | LErr UnterminatedString => ((KError, pos, e) :: ts, (DUnterminatedString, pos, e) :: ds)
      | LErr Invalid => ((KError, pos, e) :: ts, (DInvalidToken, pos, e) :: ds)
      end
  end.

Definition lex (t : text) : list tok * list diag := place 0 (chunks t).
