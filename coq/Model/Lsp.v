(* Lsp.v - executable model of the part of the language server that is logic.

   Real code:  src/bin/lelwel-ls.rs   (message dispatch)
               src/ide/mod.rs         (Cache: uri -> analysis thread holding one text; mod compat)
               codespan-reporting-0.13.1/src/files.rs   (line_starts, SimpleFile::line_start/line_index/line_range)
               codespan-lsp-0.13.1/src/lib.rs           (byte_index_to_position, location_to_position)

   Part 1  texts, UTF-8 / UTF-16 lengths
   Part 2  position conversion, twice:
             *_cs   the literal transcription of codespan + compat (line_starts vector, binary search,
                    line_range, slicing the source by a byte range, the char_indices loop)
             position_to_offset / offset_to_position   one structural pass over the text
           LspProofs.v proves the theorems about the structural pair and LspCodespan.v proves that the
           literal pair computes the same function; the correspondence check runs both against the real code.
   Part 3  the document store as a state machine over an abstract analysis `analyse : text -> A`.

   A text is a list of code points (N, so that astral characters are cheap); byte offsets, lines,
   UTF-16 units and uris are nat.  Panics (`unwrap` on None/Err) are the value `Crash` / `None`. *)
From Coq Require Import List Arith NArith Bool Lia.
Import ListNotations.

(* ------------------------------------------------------------------ Part 1: texts *)

Definition text := list N.
Definition NL : N := 10%N.
Definition CR : N := 13%N.

(* char::len_utf8, char::len_utf16 *)
Definition utf8_len (c : N) : nat :=
  if (c <? 128)%N then 1 else if (c <? 2048)%N then 2 else if (c <? 65536)%N then 3 else 4.
Definition utf16_len (c : N) : nat := if (c <? 65536)%N then 1 else 2.

(* str::len (bytes) and the number of UTF-16 units of a text *)
Fixpoint blen (t : text) : nat := match t with [] => 0 | c :: r => utf8_len c + blen r end.
Fixpoint ulen (t : text) : nat := match t with [] => 0 | c :: r => utf16_len c + ulen r end.

(* ------------------------------------------------------------------ Part 2a: codespan, literally *)

(* files.rs line_starts: once(0).chain(source.match_indices('\n').map(|(i, _)| i + 1)) *)
Fixpoint nl_offsets (off : nat) (t : text) : list nat :=
  match t with
  | [] => []
  | c :: r => if (c =? NL)%N then (off + utf8_len c) :: nl_offsets (off + utf8_len c) r
              else nl_offsets (off + utf8_len c) r
  end.
Definition line_starts (t : text) : list nat := 0 :: nl_offsets 0 t.

(* SimpleFile::line_start: Less -> the entry, Equal -> source.len(), Greater -> Err(LineTooLarge) *)
Definition line_start (t : text) (i : nat) : option nat :=
  match Nat.compare i (length (line_starts t)) with
  | Lt => nth_error (line_starts t) i
  | Eq => Some (blen t)
  | Gt => None
  end.

(* SimpleFile::line_range: line_start(i)? .. line_start(i+1)? *)
Definition line_range (t : text) (i : nat) : option (nat * nat) :=
  match line_start t i with
  | None => None
  | Some a => match line_start t (S i) with None => None | Some b => Some (a, b) end
  end.

(* SimpleFile::line_index: line_starts.binary_search(&byte_index).unwrap_or_else(|next| next - 1).
   On a strictly increasing vector that starts with 0 both arms are (number of entries <= index) - 1. *)
Definition line_index (t : text) (off : nat) : nat :=
  length (filter (fun s => s <=? off) (line_starts t)) - 1.

(* &source[a..b] for a, b on character boundaries: the characters whose first byte lies in [a, b) *)
Fixpoint slice (t : text) (cur a b : nat) : text :=
  match t with
  | [] => []
  | c :: r => if (a <=? cur) && (cur <? b) then c :: slice r (cur + utf8_len c) a b
              else slice r (cur + utf8_len c) a b
  end.

(* compat::position_to_offset, the loop over source[line].char_indices():
     if units >= pos.character || c == '\n' || c == '\r' { return line.start + i }  units += c.len_utf16()
   and `line.end` behind the loop *)
Fixpoint scan_cs (l : text) (off units ch lend : nat) : nat :=
  match l with
  | [] => lend
  | c :: r => if (ch <=? units) || (c =? NL)%N || (c =? CR)%N then off
              else scan_cs r (off + utf8_len c) (units + utf16_len c) ch lend
  end.

Definition position_to_offset_cs (t : text) (line ch : nat) : nat :=
  match line_range t line with
  | None => blen t                                  (* let Ok(line) = … else { return source.len() } *)
  | Some (a, b) => scan_cs (slice t 0 a b) a 0 ch b
  end.

(* line_str[..column] when column is a character boundary of line_str *)
Fixpoint prefix_at (l : text) (col : nat) : option text :=
  match col with
  | 0 => Some []
  | _ => match l with
         | [] => None
         | c :: r => if col <? utf8_len c then None      (* inside c: not a boundary *)
                     else match prefix_at r (col - utf8_len c) with
                          | Some p => Some (c :: p) | None => None end
         end
  end.

(* codespan_lsp::byte_index_to_position + location_to_position; None = Err(..), which
   compat::span_to_range unwraps *)
Definition offset_to_position_cs (t : text) (off : nat) : option (nat * nat) :=
  let li := line_index t off in
  match line_range t li with
  | None => None                                    (* files.line_range(..).unwrap() *)
  | Some (a, b) =>
      let ls := slice t 0 a b in
      let col := off - a in
      if blen ls <? col then None                   (* ColumnTooLarge *)
      else match prefix_at ls col with
           | None => None                           (* InvalidCharBoundary *)
           | Some p => Some (li, ulen p)
           end
  end.

(* ------------------------------------------------------------------ Part 2b: one pass over the text *)

(* the rest of the text at the start of line n, and the byte offset of that start;
   None when the text has fewer than n newlines (line_range Err) *)
Fixpoint drop_lines (t : text) (n : nat) (off : nat) : option (text * nat) :=
  match n with
  | 0 => Some (t, off)
  | S n' => match t with
            | [] => None
            | c :: r => if (c =? NL)%N then drop_lines r n' (off + utf8_len c)
                        else drop_lines r n (off + utf8_len c)
            end
  end.

(* the loop of compat::position_to_offset run on the rest of the text: it returns at the first
   '\n', so running past the end of the line slice cannot happen; `line.end` is reached only on a
   last line without newline, where it is the end of the text *)
Fixpoint scan (t : text) (off units ch : nat) : nat :=
  match t with
  | [] => off
  | c :: r => if (ch <=? units) || (c =? NL)%N || (c =? CR)%N then off
              else scan r (off + utf8_len c) (units + utf16_len c) ch
  end.

Definition position_to_offset (t : text) (line ch : nat) : nat :=
  match drop_lines t line 0 with
  | None => blen t
  | Some (r, a) => scan r a 0 ch
  end.

(* walk to byte offset `off`: cur = offset of the head of t, (line, units) = its position *)
Fixpoint o2p_go (t : text) (off cur line units : nat) : option (nat * nat) :=
  if cur =? off then Some (line, units)
  else match t with
       | [] => None                                           (* behind the end: ColumnTooLarge *)
       | c :: r => if off <? cur + utf8_len c then None       (* inside c: InvalidCharBoundary *)
                   else if (c =? NL)%N then o2p_go r off (cur + utf8_len c) (S line) 0
                   else o2p_go r off (cur + utf8_len c) line (units + utf16_len c)
       end.

Definition offset_to_position (t : text) (off : nat) : option (nat * nat) := o2p_go t off 0 0 0.

(* ------------------------------------------------------------------ specification vocabulary *)

(* the lines of a text as the server sees them: split at '\n' only, terminator removed
   (a '\r' stays in the line) *)
Fixpoint split_nl (t : text) : list text :=
  match t with
  | [] => [[]]
  | c :: r => if (c =? NL)%N then [] :: split_nl r
              else match split_nl r with
                   | l :: ls => (c :: l) :: ls
                   | [] => [[c]]
                   end
  end.

(* the characters up to the first '\n' *)
Fixpoint first_line (t : text) : text :=
  match t with [] => [] | c :: r => if (c =? NL)%N then [] else c :: first_line r end.

(* walking a prefix: (number of '\n' passed, the characters behind the last of them) *)
Fixpoint walk (pre : text) (line : nat) (acc : text) : nat * text :=
  match pre with
  | [] => (line, acc)
  | c :: p => if (c =? NL)%N then walk p (S line) [] else walk p line (acc ++ [c])
  end.
Definition line_of (pre : text) : nat := fst (walk pre 0 []).
Definition line_prefix (pre : text) : text := snd (walk pre 0 []).

(* byte offset of the start of line l: the first l lines with their newlines *)
Fixpoint lines_blen (ls : list text) : nat :=
  match ls with [] => 0 | l :: r => blen l + 1 + lines_blen r end.
Definition line_off (t : text) (l : nat) : nat := lines_blen (firstn l (split_nl t)).

Definition no_nl (t : text) : bool := forallb (fun c => negb (c =? NL)%N) t.
Definition no_cr (t : text) : bool := forallb (fun c => negb (c =? CR)%N) t.

(* ------------------------------------------------------------------ Part 3: the document store *)

Definition uri := nat.

Inductive kind := Hover | GotoDef | References | Completion | Formatting.

Inductive op :=
| Open (u : uri) (t : text)                 (* textDocument/didOpen *)
| Change (u : uri) (cs : list text)         (* textDocument/didChange, contentChanges (full texts) *)
| Close (u : uri)                           (* textDocument/didClose *)
| Request (k : kind) (u : uri) (line ch : nat).

Definition history := list op.

Definition uri_of (o : op) : uri :=
  match o with Open u _ => u | Change u _ => u | Close u => u | Request _ u _ _ => u end.

(* where in the text a request looks *)
Inductive loc :=
| AtOffset (off : nat)                              (* hover, definition, references, completion *)
| WholeText (s e : nat * nat).                      (* formatting: span_to_range of the root span *)

Definition state := list (uri * text).

Fixpoint lookup (u : uri) (s : state) : option text :=
  match s with [] => None | (v, t) :: r => if v =? u then Some t else lookup u r end.
Fixpoint remove (u : uri) (s : state) : state :=
  match s with [] => [] | (v, t) :: r => if v =? u then remove u r else (v, t) :: remove u r end.
Definition set (u : uri) (t : text) (s : state) : state := (u, t) :: remove u s.

(* None = compat::span_to_range unwraps an Err *)
Definition locate (t : text) (k : kind) (line ch : nat) : option loc :=
  match k with
  | Formatting =>
      match offset_to_position t 0, offset_to_position t (blen t) with
      | Some s, Some e => Some (WholeText s e)
      | _, _ => None
      end
  | _ => Some (AtOffset (position_to_offset t line ch))
  end.

Section Store.
  Variable A : Type.
  Variable analyse : text -> A.     (* parse + semantic pass + whatever the handlers read from them *)

  Inductive out :=
  | Publish (u : uri) (a : A)                  (* publishDiagnostics for u, computed from a *)
  | Answer (k : kind) (u : uri) (a : A) (l : loc)   (* response computed from a at l *)
  | Silent                                     (* didClose: nothing is sent *)
  | Crash.                                     (* the main thread panics: the process is gone *)

  (* lelwel-ls.rs: DidOpen/DidChange: invalidate; analyze; get_diagnostics.  DidChange takes
     content_changes.into_iter().last()? - the last entry; with no entry it returns None: nothing
     is sent and the map is not touched.  DidClose: invalidate.  Requests:
     analyzers.get_mut(uri).unwrap().  A panic happens before the map is touched. *)
  Definition step (s : state) (o : op) : state * out :=
    match o with
    | Open u t => (set u t s, Publish u (analyse t))
    | Change u cs =>
        match cs with
        | [] => (s, Silent)
        | c :: r => (set u (last r c) s, Publish u (analyse (last r c)))
        end
    | Close u => (remove u s, Silent)
    | Request k u line ch =>
        match lookup u s with
        | None => (s, Crash)
        | Some t => match locate t k line ch with
                    | None => (s, Crash)
                    | Some l => (s, Answer k u (analyse t) l)
                    end
        end
    end.

  (* the outputs of a session; like the in-process harness (catch_unwind) it goes on after a crash,
     the real process does not *)
  Fixpoint run (s : state) (h : history) : list out :=
    match h with
    | [] => []
    | o :: r => snd (step s o) :: run (fst (step s o)) r
    end.
  Fixpoint final (s : state) (h : history) : state :=
    match h with [] => s | o :: r => final (fst (step s o)) r end.
End Store.

Arguments Publish {A}. Arguments Answer {A}. Arguments Silent {A}. Arguments Crash {A}.

(* ------------------------------------------------------------------ protocol and specification *)

Fixpoint mem (u : uri) (l : list uri) : bool :=
  match l with [] => false | v :: r => (v =? u) || mem u r end.
Fixpoint del (u : uri) (l : list uri) : list uri :=
  match l with [] => [] | v :: r => if v =? u then del u r else v :: del u r end.

(* protocol-conformant histories: a document is opened before it is used, not opened twice, not used
   after it was closed until it is opened again.  contentChanges may have any number of entries. *)
Fixpoint conformant_from (opened : list uri) (h : history) : bool :=
  match h with
  | [] => true
  | Open u _ :: r => negb (mem u opened) && conformant_from (u :: opened) r
  | Change u _ :: r => mem u opened && conformant_from opened r
  | Close u :: r => mem u opened && conformant_from (del u opened) r
  | Request _ u _ _ :: r => mem u opened && conformant_from opened r
  end.
Definition conformant (h : history) : bool := conformant_from [] h.

(* the latest text of a document, read off the history alone: the text of the most recent open, or
   the LAST entry of the most recent change that has entries (they apply in order and under full
   synchronisation each replaces the whole text); none after a close *)
Definition upd (u : uri) (cur : option text) (o : op) : option text :=
  match o with
  | Open v t => if v =? u then Some t else cur
  | Change v cs => if v =? u then match cs with [] => cur | c :: r => Some (last r c) end else cur
  | Close v => if v =? u then None else cur
  | Request _ _ _ _ => cur
  end.
Definition latest (h : history) (u : uri) : option text := fold_left (upd u) h None.
