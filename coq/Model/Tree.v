(* Rose trees: *the* meaning of the flat node vector.  [flatten] lays a tree
   out in pre-order with end offsets; [decode] is its executable inverse.
   No proofs in this file. *)
From Coq Require Import List Arith Bool.
From LV Require Import Cst.
Import ListNotations.

Inductive tree :=
| TNode (k : kind) (cs : list tree)
| TLeaf (t : tok) (idx : nat).

Fixpoint tsize (t : tree) : nat :=
  match t with
  | TLeaf _ _ => 1
  | TNode _ cs => S (list_sum (map tsize cs))
  end.

Definition fsize (f : list tree) : nat := list_sum (map tsize f).

Fixpoint flatten (t : tree) : list node :=
  match t with
  | TLeaf t i => [NTok t i]
  | TNode k cs => NRule k (list_sum (map tsize cs)) :: flat_map flatten cs
  end.

Definition fflatten (f : list tree) : list node := flat_map flatten f.

Fixpoint leaves (t : tree) : list (tok * nat) :=
  match t with
  | TLeaf t i => [(t, i)]
  | TNode _ cs => flat_map leaves cs
  end.

Definition fleaves (f : list tree) : list (tok * nat) := flat_map leaves f.

(* token cells of a node vector, in order *)
Fixpoint tok_cells (l : list node) : list (tok * nat) :=
  match l with
  | [] => []
  | NTok t i :: r => (t, i) :: tok_cells r
  | NRule _ _ :: r => tok_cells r
  end.

(* [decode_forest fuel l] reads [l] completely as a forest. *)
Fixpoint decode_forest (fuel : nat) (l : list node) : option (list tree) :=
  match fuel with
  | 0 => match l with [] => Some [] | _ => None end
  | S fuel' =>
    match l with
    | [] => Some []
    | NTok t i :: r =>
      match decode_forest fuel' r with
      | Some f => Some (TLeaf t i :: f)
      | None => None
      end
    | NRule k e :: r =>
      if length r <? e then None
      else
        match decode_forest fuel' (firstn e r), decode_forest fuel' (skipn e r) with
        | Some cs, Some f => Some (TNode k cs :: f)
        | _, _ => None
        end
    end
  end.

Definition decode (l : list node) : option tree :=
  match decode_forest (length l) l with
  | Some [t] => Some t
  | _ => None
  end.

(* Depth-first walk through the *implementation's* child iterator
   ([c_children] of Cst.v), collecting token cells: what a user of
   `Cst::children` sees. *)
Fixpoint walk_leaves (fuel : nat) (c : cst) (i : nat) : res (list (tok * nat)) :=
  match fuel with
  | 0 => Panic 0
  | S fuel' =>
    match c_get c i with
    | Panic w => Panic w
    | Ok (NTok t idx) => Ok [(t, idx)]
    | Ok (NRule _ _) =>
      match c_children c i with
      | Panic w => Panic w
      | Ok ks =>
        fold_left (fun acc j =>
                     match acc, walk_leaves fuel' c j with
                     | Ok a, Ok b => Ok (a ++ b)
                     | Panic w, _ => Panic w
                     | _, Panic w => Panic w
                     end) ks (Ok [])
      end
    end
  end.

(* "no rule node other than the root starts or ends with a skipped token",
   read at child level (see DESIGN 3.2). *)
Definition is_skip_leaf (skipped : tok -> bool) (t : tree) : bool :=
  match t with TLeaf k _ => skipped k | TNode _ _ => false end.

Fixpoint no_trivia_edge_below (skipped : tok -> bool) (t : tree) : bool :=
  match t with
  | TLeaf _ _ => true
  | TNode _ cs =>
    negb (match cs with [] => false | c :: _ => is_skip_leaf skipped c end)
    && negb (match rev cs with [] => false | c :: _ => is_skip_leaf skipped c end)
    && forallb (no_trivia_edge_below skipped) cs
  end.

Definition no_trivia_edge (skipped : tok -> bool) (t : tree) : bool :=
  match t with
  | TLeaf _ _ => true
  | TNode _ cs => forallb (no_trivia_edge_below skipped) cs
  end.
