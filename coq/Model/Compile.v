(* Model of the Rust back end (src/backend/rust.rs: output_rule, output_normal_rule,
   output_left_recursive_rule, output_regex, output_recovering_operation, the elision and
   node-kind helpers and the delete_node arm table of output_generated): a function from a
   resolved grammar, its analysis result ([Sema.sema]) and the name-dependent facts the analysis
   model does not carry ([cinfo]: numbers of predicates/actions/assertions/markers, the node kinds
   behind rule names, renames and creations) to a [program] of the command language of Exec.v -
   the same programs tools/rust2cmd.py reads off the emitted text.  Function by function, same
   order of emitted statements.  The elision classes computed by GeneralCheck::check_regex
   (RuleNodeElision) are recomputed here ([elision_of]).  No proofs in this file.

   Message ids: the emitted code carries message strings; the model carries
     0            the assertion diagnostic (Exec.msg_assert)
     1            syntax_error_message(&[])                     "invalid syntax"
     3*id + 2     the expect!/try_expect! message of token reference node [id]
     3*id + 3     the set message of node [id]: follow(body).error for a star/plus, predict.error
                  for an option or alternation; [msg_sets] lists the sets
   and the correspondence renders both sides to strings. *)
From Coq Require Import List Arith Bool.
From LV Require Import Cst Tree ABuild Runtime Exec Sema.
Import ListNotations.

Inductive payload :=
| PNum (n : nat)                            (* ?n  #n  !n  <n *)
| PRename (k : option kind)                 (* @name / bare @ *)
| PCreate (mark : option nat) (k : kind).   (* n>name (Some n) / >name (None: whole rule); kind resolved *)

Record cinfo := mkCinfo {
  ci_payload : list (nat * payload);        (* by node id *)
  ci_rule_kind : list kind;                 (* by rule index: Rule::<PascalCase(name)> *)
  ci_part_kind : kind;                      (* Rule::Part, 0 when the grammar has no parts *)
}.

(* RuleNodeElision::{alt, concat, opt} *)
Definition el_alt (a b : elision) : elision :=
  match a, b with
  | ENone, ENone => ENone
  | ENone, _ => ECond
  | EUncond, EUncond => EUncond
  | EUncond, _ => ECond
  | ECond, _ => ECond
  end.
Definition el_concat (a b : elision) : elision :=
  match a, b with
  | ENone, n => n
  | EUncond, _ => EUncond
  | ECond, EUncond => EUncond
  | ECond, _ => ECond
  end.
Definition el_opt (a : elision) : elision := match a with ENone => ENone | _ => ECond end.

(* the value GeneralCheck::check_regex returns (and stores in sema.elision) *)
Fixpoint elision_of (x : regex) : elision :=
  match x with
  | RChoice _ ops | RAlt _ ops => fold_left (fun acc o => el_alt acc (elision_of o)) ops ENone
  | RCat _ ops => fold_left (fun acc o => el_concat acc (elision_of o)) ops ENone
  | RParen _ (Some o) => elision_of o
  | ROpt _ o | RStar _ o => el_opt (elision_of o)
  | RPlus _ o => elision_of o
  | RLeaf _ LElision => EUncond
  | _ => ENone
  end.

Definition el_eqb (a b : elision) : bool :=
  match a, b with ENone, ENone | EUncond, EUncond | ECond, ECond => true | _, _ => false end.

Definition msg_invalid : msgid := 1.
Definition msg_tok (id : nat) : msgid := 3 * id + 2.
Definition msg_set (id : nat) : msgid := 3 * id + 3.

Definition toks_of (s : set) : list tok :=
  flat_map (fun x => match x with T t => [t] | Eps => [] end) s.

(* fn get_predicate *)
Fixpoint get_predicate (x : regex) : option guard :=
  match x with
  | RCat _ (RLeaf _ (LPred None) :: _) => Some GTrue
  | RCat _ (RLeaf _ (LPred (Some n)) :: _) => Some (GPred n)
  | RParen _ (Some o) => get_predicate o
  | _ => None
  end.

Fixpoint has_leaf (p : nat -> leafk -> bool) (x : regex) : bool :=
  match x with
  | RCat _ ops | RAlt _ ops | RChoice _ ops => existsb (has_leaf p) ops
  | RStar _ o | RPlus _ o | ROpt _ o => has_leaf p o
  | RParen _ (Some o) => has_leaf p o
  | RLeaf id k => p id k
  | _ => false
  end.

Section Compile.
Variable g : grammar.
Variable sm : sema.
Variable ci : cinfo.

Fixpoint pl_get (l : list (nat * payload)) (id : nat) : option payload :=
  match l with
  | [] => None
  | (k, v) :: r => if Nat.eqb k id then Some v else pl_get r id
  end.
Definition payload_of (id : nat) : option payload := pl_get (ci_payload ci) id.

Definition pats (m : smap) (id : nat) : list tok := toks_of (get m id).
Definition inch (id : nat) : bool := nmem id (s_in_choice sm).
Definition ocr (b : bool) : list stmt := if b then [SOcr] else [].
Definition rule_in_choice (r : nat) : bool :=
  match nth_rule g r with Some ru => inch (r_decl ru) | None => false end.
Definition rule_kind (r : nat) : kind := nth r (ci_rule_kind ci) 0.

(* the per-rule context of output_regex: the rule's own node kind, rule_elision, has_rule_rename *)
Record rctx := mkRctx { rc_kind : kind; rc_el : elision; rc_rename : bool }.

(* fn output_recovering_operation *)
Definition c_recover (rid_ : nat) (op : regex) (body : list stmt) (is_loop ic : bool) : stmt :=
  let recov := pats (s_recovery sm) rid_ in
  SLoop [SMatch
           ([(pats (s_first sm) (rid_of op), get_predicate op, body ++ (if is_loop then [] else [SBreak]));
             (pats (s_follow sm) rid_, None, [SBreak])]
            ++ match recov with
               | [] => []
               | _ => [(recov, None, ocr ic ++ [SError (msg_set rid_); SBreak])]
               end)
           (ocr ic ++ [SAdvErr (msg_set rid_)])].

(* the arm `advance_error_set => advance_with_error` of an alternation *)
Definition adv_error_set (ops : list regex) : set :=
  fold_left (fun acc o =>
               match get_predicate o with
               | None => diff acc (get (s_predict sm) (rid_of o))
               | Some _ => union acc (get (s_predict sm) (rid_of o))
               end) ops [].

(* fn output_regex *)
Fixpoint c_regex (cx : rctx) (x : regex) {struct x} : list stmt :=
  let id := rid_of x in
  let ic := inch id in
  match x with
  | RTok _ t => [SExpect t ic (msg_tok id)]
  | RRule _ r => [SCall r (rule_in_choice r && ic)]
  | RChoice _ ops =>
    let fix go (l : list regex) : list (list tok * list stmt) * (list tok * list stmt) :=
      match l with
      | [] => ([], ([], []))
      | o :: r =>
        match r with
        | [] => ([], (pats (s_predict sm) (rid_of o), c_regex cx o))
        | _ => let '(a, last) := go r in ((pats (s_predict sm) (rid_of o), c_regex cx o) :: a, last)
        end
      end in
    let '(alts, (lp, last)) := go ops in
    [SSetChoice true;
     SOrdChoice (el_eqb (rc_el cx) ECond) (rc_rename cx) alts lp last msg_invalid;
     SSetChoice false]
  | RCat _ ops => flat_map (c_regex cx) ops
  | RAlt _ ops =>
    let arms := map (fun o => (pats (s_predict sm) (rid_of o), get_predicate o, c_regex cx o)) ops in
    let aes := toks_of (adv_error_set ops) in
    [SMatch (arms ++ match aes with
                     | [] => []
                     | _ => [(aes, None, ocr ic ++ [SAdvErr msg_invalid])]
                     end)
            (ocr ic ++ [SError (msg_set id)])]
  | RStar _ op => [c_recover id op (c_regex cx op) true ic]
  | RPlus _ op => c_regex cx op ++ [c_recover id op (c_regex cx op) true ic]
  | ROpt _ op => [c_recover id op (c_regex cx op) false ic]
  | RParen _ (Some op) => c_regex cx op
  | RParen _ None => []
  | RLeaf _ k =>
    match k, payload_of id with
    | LAction, Some (PNum n) => [SAction n]
    | LAssert, Some (PNum n) => [SAssert n ic]
    | LRename, Some (PRename (Some k0)) => [SKind false k0]
    | LElision, _ => if el_eqb (rc_el cx) ECond then [SSetElide] else []
    | LMarker, Some (PNum n) => [SLetMark (VMk n)]
    | LCreation, Some (PCreate mark k0) =>
      [SCreate (match mark with Some n => VMk n | None => VStart end) k0]
    | LCommit, _ => [SSetChoice false]
    | LReturn, _ => [SReturnIfError (rc_el cx) ic]
    | _, _ => []
    end
  end.

(* fn output_cst_close (close_root is never requested by its callers) *)
Definition close_stmt (cx : rctx) (assign : bool) : stmt :=
  SClose (if rc_rename cx then None else Some (rc_kind cx)) assign.

(* fn output_elision_init *)
Definition elision_init (has_creation is_start : bool) (el : elision) : list stmt :=
  let start := if has_creation then [SLetMark VStart] else [] in
  if is_start then start
  else match el with
       | ENone => SLetOpen :: start
       | ECond => [SLetMark VStart; SLetElide]
       | EUncond => start
       end.

(* fn output_node_kind_decl *)
Definition node_kind_decl (cx : rctx) (decl : bool) : list stmt :=
  if rc_rename cx then [SKind decl (rc_kind cx)] else [].

(* fn output_elision_check *)
Definition elision_check (cx : rctx) (is_start : bool) (el : elision) : list stmt :=
  if is_start then []
  else match el with
       | ENone => [close_stmt cx false]
       | ECond => [SIfNotElide [SLetOpenBefore VStart; close_stmt cx false]]
       | EUncond => []
       end.

(* fn output_normal_rule *)
Definition c_normal_rule (cx : rctx) (has_creation is_start : bool) (body : regex) : list stmt :=
  elision_init has_creation is_start (rc_el cx)
  ++ node_kind_decl cx true
  ++ c_regex cx body
  ++ elision_check cx is_start (rc_el cx).

Definition branch_of (recs : list recursion) (x : regex) : option recursion :=
  find (fun b => Nat.eqb (rid_of (rec_regex b)) (rid_of x)) recs.

Definition bp_of (x : regex) : nat * nat :=
  match find (fun p => Nat.eqb (fst p) (rid_of x)) (s_bp sm) with
  | Some p => snd p
  | None => (0, 0)
  end.

Definition requires_bp (recs : list recursion) : bool :=
  existsb (fun b => match b with RecRight _ _ | RecLeftRight _ _ _ => true | RecLeft _ _ => false end) recs.

Definition call_rec (rbp ic : bool) (bp : nat) (v : var) : stmt :=
  SRec (if rbp then Some bp else None) v ic.

(* the arms of the first `match` of fn rec: branches that are not left recursive *)
Definition c_primary_arm (kind0 : kind) (rename rbp ic : bool) (recs : list recursion) (alt_op : regex)
  : list (list tok * option guard * list stmt) :=
  let br := branch_of recs alt_op in
  match br with
  | Some (RecLeft _ _) | Some (RecLeftRight _ _ _) => []
  | _ =>
    let el := elision_of alt_op in
    let cx := mkRctx kind0 el rename in
    let body :=
        match br, alt_op with
        | Some (RecRight _ index), RCat _ ops =>
          flat_map (fun p => if Nat.eqb (fst p) index
                             then [SLetMark VLhs; call_rec rbp ic (fst (bp_of alt_op)) VLhs]
                             else c_regex cx (snd p)) (enumerate 0 ops)
        | _, _ => c_regex cx alt_op
        end in
    [(pats (s_predict sm) (rid_of alt_op), get_predicate alt_op,
      elision_init false false el ++ body ++ elision_check cx false el)]
  end.

(* the arm of a left recursive branch in the operator loop *)
Definition c_operator_arm (kind0 : kind) (rename rbp ic : bool) (b : recursion)
  : list (list tok * option guard * list stmt) :=
  let cx := mkRctx kind0 ENone rename in
  let mk (br : regex) (ops : list regex) (li : nat) (ri : option nat) :=
      let rest := filter (fun p => negb (is_pred (snd p)) && negb (Nat.eqb (fst p) li)) (enumerate 0 ops) in
      match rest with
      | [] => [([], None, [close_stmt cx true; SContinue])]
      | (_, first) :: _ =>
        [(pats (s_predict sm) (rid_of first), get_predicate br,
          (if rbp then [SIfBpBreak (fst (bp_of br))] else [])
          ++ [SLetOpenBefore VLhs]
          ++ flat_map (fun p =>
                         match ri with
                         | Some r => if Nat.eqb r (fst p)
                                     then [SLetMark VRhs; call_rec rbp ic (snd (bp_of br)) VRhs]
                                     else c_regex cx (snd p)
                         | None => c_regex cx (snd p)
                         end) rest
          ++ [close_stmt cx true; SContinue])]
      end in
  match b with
  | RecLeft (RCat i ops) li => mk (RCat i ops) ops li None
  | RecLeftRight (RCat i ops) li ri => mk (RCat i ops) ops li (Some ri)
  | _ => []
  end.

(* fn output_left_recursive_rule: (fn_body, fn_rec) *)
Definition c_left_recursive_rule (kind0 : kind) (rename ic : bool) (body : regex) (recs : list recursion)
  : list stmt * (bool * list stmt) :=
  let rbp := requires_bp recs in
  let cx := mkRctx kind0 ENone rename in
  let ops := match body with RAlt _ ops => ops | _ => [] end in
  let prim_ops := filter (fun o => match branch_of recs o with
                                   | Some (RecLeft _ _) | Some (RecLeftRight _ _ _) => false
                                   | _ => true
                                   end) ops in
  let aes := toks_of (adv_error_set prim_ops) in
  let rec_body :=
      node_kind_decl cx true
      ++ [SMatch (flat_map (c_primary_arm kind0 rename rbp ic recs) ops
                  ++ match aes with
                     | [] => []
                     | _ => [(aes, None, ocr ic ++ [SAdvErr msg_invalid])]
                     end)
                 (ocr ic ++ [SError (msg_set (rid_of body))]);
          SLoop (node_kind_decl cx false
                 ++ [SMatch (flat_map (c_operator_arm kind0 rename rbp ic) recs) [SBreak]])] in
  ([SLetMark VLhs; call_rec rbp ic 0 VLhs], (rbp, rec_body)).

Definition is_named_rename (id : nat) (k : leafk) : bool :=
  match k, payload_of id with LRename, Some (PRename (Some _)) => true | _, _ => false end.
Definition is_whole_rule_creation (id : nat) (k : leafk) : bool :=
  match k, payload_of id with LCreation, Some (PCreate None _) => true | _, _ => false end.

Definition rule_used (i : nat) (ru : rule) : bool :=
  nmem (r_decl ru) (s_used sm) || existsb (fun p => Nat.eqb (fst p) i) (g_parts g).

(* fn output_rule *)
Definition c_rule (i : nat) (ru : rule) : list (rid * rule_fn) :=
  if negb (rule_used i ru) then []
  else
    let ic := inch (r_decl ru) in
    match r_body ru with
    | None => [(i, mkFn ic [] None)]
    | Some body =>
      let rename := has_leaf is_named_rename body in
      let creation := has_leaf is_whole_rule_creation body in
      let el := if r_elided ru then EUncond else elision_of body in
      let recs := match find (fun q => Nat.eqb (fst q) i) (s_recursive sm) with Some q => snd q | None => [] end in
      if has_left recs then
        let '(b, r) := c_left_recursive_rule (rule_kind i) rename ic body recs in
        [(i, mkFn ic b (Some r))]
      else
        [(i, mkFn ic (c_normal_rule (mkRctx (rule_kind i) el rename) creation (Nat.eqb i (g_start g)) body) None)]
    end.

(* the kinds with an arm in delete_node (output_generated: rule_names / rules_delete) *)
Fixpoint binding_kinds (x : regex) : list (nat * kind) :=
  match x with
  | RCat _ ops | RAlt _ ops | RChoice _ ops => flat_map binding_kinds ops
  | RStar _ o | RPlus _ o | ROpt _ o => binding_kinds o
  | RParen _ (Some o) => binding_kinds o
  | RLeaf id _ =>
    match payload_of id with
    | Some (PRename (Some k)) => [(id, k)]
    | Some (PCreate _ k) => [(id, k)]
    | _ => []
    end
  | _ => []
  end.

Definition c_deletable : list kind :=
  (match s_in_choice sm with [] => [] | _ => [kError] end)
  ++ flat_map (fun p => if inch (r_decl (snd p)) then [rule_kind (fst p)] else []) (enumerate 0 (g_rules g))
  ++ flat_map (fun ru => match r_body ru with
                         | Some b => flat_map (fun q => if inch (fst q) then [snd q] else []) (binding_kinds b)
                         | None => []
                         end) (g_rules g).

Definition compile : program :=
  mkProg (flat_map (fun p => c_rule (fst p) (snd p)) (enumerate 0 (g_rules g)))
         (g_start g) (rule_kind (g_start g)) (ci_part_kind ci) c_deletable.

(* the token sets behind the set messages *)
Fixpoint msg_sets (x : regex) : list (nat * list tok) :=
  match x with
  | RStar id o | RPlus id o => (id, pats (s_follow sm) (rid_of o)) :: msg_sets o
  | ROpt id o => (id, pats (s_predict sm) id) :: msg_sets o
  | RAlt id ops => (id, pats (s_predict sm) id) :: flat_map msg_sets ops
  | RCat _ ops | RChoice _ ops => flat_map msg_sets ops
  | RParen _ (Some o) => msg_sets o
  | _ => []
  end.

Definition all_msg_sets : list (nat * list tok) :=
  flat_map (fun ru => match r_body ru with Some b => msg_sets b | None => [] end) (g_rules g).

End Compile.
