(* Model of the analysis passes of src/frontend/sema.rs that run on a grammar
   which passed name resolution: recursion classes and binding powers
   (check_recursive, RecursiveBranches, OperatorValidator), ordered-choice
   containment (OrderedChoiceValidator), first / follow / predict and the LL(1)
   check (LL1Validator), usage (UsageValidator), dominators and recovery sets
   (RecoverySetGenerator).  Pass-by-pass transcription, same traversal order,
   same in-place updates.  No proofs in this file. *)
From Coq Require Import List Arith Bool.
Import ListNotations.

Definition tokn := nat.

Inductive sym := Eps | T (t : tokn).

Definition sym_eqb (a b : sym) : bool :=
  match a, b with
  | Eps, Eps => true
  | T x, T y => Nat.eqb x y
  | _, _ => false
  end.

(* finite sets as duplicate-free lists *)
Definition set := list sym.
Definition mem (x : sym) (s : set) : bool := existsb (sym_eqb x) s.
Definition add (x : sym) (s : set) : set := if mem x s then s else s ++ [x].
Definition union (s1 s2 : set) : set := fold_left (fun acc x => add x acc) s2 s1.   (* s1 ∪ s2 *)
Definition remove (x : sym) (s : set) : set := filter (fun y => negb (sym_eqb x y)) s.
Definition inter (s1 s2 : set) : set := filter (fun x => mem x s2) s1.
Definition diff (s1 s2 : set) : set := filter (fun x => negb (mem x s2)) s1.
Definition subset (s1 s2 : set) : bool := forallb (fun x => mem x s2) s1.
Definition set_eqb (s1 s2 : set) : bool := subset s1 s2 && subset s2 s1.

(* maps from node ids to sets: association lists; a missing key is the empty set
   (`entry(..).or_default()`) *)
Definition smap := list (nat * set).
Fixpoint get (m : smap) (k : nat) : set :=
  match m with
  | [] => []
  | (k', v) :: r => if Nat.eqb k k' then v else get r k
  end.
Fixpoint has (m : smap) (k : nat) : bool :=
  match m with
  | [] => false
  | (k', _) :: r => Nat.eqb k k' || has r k
  end.
Fixpoint put (m : smap) (k : nat) (v : set) : smap :=
  match m with
  | [] => [(k, v)]
  | (k', v') :: r => if Nat.eqb k k' then (k, v) :: r else (k', v') :: put r k v
  end.
Definition upd (m : smap) (k : nat) (f : set -> set) : smap := put m k (f (get m k)).
Definition total_size (m : smap) : nat := list_sum (map (fun p => length (snd p)) m).

Inductive leafk :=
| LPred (n : option nat)     (* None: ?t *)
| LAction | LAssert | LRename | LElision | LMarker | LCreation | LCommit | LReturn.

Inductive regex :=
| RTok (id : nat) (t : tokn)
| RRule (id : nat) (r : nat)                  (* index into g_rules *)
| RCat (id : nat) (ops : list regex)
| RAlt (id : nat) (ops : list regex)
| RChoice (id : nat) (ops : list regex)
| RStar (id : nat) (op : regex)
| RPlus (id : nat) (op : regex)
| ROpt (id : nat) (op : regex)
| RParen (id : nat) (op : option regex)
| RLeaf (id : nat) (k : leafk).

Definition rid_of (x : regex) : nat :=
  match x with
  | RTok i _ | RRule i _ | RCat i _ | RAlt i _ | RChoice i _ | RStar i _ | RPlus i _ | ROpt i _
  | RParen i _ | RLeaf i _ => i
  end.

Record rule := mkRule { r_decl : nat; r_body : option regex; r_elided : bool }.

Record grammar := mkGrammar {
  g_rules : list rule;              (* file order *)
  g_start : nat;                    (* index of the start rule *)
  g_parts : list (nat * tokn);      (* part rules (index, their end-of-input token), in BTreeSet<RuleDecl> order *)
  g_eof : tokn;
  g_right : list tokn;              (* right-associative tokens *)
  g_skipped : list nat;             (* decl ids of skipped tokens *)
  g_tok_decl : list (tokn * nat);   (* token -> its decl node id *)
  g_tok_decls : list nat;           (* decl ids of all tokens, file order *)
}.

Definition nth_rule (g : grammar) (r : nat) : option rule := nth_error (g_rules g) r.
Definition body_of (g : grammar) (r : nat) : option regex :=
  match nth_rule g r with Some ru => r_body ru | None => None end.

(* ------------------------------------------------------------------ first sets *)
Section First.
Variable g : grammar.

Fixpoint first_regex (x : regex) (m : smap) {struct x} : smap :=
  let id := rid_of x in
  match x with
  | RTok _ t => upd m id (add (T t))
  | RRule _ r =>
    match body_of g r with
    | Some b => upd m id (fun s => union s (get m (rid_of b)))
    | None => upd m id (add Eps)
    end
  | RCat _ ops =>
    let fix go (l : list regex) (m : smap) (use_next : bool) (acc : set) : smap * bool * set :=
      match l with
      | [] => (m, use_next, acc)
      | op :: r =>
        let m1 := first_regex op m in
        if use_next then
          let opf := get m1 (rid_of op) in
          go r m1 (mem Eps opf) (remove Eps (union acc opf))
        else go r m1 false acc
      end in
    match go ops (upd m id (fun s => s)) true [] with
    | (m1, use_next, acc) =>
      upd m1 id (fun s => union s (if use_next then add Eps acc else acc))
    end
  | RAlt _ ops | RChoice _ ops =>
    let fix go (l : list regex) (m : smap) : smap :=
      match l with
      | [] => m
      | op :: r =>
        let m1 := first_regex op m in
        go r (upd m1 id (fun s => union s (get m1 (rid_of op))))
      end in
    go ops (upd m id (fun s => s))
  | RStar _ op | ROpt _ op =>
    let m1 := first_regex op (upd m id (fun s => s)) in
    upd m1 id (fun s => add Eps (union s (get m1 (rid_of op))))
  | RPlus _ op =>
    let m1 := first_regex op (upd m id (fun s => s)) in
    upd m1 id (fun s => union s (get m1 (rid_of op)))
  | RParen _ (Some op) =>
    let m1 := first_regex op (upd m id (fun s => s)) in
    upd m1 id (fun s => union s (get m1 (rid_of op)))
  | RParen _ None => upd m id (add Eps)
  | RLeaf _ _ => upd m id (add Eps)
  end.

Definition first_pass (m : smap) : smap :=
  fold_left (fun m ru => match r_body ru with Some b => first_regex b m | None => m end) (g_rules g) m.

(* `while change { … }`: iterate until a pass adds nothing; [fuel] bounds the passes *)
Fixpoint iterate (fuel : nat) (pass : smap -> smap) (m : smap) : option smap :=
  match fuel with
  | 0 => None
  | S f =>
    let m' := pass m in
    if Nat.eqb (total_size m') (total_size m) then Some m' else iterate f pass m'
  end.

Definition calc_first (fuel : nat) : option smap := iterate fuel first_pass [].
End First.

(* ------------------------------------------------------------------ follow sets *)
Section Follow.
Variable g : grammar.
Variable fi : smap.       (* first sets *)

(* state: follow sets and left_rec_local_follow sets *)
Definition fstate := (smap * smap)%type.

Fixpoint follow_regex (rule_body_id : nat) (x : regex) (st : fstate) {struct x} : fstate :=
  let id := rid_of x in
  let '(fo, lf) := st in
  match x with
  | RRule _ r =>
    match body_of g r with
    | Some b =>
      let bid := rid_of b in
      let fo0 := upd fo bid (fun s => s) in
      let fol := get fo0 id in
      let fo1 := upd fo0 id (fun s => s) in
      let lf1 := upd lf bid (fun s => if Nat.eqb rule_body_id bid then s else union s fol) in
      (upd fo1 bid (fun s => union s fol), lf1)
    | None => st
    end
  | RCat _ ops =>
    (* operands are visited from the last to the first: the tail is processed before the head *)
    let fix go (l : list regex) (st : fstate) (follow : set) : fstate * set :=
      match l with
      | [] => (st, follow)
      | op :: r =>
        let '(st1, follow1) := go r st follow in
        let '(fo, lf) := st1 in
        let fo1 := upd fo (rid_of op) (fun s => union s follow1) in
        let opf := get fi (rid_of op) in
        let follow' := if mem Eps opf then remove Eps (union follow1 opf) else opf in
        (follow_regex rule_body_id op (fo1, lf), follow')
      end in
    fst (go ops (upd fo id (fun s => s), lf) (get fo id))
  | RAlt _ ops | RChoice _ ops =>
    let follow := get fo id in
    let fix go (l : list regex) (st : fstate) : fstate :=
      match l with
      | [] => st
      | op :: r =>
        let '(fo, lf) := st in
        go r (follow_regex rule_body_id op (upd fo (rid_of op) (fun s => union s follow), lf))
      end in
    go ops (upd fo id (fun s => s), lf)
  | RStar _ op =>
    let follow := get fo id in
    let fo0 := upd fo id (fun s => s) in
    let fo1 := upd fo0 (rid_of op) (fun s => union (remove Eps (union s (get fi (rid_of op)))) follow) in
    follow_regex rule_body_id op (fo1, lf)
  | RPlus _ op =>
    let follow := get fo id in
    let fo0 := upd fo id (fun s => s) in
    let fo1 := upd fo0 (rid_of op) (fun s => union (union s (get fi id)) follow) in
    follow_regex rule_body_id op (fo1, lf)
  | ROpt _ op =>
    let follow := get fo id in
    let fo0 := upd fo id (fun s => s) in
    follow_regex rule_body_id op (upd fo0 (rid_of op) (fun s => union s follow), lf)
  | RParen _ (Some op) =>
    let follow := get fo id in
    let fo0 := upd fo id (fun s => s) in
    follow_regex rule_body_id op (upd fo0 (rid_of op) (fun s => union s follow), lf)
  | RParen _ None | RTok _ _ | RLeaf _ _ => st
  end.

Definition follow_pass (st : fstate) : fstate :=
  fold_left (fun st ru =>
               match r_body ru with
               | Some b =>
                 let '(fo, lf) := st in
                 follow_regex (rid_of b) b (upd fo (rid_of b) (fun s => s), lf)
               | None => st
               end) (g_rules g) st.

Definition follow_init : fstate :=
  match body_of g (g_start g) with
  | Some sb =>
    let fo0 := upd [] (rid_of sb) (add (T (g_eof g))) in
    (fold_left (fun fo p =>
                  match body_of g (fst p) with
                  | Some pb => upd (upd fo (rid_of sb) (add (T (snd p)))) (rid_of pb) (add (T (snd p)))
                  | None => fo
                  end) (g_parts g) fo0, [])
  | None => ([], [])
  end.

(* `change` only watches the follow sets of rule bodies *)
Definition body_follow_size (fo : smap) : nat :=
  list_sum (map (fun ru => match r_body ru with Some b => length (get fo (rid_of b)) | None => 0 end) (g_rules g)).

Fixpoint iterate_follow (fuel : nat) (st : fstate) : option fstate :=
  match fuel with
  | 0 => None
  | S f =>
    let st' := follow_pass st in
    if Nat.eqb (body_follow_size (fst st')) (body_follow_size (fst st)) then Some st' else iterate_follow f st'
  end.

Definition calc_follow (fuel : nat) : option fstate := iterate_follow fuel follow_init.

Definition calc_predict (fo : smap) : smap :=
  map (fun p =>
         let '(k, f) := p in
         (k, if mem Eps f then union (remove Eps f) (get fo k) else f)) fi.
End Follow.

(* ------------------------------------------------------------------ recursion classes, binding powers *)
Inductive recursion :=
| RecLeft (branch : regex) (l : nat)
| RecRight (branch : regex) (r : nat)
| RecLeftRight (branch : regex) (l r : nat).

Definition rec_regex (b : recursion) : regex :=
  match b with RecLeft x _ | RecRight x _ | RecLeftRight x _ _ => x end.

Definition is_rec_filtered (x : regex) : bool :=
  match x with
  | RLeaf _ (LPred _) | RLeaf _ LRename | RLeaf _ LElision | RLeaf _ LAction => true
  | _ => false
  end.

Definition refs_rule (ri : nat) (x : regex) : bool :=
  match x with RRule _ r => Nat.eqb r ri | _ => false end.

Fixpoint enumerate {A} (i : nat) (l : list A) : list (nat * A) :=
  match l with [] => [] | x :: r => (i, x) :: enumerate (S i) r end.

(* fn check_recursive *)
Definition check_recursive (ri : nat) (body : option regex) : list recursion :=
  match body with
  | Some (RAlt _ alts) =>
    flat_map (fun alt =>
                match alt with
                | RCat _ ops =>
                  let flt := filter (fun p => negb (is_rec_filtered (snd p))) (enumerate 0 ops) in
                  match flt with
                  | [] => []
                  | (i0, x0) :: rest =>
                    let l := if refs_rule ri x0 then Some i0 else None in
                    let r := match rev rest with
                             | (i1, x1) :: _ => if refs_rule ri x1 then Some i1 else None
                             | [] => None
                             end in
                    match l, r with
                    | Some a, Some b => [RecLeftRight alt a b]
                    | Some a, None => [RecLeft alt a]
                    | None, Some b => [RecRight alt b]
                    | None, None => []
                    end
                  end
                | _ => []
                end) alts
  | _ => []
  end.

Definition has_left (bs : list recursion) : bool :=
  existsb (fun b => match b with RecLeft _ _ | RecLeftRight _ _ _ => true | _ => false end) bs.

(* RecursiveBranches::new + OperatorValidator::run: binding powers per branch *)
Definition base_bp (n i : nat) : nat * nat := (n * 2 - i * 2, n * 2 - i * 2 + 1).

Definition is_right_tok (g : grammar) (s : sym) : bool :=
  match s with T t => existsb (Nat.eqb t) (g_right g) | Eps => false end.

(* the operator of a branch: the first element behind the left operand that check_recursive does not look
   through *)
Definition operator_of (ops : list regex) (l : nat) : option regex :=
  find (fun o => negb (is_rec_filtered o)) (skipn (S l) ops).

(* the pair is swapped (once) when the operator's first set contains a right-associative symbol *)
Definition binding_powers (g : grammar) (fi : smap) (bs : list recursion) : list (nat * (nat * nat)) :=
  map (fun p =>
         let '(i, b) := p in
         let bp := base_bp (length bs) i in
         match b with
         | RecLeftRight (RCat _ ops) l _ =>
           match operator_of ops l with
           | Some operand =>
             let k := length (filter (is_right_tok g) (get fi (rid_of operand))) in
             (rid_of (rec_regex b), if Nat.eqb k 0 then bp else (snd bp, fst bp))
           | None => (rid_of (rec_regex b), bp)
           end
         | _ => (rid_of (rec_regex b), bp)
         end) (enumerate 0 bs).

Definition mixed_assoc (g : grammar) (fi : smap) (bs : list recursion) : list nat :=
  flat_map (fun b =>
              match b with
              | RecLeftRight (RCat _ ops) l _ =>
                match operator_of ops l with
                | Some operand =>
                  let f := get fi (rid_of operand) in
                  if existsb (is_right_tok g) f && existsb (fun s => negb (is_right_tok g s)) f
                  then [rid_of operand] else []
                | None => []
                end
              | _ => []
              end) bs.

(* ------------------------------------------------------------------ LL(1) check *)
Inductive dcode := E011 | E012 | E013 | E014 | E015 | W007 | E028 | E029 | W006 | PANIC.

Fixpoint has_predicate (x : regex) : bool :=
  match x with
  | RCat _ (RLeaf _ (LPred _) :: _) => true
  | RParen _ (Some y) => has_predicate y
  | _ => false
  end.

Definition is_pred (x : regex) : bool := match x with RLeaf _ (LPred _) => true | _ => false end.

(* fn skip_first: second operand that is not a predicate; None models the unwrap panic *)
Definition skip_first (x : regex) : option regex :=
  match x with
  | RCat _ ops => nth_error (filter (fun o => negb (is_pred o)) ops) 1
  | _ => None
  end.

Section Check.
Variable g : grammar.
Variable fi fo pr lf : smap.

Definition nonempty {A} (s : list A) : bool := match s with [] => false | _ => true end.

(* fn check_intersection: returns the diagnostics it pushes *)
Definition check_intersection (op : regex) (branches : list regex) (i : nat) (left_rec ordered : bool)
  : list (dcode * nat) :=
  let prediction := get pr (rid_of op) in
  let others := skipn (S i) branches in
  let related :=
      filter (fun o =>
                match (if left_rec then skip_first o else Some o) with
                | Some o' => nonempty (inter prediction (get pr (rid_of o')))
                | None => false
                end) others in
  if ordered then (if nonempty related then [] else [(W007, rid_of op)])
  else if nonempty related then [((if left_rec then E012 else E011), rid_of op)] else [].

Fixpoint check_regex (fuel : nat) (x : regex) (recs : list recursion) {struct fuel} : list (dcode * nat) :=
  match fuel with
  | 0 => []
  | S fuel' =>
    match x with
    | RAlt id alts =>
      let lefts := flat_map (fun b => match b with RecLeft o _ | RecLeftRight o _ _ => [o] | _ => [] end) recs in
      let d1 :=
          flat_map (fun p =>
                      let '(i, branch) := p in
                      match skip_first branch with
                      | None => [(E015, rid_of branch)]
                      | Some op =>
                        if has_predicate branch then []
                        else
                          (if nonempty (inter (get pr (rid_of op)) (get lf id)) then [(E012, rid_of op)] else [])
                          ++ check_intersection op lefts i true false
                      end) (enumerate 0 lefts) in
      let is_left o := existsb (fun b => match b with
                                         | RecLeft o' _ | RecLeftRight o' _ _ => Nat.eqb (rid_of o') (rid_of o)
                                         | _ => false end) recs in
      let nonleft := filter (fun o => negb (is_left o)) alts in
      let d2 := flat_map (fun p =>
                            let '(i, op) := p in
                            if has_predicate op then [] else check_intersection op nonleft i false false)
                         (enumerate 0 nonleft) in
      d1 ++ d2 ++ flat_map (fun o => check_regex fuel' o []) alts
    | RStar id op | RPlus id op =>
      (if negb (has_predicate op) && nonempty (inter (get fo id) (get pr (rid_of op))) then [(E013, id)] else [])
      ++ check_regex fuel' op []
    | ROpt id op =>
      (if negb (has_predicate op) && nonempty (inter (get fo id) (get pr (rid_of op))) then [(E014, id)] else [])
      ++ check_regex fuel' op []
    | RRule id _ =>
      if has fi id && negb (nonempty (get fi id)) then [(E015, id)] else []
    | RChoice id ops =>
      flat_map (fun p =>
                  let '(i, op) := p in
                  (if Nat.eqb (S i) (length ops) then [] else check_intersection op ops i false true)
                  ++ check_regex fuel' op []) (enumerate 0 ops)
    | RCat _ ops => flat_map (fun o => check_regex fuel' o []) ops
    | RParen _ (Some op) => check_regex fuel' op []
    | _ => []
    end
  end.
End Check.

Fixpoint rsize (x : regex) : nat :=
  match x with
  | RCat _ ops | RAlt _ ops | RChoice _ ops => S (list_sum (map rsize ops))
  | RStar _ o | RPlus _ o | ROpt _ o => S (rsize o)
  | RParen _ (Some o) => S (rsize o)
  | _ => 1
  end.

(* ------------------------------------------------------------------ usage *)
Section Usage.
Variable g : grammar.

Definition nmem (x : nat) (l : list nat) : bool := existsb (Nat.eqb x) l.
Definition nadd (x : nat) (l : list nat) : list nat := if nmem x l then l else l ++ [x].

Definition tok_decl_id (t : tokn) : option nat :=
  match find (fun p => Nat.eqb (fst p) t) (g_tok_decl g) with Some p => Some (snd p) | None => None end.

Fixpoint set_regex (x : regex) (used : list nat) : list nat :=
  match x with
  | RTok _ t => match tok_decl_id t with Some d => nadd d used | None => used end
  | RRule _ r => match nth_rule g r with Some ru => nadd (r_decl ru) used | None => used end
  | RCat _ ops | RAlt _ ops | RChoice _ ops => fold_left (fun u o => set_regex o u) ops used
  | RStar _ o | RPlus _ o | ROpt _ o => set_regex o used
  | RParen _ (Some o) => set_regex o used
  | _ => used
  end.

(* bodies of part rules are swept even when nothing refers to the part rule: first what the start rule
   reaches ([with_parts] = false), then what the part rules reach on their own *)
Definition usage_pass (with_parts : bool) (used : list nat) : list nat :=
  fold_left (fun u p =>
               let '(i, ru) := p in
               if nmem (r_decl ru) u || (with_parts && existsb (fun q => Nat.eqb (fst q) i) (g_parts g))
               then match r_body ru with Some b => set_regex b u | None => u end else u)
            (enumerate 0 (g_rules g)) used.

Fixpoint usage_iter (fuel : nat) (with_parts : bool) (used : list nat) : list nat :=
  match fuel with
  | 0 => used
  | S f => let u' := usage_pass with_parts used in
           if Nat.eqb (length u') (length used) then u' else usage_iter f with_parts u'
  end.

(* a part rule that only part rules refer to stays unmarked (RecoverySetGenerator gives exactly those the
   start node as predecessor) *)
Definition calc_used : list nat :=
  let init := match nth_rule g (g_start g) with Some ru => [r_decl ru] | None => [] end in
  let fuel := S (length (g_rules g) + length (g_tok_decls g)) in
  let u1 := usage_iter fuel false (fold_left (fun u d => nadd d u) (g_skipped g) init) in
  let u2 := usage_iter fuel true u1 in
  let part_decls := flat_map (fun q => match nth_rule g (fst q) with Some ru => [r_decl ru] | None => [] end) (g_parts g) in
  filter (fun d => negb (nmem d part_decls && negb (nmem d u1))) u2.
End Usage.

(* ------------------------------------------------------------------ ordered-choice containment *)
Section Containment.
Variable g : grammar.

Fixpoint contain_regex (x : regex) (active : bool) (s : list nat) {struct x} : list nat :=
  let s0 := if active then nadd (rid_of x) s else s in
  match x with
  | RRule _ r =>
    if active then match nth_rule g r with Some ru => nadd (r_decl ru) s0 | None => s0 end else s0
  | RCat _ ops =>
    let fix go (l : list regex) (active : bool) (s : list nat) : list nat :=
      match l with
      | [] => s
      | o :: r =>
        go r (match o with RLeaf _ LCommit => false | _ => active end) (contain_regex o active s)
      end in
    go ops active s0
  | RChoice _ ops =>
    let fix go (l : list regex) (s : list nat) : list nat :=
      match l with
      | [] => s
      | [o] => contain_regex o active s
      | o :: r => go r (contain_regex o true s)
      end in
    go ops s0
  | RAlt _ ops => fold_left (fun s o => contain_regex o active s) ops s0
  | RStar _ o | RPlus _ o | ROpt _ o => contain_regex o active s0
  | RParen _ (Some o) => contain_regex o active s0
  | _ => s0
  end.

Definition contain_pass (s : list nat) : list nat :=
  fold_left (fun s ru => match r_body ru with
                         | Some b => contain_regex b (nmem (r_decl ru) s) s
                         | None => s end) (g_rules g) s.

Fixpoint contain_diags (inch : list nat) (x : regex) : list (dcode * nat) :=
  match x with
  | RCat _ ops | RAlt _ ops => flat_map (contain_diags inch) ops
  | RChoice id ops => (if nmem id inch then [(E028, id)] else []) ++ flat_map (contain_diags inch) ops
  | RStar _ o | RPlus _ o | ROpt _ o => contain_diags inch o
  | RParen _ (Some o) => contain_diags inch o
  | RLeaf id LCommit => if nmem id inch then [] else [(W006, id)]
  | RLeaf id LAction => if nmem id inch then [(E029, id)] else []
  | _ => []
  end.

Fixpoint contain_iter (fuel : nat) (s : list nat) : option (list nat) :=
  match fuel with
  | 0 => None
  | S f => let s' := contain_pass s in if Nat.eqb (length s') (length s) then Some s' else contain_iter f s'
  end.
End Containment.

(* ------------------------------------------------------------------ dominators and recovery sets *)
Section Recovery.
Variable g : grammar.
Variable fi fo : smap.
Variable used : list nat.

(* predecessor graph over regex node ids: list of (node, preds) in insertion order *)
Definition pgraph := list (nat * list nat).
Fixpoint add_pred (pg : pgraph) (r p : nat) : pgraph :=
  match pg with
  | [] => [(r, [p])]
  | (k, ps) :: rest => if Nat.eqb k r then (k, nadd p ps) :: rest else (k, ps) :: add_pred rest r p
  end.

Fixpoint set_pred (x : regex) (pg : pgraph) : pgraph :=
  let id := rid_of x in
  match x with
  | RRule _ r => match body_of g r with Some b => add_pred pg (rid_of b) id | None => pg end
  | RCat _ ops | RAlt _ ops | RChoice _ ops =>
    fold_left (fun pg o => set_pred o (add_pred pg (rid_of o) id)) ops pg
  | RStar _ o | RPlus _ o | ROpt _ o => set_pred o (add_pred pg (rid_of o) id)
  | RParen _ (Some o) => set_pred o (add_pred pg (rid_of o) id)
  | _ => pg
  end.

(* parts that are not used get the start node as predecessor and become used *)
Definition parts_step (start_id : nat) : list nat * pgraph :=
  fold_left (fun acc p =>
               let '(u, pg) := acc in
               match nth_rule g (fst p) with
               | Some ru =>
                 if nmem (r_decl ru) u then acc
                 else match r_body ru with
                      | Some b => (nadd (r_decl ru) u, add_pred pg (rid_of b) start_id)
                      | None => (nadd (r_decl ru) u, pg)
                      end
               | None => acc
               end) (g_parts g) (used, []).

Definition build_preds (start_id : nat) : list nat * pgraph :=
  let '(u, pg0) := parts_step start_id in
  (u, fold_left (fun pg ru => if nmem (r_decl ru) u then match r_body ru with Some b => set_pred b pg | None => pg end else pg)
                (g_rules g) pg0).

Definition ninter (a b : list nat) : list nat := filter (fun x => nmem x b) a.

Definition dmap := list (nat * list nat).
Fixpoint dget (d : dmap) (k : nat) : list nat :=
  match d with [] => [] | (k', v) :: r => if Nat.eqb k k' then v else dget r k end.
Fixpoint dput (d : dmap) (k : nat) (v : list nat) : dmap :=
  match d with
  | [] => [(k, v)]
  | (k', v') :: r => if Nat.eqb k k' then (k, v) :: r else (k', v') :: dput r k v
  end.

(* one sweep of the elimination loop; [order] is the iteration order of the hash set.
   Mirrors the `change |= …; if change { insert }` quirk. *)
Definition dom_pass (pg : pgraph) (order : list nat) (d : dmap) (change0 : bool) : dmap * bool :=
  fold_left (fun acc n =>
               let '(d, change) := acc in
               match dget pg n with
               | [] => (dput d n [n], change)
               | p :: ps =>
                 let dom := nadd n (fold_left (fun a q => ninter a (dget d q)) ps (dget d p)) in
                 let change' := change || negb (Nat.eqb (length dom) (length (dget d n))) in
                 (if change' then dput d n dom else d, change')
               end) order (d, change0).

Fixpoint dom_iter (fuel : nat) (pg : pgraph) (order : list nat) (d : dmap) : option dmap :=
  match fuel with
  | 0 => None
  | S f =>
    let '(d', change) := dom_pass pg order d false in
    if change then dom_iter f pg order d' else Some d'
  end.

Definition find_node (x : regex) : list (nat * regex) :=
  (fix go (fuel : nat) (x : regex) : list (nat * regex) :=
     match fuel with
     | 0 => []
     | S f =>
       (rid_of x, x) ::
       match x with
       | RCat _ ops | RAlt _ ops | RChoice _ ops => flat_map (go f) ops
       | RStar _ o | RPlus _ o | ROpt _ o => go f o
       | RParen _ (Some o) => go f o
       | _ => []
       end
     end) (rsize x) x.

Definition all_nodes : list (nat * regex) :=
  flat_map (fun ru => match r_body ru with Some b => find_node b | None => [] end) (g_rules g).

Definition node_of (id : nat) : option regex :=
  match find (fun p => Nat.eqb (fst p) id) all_nodes with Some p => Some (snd p) | None => None end.

Definition calc_recovery (fuel : nat) (order : list nat -> list nat) : option (smap * dmap * pgraph) :=
  match body_of g (g_start g) with
  | None => Some ([], [], [])
  | Some sb =>
    let start := rid_of sb in
    let '(u, pg) := build_preds start in
    let nodes_no_start := order (map fst pg) in
    let nodes := nadd start nodes_no_start in
    let d0 := fold_left (fun d n => dput d n nodes) nodes_no_start (dput [] start [start]) in
    match dom_iter fuel pg nodes_no_start d0 with
    | None => None
    | Some d =>
      let rec0 : smap := match sb with RStar _ _ | RPlus _ _ | ROpt _ _ => upd [] start (fun s => s) | _ => [] end in
      let rec :=
          fold_left (fun (rc : smap) n =>
                       match node_of n with
                       | Some (RStar _ op) | Some (RPlus _ op) | Some (ROpt _ op) =>
                         let all := fold_left (fun s dn => union s (get fo dn)) (dget d n) (get rc n) in
                         put rc n (diff (diff all (get fi (rid_of op))) (get fo (rid_of op)))
                       | _ => rc
                       end) nodes_no_start rec0 in
      Some (rec, d, pg)
    end
  end.
End Recovery.

(* ------------------------------------------------------------------ the whole analysis (after GeneralCheck) *)
Record sema := mkSema {
  s_first : smap; s_follow : smap; s_predict : smap; s_local_follow : smap; s_recovery : smap;
  s_diags : list (dcode * nat);
  s_used : list nat; s_in_choice : list nat;
  s_recursive : list (nat * list recursion);      (* rule index -> branches *)
  s_bp : list (nat * (nat * nat));
  s_mixed : list nat;
  s_dom : dmap;
}.

Definition nodes_bound (g : grammar) : nat :=
  list_sum (map (fun ru => match r_body ru with Some b => rsize b | None => 0 end) (g_rules g)).

Definition analyse (g : grammar) (ntoks : nat) (order : list nat -> list nat) : option sema :=
  let n := nodes_bound g in
  let fuel := S (S (n * (S (S ntoks)))) in
  match contain_iter g (S (S (n + length (g_rules g)))) [] with
  | None => None
  | Some inch =>
    match calc_first g fuel with
    | None => None
    | Some fi =>
      match calc_follow g fi fuel with
      | None => None
      | Some (fo, lf) =>
        let pr := calc_predict fi fo in
        let recs := map (fun p => (fst p, check_recursive (fst p) (r_body (snd p)))) (enumerate 0 (g_rules g)) in
        let recs := filter (fun p => match snd p with [] => false | _ => true end) recs in
        let diags :=
            flat_map (fun p =>
                        let '(i, ru) := p in
                        match r_body ru with
                        | Some b =>
                          check_regex fi fo pr lf (S (rsize b)) b
                                      (match find (fun q => Nat.eqb (fst q) i) recs with Some q => snd q | None => [] end)
                        | None => []
                        end) (enumerate 0 (g_rules g)) in
        let used := calc_used g in
        let bps := flat_map (fun p => binding_powers g fi (snd p)) recs in
        let mixed := flat_map (fun p => mixed_assoc g fi (snd p)) recs in
        let cdiags := flat_map (fun ru => match r_body ru with Some b => contain_diags inch b | None => [] end) (g_rules g) in
        let diags := cdiags ++ diags in
        let has_err := existsb (fun d => match fst d with W007 | W006 => false | _ => true end) diags
                       || match mixed with [] => false | _ => true end in
        if has_err then
          Some (mkSema fi fo pr lf [] diags used inch recs bps mixed [])
        else
          match calc_recovery g fi fo used (S (S (n * n))) order with
          | None => None
          | Some (rc, d, _) => Some (mkSema fi fo pr lf rc diags used inch recs bps mixed d)
          end
      end
    end
  end.
