(* Model of the driver: lelwel::compile (src/lib.rs), llw::main (src/bin/llw.rs),
   RustOutput::run's existence test for the skeleton files and GraphvizOutput::run.
   The file system is the finite set of paths the tool can touch; the domain of
   configurations is finite and enumerated completely ([all_rows]).
   No proofs in this file. *)
From Coq Require Import List Bool Arith.
Import ListNotations.

Inductive verdict :=
| VUnreadable      (* the input file cannot be read *)
| VSyntaxError     (* parse diagnostics (errors) *)
| VSemanticError   (* parse is clean, analysis reports an error *)
| VWarnings        (* warnings only *)
| VClean.

Record flags := mkFlags {
  f_check : bool; f_format : bool; f_graph : bool; f_short : bool;
  f_verbose : nat;            (* 0, 1, 2 *)
  f_outdir_other : bool;      (* -o DIR given (DIR differs from the grammar's directory) *)
}.

Record world := mkWorld {
  w_lexer : bool;             (* lexer.rs exists next to the grammar *)
  w_parser : bool;            (* parser.rs exists next to the grammar *)
  w_out_writable : bool;      (* the output directory can be written *)
  w_formatted : bool;         (* format(source) = source *)
}.

(* the files the tool may touch *)
Inductive path := PGrammar | PGenerated | PLexer | PParser | PGraph.

Inductive effect := Write (p : path).

Inductive exit_status := ExitOk | ExitFail | ExitUsage.   (* 0, 1, clap's error exit (2) *)

Definition has_error (v : verdict) : bool :=
  match v with VSyntaxError | VSemanticError => true | _ => false end.

(* pub fn compile(..) -> io::Result<bool>, followed by main's mapping to the exit status.
   Effects are listed in the order they happen; an I/O error stops the run. *)
Definition run (f : flags) (w : world) (v : verdict) : list effect * exit_status :=
  match v with
  | VUnreadable => ([], ExitUsage)
  | _ =>
    if f_format f then
      if f_check f then ([], if w_formatted w then ExitOk else ExitFail)
      else ([Write PGrammar], ExitOk)
    else if has_error v then ([], ExitFail)
    else
      (* graph output goes to the current directory, which is the output directory unless -o is given *)
      let cwd_writable := f_outdir_other f || w_out_writable w in
      if f_graph f && negb (f_check f) && negb cwd_writable then ([], ExitUsage)   (* File::create(parser.gv) fails *)
      else
      let g := if f_graph f && negb (f_check f) then [Write PGraph] else [] in
      if f_check f then (g, ExitOk)
      else if negb (w_out_writable w) then (g, ExitUsage)     (* File::create(generated.rs) fails *)
      else
        let skel := if negb (w_parser w) && negb (w_lexer w) then [Write PParser; Write PLexer] else [] in
        (g ++ [Write PGenerated] ++ skel, ExitOk)
  end.

Definition bools := [false; true].
Definition all_flags : list flags :=
  flat_map (fun c => flat_map (fun fm => flat_map (fun g => flat_map (fun s =>
  flat_map (fun v => map (fun o => mkFlags c fm g s v o) bools) [0; 1; 2]) bools) bools) bools) bools.
Definition all_worlds : list world :=
  flat_map (fun l => flat_map (fun p => flat_map (fun o => map (fun fm => mkWorld l p o fm) bools) bools) bools) bools.
Definition all_verdicts := [VUnreadable; VSyntaxError; VSemanticError; VWarnings; VClean].

Definition all_rows : list (flags * world * verdict) :=
  flat_map (fun f => flat_map (fun w => map (fun v => (f, w, v)) all_verdicts) all_worlds) all_flags.

Definition writes (p : path) (es : list effect) : bool :=
  existsb (fun e => match e, p with
                    | Write PGrammar, PGrammar | Write PGenerated, PGenerated | Write PLexer, PLexer
                    | Write PParser, PParser | Write PGraph, PGraph => true
                    | _, _ => false
                    end) es.

(* the property (C19), row by row *)
Definition row_ok (r : flags * world * verdict) : bool :=
  let '(f, w, v) := r in
  let '(es, ex) := run f w v in
  (* check mode creates or modifies no file *)
  (if f_check f then match es with [] => true | _ => false end else true)
  (* the generated parser is written only when the grammar has no error (and not in format mode) *)
  && (if writes PGenerated es then negb (has_error v) && negb (f_format f) && negb (f_check f) else true)
  (* skeletons only when neither file exists; an existing file is never written *)
  && (if writes PLexer es || writes PParser es then negb (w_lexer w) && negb (w_parser w) && writes PGenerated es else true)
  && (if w_lexer w then negb (writes PLexer es) else true)
  && (if w_parser w then negb (writes PParser es) else true)
  (* in check and generate mode the exit status is success exactly when no error was reported
     (the unreadable input and the unwritable output directory are usage errors of their own) *)
  && (if f_format f then true
      else match v, ex with
           | VUnreadable, _ => match ex with ExitOk => false | _ => true end
           | _, ExitUsage => negb (has_error v) && negb (f_check f) && negb (w_out_writable w)
           | _, ExitOk => negb (has_error v)
           | _, ExitFail => has_error v
           end)
  (* the format check reports a difference exactly when formatting would change the file *)
  && (if f_format f && f_check f
      then match v, ex with
           | VUnreadable, _ => true
           | _, ExitOk => w_formatted w
           | _, ExitFail => negb (w_formatted w)
           | _, ExitUsage => false
           end
      else true)
  (* the grammar file itself is only ever rewritten by `-f` without `-c` *)
  && (if writes PGrammar es then f_format f && negb (f_check f) else true).
