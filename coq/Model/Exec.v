(* The command language: exactly the vocabulary of Rust statements that
   src/backend/rust.rs can emit into a rule function, and its interpreter over
   Runtime.v.  tools/rust2cmd.py translates an emitted `generated.rs` into a
   [program].  No proofs in this file. *)
From Coq Require Import List Arith Bool.
From LV Require Import Cst Tree ABuild Runtime.
Import ListNotations.

Definition rid := nat.

Inductive var :=
| VM | VStart | VLhs | VRhs | VMk (n : nat) | VElide | VKind | VMinBp.

Definition var_eqb (a b : var) : bool :=
  match a, b with
  | VM, VM | VStart, VStart | VLhs, VLhs | VRhs, VRhs
  | VElide, VElide | VKind, VKind | VMinBp, VMinBp => true
  | VMk x, VMk y => Nat.eqb x y
  | _, _ => false
  end.

Inductive elision := ENone | EUncond | ECond.

Inductive guard := GTrue | GPred (n : nat).

Inductive stmt :=
| SExpect (t : tok) (try_ : bool) (m : msgid)            (* expect!/try_expect!(T, msg, P, diags); *)
| SCall (r : rid) (q : bool)                              (* P.rule_r(diags)[?]; *)
| SRec (bp : option nat) (v : var) (q : bool)             (* rec(P, diags, [bp,] v)[?]; *)
| SLetMark (v : var)                                      (* let v = P.mark(diags); *)
| SLetOpen                                                (* let m = P.open(diags); *)
| SLetOpenBefore (v : var)                                (* let m = P.open_before(v, diags); *)
| SLetElide                                               (* let mut elide = false; *)
| SSetElide                                               (* elide = true; *)
| SKind (decl : bool) (k : kind)                          (* [let mut] node_kind = Rule::K; *)
| SClose (k : option kind) (assign_lhs : bool)
      (* let closed = P.close(m, Rule::K | node_kind, diags); P.create_node…(NodeRef(closed.0), diags); [lhs = closed;] *)
| SIfNotElide (b : list stmt)                             (* if !elide { … } *)
| SCreate (v : var) (k : kind)
      (* let open_node = P.open_before(v, diags); P.close(open_node, Rule::K, diags); P.create_node_k(NodeRef(v.0), diags); *)
| SAction (n : nat)
| SAssert (n : nat) (ocr : bool)
| SSetChoice (b : bool)                                   (* P.in_ordered_choice = b; *)
| SMatch (arms : list (list tok * option guard * list stmt)) (default : list stmt)
| SLoop (b : list stmt)
| SBreak
| SContinue
| SIfBpBreak (n : nat)                                    (* if n < min_bp { break; } *)
| SOrdChoice (save_elide save_kind : bool)
             (alts : list (list tok * list stmt))
             (last_pats : list tok) (last : list stmt) (else_msg : msgid)
| SReturnIfError (e : elision) (opt : bool)               (* if P.active_error() { …; return [None]; } *)
| SError (m : msgid)                                      (* P.error(diags, err![P, msg]); *)
| SAdvErr (m : msgid)                                     (* P.advance_with_error(diags, err![P, msg]); *)
| SOcr.                                                   (* if P.in_ordered_choice { return None; } *)

Record rule_fn := mkFn {
  fn_opt : bool;                       (* -> Option<()> *)
  fn_body : list stmt;
  fn_rec : option (bool * list stmt);  (* nested `fn rec` (takes min_bp?, body) *)
}.

Record program := mkProg {
  p_rules : list (rid * rule_fn);
  p_start : rid;
  p_start_kind : kind;
  p_part_kind : kind;
  p_deletable : list kind;             (* kinds with an arm in delete_node *)
}.

Definition env := list (var * nat).

Fixpoint env_get (e : env) (v : var) : option nat :=
  match e with
  | [] => None
  | (w, x) :: r => if var_eqb v w then Some x else env_get r v
  end.

Fixpoint env_set (e : env) (v : var) (x : nat) : option env :=
  match e with
  | [] => None
  | (w, y) :: r =>
    if var_eqb v w then Some ((w, x) :: r)
    else match env_set r v x with Some r' => Some ((w, y) :: r') | None => None end
  end.

(* leave a block: drop the bindings introduced inside it *)
Definition env_leave (outer_len : nat) (e : env) : env := skipn (length e - outer_len) e.

Inductive outcome := ONormal | OBreak | OContinue | ORetNone | ORet.

Inductive xres (A : Type) :=
| XOk (a : A)
| XPanic (why : nat)
| XFuel
| XStuck (why : nat).     (* the statement could not have been compiled by rustc (unbound variable, …) *)
Arguments XOk {A} a.
Arguments XPanic {A} why.
Arguments XFuel {A}.
Arguments XStuck {A} why.

Definition lift {A} (r : res A) : xres A :=
  match r with Ok a => XOk a | Panic w => XPanic w end.

(* user callbacks *)
Record oracles := mkOr {
  o_pred : nat -> pstate -> bool;
  o_assert : nat -> pstate -> bool;   (* true: the assertion returns Some(diag) *)
}.

Definition msg_assert : msgid := 0.   (* message id reserved for assertion diagnostics *)

Definition find_rule (p : program) (r : rid) : option rule_fn :=
  match find (fun x => Nat.eqb (fst x) r) (p_rules p) with
  | Some x => Some (snd x)
  | None => None
  end.

Definition deletable (p : program) (k : kind) : bool := existsb (Nat.eqb k) (p_deletable p).

Definition tok_in (t : tok) (l : list tok) : bool := existsb (Nat.eqb t) l.

Definition set_in_choice (st : pstate) (b : bool) : pstate :=
  mkSt (cstd st) (pos st) (cur st) (err_node st) b (esa st) (diags st) (log st) (gh st) (snaps st).

Definition add_event (st : pstate) (e : event) : pstate :=
  mkSt (cstd st) (pos st) (cur st) (err_node st) (in_choice st) (esa st) (diags st) (log st ++ [e])
       (gh st) (snaps st).

Definition push_assert_diag (cx : pctx) (st : pstate) : pstate :=
  mkSt (cstd st) (pos st) (cur st) (err_node st) (in_choice st) true
       (diags st ++ [mk_diag cx st msg_assert]) (log st) (gh st) (snaps st).

Definition sUnbound := 1.
Definition sNoRule := 2.
Definition sNoRec := 3.
Definition sEscape := 4.

Section Exec.
Variable cx : pctx.
Variable prog : program.
Variable orc : oracles.

(* [rec_of]: the `fn rec` of the rule being executed (for SRec). *)
Fixpoint exec (fuel : nat) (rec_of : option (bool * bool * list stmt)) (s : stmt) (e : env) (st : pstate)
  {struct fuel} : xres (outcome * env * pstate) :=
  match fuel with
  | 0 => XFuel
  | S fuel' =>
    let block := exec_block fuel' rec_of in
    match s with
    | SExpect t try_ m =>
      if Nat.eqb (cur st) t then
        match p_advance cx st false with
        | Ok st' => XOk (ONormal, e, st')
        | Panic w => XPanic w
        end
      else if try_ && in_choice st then XOk (ORetNone, e, st)
      else XOk (ONormal, e, p_error st (mk_diag cx st m))
    | SCall r q =>
      match find_rule prog r with
      | None => XStuck sNoRule
      | Some f =>
        match call_fn fuel' f st with
        | XOk (some, st') =>
          if q && negb some then XOk (ORetNone, e, st') else XOk (ONormal, e, st')
        | XPanic w => XPanic w
        | XFuel => XFuel
        | XStuck w => XStuck w
        end
      end
    | SRec bp v q =>
      match rec_of, env_get e v with
      | Some (opt, has_bp, body), Some mk =>
        let e0 := match bp with Some b => [(VLhs, mk); (VMinBp, b)] | None => [(VLhs, mk)] end in
        match exec_block fuel' rec_of body e0 st with
        | XOk (o, _, st') =>
          let some := match o with ORetNone => false | _ => true end in
          if q && negb some then XOk (ORetNone, e, st') else XOk (ONormal, e, st')
        | XPanic w => XPanic w
        | XFuel => XFuel
        | XStuck w => XStuck w
        end
      | None, _ => XStuck sNoRec
      | _, None => XStuck sUnbound
      end
    | SLetMark v =>
      match p_mark st with
      | Ok (mk, st') => XOk (ONormal, (v, mk) :: e, st')
      | Panic w => XPanic w
      end
    | SLetOpen =>
      match p_open st with
      | Ok (mk, st') => XOk (ONormal, (VM, mk) :: e, st')
      | Panic w => XPanic w
      end
    | SLetOpenBefore v =>
      match env_get e v with
      | None => XStuck sUnbound
      | Some x =>
        match p_open_before st x with
        | Ok (mk, st') => XOk (ONormal, (VM, mk) :: e, st')
        | Panic w => XPanic w
        end
      end
    | SLetElide => XOk (ONormal, (VElide, 0) :: e, st)
    | SSetElide =>
      match env_set e VElide 1 with
      | Some e' => XOk (ONormal, e', st)
      | None => XStuck sUnbound
      end
    | SKind decl k =>
      if decl then XOk (ONormal, (VKind, k) :: e, st)
      else match env_set e VKind k with
           | Some e' => XOk (ONormal, e', st)
           | None => XStuck sUnbound
           end
    | SClose k assign_lhs =>
      match env_get e VM, (match k with Some k0 => Some k0 | None => env_get e VKind end) with
      | Some m, Some k0 =>
        match p_close st m k0 with
        | Panic w => XPanic w
        | Ok (closed, st') =>
          let st'' := add_event st' (ECreate k0 closed) in
          if assign_lhs then
            match env_set e VLhs closed with
            | Some e' => XOk (ONormal, e', st'')
            | None => XStuck sUnbound
            end
          else XOk (ONormal, e, st'')
        end
      | _, _ => XStuck sUnbound
      end
    | SIfNotElide b =>
      match env_get e VElide with
      | None => XStuck sUnbound
      | Some 0 => block b e st
      | Some _ => XOk (ONormal, e, st)
      end
    | SCreate v k =>
      match env_get e v with
      | None => XStuck sUnbound
      | Some x =>
        match p_open_before st x with
        | Panic w => XPanic w
        | Ok (on, st1) =>
          match p_close st1 on k with
          | Panic w => XPanic w
          | Ok (_, st2) => XOk (ONormal, e, add_event st2 (ECreate k x))
          end
        end
      end
    | SAction n => XOk (ONormal, e, add_event st (EAction n (pos st)))
    | SAssert n ocr =>
      if o_assert orc n st then
        if ocr && in_choice st then XOk (ORetNone, e, st)
        else XOk (ONormal, e, push_assert_diag cx st)
      else XOk (ONormal, e, st)
    | SSetChoice b => XOk (ONormal, e, set_in_choice st b)
    | SMatch arms default =>
      let fix pick (l : list (list tok * option guard * list stmt)) : list stmt :=
        match l with
        | [] => default
        | (pats, g, body) :: r =>
          if tok_in (cur st) pats &&
             match g with
             | None => true
             | Some GTrue => true
             | Some (GPred n) => o_pred orc n st
             end
          then body else pick r
        end in
      block (pick arms) e st
    | SLoop b =>
      match block b e st with
      | XOk (o, e', st') =>
        match o with
        | ONormal | OContinue => exec fuel' rec_of (SLoop b) e' st'
        | OBreak => XOk (ONormal, e', st')
        | ORetNone => XOk (ORetNone, e', st')
        | ORet => XOk (ORet, e', st')
        end
      | r => r
      end
    | SBreak => XOk (OBreak, e, st)
    | SContinue => XOk (OContinue, e, st)
    | SIfBpBreak n =>
      match env_get e VMinBp with
      | None => XStuck sUnbound
      | Some mb => if n <? mb then XOk (OBreak, e, st) else XOk (ONormal, e, st)
      end
    | SOrdChoice save_elide save_kind alts last_pats last else_msg =>
      match (if save_elide then env_get e VElide else Some 0),
            (if save_kind then env_get e VKind else Some 0) with
      | Some el0, Some k0 =>
        let (sv, st0) := p_get_state st in
        exec_alts fuel' rec_of sv (save_elide, el0) (save_kind, k0) alts last_pats last else_msg e st0
      | _, _ => XStuck sUnbound
      end
    | SReturnIfError el opt =>
      if active_error st then
        let ret := if opt then ORetNone else ORet in
        match el with
        | ENone =>
          match env_get e VM with
          | None => XStuck sUnbound
          | Some m =>
            match p_close st m kError with
            | Ok (closed, st') => XOk (ret, e, add_event st' (ECreate kError closed))
            | Panic w => XPanic w
            end
          end
        | ECond =>
          match env_get e VElide, env_get e VStart with
          | Some 0, Some x =>
            match p_open_before st x with
            | Panic w => XPanic w
            | Ok (m, st1) =>
              match p_close st1 m kError with
              | Ok (closed, st2) => XOk (ret, e, add_event st2 (ECreate kError closed))
              | Panic w => XPanic w
              end
            end
          | Some _, Some _ => XOk (ret, e, st)
          | _, _ => XStuck sUnbound
          end
        | EUncond => XOk (ret, e, st)
        end
      else XOk (ONormal, e, st)
    | SError m => XOk (ONormal, e, p_error st (mk_diag cx st m))
    | SAdvErr m =>
      match p_advance_with_error cx st m with
      | Ok st' => XOk (ONormal, e, st')
      | Panic w => XPanic w
      end
    | SOcr => if in_choice st then XOk (ORetNone, e, st) else XOk (ONormal, e, st)
    end
  end

(* a `{ … }` block: bindings made inside die at the closing brace *)
with exec_block (fuel : nat) (rec_of : option (bool * bool * list stmt)) (b : list stmt) (e : env) (st : pstate)
  {struct fuel} : xres (outcome * env * pstate) :=
  match fuel with
  | 0 => XFuel
  | S fuel' => exec_seq fuel' rec_of (length e) b e st
  end

(* the statements of a block in order; [n] is the length of the environment outside the block *)
with exec_seq (fuel : nat) (rec_of : option (bool * bool * list stmt)) (n : nat) (l : list stmt) (e : env) (st : pstate)
  {struct fuel} : xres (outcome * env * pstate) :=
  match fuel with
  | 0 => XFuel
  | S fuel' =>
    match l with
    | [] => XOk (ONormal, env_leave n e, st)
    | s :: r =>
      match exec fuel' rec_of s e st with
      | XOk (ONormal, e2, st2) => exec_seq fuel' rec_of n r e2 st2
      | XOk (o, e2, st2) => XOk (o, env_leave n e2, st2)
      | r' => r'
      end
    end
  end

(* the alternatives of an ordered choice after `let state = get_state` *)
with exec_alts (fuel : nat) (rec_of : option (bool * bool * list stmt)) (sv : saved)
               (sel : bool * nat) (sk : bool * nat)
               (alts : list (list tok * list stmt)) (last_pats : list tok) (last : list stmt) (else_msg : msgid)
               (e1 : env) (st1 : pstate) {struct fuel} : xres (outcome * env * pstate) :=
  match fuel with
  | 0 => XFuel
  | S fuel' =>
    match alts with
    | [] =>
      let st2 := set_in_choice st1 false in
      if tok_in (cur st2) last_pats then
        match exec_block fuel' rec_of last e1 st2 with
        | XOk (o, e2, st3) => XOk (o, e2, p_release st3)
        | r => r
        end
      else
        match p_advance_with_error cx st2 else_msg with
        | Ok st3 => XOk (ONormal, e1, p_release st3)
        | Panic w => XPanic w
        end
    | (pats, body) :: r =>
      if tok_in (cur st1) pats then
        match exec_block fuel' rec_of body e1 st1 with
        | XOk (o, e2, st2) =>
          match o with
          | ORetNone =>
            match (if fst sel then env_set e2 VElide (snd sel) else Some e2) with
            | Some e3 =>
              match (if fst sk then env_set e3 VKind (snd sk) else Some e3) with
              | Some e4 =>
                exec_alts fuel' rec_of sv sel sk r last_pats last else_msg e4 (p_set_state (deletable prog) st2 sv)
              | None => XStuck sUnbound
              end
            | None => XStuck sUnbound
            end
          | ONormal => XOk (ONormal, e2, p_release st2)
          | _ => XStuck sEscape
          end
        | r' => r'
        end
      else exec_alts fuel' rec_of sv sel sk r last_pats last else_msg e1 st1
    end
  end

(* call a rule function: fresh environment; returns whether it returned Some(()) / () *)
with call_fn (fuel : nat) (f : rule_fn) (st : pstate) {struct fuel} : xres (bool * pstate) :=
  match fuel with
  | 0 => XFuel
  | S fuel' =>
    let rec_of := match fn_rec f with
                  | Some (has_bp, body) => Some (fn_opt f, has_bp, body)
                  | None => None
                  end in
    match exec_block fuel' rec_of (fn_body f) [] st with
    | XOk (o, _, st') => XOk (match o with ORetNone => false | _ => true end, st')
    | XPanic w => XPanic w
    | XFuel => XFuel
    | XStuck w => XStuck w
    end
  end.

(* the `while self.pos < token_count` loop of parse_rule: the rest of the input goes into the error node *)
Fixpoint drain_toks (l : list tok) (c : cst) (g : option ghost) : cst * option ghost :=
  match l with
  | [] => (c, g)
  | t :: l' =>
    drain_toks l' (c_advance c t (is_skipped cx t))
               (match g with
                | Some g0 => g_step g0 c (BAdvance t (is_skipped cx t))
                | None => None
                end)
  end.

(* fn parse_rule(mut self, rule, diags, root) -> Cst *)
Definition parse_entry (fuel : nat) (r : rid) (root : kind) (msg_eof : msgid) : xres pstate :=
  match p_open init_state with
  | Panic w => XPanic w
  | Ok (m, st0) =>
    let st1 := p_init_skip cx st0 in
    match find_rule prog r with
    | None => XStuck sNoRule
    | Some f =>
      match call_fn fuel f st1 with
      | XPanic w => XPanic w
      | XFuel => XFuel
      | XStuck w => XStuck w
      | XOk (_, st2) =>
        match p_close_error_node st2 with
        | Panic w => XPanic w
        | Ok st3 =>
          let n := length (toks cx) in
          match (if Nat.eqb (pos st3) n then Ok st3
                 else
                   let st4 := p_error st3 (mk_diag cx st3 msg_eof) in
                   match p_open st4 with
                   | Panic w => Panic w
                   | Ok (et, st5) =>
                     let '(c6, g6) := drain_toks (skipn (pos st5) (toks cx)) (cstd st5) (gh st5) in
                     let st6 := mkSt c6 (Nat.max (pos st5) n) (cur st5) (err_node st5) (in_choice st5)
                                     (esa st5) (diags st5) (log st5) g6 (snaps st5) in
                     match c_close (cstd st6) et kError with
                     | Panic w => Panic w
                     | Ok c7 =>
                       Ok (add_event (set_cst st6 c7 (gstep st6 (BClose et kError))) (ECreate kError et))
                     end
                   end) with
          | Panic w => XPanic w
          | Ok st7 =>
            match c_close_root (cstd st7) m root with
            | Panic w => XPanic w
            | Ok c8 =>
              (* the ghost stays defined only if the root frame is the only open frame *)
              let g8 := match gh st7 with
                        | Some g => match a_close_root (g_abs g) m root with Some _ => Some g | None => None end
                        | None => None
                        end in
              XOk (add_event (set_cst st7 c8 g8) (ECreate root m))
            end
          end
        end
      end
    end
  end.

End Exec.
