(* Fmt.v - executable model of lelwel's formatter item generator, /repo/src/backend/format.rs
   (gen_cst and the gen_* helpers), transcribed function by function.  The model produces the list
   of dprint-core print items the real code pushes; dprint-core's printer, which lays the items out,
   is NOT modelled (trusted / tested, see notes/fmt.md).

   Conventions
   - text is a list of bytes (nat); the source text `src` is a parameter of every function because
     space_before_comment scans the source bytes in front of a comment and gen_alt looks for a
     newline between the first two regex children.
   - the tree is lelwel's CST: FTok kind text start | FRule kind children.  A token's span is
     (start, start + length text); a rule's span is computed as Cst::span does (first token start,
     last token end; for a rule without tokens the end of the last token in front of it, which is
     threaded through the generator as `prev`).
   - a Rust panic (unreachable!(), a slice out of range, `txt.len() - 1` on an empty text) is the
     marker item ICrash, placed where the panic happens; `gen` returns the first marker as Crash.
   - a loop over cst.children(node) that calls gen_node on some children becomes a function over the
     list `subs` of (child, items gen_node produces for that child).
   Standard library only. *)
From Coq Require Import List Arith Bool Lia.
Import ListNotations.

Definition byte := nat.

Inductive rkind :=
| RAction | RAlternation | RAssertion | RCommit | RConcat | RDecl | RError | RFile | RName
| RNodeCreation | RNodeElision | RNodeMarker | RNodeRename | ROptional | ROrderedChoice | RParen
| RPartDecl | RPlus | RPostfix | RPredicate | RRegex | RReturn | RRightDecl | RRuleDecl | RSkipDecl
| RStar | RStartDecl | RSymbol | RTokenDecl | RTokenList.

(* the Token variants format.rs distinguishes; every other variant is TOther *)
Inductive tkind :=
| TLineComment | TDocComment | TBlockComment | TWhitespace
| TLPar | TRPar | TLBrak | TRBrak | TOr | TSlash | TColon | TSemi | TOther.

Inductive tree :=
| FTok (k : tkind) (text : list byte) (start : nat)
| FRule (k : rkind) (children : list tree).

Inductive signal :=
| NewLine | Tab | SpaceOrNewLine | ExpectNewLine | StartIndent | FinishIndent
| StartNewLineGroup | FinishNewLineGroup | StartIgnoringIndent | FinishIgnoringIndent
| SpaceIfNotTrailing.

Inductive crash := CUnreachable | CSlice.

(* LineNumber::new("start") / LineNumber::new("end") *)
Inductive lname := LnStart | LnEnd.

(* condition names; the payload is state captured by the Rust closure / set on the condition:
   CNewLineIfMultipleLines stored : new_line_if_multiple_lines (stored = create_reevaluation was called on it)
   CMultilineAlt force            : "multilineAlt" with the captured force_multiline
   CNlOrSpace                     : conditions::new_line_if_multiple_lines_space_or_new_line_otherwise *)
Inductive cname :=
| CNewLineIfMultipleLines (stored : bool)
| CMultilineAlt (force : bool)
| CNlOrSpace.

Inductive item :=
| IStr (s : list byte)
| ISig (s : signal)
| ICond (n : cname) (tru fls : list item)
| IInfo (n : lname)
| IAnchor (n : lname)
| IReeval (n : cname)
| ICrash (c : crash).

Inductive res (A : Type) :=
| Ok (a : A)
| Crash (c : crash).
Arguments Ok {A} a.
Arguments Crash {A} c.

(* ------------------------------------------------------------------ bytes *)

Definition b_tab : byte := 9.
Definition b_nl : byte := 10.
Definition b_ff : byte := 12.
Definition b_cr : byte := 13.
Definition b_sp : byte := 32.

(* whitespace as the lexer, property C17 and tools/checks_front.nonws define it: [ \t\r\n\f] *)
Definition is_ws (b : byte) : bool :=
  (b =? b_sp) || (b =? b_tab) || (b =? b_cr) || (b =? b_nl) || (b =? b_ff).

Definition nonws (l : list byte) : list byte := filter (fun b => negb (is_ws b)) l.

Definition is_nil {A} (l : list A) : bool := match l with [] => true | _ => false end.

(* str::split(sep): always at least one piece *)
Fixpoint split_on (sep : byte) (l : list byte) : list (list byte) :=
  match l with
  | [] => [[]]
  | b :: r =>
      if b =? sep then [] :: split_on sep r
      else match split_on sep r with
           | p :: ps => (b :: p) :: ps
           | [] => [[b]]
           end
  end.

(* ------------------------------------------------------------------ push_text and
   dprint_core::formatting::ir_helpers::gen_from_raw_string *)

Definition str_if_nonempty (p : list byte) : list item :=
  if is_nil p then [] else [IStr p].

(* gen_from_string_line: split at tabs, Signal::Tab between the parts, empty parts push nothing *)
Definition gen_line (line : list byte) : list item :=
  match split_on b_tab line with
  | [] => []
  | p :: ps => str_if_nonempty p ++ flat_map (fun q => ISig Tab :: str_if_nonempty q) ps
  end.

(* one trailing '\r' goes with the '\n' that ended the line (str::lines) *)
Definition strip_cr (l : list byte) : list byte :=
  match rev l with
  | c :: r => if c =? b_cr then rev r else l
  | [] => l
  end.

(* str::lines on the pieces of split('\n'): every piece that was ended by '\n' is a line (minus one
   '\r'); the last piece is a line only if it is not empty, and keeps its '\r' *)
Fixpoint lines_of (ps : list (list byte)) : list (list byte) :=
  match ps with
  | [] => []
  | [p] => if is_nil p then [] else [p]
  | p :: r => strip_cr p :: lines_of r
  end.

Definition lines (l : list byte) : list (list byte) := lines_of (split_on b_nl l).

Definition ends_with_nl (l : list byte) : bool :=
  match rev l with c :: _ => c =? b_nl | [] => false end.

(* gen_string_lines *)
Definition gen_string_lines (txt : list byte) : list item :=
  match lines txt with
  | [] => []
  | l :: ls => gen_line l ++ flat_map (fun q => ISig NewLine :: gen_line q) ls
  end ++ (if ends_with_nl txt then [ISig NewLine] else []).

Definition has_byte (c : byte) (l : list byte) : bool := existsb (fun b => b =? c) l.

Definition gen_from_raw_string (txt : list byte) : list item :=
  if has_byte b_nl txt
  then ISig StartIgnoringIndent :: gen_string_lines txt ++ [ISig FinishIgnoringIndent]
  else gen_line txt.

Definition push_text (txt : list byte) : list item :=
  if has_byte b_tab txt || has_byte b_nl txt then gen_from_raw_string txt else [IStr txt].

(* `&txt[..txt.len() - 1]` followed by push_text: panics on an empty text *)
Definition push_text_chopped (txt : list byte) : list item :=
  match txt with
  | [] => [ICrash CSlice]
  | _ => push_text (removelast txt)
  end.

Definition indent (w : nat) : list item := repeat (ISig StartIndent) w.
Definition dedent (w : nat) : list item := repeat (ISig FinishIndent) w.
Definition space : list item := [IStr [b_sp]].

(* ------------------------------------------------------------------ space_before_comment *)

Definition is_blank (c : byte) : bool :=
  (c =? b_sp) || (c =? b_tab) || (c =? b_cr) || (c =? b_ff).

(* the bytes in front of the comment, last one first *)
Fixpoint sbc_scan (rev_prefix : list byte) (global : bool) : list item :=
  match rev_prefix with
  | [] => []
  | c :: r =>
      if is_blank c then sbc_scan r global
      else if c =? b_nl then (if global then [] else [ISig NewLine])
      else space
  end.

Definition space_before_comment (src : list byte) (start : nat) (global : bool) : list item :=
  if start <=? length src then sbc_scan (rev_append (firstn start src) []) global
  else [ICrash CSlice].

(* ------------------------------------------------------------------ spans (Cst::span) *)

Fixpoint first_start (t : tree) : option nat :=
  match t with
  | FTok _ _ s => Some s
  | FRule _ cs =>
      (fix go (l : list tree) : option nat :=
         match l with
         | [] => None
         | c :: r => match first_start c with Some s => Some s | None => go r end
         end) cs
  end.

Fixpoint last_end (t : tree) : option nat :=
  match t with
  | FTok _ txt s => Some (length txt + s)
  | FRule _ cs =>
      (fix go (l : list tree) : option nat :=
         match l with
         | [] => None
         | c :: r => match go r with Some e => Some e | None => last_end c end
         end) cs
  end.

(* prev: end of the last token in front of the node in the whole tree (0 if there is none) *)
Definition span (prev : nat) (t : tree) : nat * nat :=
  match t with
  | FTok _ txt s => (s, length txt + s)
  | FRule _ _ =>
      match first_start t, last_end t with
      | Some a, Some b => (a, b)
      | _, _ => (prev, prev)
      end
  end.

(* Range::len() of the span (0 for an empty or inverted range) *)
Definition span_len (t : tree) : nat :=
  match t with
  | FTok _ txt _ => length txt
  | FRule _ _ =>
      match first_start t, last_end t with
      | Some a, Some b => b - a
      | _, _ => 0
      end
  end.

Definition upd (prev : nat) (t : tree) : nat :=
  match last_end t with Some e => e | None => prev end.

(* ------------------------------------------------------------------ node kinds *)

(* ast::Regex::cast *)
Definition is_regex (t : tree) : bool :=
  match t with
  | FRule k _ =>
      match k with
      | ROrderedChoice | RAlternation | RConcat | RParen | ROptional | RStar | RPlus | RName
      | RSymbol | RPredicate | RAction | RAssertion | RNodeRename | RNodeElision | RNodeMarker
      | RNodeCreation | RCommit | RReturn => true
      | _ => false
      end
  | FTok _ _ _ => false
  end.

(* ast::Decl::cast (a token list is not a Decl) *)
Definition is_decl (t : tree) : bool :=
  match t with
  | FRule k _ =>
      match k with
      | RTokenDecl | RRuleDecl | RStartDecl | RRightDecl | RSkipDecl | RPartDecl => true
      | _ => false
      end
  | FTok _ _ _ => false
  end.

Definition tok_kind (t : tree) : option tkind :=
  match t with FTok k _ _ => Some k | FRule _ _ => None end.

Definition is_tok (k : tkind) (t : tree) : bool :=
  match t with
  | FTok k' _ _ =>
      match k, k' with
      | TLineComment, TLineComment | TDocComment, TDocComment | TBlockComment, TBlockComment
      | TWhitespace, TWhitespace | TLPar, TLPar | TRPar, TRPar | TLBrak, TLBrak | TRBrak, TRBrak
      | TOr, TOr | TSlash, TSlash | TColon, TColon | TSemi, TSemi | TOther, TOther => true
      | _, _ => false
      end
  | FRule _ _ => false
  end.

Definition is_comment (t : tree) : bool :=
  is_tok TLineComment t || is_tok TDocComment t || is_tok TBlockComment t.

(* ------------------------------------------------------------------ conditions *)

(* new_line_if_multiple_lines(start_ln, end_ln) *)
Definition c_newline (stored : bool) : item :=
  ICond (CNewLineIfMultipleLines stored) [ISig NewLine] [].
(* conditions::new_line_if_multiple_lines_space_or_new_line_otherwise *)
Definition c_nl_or_space : item :=
  ICond CNlOrSpace [ISig NewLine] [ISig SpaceOrNewLine].
(* the two "multilineAlt" conditions pushed around a `|` or `/` *)
Definition c_alt_sep (force : bool) : item :=
  ICond (CMultilineAlt force) (ISig NewLine :: dedent 2) [ISig SpaceOrNewLine].
Definition c_alt_indent (force : bool) : item :=
  ICond (CMultilineAlt force) (indent 2) [].

(* ------------------------------------------------------------------ tokens (gen_node, Node::Token arm) *)

Definition gen_token (src : list byte) (k : tkind) (txt : list byte) (start : nat) : list item :=
  match k with
  | TLineComment | TDocComment =>
      space_before_comment src start false ++ push_text_chopped txt ++ [ISig ExpectNewLine]
  | TBlockComment => space_before_comment src start false ++ push_text txt
  | TWhitespace => []
  | _ => push_text txt
  end.

(* ------------------------------------------------------------------ the gen_* functions
   subs : the children of the node in order, each with the items gen_node produces for it *)

Definition subs_t := list (tree * list item).

(* gen_children *)
Definition gen_children (subs : subs_t) : list item := flat_map snd subs.

(* gen_error *)
Definition gen_error (subs : subs_t) : list item :=
  flat_map (fun cr => if is_tok TWhitespace (fst cr) then space else snd cr) subs.

(* gen_concat *)
Definition concat_rest (subs : subs_t) : list item :=
  flat_map (fun cr =>
              if is_tok TWhitespace (fst cr) then []
              else if is_comment (fst cr) then snd cr
              else ISig SpaceOrNewLine :: snd cr) subs.

Definition gen_concat (subs : subs_t) : list item :=
  ISig StartNewLineGroup ::
  match subs with
  | [] => []
  | cr :: rest => snd cr ++ concat_rest rest
  end ++ [ISig FinishNewLineGroup].

(* gen_paren *)
Fixpoint paren_loop (open : nat) (subs : subs_t) : list item :=
  match subs with
  | [] => dedent (2 * open)        (* the closing bracket may be missing in an erroneous file *)
  | cr :: rest =>
      if is_tok TLPar (fst cr) || is_tok TLBrak (fst cr) then
        snd cr ++ indent 2 ++ c_newline false :: paren_loop (S open) rest
      else if (is_tok TRPar (fst cr) || is_tok TRBrak (fst cr)) && (0 <? open) then
        dedent 2 ++ c_newline false :: snd cr ++ paren_loop (open - 1) rest
      else snd cr ++ paren_loop open rest
  end.

Definition gen_paren (subs : subs_t) : list item :=
  IInfo LnStart :: IAnchor LnEnd :: paren_loop 0 subs ++ [IInfo LnEnd].

(* gen_alt *)
Fixpoint regex_spans (prev : nat) (cs : list tree) : list (nat * nat) :=
  match cs with
  | [] => []
  | c :: r => (if is_regex c then [span prev c] else []) ++ regex_spans (upd prev c) r
  end.

(* `source[a..b]`: None when Rust would panic *)
Definition slice (src : list byte) (a b : nat) : option (list byte) :=
  if (a <=? b) && (b <=? length src) then Some (firstn (b - a) (skipn a src)) else None.

Definition force_multiline (src : list byte) (prev : nat) (cs : list tree) : res bool :=
  match regex_spans prev cs with
  | (_, e1) :: (s2, _) :: _ =>
      match slice src e1 s2 with
      | Some l => Ok (has_byte b_nl l)
      | None => Crash CSlice
      end
  | _ => Ok false
  end.

Definition alt_rest (force : bool) (subs : subs_t) : list item :=
  flat_map (fun cr =>
              if is_tok TOr (fst cr) || is_tok TSlash (fst cr)
              then c_alt_sep force :: snd cr ++ c_alt_indent force :: space
              else snd cr) subs.

Definition gen_alt (src : list byte) (prev : nat) (subs : subs_t) : list item :=
  match force_multiline src prev (map fst subs) with
  | Crash c => [ICrash c]
  | Ok force =>
      IInfo LnStart :: IAnchor LnEnd :: ISig StartNewLineGroup ::
      match subs with
      | [] => []
      | cr :: rest => snd cr ++ alt_rest force rest
      end ++ [ISig FinishNewLineGroup; IInfo LnEnd]
  end.

(* gen_file *)
Definition count_nl (l : list byte) : nat := length (filter (fun b => b =? b_nl) l).

Fixpoint file_loop (src : list byte) (line_start : bool) (subs : subs_t) : list item :=
  match subs with
  | [] => []
  | (c, r) :: rest =>
      match c with
      | FTok TLineComment txt start | FTok TDocComment txt start =>
          space_before_comment src start true ++ push_text_chopped txt ++ ISig NewLine ::
          file_loop src true rest
      | FTok TBlockComment txt start =>
          space_before_comment src start true ++ push_text txt ++ ISig SpaceIfNotTrailing ::
          file_loop src line_start rest
      | FTok TWhitespace txt _ =>
          if 0 <? count_nl txt
          then repeat (ISig NewLine) (count_nl txt) ++ file_loop src true rest
          else file_loop src false rest
      | _ =>
          (if negb line_start && is_decl c then [ISig ExpectNewLine] else []) ++ r ++
          file_loop src line_start rest
      end
  end.

Definition gen_file (src : list byte) (subs : subs_t) : list item := file_loop src true subs.

(* gen_semi_list *)
Fixpoint semi_loop (first : bool) (subs : subs_t) : list item :=
  match subs with
  | [] => []
  | cr :: rest =>
      if is_tok TWhitespace (fst cr) then semi_loop first rest
      else if is_tok TSemi (fst cr) then snd cr ++ semi_loop first rest
      else (if first then space else [ISig SpaceOrNewLine]) ++ snd cr ++ semi_loop false rest
  end.

Definition gen_semi_list (subs : subs_t) : list item :=
  match subs with
  | [] => []
  | cr :: rest =>
      let width := span_len (fst cr) + 1 in
      snd cr ++ indent width ++ semi_loop true rest ++ dedent width
  end.

(* gen_rule_decl *)
Fixpoint rule_loop (open : nat) (subs : subs_t) : list item :=
  match subs with
  | [] => dedent (2 * open)        (* the semicolon may be missing in an erroneous file *)
  | cr :: rest =>
      if is_tok TColon (fst cr) then
        snd cr ++ indent 2 ++ c_nl_or_space :: rule_loop (S open) rest
      else if is_tok TSemi (fst cr) && (0 <? open) then
        dedent 2 ++ c_newline true :: snd cr ++ rule_loop (open - 1) rest
      else snd cr ++ rule_loop open rest
  end.

Definition gen_rule_decl (subs : subs_t) : list item :=
  match subs with
  | [] => []
  | cr :: rest =>
      snd cr ++ IInfo LnStart :: IAnchor LnEnd :: rule_loop 0 rest ++
      [IInfo LnEnd; IReeval (CNewLineIfMultipleLines true)]
  end.

(* the Node::Rule arms of gen_node *)
Definition gen_rule (src : list byte) (prev : nat) (k : rkind) (subs : subs_t) : list item :=
  match k with
  | RAction | RAssertion | RCommit | RName | RNodeCreation | RNodeElision | RNodeMarker
  | RNodeRename | RPlus | RPredicate | RStar | RSymbol | RTokenDecl => gen_children subs
  | RAlternation | ROrderedChoice => gen_alt src prev subs
  | RConcat => gen_concat subs
  | RDecl | RPostfix | RRegex => [ICrash CUnreachable]
  | RError => gen_error subs
  | RFile => gen_file src subs
  | ROptional | RParen => gen_paren subs
  | RPartDecl | RRightDecl | RSkipDecl | RStartDecl | RTokenList => gen_semi_list subs
  | RReturn | RRuleDecl => gen_rule_decl subs
  end.

(* gen_node.  prev = end of the last token in front of the node *)
Fixpoint gen_node (src : list byte) (prev : nat) (t : tree) {struct t} : list item :=
  match t with
  | FTok k txt start => gen_token src k txt start
  | FRule k cs =>
      gen_rule src prev k
        ((fix go (p : nat) (l : list tree) : subs_t :=
            match l with
            | [] => []
            | c :: r => (c, gen_node src p c) :: go (upd p c) r
            end) prev cs)
  end.

Fixpoint gen_subs (src : list byte) (p : nat) (l : list tree) : subs_t :=
  match l with
  | [] => []
  | c :: r => (c, gen_node src p c) :: gen_subs src (upd p c) r
  end.

Fixpoint first_crash (l : list item) : option crash :=
  match l with
  | [] => None
  | ICrash c :: _ => Some c
  | _ :: r => first_crash r
  end.

(* gen_cst: the items for the tree, or the first panic *)
Definition gen (src : list byte) (t : tree) : res (list item) :=
  let its := gen_node src 0 t in
  match first_crash its with
  | Some c => Crash c
  | None => Ok its
  end.
