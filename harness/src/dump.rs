//! Dump of the typed view (ast.rs accessors) and of every public field of
//! `SemanticData`, keyed by NodeRef index.
use lelwel::frontend::ast::*;
use lelwel::frontend::parser::{Cst, NodeRef};
use lelwel::frontend::sema::{Recursion, RuleNodeElision, SemanticData};
use serde_json::{Map, Value, json};

fn span_json(s: std::ops::Range<usize>) -> Value {
    json!([s.start, s.end])
}

fn regex_json(cst: &Cst<'_>, sema: &SemanticData<'_>, r: Regex) -> Value {
    let id = r.syntax().0;
    let span = span_json(r.span(cst));
    let ops = |it: Vec<Regex>| -> Value { it.into_iter().map(|o| regex_json(cst, sema, o)).collect() };
    let opt = |o: Option<Regex>| -> Value { o.map_or(Value::Null, |o| regex_json(cst, sema, o)) };
    let decl = |n: NodeRef| -> Value { sema.decl_bindings.get(&n).map_or(Value::Null, |d| json!(d.0)) };
    match r {
        Regex::OrderedChoice(x) => json!({"k":"choice","id":id,"span":span,"ops":ops(x.operands(cst).collect())}),
        Regex::Alternation(x) => json!({"k":"alt","id":id,"span":span,"ops":ops(x.operands(cst).collect())}),
        Regex::Concat(x) => json!({"k":"concat","id":id,"span":span,"ops":ops(x.operands(cst).collect())}),
        Regex::Paren(x) => json!({"k":"paren","id":id,"span":span,"op":opt(x.inner(cst))}),
        Regex::Optional(x) => json!({"k":"opt","id":id,"span":span,"op":opt(x.operand(cst))}),
        Regex::Star(x) => json!({"k":"star","id":id,"span":span,"op":opt(x.operand(cst))}),
        Regex::Plus(x) => json!({"k":"plus","id":id,"span":span,"op":opt(x.operand(cst))}),
        Regex::Name(x) => json!({"k":"name","id":id,"span":span,"value":x.value(cst).map(|v| v.0),"decl":decl(x.syntax())}),
        Regex::Symbol(x) => json!({"k":"symbol","id":id,"span":span,"value":x.value(cst).map(|v| v.0),"decl":decl(x.syntax())}),
        Regex::Predicate(x) => json!({"k":"pred","id":id,"span":span,"value":x.value(cst).map(|v| v.0),"is_true":x.is_true(cst)}),
        Regex::Action(x) => json!({"k":"action","id":id,"span":span,"value":x.value(cst).map(|v| v.0)}),
        Regex::Assertion(x) => json!({"k":"assert","id":id,"span":span,"value":x.value(cst).map(|v| v.0)}),
        Regex::NodeRename(x) => json!({"k":"rename","id":id,"span":span,"value":x.value(cst).map(|v| v.0)}),
        Regex::NodeElision(_) => json!({"k":"elision","id":id,"span":span}),
        Regex::NodeMarker(x) => json!({"k":"marker","id":id,"span":span,"value":x.value(cst).map(|v| v.0)}),
        Regex::NodeCreation(x) => json!({"k":"creation","id":id,"span":span,"value":x.value(cst).map(|v| v.0),
            "number":x.number(cst),"node_name":x.node_name(cst),"whole_rule":x.whole_rule(cst)}),
        Regex::Commit(_) => json!({"k":"commit","id":id,"span":span}),
        Regex::Return(_) => json!({"k":"return","id":id,"span":span}),
    }
}

fn set_json<'a>(s: &std::collections::BTreeSet<lelwel::frontend::sema::TokenName<'a>>) -> Value {
    s.iter().map(|t| json!(t.0.as_ref())).collect()
}

pub fn dump(cst: &Cst<'_>, sema: &SemanticData<'_>, _source: &str) -> Value {
    let Some(file) = File::cast(cst, NodeRef::ROOT) else {
        return Value::Null;
    };
    let tokens: Vec<Value> = file
        .token_decls(cst)
        .map(|t| json!({"id": t.syntax().0, "name": t.name(cst).map(|v| v.0), "symbol": t.symbol(cst).map(|v| v.0),
                        "span": span_json(t.span(cst))}))
        .collect();
    let rules: Vec<Value> = file
        .rule_decls(cst)
        .map(|r| {
            json!({"id": r.syntax().0, "name": r.name(cst).map(|v| v.0), "elided": r.is_elided(cst),
                   "span": span_json(r.span(cst)),
                   "regex": r.regex(cst).map_or(Value::Null, |x| regex_json(cst, sema, x))})
        })
        .collect();
    let mut names_of = |f: &mut dyn FnMut(&mut dyn FnMut((&str, std::ops::Range<usize>)))| -> Value {
        let mut v = vec![];
        f(&mut |(n, _)| v.push(json!(n)));
        Value::Array(v)
    };
    let starts: Vec<Value> = file.start_decls(cst).map(|d| json!(d.rule_name(cst).map(|v| v.0))).collect();
    let rights: Vec<Value> = file.right_decls(cst).map(|d| names_of(&mut |g| d.token_names(cst, |x| g(x)))).collect();
    let skips: Vec<Value> = file.skip_decls(cst).map(|d| names_of(&mut |g| d.token_names(cst, |x| g(x)))).collect();
    let parts: Vec<Value> = file.part_decls(cst).map(|d| names_of(&mut |g| d.rule_names(cst, |x| g(x)))).collect();

    let mut sets = Map::new();
    let mut keys: Vec<NodeRef> = sema.first_sets.keys().copied().collect();
    for k in sema.follow_sets.keys() {
        if !sema.first_sets.contains_key(k) {
            keys.push(*k);
        }
    }
    keys.sort();
    for k in keys {
        let mut m = Map::new();
        if let Some(s) = sema.first_sets.get(&k) { m.insert("first".into(), set_json(s)); }
        if let Some(s) = sema.follow_sets.get(&k) { m.insert("follow".into(), set_json(s)); }
        if let Some(s) = sema.predict_sets.get(&k) { m.insert("predict".into(), set_json(s)); }
        if let Some(s) = sema.recovery_sets.get(&k) { m.insert("recovery".into(), set_json(s)); }
        if let Some(s) = sema.left_rec_local_follow_sets.get(&k) { m.insert("local_follow".into(), set_json(s)); }
        sets.insert(k.0.to_string(), Value::Object(m));
    }
    let mut elision = Map::new();
    for (k, v) in sema.elision.iter() {
        elision.insert(k.0.to_string(), json!(match v {
            RuleNodeElision::None => "none",
            RuleNodeElision::Unconditional => "uncond",
            RuleNodeElision::Conditional => "cond",
        }));
    }
    let mut used: Vec<usize> = sema.used.iter().map(|n| n.0).collect();
    used.sort();
    let mut in_choice: Vec<usize> = sema.used_in_ordered_choice.iter().map(|n| n.0).collect();
    in_choice.sort();
    let mut recursive = Map::new();
    for (rule, rb) in sema.recursive.iter() {
        let bs: Vec<Value> = rb
            .branches()
            .iter()
            .map(|b| {
                let bp = rb.binding_power(b.regex());
                match b {
                    Recursion::Left(r, l) => json!({"kind":"left","id":r.syntax().0,"l":l,"bp":[bp.0,bp.1]}),
                    Recursion::Right(r, i) => json!({"kind":"right","id":r.syntax().0,"r":i,"bp":[bp.0,bp.1]}),
                    Recursion::LeftRight(r, l, i) => json!({"kind":"leftright","id":r.syntax().0,"l":l,"r":i,"bp":[bp.0,bp.1]}),
                }
            })
            .collect();
        recursive.insert(rule.syntax().0.to_string(), Value::Array(bs));
    }
    let mut right_assoc: Vec<&str> = sema.right_associative.iter().copied().collect();
    right_assoc.sort();
    let mut has_rename: Vec<usize> = sema.has_rule_rename.iter().map(|r| r.syntax().0).collect();
    has_rename.sort();
    let mut has_creation: Vec<usize> = sema.has_rule_creation.iter().map(|r| r.syntax().0).collect();
    has_creation.sort();
    json!({
        "tokens": tokens, "rules": rules, "start_decls": starts, "right_decls": rights,
        "skip_decls": skips, "part_decls": parts,
        "sema": {
            "start_rule": sema.start_rule.map(|r| r.syntax().0),
            "parts": sema.parts.iter().map(|r| r.syntax().0).collect::<Vec<_>>(),
            "skipped": sema.skipped.iter().map(|t| t.syntax().0).collect::<Vec<_>>(),
            "right_assoc": right_assoc,
            "sets": sets, "elision": elision, "used": used, "in_choice": in_choice,
            "recursive": recursive,
            "has_rule_rename": has_rename,
            "has_rule_creation": has_creation,
            "predicates": sema.predicates.iter().map(|(k, v)| json!([k.0, v.0, v.1])).collect::<Vec<_>>(),
            "actions": sema.actions.iter().map(|(k, v)| json!([k.0, v.0, v.1])).collect::<Vec<_>>(),
            "assertions": sema.assertions.iter().map(|(k, v)| json!([k.0, v.0, v.1])).collect::<Vec<_>>(),
            "rule_bindings": sema.rule_bindings.iter().map(|(k, v)| json!([k, v.iter().map(|n| n.0).collect::<Vec<_>>()])).collect::<Vec<_>>(),
            "undefined_rules": sema.undefined_rules.iter().collect::<Vec<_>>(),
            "undefined_tokens": sema.undefined_tokens.iter().collect::<Vec<_>>(),
        }
    })
}
