//! K4: front end (lexer, parser, analysis, formatter) on arbitrary texts.
pub fn main(_args: &[String]) {
    eprintln!("front: not implemented yet");
    std::process::exit(2);
}
