//! K4: front end (lexer, parser, analysis, formatter) on arbitrary texts.
//!
//! `lv-harness front [timeout_ms]`
//! stdin : one JSON string per line (the text, JSON-escaped)
//! stdout: one JSON object per line
//!   tokens : {"toks":[[kind,start,end],…], "diags":[…]}      | {"panic":true,"stage":"tokens","msg":…}
//!   parse  : [diag,…] (lexer + parser diagnostics)            | {"panic":true,"stage":"parse"}
//!   cst    : [[depth,"rule"|"token",kind,start,end],…]        | {"panic":true,"stage":"cst"} | null
//!   sema   : [diag,…] (all diagnostics after SemanticPass)    | {"panic":true,"stage":"sema"} | null
//!   render : {"ok":n} number of diagnostics rendered by codespan-reporting
//!            | {"error":msg,"index":i} | {"panic":true,"stage":"render","index":i} | null
//!   format : string                                           | {"panic":true,"stage":"format"} | null
//!   format2: string (parse `format` again, format again)      | {"panic":true,"stage":"format2"} | null
//! `null` means that the stage could not run because the stage it depends on panicked.
//! Texts run on a thread with a 256 MB stack under a watchdog: a case that does not finish
//! within the timeout prints {"hang":true} and the process exits with status 3 (the caller
//! resumes after that case).  The thread is replaced after every case in which a stage panicked.
use codespan_reporting::files::SimpleFile;
use codespan_reporting::term;
use lelwel::frontend::lexer::tokenize;
use lelwel::frontend::parser::{Cst, Diagnostic, Node, NodeRef, Parser};
use lelwel::frontend::sema::SemanticPass;
use serde_json::{Value, json};
use std::io::{BufRead, Write};
use std::panic::{AssertUnwindSafe, catch_unwind};
use std::sync::mpsc;
use std::time::Duration;

const STACK: usize = 256 << 20;

fn payload_msg(p: &(dyn std::any::Any + Send)) -> String {
    if let Some(s) = p.downcast_ref::<&str>() {
        s.to_string()
    } else if let Some(s) = p.downcast_ref::<String>() {
        s.clone()
    } else {
        String::new()
    }
}

/// `msg` is the panic message (first 300 characters), for the evidence and the replay files
fn panicked(stage: &str, p: Box<dyn std::any::Any + Send>) -> Value {
    let msg: String = payload_msg(&*p).chars().take(300).collect();
    json!({"panic": true, "stage": stage, "msg": msg})
}

fn diags_json(ds: &[Diagnostic]) -> Value {
    Value::Array(ds.iter().map(crate::diag_json).collect())
}

/// pre-order walk through the public API only (children / get / span); iterative so that the
/// walk itself cannot overflow the stack
fn walk(cst: &Cst<'_>) -> Value {
    let mut out = vec![];
    let mut stack: Vec<(NodeRef, usize)> = vec![(NodeRef::ROOT, 0)];
    while let Some((n, depth)) = stack.pop() {
        let span = cst.span(n);
        match cst.get(n) {
            Node::Rule(rule, _) => {
                out.push(json!([depth, "rule", format!("{rule:?}"), span.start, span.end]));
                let kids: Vec<NodeRef> = cst.children(n).collect();
                for k in kids.into_iter().rev() {
                    stack.push((k, depth + 1));
                }
            }
            Node::Token(tok, _) => {
                out.push(json!([depth, "token", format!("{tok:?}"), span.start, span.end]));
            }
        }
    }
    Value::Array(out)
}

fn render(source: &str, diags: &[Diagnostic]) -> Value {
    let file = SimpleFile::new("<input>", source);
    let config = term::Config::default();
    for (i, d) in diags.iter().enumerate() {
        let r = catch_unwind(AssertUnwindSafe(|| term::emit_into_string(&config, &file, d)));
        match r {
            Ok(Ok(_)) => {}
            Ok(Err(e)) => return json!({"error": e.to_string(), "index": i}),
            Err(p) => {
                let mut v = panicked("render", p);
                v["index"] = json!(i);
                return v;
            }
        }
    }
    json!({"ok": diags.len()})
}

fn one(text: &str) -> Value {
    // ---- lexer alone
    let tokens = match catch_unwind(|| {
        let mut d = vec![];
        let (toks, spans) = tokenize(text, &mut d);
        let toks: Vec<Value> = toks
            .iter()
            .zip(spans.iter())
            .map(|(t, s)| json!([format!("{t:?}"), s.start, s.end]))
            .collect();
        json!({"toks": toks, "diags": diags_json(&d)})
    }) {
        Ok(v) => v,
        Err(p) => panicked("tokens", p),
    };

    // ---- lexer + parser
    let parsed = catch_unwind(|| {
        let mut diags = vec![];
        let cst = Parser::new(text, &mut diags).parse(&mut diags);
        (cst, diags)
    });
    let (cst, pdiags) = match parsed {
        Ok(x) => x,
        Err(p) => {
            return json!({"tokens": tokens, "parse": panicked("parse", p), "cst": null, "sema": null,
                          "render": null, "format": null, "format2": null});
        }
    };
    let parse = diags_json(&pdiags);

    // ---- tree walk
    let cst_json = match catch_unwind(AssertUnwindSafe(|| walk(&cst))) {
        Ok(v) => v,
        Err(p) => panicked("cst", p),
    };

    // ---- semantic analysis
    let mut all = pdiags.clone();
    let sema_res = catch_unwind(AssertUnwindSafe(|| {
        let _sema = SemanticPass::run(&cst, &mut all);
    }));
    let sema_ok = sema_res.is_ok();
    let sema = match sema_res {
        Ok(()) => diags_json(&all),
        Err(p) => panicked("sema", p),
    };

    // ---- rendering of every diagnostic (what the CLI does with them)
    let rendered = render(text, if sema_ok { &all } else { &pdiags });

    // ---- formatter, twice
    let f1 = catch_unwind(AssertUnwindSafe(|| lelwel::backend::format::format(&cst)));
    let (format, format2) = match f1 {
        Err(p) => (panicked("format", p), Value::Null),
        Ok(s1) => {
            let f2 = catch_unwind(AssertUnwindSafe(|| {
                let mut d = vec![];
                let cst2 = Parser::new(&s1, &mut d).parse(&mut d);
                lelwel::backend::format::format(&cst2)
            }));
            let v2 = match f2 {
                Ok(s2) => json!(s2),
                Err(p) => panicked("format2", p),
            };
            (json!(s1), v2)
        }
    };
    json!({"tokens": tokens, "parse": parse, "cst": cst_json, "sema": sema, "render": rendered,
           "format": format, "format2": format2})
}

/// A worker thread with a large stack.  It is reused for consecutive texts as long as no stage
/// panicked; after a panic it retires (so that thread-local state of dprint-core left behind by
/// the unwinding never leaks into the next case) and the next text gets a fresh thread.
struct Worker {
    tx: mpsc::Sender<String>,
    rx: mpsc::Receiver<(String, bool)>,
}

fn has_panic(v: &Value) -> bool {
    match v {
        Value::Object(m) => m.values().any(|x| x.get("panic").is_some()),
        _ => true,
    }
}

fn spawn_worker() -> Worker {
    let (tx_in, rx_in) = mpsc::channel::<String>();
    let (tx_out, rx_out) = mpsc::channel::<(String, bool)>();
    std::thread::Builder::new()
        .stack_size(STACK)
        .spawn(move || {
            while let Ok(text) = rx_in.recv() {
                let v = match catch_unwind(|| one(&text)) {
                    Ok(v) => v,
                    Err(_) => json!({"panic": true, "stage": "harness"}),
                };
                let dirty = has_panic(&v);
                if tx_out.send((v.to_string(), dirty)).is_err() || dirty {
                    break;
                }
            }
        })
        .expect("spawn");
    Worker { tx: tx_in, rx: rx_out }
}

pub fn main(args: &[String]) {
    std::panic::set_hook(Box::new(|_| {}));
    let timeout_ms: u64 = args.first().and_then(|s| s.parse().ok()).unwrap_or(5000);
    let out = std::io::stdout();
    let stdin = std::io::stdin();
    let mut worker: Option<Worker> = None;
    for line in stdin.lock().lines() {
        let Ok(line) = line else { break };
        if line.trim().is_empty() {
            continue;
        }
        let text: String = match serde_json::from_str(&line) {
            Ok(Value::String(s)) => s,
            _ => {
                let mut o = out.lock();
                writeln!(o, "{}", json!({"bad_input": true})).unwrap();
                o.flush().unwrap();
                continue;
            }
        };
        let w = worker.take().unwrap_or_else(spawn_worker);
        w.tx.send(text).expect("worker gone");
        match w.rx.recv_timeout(Duration::from_millis(timeout_ms)) {
            Ok((s, dirty)) => {
                let mut o = out.lock();
                writeln!(o, "{s}").unwrap();
                o.flush().unwrap();
                if !dirty {
                    worker = Some(w);
                }
            }
            Err(_) => {
                // hang (or the worker died without an answer): report and let the caller resume
                let mut o = out.lock();
                writeln!(o, "{}", json!({"hang": true})).unwrap();
                o.flush().unwrap();
                std::process::exit(3);
            }
        }
    }
}
