//! In-process driver around /repo's lelwel library for the correspondence checks.
use codespan_reporting::diagnostic::{LabelStyle, Severity};
use lelwel::backend::rust::RustOutput;
use lelwel::frontend::parser::{Diagnostic, Parser};
use lelwel::frontend::sema::SemanticPass;
use serde_json::{Value, json};
use std::io::{BufRead, Write};
use std::path::Path;

mod dump;
mod fmtitems;
mod front;
mod lsp;
mod lsppos;

fn diag_json(d: &Diagnostic) -> Value {
    json!({
        "code": d.code.clone().unwrap_or_default(),
        "severity": match d.severity { Severity::Error => "error", Severity::Warning => "warning", _ => "other" },
        "message": d.message,
        "labels": d.labels.iter().map(|l| json!({
            "primary": l.style == LabelStyle::Primary,
            "start": l.range.start, "end": l.range.end, "message": l.message})).collect::<Vec<_>>(),
    })
}

/// Mirrors `lelwel::compile` without format/verbose/graph: parse, analyse, and
/// write `generated.rs` into `outdir` iff there is no error diagnostic.
fn gen_one(input: &Path, outdir: &Path) -> Value {
    gen_one_opt(input, Some(outdir))
}

fn gen_one_opt(input: &Path, outdir: Option<&Path>) -> Value {
    let source = match std::fs::read_to_string(input) {
        Ok(s) => s,
        Err(e) => return json!({"io_error": e.to_string()}),
    };
    let res = std::panic::catch_unwind(|| {
        let mut diags = vec![];
        let cst = Parser::new(&source, &mut diags).parse(&mut diags);
        let sema = SemanticPass::run(&cst, &mut diags);
        let accepted = !diags.iter().any(|d| d.severity == Severity::Error);
        let mut wrote = false;
        let mut gen_err = Value::Null;
        if let (true, Some(outdir)) = (accepted, outdir) {
            std::fs::create_dir_all(outdir).ok();
            match RustOutput::run(&cst, &sema, input, outdir) {
                Ok(()) => wrote = true,
                Err(e) => gen_err = json!(e.to_string()),
            }
        }
        let dump = dump::dump(&cst, &sema, &source);
        json!({"accepted": accepted, "wrote": wrote, "gen_error": gen_err,
               "diags": diags.iter().map(diag_json).collect::<Vec<_>>(), "dump": dump})
    });
    match res {
        Ok(v) => v,
        Err(_) => json!({"panic": true}),
    }
}

fn main() {
    std::panic::set_hook(Box::new(|_| {}));
    let args: Vec<String> = std::env::args().collect();
    let out = std::io::stdout();
    let mut out = std::io::BufWriter::new(out.lock());
    match args.get(1).map(|s| s.as_str()) {
        Some("gen") => {
            let v = gen_one(Path::new(&args[2]), Path::new(&args[3]));
            writeln!(out, "{v}").unwrap();
        }
        // stdin: lines "<input.llw>\t<outdir>"; one JSON line per input
        Some("batch-gen") => {
            for line in std::io::stdin().lock().lines() {
                let line = line.unwrap();
                let mut it = line.split('\t');
                let (Some(i), Some(o)) = (it.next(), it.next()) else { continue };
                let v = gen_one(Path::new(i), Path::new(o));
                writeln!(out, "{v}").unwrap();
            }
        }
        // stdin: one grammar file path per line; analysis only, nothing is written
        Some("batch-sema") => {
            for line in std::io::stdin().lock().lines() {
                let line = line.unwrap();
                let v = gen_one_opt(Path::new(line.trim()), None);
                writeln!(out, "{v}").unwrap();
            }
        }
        Some("front") => front::main(&args[2..]),
        Some("fmtitems") => fmtitems::main(&args[2..]),
        Some("lsp") => lsp::main(&args[2..]),
        Some("lsppos") => lsppos::main(&args[2..]),
        _ => {
            eprintln!("usage: lv-harness gen <in.llw> <outdir> | batch-gen | front … | lsp …");
            std::process::exit(2);
        }
    }
}
