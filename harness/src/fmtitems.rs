//! K4f: the formatter's item generator (src/backend/format.rs) against the Coq model Fmt.v.
//!
//! `lv-harness fmtitems`
//! stdin : one JSON string per line (the text, JSON-escaped)
//! stdout: one JSON object per line
//!   cst    : [[depth,"rule",kind] | [depth,"token",kind,start,end], …]  pre-order walk (public API only);
//!            token texts are the source slices start..end (byte offsets)
//!   items  : [string,…] what `lelwel::backend::format::verif_items` renders (the hook in /repo,
//!            compiled with --cfg lelwel_verif)                | {"panic":true,"msg":…}
//!   format : string, the printer's output for the same tree   | {"panic":true,"msg":…}
//!   syntax_ok : no lexer/parser diagnostic
//! A text whose parse panics prints {"panic":true,"stage":"parse"}.
use lelwel::frontend::parser::{Cst, Node, NodeRef, Parser};
use serde_json::{Value, json};
use std::io::{BufRead, Write};
use std::panic::{AssertUnwindSafe, catch_unwind};

const STACK: usize = 256 << 20;

fn msg_of(p: Box<dyn std::any::Any + Send>) -> String {
    let s = if let Some(s) = p.downcast_ref::<&str>() {
        s.to_string()
    } else if let Some(s) = p.downcast_ref::<String>() {
        s.clone()
    } else {
        String::new()
    };
    s.chars().take(300).collect()
}

fn walk(cst: &Cst<'_>) -> Value {
    let mut out = vec![];
    let mut stack: Vec<(NodeRef, usize)> = vec![(NodeRef::ROOT, 0)];
    while let Some((n, depth)) = stack.pop() {
        match cst.get(n) {
            Node::Rule(rule, _) => {
                out.push(json!([depth, "rule", format!("{rule:?}")]));
                let kids: Vec<NodeRef> = cst.children(n).collect();
                for k in kids.into_iter().rev() {
                    stack.push((k, depth + 1));
                }
            }
            Node::Token(tok, _) => {
                let span = cst.span(n);
                out.push(json!([depth, "token", format!("{tok:?}"), span.start, span.end]));
            }
        }
    }
    Value::Array(out)
}

fn one(text: &str) -> Value {
    let parsed = catch_unwind(|| {
        let mut diags = vec![];
        let cst = Parser::new(text, &mut diags).parse(&mut diags);
        (cst, diags.is_empty())
    });
    let Ok((cst, syntax_ok)) = parsed else {
        return json!({"panic": true, "stage": "parse"});
    };
    let cst_json = walk(&cst);
    let items = match catch_unwind(AssertUnwindSafe(|| lelwel::backend::format::verif_items(&cst))) {
        Ok(v) => json!(v),
        Err(p) => json!({"panic": true, "msg": msg_of(p)}),
    };
    let format = match catch_unwind(AssertUnwindSafe(|| lelwel::backend::format::format(&cst))) {
        Ok(s) => json!(s),
        Err(p) => json!({"panic": true, "msg": msg_of(p)}),
    };
    json!({"cst": cst_json, "items": items, "format": format, "syntax_ok": syntax_ok})
}

pub fn main(_args: &[String]) {
    std::panic::set_hook(Box::new(|_| {}));
    let stdin = std::io::stdin();
    let out = std::io::stdout();
    for line in stdin.lock().lines() {
        let Ok(line) = line else { break };
        if line.trim().is_empty() {
            continue;
        }
        let v = match serde_json::from_str::<Value>(&line) {
            Ok(Value::String(text)) => {
                // a fresh thread per text: large stack, and dprint-core's thread-local state left
                // behind by an unwinding never leaks into the next case
                let h = std::thread::Builder::new()
                    .stack_size(STACK)
                    .spawn(move || one(&text))
                    .expect("spawn");
                h.join().unwrap_or_else(|_| json!({"panic": true, "stage": "harness"}))
            }
            _ => json!({"bad_input": true}),
        };
        let mut o = out.lock();
        writeln!(o, "{v}").unwrap();
        o.flush().unwrap();
    }
}
