//! K6: language server (ide::Cache) driven in-process.
//!
//! `lv-harness lsp [--timeout-ms N] [--stop-on-panic]` reads a history from
//! stdin, one JSON object per line, and prints one JSON line per input line:
//!
//!   {"op":"open","uri":U,"text":T}      invalidate + analyze + get_diagnostics   (DidOpenTextDocument::handle)
//!   {"op":"change","uri":U,"text":T}    invalidate + analyze + get_diagnostics   (DidChangeTextDocument::handle)
//!   {"op":"close","uri":U}              invalidate                               (DidCloseTextDocument::handle)
//!   {"op":"diagnostics","uri":U}        get_diagnostics (probe; the server never calls it on its own)
//!   {"op":"hover"|"definition"|"references"|"completion"|"formatting",
//!    "uri":U,"line":L,"character":C,"with_def":bool}
//!   {"op":"reset"}                      fresh Cache (next history)
//!
//! The control flow per message kind is that of src/bin/lelwel-ls.rs: the same
//! Cache methods in the same order, the same response values (serde-serialised
//! lsp-types values), so that a history that kills the server process kills
//! (panics) here at the same message.
//!
//! Answer lines: {"i":n,"op":..,"result":V} plus, when something went wrong,
//!   "panic":true,"msg":..      the server's main thread would have panicked here (process death)
//!   "dead_thread":true,"thread_msg":..   a per-document analysis thread panicked while serving this message
//! A watchdog prints {"hang":true,"i":n} and exits 3 when one message takes
//! longer than the timeout (default 10 s).
use lelwel::ide::Cache;
use lsp_types::{
    CompletionParams, DocumentFormattingParams, FormattingOptions, GotoDefinitionResponse, Hover,
    HoverContents, MarkupContent, MarkupKind, PartialResultParams, Position,
    PublishDiagnosticsParams, TextDocumentIdentifier, TextDocumentPositionParams, Url,
    WorkDoneProgressParams,
};
use serde_json::{Value, json};
use std::io::{BufRead, Write};
use std::panic::{AssertUnwindSafe, catch_unwind};
use std::sync::Mutex;
use std::sync::atomic::{AtomicU64, Ordering};
use std::time::{Duration, Instant};

/// (on main thread?, message with location)
static PANICS: Mutex<Vec<(bool, String)>> = Mutex::new(Vec::new());
/// milliseconds since start at which the current message began (0 = idle), and its index
static OP_STARTED: AtomicU64 = AtomicU64::new(0);
static OP_INDEX: AtomicU64 = AtomicU64::new(0);

/// main.rs keeps stdout locked while we run, and the watchdog thread has to be
/// able to print: every line goes out with a single write(2) on fd 1.
fn emit(v: &Value) {
    use std::os::fd::FromRawFd;
    let mut line = v.to_string();
    line.push('\n');
    let mut f = std::mem::ManuallyDrop::new(unsafe { std::fs::File::from_raw_fd(1) });
    let _ = f.write_all(line.as_bytes());
    let _ = f.flush();
}

fn take_panics() -> (Vec<String>, Vec<String>) {
    let mut g = PANICS.lock().unwrap_or_else(|e| e.into_inner());
    let mut main = vec![];
    let mut worker = vec![];
    for (is_main, msg) in g.drain(..) {
        if is_main { main.push(msg) } else { worker.push(msg) }
    }
    (main, worker)
}

fn position_params(uri: &Url, pos: Position) -> TextDocumentPositionParams {
    TextDocumentPositionParams { text_document: TextDocumentIdentifier { uri: uri.clone() }, position: pos }
}

/// What lelwel-ls.rs does for one message; the value is what it would put on the wire
/// (the `result` of the response, or the params' diagnostics of the notification it sends).
fn serve(cache: &mut Cache, op: &str, msg: &Value) -> Result<Value, String> {
    let uri = || -> Result<Url, String> {
        let s = msg.get("uri").and_then(|u| u.as_str()).ok_or("missing uri")?;
        Url::parse(s).map_err(|e| format!("bad uri: {e}"))
    };
    let pos = || {
        Position::new(
            msg.get("line").and_then(|v| v.as_u64()).unwrap_or(0) as u32,
            msg.get("character").and_then(|v| v.as_u64()).unwrap_or(0) as u32,
        )
    };
    let text = || msg.get("text").and_then(|t| t.as_str()).unwrap_or("").to_string();
    Ok(match op {
        "open" | "change" => {
            let uri = uri()?;
            let diagnostics = {
                cache.invalidate(&uri);
                cache.analyze(uri.clone(), text());
                cache.get_diagnostics(&uri)
            };
            let result = PublishDiagnosticsParams::new(uri, diagnostics, None);
            let params = serde_json::to_value(&result).unwrap();
            params.get("diagnostics").cloned().unwrap_or(Value::Null)
        }
        "close" => {
            let uri = uri()?;
            cache.invalidate(&uri);
            Value::Null
        }
        "diagnostics" => {
            let uri = uri()?;
            serde_json::to_value(cache.get_diagnostics(&uri)).unwrap()
        }
        "hover" => {
            let uri = uri()?;
            let result = if let Some((msg, range)) = cache.hover(&uri, pos()) {
                Some(Hover {
                    contents: HoverContents::Markup(MarkupContent { kind: MarkupKind::Markdown, value: msg }),
                    range: Some(range),
                })
            } else {
                None
            };
            serde_json::to_value(&result).unwrap()
        }
        "definition" => {
            let uri = uri()?;
            let result = cache.goto_definition(&uri, pos()).map(GotoDefinitionResponse::Scalar);
            serde_json::to_value(&result).unwrap()
        }
        "references" => {
            let uri = uri()?;
            let with_decl = msg.get("with_def").and_then(|v| v.as_bool()).unwrap_or(false);
            let locs = cache.references(&uri, pos(), with_decl);
            serde_json::to_value(Some(locs)).unwrap()
        }
        "completion" => {
            let uri = uri()?;
            let params = CompletionParams {
                text_document_position: position_params(&uri, pos()),
                work_done_progress_params: WorkDoneProgressParams::default(),
                partial_result_params: PartialResultParams::default(),
                context: None,
            };
            serde_json::to_value(cache.completion(params)).unwrap()
        }
        "formatting" => {
            let uri = uri()?;
            let params = DocumentFormattingParams {
                text_document: TextDocumentIdentifier { uri },
                options: FormattingOptions { tab_size: 4, insert_spaces: true, ..Default::default() },
                work_done_progress_params: WorkDoneProgressParams::default(),
            };
            serde_json::to_value(cache.formatting(params)).unwrap()
        }
        other => return Err(format!("unknown op {other}")),
    })
}

pub fn main(args: &[String]) {
    let mut timeout_ms: u64 = 10_000;
    let mut stop_on_panic = false;
    let mut i = 0;
    while i < args.len() {
        match args[i].as_str() {
            "--timeout-ms" => {
                i += 1;
                timeout_ms = args.get(i).and_then(|s| s.parse().ok()).unwrap_or(timeout_ms);
            }
            "--stop-on-panic" => stop_on_panic = true,
            _ => {}
        }
        i += 1;
    }

    let main_id = std::thread::current().id();
    std::panic::set_hook(Box::new(move |info| {
        let payload = info.payload();
        let mut msg = if let Some(s) = payload.downcast_ref::<&str>() {
            s.to_string()
        } else if let Some(s) = payload.downcast_ref::<String>() {
            s.clone()
        } else {
            "<non-string panic payload>".to_string()
        };
        if let Some(loc) = info.location() {
            msg = format!("{msg} @ {}:{}", loc.file(), loc.line());
        }
        let is_main = std::thread::current().id() == main_id;
        PANICS.lock().unwrap_or_else(|e| e.into_inner()).push((is_main, msg));
    }));

    let t0 = Instant::now();
    std::thread::spawn(move || {
        loop {
            std::thread::sleep(Duration::from_millis(25));
            let started = OP_STARTED.load(Ordering::SeqCst);
            if started != 0 {
                let now = t0.elapsed().as_millis() as u64 + 1;
                if now.saturating_sub(started) > timeout_ms {
                    emit(&json!({"hang": true, "i": OP_INDEX.load(Ordering::SeqCst)}));
                    std::process::exit(3);
                }
            }
        }
    });

    let mut cache = Cache::default();
    let mut dead = false; // the real server process would be gone
    let mut n: u64 = 0;
    let stdin = std::io::stdin();
    for line in stdin.lock().lines() {
        let Ok(line) = line else { break };
        if line.trim().is_empty() {
            continue;
        }
        let idx = n;
        n += 1;
        let msg: Value = match serde_json::from_str(&line) {
            Ok(v) => v,
            Err(e) => {
                emit(&json!({"i": idx, "bad_input": e.to_string()}));
                continue;
            }
        };
        let op = msg.get("op").and_then(|o| o.as_str()).unwrap_or("").to_string();
        if op == "reset" {
            // detaches the analysis threads (their request channel closes and they return)
            cache = Cache::default();
            dead = false;
            take_panics();
            emit(&json!({"i": idx, "op": "reset"}));
            continue;
        }
        if dead && stop_on_panic {
            emit(&json!({"i": idx, "op": op, "skipped_after_panic": true}));
            continue;
        }
        OP_INDEX.store(idx, Ordering::SeqCst);
        OP_STARTED.store(t0.elapsed().as_millis() as u64 + 1, Ordering::SeqCst);
        let res = catch_unwind(AssertUnwindSafe(|| serve(&mut cache, &op, &msg)));
        OP_STARTED.store(0, Ordering::SeqCst);
        let (main_panics, worker_panics) = take_panics();
        let mut out = serde_json::Map::new();
        out.insert("i".into(), json!(idx));
        out.insert("op".into(), json!(op));
        match res {
            Ok(Ok(v)) => {
                out.insert("result".into(), v);
            }
            Ok(Err(e)) => {
                out.insert("bad_input".into(), json!(e));
            }
            Err(_) => {
                out.insert("panic".into(), json!(true));
                out.insert("msg".into(), json!(main_panics.join(" | ")));
                dead = true;
            }
        }
        if !worker_panics.is_empty() {
            // The hook ran before the thread started to unwind; whether the *next* message sees
            // `handle.is_finished()` (assert), a closed request channel (send(..).unwrap()) or, for a few
            // microseconds, neither (and is answered null) is a race in the server.  Let the thread
            // finish, so that the in-process run is deterministic: the next message for the document panics.
            std::thread::sleep(Duration::from_millis(40));
            out.insert("dead_thread".into(), json!(true));
            out.insert("thread_msg".into(), json!(worker_panics.join(" | ")));
        }
        emit(&Value::Object(out));
    }
    // analysis threads still alive are detached; leave without joining them
    std::process::exit(0);
}
