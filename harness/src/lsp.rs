//! K6: language server (ide::Cache) driven in-process.
pub fn main(_args: &[String]) {
    eprintln!("lsp: not implemented yet");
    std::process::exit(2);
}
