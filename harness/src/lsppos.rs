//! K6 (model tie): the language server's position conversion, reached through the
//! add-only hooks `lelwel::ide::verif_position_to_offset` / `verif_span_to_range`
//! (cfg lelwel_verif), which call `compat::position_to_offset` / `compat::span_to_range`.
//!
//! `lv-harness lsppos` reads one JSON object per line from stdin
//!     {"t": TEXT, "p": [[line, character], ...], "o": [byte offset, ...]}
//! and prints one JSON line per input line
//!     {"p": [byte offset, ...], "o": [[line, character] | null, ...]}
//! where null stands for a panic of `span_to_range` (codespan returned Err, the server unwraps).
use serde_json::{Value, json};
use std::io::{BufRead, Write};
use std::panic::{AssertUnwindSafe, catch_unwind};

pub fn main(_args: &[String]) {
    let stdin = std::io::stdin();
    let out = std::io::stdout();
    let mut out = std::io::BufWriter::new(out.lock());
    for line in stdin.lock().lines() {
        let Ok(line) = line else { break };
        if line.trim().is_empty() {
            continue;
        }
        let msg: Value = match serde_json::from_str(&line) {
            Ok(v) => v,
            Err(e) => {
                writeln!(out, "{}", json!({"bad_input": e.to_string()})).unwrap();
                continue;
            }
        };
        let text = msg.get("t").and_then(|t| t.as_str()).unwrap_or("").to_string();
        let mut ps = vec![];
        for p in msg.get("p").and_then(|p| p.as_array()).cloned().unwrap_or_default() {
            let l = p.get(0).and_then(|v| v.as_u64()).unwrap_or(0) as u32;
            let c = p.get(1).and_then(|v| v.as_u64()).unwrap_or(0) as u32;
            let r = catch_unwind(AssertUnwindSafe(|| lelwel::ide::verif_position_to_offset(&text, l, c)));
            ps.push(match r {
                Ok(off) => json!(off),
                Err(_) => Value::Null,
            });
        }
        let mut os = vec![];
        for o in msg.get("o").and_then(|o| o.as_array()).cloned().unwrap_or_default() {
            let off = o.as_u64().unwrap_or(0) as usize;
            let r = catch_unwind(AssertUnwindSafe(|| lelwel::ide::verif_span_to_range(&text, off, off)));
            os.push(match r {
                Ok(Some((sl, sc, el, ec))) if (sl, sc) == (el, ec) => json!([sl, sc]),
                Ok(other) => json!({"unequal_ends": format!("{other:?}")}),
                Err(_) => Value::Null,
            });
        }
        writeln!(out, "{}", json!({"p": ps, "o": os})).unwrap();
    }
    out.flush().unwrap();
}
