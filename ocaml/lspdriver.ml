(* lspdriver.ml - runs the extracted language-server model (lsp_model.ml, from Model/Lsp.v) on the
   cases of tools/k6_lspmodel.py.  Line protocol on stdin, one answer line per P/O/H line:

     T <id> <cp>*                 define text <id> (code points, decimal)
     P <tid> (<line> <ch>)*       position_to_offset, structural and codespan-literal:  a:b a:b ...
     O <tid> <off>*               offset_to_position, both:   l,c:l,c  or E:E  per offset
     H <op>;<op>;...              history with analyse = identity.  ops:
                                    o <u> <tid> | c <u> <tid>* | x <u> | r <k> <u> <line> <ch>
                                  answer: <conformant> | out;out;...   outs:
                                    P <u> <tid> | A <k> <u> <tid> @ <off> | A <k> <u> <tid> W sl sc el ec | S | C
   Texts in outputs are named by the id under which they were defined (the model returns the text). *)
open Lsp_model

let rec nat_of_int i = if i <= 0 then O else S (nat_of_int (i - 1))
let rec int_of_nat = function O -> 0 | S n -> 1 + int_of_nat n

let rec pos_of_int i = if i <= 1 then XH else if i land 1 = 1 then XI (pos_of_int (i lsr 1)) else XO (pos_of_int (i lsr 1))
let n_of_int i = if i <= 0 then N0 else Npos (pos_of_int i)
let rec int_of_pos = function XH -> 1 | XO p -> 2 * int_of_pos p | XI p -> 2 * int_of_pos p + 1
let int_of_n = function N0 -> 0 | Npos p -> int_of_pos p

let texts : (int, text) Hashtbl.t = Hashtbl.create 64
let ids : (int list, int) Hashtbl.t = Hashtbl.create 64

let words s = List.filter (fun w -> w <> "") (String.split_on_char ' ' s)
let text_of id = try Hashtbl.find texts id with Not_found -> failwith ("unknown text " ^ string_of_int id)
let id_of (t : text) = try Hashtbl.find ids (List.map int_of_n t) with Not_found -> -1

let kind_of_int = function 0 -> Hover | 1 -> GotoDef | 2 -> References | 3 -> Completion | _ -> Formatting
let int_of_kind = function Hover -> 0 | GotoDef -> 1 | References -> 2 | Completion -> 3 | Formatting -> 4

let show_pos = function None -> "E" | Some (l, c) -> Printf.sprintf "%d,%d" (int_of_nat l) (int_of_nat c)

let parse_op s =
  match words s with
  | "o" :: u :: [tid] -> Open (nat_of_int (int_of_string u), text_of (int_of_string tid))
  | "c" :: u :: tids -> Change (nat_of_int (int_of_string u), List.map (fun x -> text_of (int_of_string x)) tids)
  | "x" :: [u] -> Close (nat_of_int (int_of_string u))
  | "r" :: k :: u :: l :: [c] ->
      Request (kind_of_int (int_of_string k), nat_of_int (int_of_string u), nat_of_int (int_of_string l), nat_of_int (int_of_string c))
  | _ -> failwith ("bad op: " ^ s)

let show_out = function
  | Publish (u, a) -> Printf.sprintf "P %d %d" (int_of_nat u) (id_of a)
  | Answer (k, u, a, AtOffset off) -> Printf.sprintf "A %d %d %d @ %d" (int_of_kind k) (int_of_nat u) (id_of a) (int_of_nat off)
  | Answer (k, u, a, WholeText ((sl, sc), (el, ec))) ->
      Printf.sprintf "A %d %d %d W %d %d %d %d" (int_of_kind k) (int_of_nat u) (id_of a)
        (int_of_nat sl) (int_of_nat sc) (int_of_nat el) (int_of_nat ec)
  | Silent -> "S"
  | Crash -> "C"

let rec pairs = function a :: b :: r -> (a, b) :: pairs r | _ -> []

let () =
  try
    while true do
      let line = input_line stdin in
      if String.length line > 1 then begin
        let rest = String.sub line 2 (String.length line - 2) in
        match line.[0] with
        | 'T' ->
            (match List.map int_of_string (words rest) with
             | id :: cps ->
                 Hashtbl.replace texts id (List.map n_of_int cps);
                 if not (Hashtbl.mem ids cps) then Hashtbl.replace ids cps id
             | [] -> failwith "bad T line")
        | 'P' ->
            (match List.map int_of_string (words rest) with
             | tid :: ps ->
                 let t = text_of tid in
                 let outs = List.map (fun (l, c) ->
                   let l = nat_of_int l and c = nat_of_int c in
                   Printf.sprintf "%d:%d" (int_of_nat (position_to_offset t l c)) (int_of_nat (position_to_offset_cs t l c))) (pairs ps) in
                 print_endline (String.concat " " outs)
             | [] -> failwith "bad P line")
        | 'O' ->
            (match List.map int_of_string (words rest) with
             | tid :: os ->
                 let t = text_of tid in
                 let outs = List.map (fun o ->
                   let o = nat_of_int o in
                   show_pos (offset_to_position t o) ^ ":" ^ show_pos (offset_to_position_cs t o)) os in
                 print_endline (String.concat " " outs)
             | [] -> failwith "bad O line")
        | 'H' ->
            let h = List.map parse_op (List.filter (fun s -> String.trim s <> "") (String.split_on_char ';' rest)) in
            let outs = run (fun t -> t) [] h in
            Printf.printf "%d | %s\n" (if conformant h then 1 else 0)
              (String.concat ";" (List.map show_out outs))
        | _ -> failwith ("bad line: " ^ line)
      end
    done
  with End_of_file -> ()
