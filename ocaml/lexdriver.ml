(* Driver of the extracted lexer model (coq/Model/Lexer.v -> lexer_model.ml).
   stdin : one text per line, the code points in decimal separated by blanks (empty line = empty text)
   stdout: one JSON object per line  {"toks":[["Kind",start,end],…],"diags":[["message",start,end],…]}
   Kinds are printed with the names of lexer.rs' `Token` variants, messages as `tokenize` words them. *)
open Lexer_model

let rec pos_of_int i =
  if i = 1 then XH else if i land 1 = 0 then XO (pos_of_int (i lsr 1)) else XI (pos_of_int (i lsr 1))
let n_of_int i = if i = 0 then N0 else Npos (pos_of_int i)
let int_of_nat n = let rec go acc = function O -> acc | S m -> go (acc + 1) m in go 0 n

let kind_name = function
  | KEOF -> "EOF" | KLineComment -> "LineComment" | KBlockComment -> "BlockComment"
  | KDocComment -> "DocComment" | KWhitespace -> "Whitespace" | KToken -> "Token" | KStart -> "Start"
  | KRight -> "Right" | KSkip -> "Skip" | KPart -> "Part" | KColon -> "Colon" | KSemi -> "Semi"
  | KEqual -> "Equal" | KLPar -> "LPar" | KRPar -> "RPar" | KLBrak -> "LBrak" | KRBrak -> "RBrak"
  | KOr -> "Or" | KStar -> "Star" | KPlus -> "Plus" | KHat -> "Hat" | KTilde -> "Tilde" | KAnd -> "And"
  | KSlash -> "Slash" | KId -> "Id" | KStr -> "Str" | KPredicate -> "Predicate" | KAction -> "Action"
  | KAssertion -> "Assertion" | KNodeRename -> "NodeRename" | KNodeMarker -> "NodeMarker"
  | KNodeCreation -> "NodeCreation" | KError -> "Error"

let diag_name = function
  | DInvalidToken -> "invalid token" | DUnterminatedString -> "unterminated string literal"
  | DUnterminatedComment -> "unterminated comment" | DInvalidEscape -> "invalid escape sequence"

let () =
  let buf = Buffer.create 65536 in
  (try
    while true do
      let line = input_line stdin in
      let cps = List.filter (fun s -> s <> "") (String.split_on_char ' ' (String.trim line)) in
      let t = List.map (fun s -> n_of_int (int_of_string s)) cps in
      let (toks, diags) = lex t in
      Buffer.clear buf;
      Buffer.add_string buf "{\"toks\":[";
      List.iteri (fun i ((k, s), e) ->
        if i > 0 then Buffer.add_char buf ',';
        Buffer.add_string buf (Printf.sprintf "[\"%s\",%d,%d]" (kind_name k) (int_of_nat s) (int_of_nat e))) toks;
      Buffer.add_string buf "],\"diags\":[";
      List.iteri (fun i ((k, s), e) ->
        if i > 0 then Buffer.add_char buf ',';
        Buffer.add_string buf (Printf.sprintf "[\"%s\",%d,%d]" (diag_name k) (int_of_nat s) (int_of_nat e))) diags;
      Buffer.add_string buf "]}\n";
      print_string (Buffer.contents buf)
    done
  with End_of_file -> ());
  flush stdout
