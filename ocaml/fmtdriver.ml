(* fmtdriver: runs the extracted formatter item-generator model (Fmt.v) on trees.
   stdin : one case per line   <src bytes, space separated>|<tree, pre-order, space separated>
           tree tokens: r<kind index>:<number of children>   t<kind index>:<start>:<length>
           (a token's text is src[start .. start+length])
   stdout: one line per case   ok|crash:<kind> then the items, space separated:
           S:<hex>  G:<signal>  C:<name>[:force=<bool>|:stored=<bool>] {T … } {F … }  I:<name>  A:<name>  R:<name>  X:<crash>
   Trusted for the correspondence only. *)
open Fmt_model

(* unary naturals with shared tails: nat_of_int n costs nothing after the first use *)
let tbl : nat array ref = ref [| O |]
let nat_of_int (n : int) : nat =
  let len = Array.length !tbl in
  if n >= len then begin
    let nlen = max (n + 1) (2 * len) in
    let a = Array.make nlen O in
    Array.blit !tbl 0 a 0 len;
    for i = len to nlen - 1 do a.(i) <- S a.(i - 1) done;
    tbl := a
  end;
  !tbl.(n)

let rec int_of_nat = function O -> 0 | S n -> 1 + int_of_nat n

let rkinds = [| RAction; RAlternation; RAssertion; RCommit; RConcat; RDecl; RError; RFile; RName;
  RNodeCreation; RNodeElision; RNodeMarker; RNodeRename; ROptional; ROrderedChoice; RParen;
  RPartDecl; RPlus; RPostfix; RPredicate; RRegex; RReturn; RRightDecl; RRuleDecl; RSkipDecl;
  RStar; RStartDecl; RSymbol; RTokenDecl; RTokenList |]
let tkinds = [| TLineComment; TDocComment; TBlockComment; TWhitespace; TLPar; TRPar; TLBrak; TRBrak;
  TOr; TSlash; TColon; TSemi; TOther |]

let parse_tree (src : int array) (toks : string array) : tree =
  let pos = ref 0 in
  let rec node () =
    let s = toks.(!pos) in
    incr pos;
    match String.split_on_char ':' (String.sub s 1 (String.length s - 1)) with
    | [k; n] when s.[0] = 'r' ->
      let n = int_of_string n in
      let kids = ref [] in
      for _ = 1 to n do kids := node () :: !kids done;
      FRule (rkinds.(int_of_string k), List.rev !kids)
    | [k; st; len] when s.[0] = 't' ->
      let st = int_of_string st and len = int_of_string len in
      let txt = List.init len (fun i -> nat_of_int src.(st + i)) in
      FTok (tkinds.(int_of_string k), txt, nat_of_int st)
    | _ -> failwith ("bad tree token " ^ s)
  in
  let t = node () in
  if !pos <> Array.length toks then failwith "trailing tree tokens";
  t

let sig_name = function
  | NewLine -> "NewLine" | Tab -> "Tab" | SpaceOrNewLine -> "SpaceOrNewLine"
  | ExpectNewLine -> "ExpectNewLine" | StartIndent -> "StartIndent" | FinishIndent -> "FinishIndent"
  | StartNewLineGroup -> "StartNewLineGroup" | FinishNewLineGroup -> "FinishNewLineGroup"
  | StartIgnoringIndent -> "StartIgnoringIndent" | FinishIgnoringIndent -> "FinishIgnoringIndent"
  | SpaceIfNotTrailing -> "SpaceIfNotTrailing"

let cname = function
  | CNewLineIfMultipleLines st -> Printf.sprintf "newLineIfMultipleLines:stored=%b" st
  | CMultilineAlt f -> Printf.sprintf "multilineAlt:force=%b" f
  | CNlOrSpace -> "newLineIfMultipleLinesSpaceOrNewLineOtherwise"
let lname = function LnStart -> "start" | LnEnd -> "end"
let crash_name = function CUnreachable -> "unreachable" | CSlice -> "slice"

let rec render buf (its : item list) =
  List.iter (fun it ->
    Buffer.add_char buf ' ';
    match it with
    | IStr s ->
      Buffer.add_string buf "S:";
      List.iter (fun b -> Buffer.add_string buf (Printf.sprintf "%02x" (int_of_nat b))) s
    | ISig s -> Buffer.add_string buf ("G:" ^ sig_name s)
    | ICond (n, t, f) ->
      Buffer.add_string buf ("C:" ^ cname n ^ " {T");
      render buf t; Buffer.add_string buf " } {F"; render buf f; Buffer.add_string buf " }"
    | IInfo n -> Buffer.add_string buf ("I:" ^ lname n)
    | IAnchor n -> Buffer.add_string buf ("A:" ^ lname n)
    | IReeval n -> Buffer.add_string buf ("R:" ^ cname n)
    | ICrash c -> Buffer.add_string buf ("X:" ^ crash_name c)) its

let () =
  try
    while true do
      let line = input_line stdin in
      if String.trim line <> "" then begin
        let out =
          try
            let i = String.index line '|' in
            let srcs = String.trim (String.sub line 0 i) in
            let src = if srcs = "" then [||] else
                Array.of_list (List.map int_of_string (String.split_on_char ' ' srcs)) in
            let toks = Array.of_list (List.filter (fun s -> s <> "")
                (String.split_on_char ' ' (String.sub line (i + 1) (String.length line - i - 1)))) in
            let t = parse_tree src toks in
            let srcl = Array.to_list (Array.map nat_of_int src) in
            let its = gen_node srcl O t in
            let buf = Buffer.create 4096 in
            (match gen srcl t with
             | Ok _ -> Buffer.add_string buf "ok"
             | Crash c -> Buffer.add_string buf ("crash:" ^ crash_name c));
            render buf its;
            Buffer.contents buf
          with
          | Stack_overflow -> "error stack_overflow"
          | Failure m -> "error " ^ m
        in
        print_string out; print_newline ()
      end
    done
  with End_of_file -> ()
