(* I/O glue around the extracted model (model.ml).  Trusted for the
   correspondence checks only, never for a theorem. *)
open Model

let rec nat_of_int n = if n <= 0 then O else S (nat_of_int (n - 1))
let rec int_of_nat = function O -> 0 | S n -> 1 + int_of_nat n

(* ---------- s-expressions ---------- *)
type sexp = A of string | L of sexp list

let parse_sexp (s : string) : sexp =
  let n = String.length s in
  let pos = ref 0 in
  let rec skip () = if !pos < n && (s.[!pos] = ' ' || s.[!pos] = '\n' || s.[!pos] = '\t') then (incr pos; skip ()) in
  let rec parse () =
    skip ();
    if !pos >= n then failwith "sexp: eof";
    if s.[!pos] = '(' then begin
      incr pos;
      let items = ref [] in
      let rec loop () =
        skip ();
        if !pos >= n then failwith "sexp: unterminated";
        if s.[!pos] = ')' then incr pos
        else begin items := parse () :: !items; loop () end in
      loop ();
      L (List.rev !items)
    end else begin
      let st = !pos in
      while !pos < n && s.[!pos] <> ' ' && s.[!pos] <> '(' && s.[!pos] <> ')' && s.[!pos] <> '\n' do incr pos done;
      A (String.sub s st (!pos - st))
    end in
  parse ()

let int_of = function A x -> int_of_string x | _ -> failwith "int expected"
let nat_of x = nat_of_int (int_of x)
let bool_of x = int_of x <> 0
let list_of f = function L xs -> List.map f xs | _ -> failwith "list expected"
let opt_of f = function A "none" -> None | x -> Some (f x)

let var_of = function
  | A "m" -> VM | A "start" -> VStart | A "lhs" -> VLhs | A "rhs" -> VRhs
  | L [A "mk"; n] -> VMk (nat_of n)
  | _ -> failwith "var expected"

let rec stmt_of (x : sexp) : stmt =
  match x with
  | L [A "expect"; t; tr; m] -> SExpect (nat_of t, bool_of tr, nat_of m)
  | L [A "call"; r; q] -> SCall (nat_of r, bool_of q)
  | L [A "rec"; bp; v; q] -> SRec (opt_of nat_of bp, var_of v, bool_of q)
  | L [A "letmark"; v] -> SLetMark (var_of v)
  | L [A "letopen"] -> SLetOpen
  | L [A "letopenbefore"; v] -> SLetOpenBefore (var_of v)
  | L [A "letelide"] -> SLetElide
  | L [A "setelide"] -> SSetElide
  | L [A "kind"; d; k] -> SKind (bool_of d, nat_of k)
  | L [A "close"; k; a] -> SClose (opt_of nat_of k, bool_of a)
  | L [A "ifnotelide"; b] -> SIfNotElide (block_of b)
  | L [A "create"; v; k] -> SCreate (var_of v, nat_of k)
  | L [A "action"; n] -> SAction (nat_of n)
  | L [A "assert"; n; o] -> SAssert (nat_of n, bool_of o)
  | L [A "setchoice"; b] -> SSetChoice (bool_of b)
  | L [A "match"; L arms; d] ->
    SMatch (List.map (function
        | L [pats; g; body] ->
          let g' = (match g with
              | A "none" -> None
              | A "true" -> Some GTrue
              | n -> Some (GPred (nat_of n))) in
          ((list_of nat_of pats, g'), block_of body)
        | _ -> failwith "arm") arms, block_of d)
  | L [A "loop"; b] -> SLoop (block_of b)
  | L [A "break"] -> SBreak
  | L [A "continue"] -> SContinue
  | L [A "ifbpbreak"; n] -> SIfBpBreak (nat_of n)
  | L [A "ordchoice"; se; sk; L alts; lp; last; m] ->
    SOrdChoice (bool_of se, bool_of sk,
                List.map (function L [p; b] -> (list_of nat_of p, block_of b) | _ -> failwith "alt") alts,
                list_of nat_of lp, block_of last, nat_of m)
  | L [A "retiferr"; A e; o] ->
    SReturnIfError ((match e with "none" -> ENone | "uncond" -> EUncond | "cond" -> ECond | _ -> failwith "elision"), bool_of o)
  | L [A "error"; m] -> SError (nat_of m)
  | L [A "adverr"; m] -> SAdvErr (nat_of m)
  | L [A "ocr"] -> SOcr
  | _ -> failwith "stmt"
and block_of x = list_of stmt_of x

let program_of (x : sexp) : program =
  match x with
  | L [A "program"; L fns; start; sk; pk; del] ->
    let fn_of = function
      | L [A "fn"; rid; opt; body; r] ->
        let r' = (match r with
            | A "none" -> None
            | L [A "rec"; hb; b] -> Some (bool_of hb, block_of b)
            | _ -> failwith "rec") in
        (nat_of rid, { fn_opt = bool_of opt; fn_body = block_of body; fn_rec = r' })
      | _ -> failwith "fn" in
    { p_rules = List.map fn_of fns; p_start = nat_of start; p_start_kind = nat_of sk;
      p_part_kind = nat_of pk; p_deletable = list_of nat_of del }
  | _ -> failwith "program"

(* ---------- printing ---------- *)
let buf = Buffer.create 65536
let pr fmt = Printf.bprintf buf fmt

let pr_nodes (l : node list) =
  pr "[";
  List.iteri (fun i n ->
      if i > 0 then pr ",";
      match n with
      | NRule (k, o) -> pr "[0,%d,%d]" (int_of_nat k) (int_of_nat o)
      | NTok (t, x) -> pr "[1,%d,%d]" (int_of_nat t) (int_of_nat x)) l;
  pr "]"

let pr_natlist (l : nat list) =
  pr "["; List.iteri (fun i n -> if i > 0 then pr ","; pr "%d" (int_of_nat n)) l; pr "]"

let rec pr_tree (t : tree) =
  match t with
  | TLeaf (k, i) -> pr "[1,%d,%d]" (int_of_nat k) (int_of_nat i)
  | TNode (k, cs) ->
    pr "[0,%d,[" (int_of_nat k);
    List.iteri (fun i c -> if i > 0 then pr ","; pr_tree c) cs;
    pr "]]"

let flush_out () = print_string (Buffer.contents buf); Buffer.clear buf

(* ---------- K1: builder op scripts ---------- *)
let spans_k1 = List.init 40 (fun i -> (nat_of_int (2 * i), nat_of_int (2 * i + 1)))

let run_k1_line (line : string) =
  let ops = List.filter (fun s -> s <> "") (String.split_on_char ' ' line) in
  let c = ref { nodes = []; tcount = O; nsl = O } in
  let sn = ref [] in
  let g = ref (Some ghost_empty) in
  let state () =
    pr " | "; pr_nodes !c.nodes; pr " %d %d gv=%d\n" (int_of_nat !c.tcount) (int_of_nat !c.nsl)
      (match !g with Some _ -> 1 | None -> 0) in
  let args s = List.map int_of_string (String.split_on_char ',' (String.sub s 1 (String.length s - 1))) in
  let step o =
    (match c_step !c !sn o with
     | Panic _ -> pr "PANIC\n"; raise Exit
     | Ok (c', sn') ->
       g := (match !g with Some g0 -> g_step g0 !c o | None -> None);
       c := c'; sn := sn') in
  (try
     List.iter (fun op ->
         pr "%s" op;
         (match op.[0] with
          | 'o' -> pr " -> %d" (int_of_nat (c_mark !c)); step BOpen
          | 'c' -> (match args op with [m; k] -> step (BClose (nat_of_int m, nat_of_int k)) | _ -> failwith "c")
          | 'r' -> (match args op with
              | [m; k] ->
                (match c_close_root !c (nat_of_int m) (nat_of_int k) with
                 | Panic _ -> pr "PANIC\n"; raise Exit
                 | Ok c' ->
                   (* ghost: a_close_root gives the reference tree *)
                   (match !g with
                    | Some g0 ->
                      (match a_close_root g0.g_abs (nat_of_int m) (nat_of_int k) with
                       | Some t -> pr " tree="; pr_tree t;
                         pr " flat_eq=%d" (if flatten t = c'.nodes then 1 else 0)
                       | None -> g := None)
                    | None -> ());
                   c := c')
              | _ -> failwith "r")
          | 'a' -> (match args op with [t; s] -> step (BAdvance (nat_of_int t, s <> 0)) | _ -> failwith "a")
          | 'b' -> (match args op with [p] -> step (BOpenBefore (nat_of_int p)) | _ -> failwith "b")
          | 'm' -> pr " -> %d" (int_of_nat (c_mark !c))
          | 's' -> step BSnap
          | 't' -> (match args op with [i] -> step (BRestore (nat_of_int i)) | _ -> failwith "t")
          | 'l' -> step BRelease
          | 'k' -> (match args op with
              | [i] -> (match c_children !c (nat_of_int i) with
                  | Panic _ -> pr "PANIC\n"; raise Exit
                  | Ok l -> pr " -> "; pr_natlist l)
              | _ -> failwith "k")
          | 'p' -> (match args op with
              | [i] -> (match c_span spans_k1 !c (nat_of_int i) with
                  | Panic _ -> pr "PANIC\n"; raise Exit
                  | Ok (a, b) -> pr " -> %d..%d" (int_of_nat a) (int_of_nat b))
              | _ -> failwith "p")
          | 'g' -> (match args op with
              | [i] -> (match c_get !c (nat_of_int i) with
                  | Panic _ -> pr "PANIC\n"; raise Exit
                  | Ok (NRule (k, o)) -> pr " -> [0,%d,%d]" (int_of_nat k) (int_of_nat o)
                  | Ok (NTok (t, x)) -> pr " -> [1,%d,%d]" (int_of_nat t) (int_of_nat x))
              | _ -> failwith "g")
          | _ -> failwith ("op " ^ op));
         state ()) ops
   with Exit -> ());
  pr "END\n"

(* ---------- K3: programs ---------- *)

let run_k3_case (prog : program) (line : string) =
  (* entry root eoi msg_eof | skipped | bits | tokens *)
  match String.split_on_char '|' line with
  | [hd; sk; bits; ts] ->
    let ints s = List.map int_of_string (List.filter (fun x -> x <> "") (String.split_on_char ' ' s)) in
    (match ints hd with
     | [entry; root; eoi; msg_eof] ->
       let toks_i = ints ts in
       let n = List.length toks_i in
       let skipped_i = ints sk in
       let bits = String.trim bits in
       let nb = String.length bits in
       let cx = { toks = List.map nat_of_int toks_i;
                  spans = List.init n (fun i -> (nat_of_int i, nat_of_int (i + 1)));
                  max_off = nat_of_int n; eoi = nat_of_int eoi;
                  skipped = List.map nat_of_int skipped_i } in
       let toks_a = Array.of_list toks_i in
       let nonskip_before p =
         let k = ref 0 in
         for i = 0 to (min p n) - 1 do if not (List.mem toks_a.(i) skipped_i) then incr k done; !k in
       let bit salt num st =
         if nb = 0 then false
         else
           let pk i = int_of_nat (p_peek cx st (nat_of_int i)) in
           let la = pk 0 * 7 + pk 1 * 11 + pk 2 * 13 + int_of_nat (p_peek_left cx st (nat_of_int 1)) * 17 in
           bits.[((nonskip_before (int_of_nat st.pos)) * 5 + (int_of_nat num) * 3 + salt + la) mod nb] = '1' in
       let orc = { o_pred = (fun num st -> bit 0 num st); o_assert = (fun num st -> bit 1 num st) } in
       let fuel = nat_of_int (3000 + 100 * n) in
       (match parse_entry cx prog orc fuel (nat_of_int entry) (nat_of_int root) (nat_of_int msg_eof) with
        | XPanic _ -> pr "{\"r\":\"panic\"}\n"
        | XFuel -> pr "{\"r\":\"fuel\"}\n"
        | XStuck w -> pr "{\"r\":\"stuck\",\"why\":%d}\n" (int_of_nat w)
        | XOk st ->
          pr "{\"r\":\"ok\",\"nodes\":"; pr_nodes st.cstd.nodes;
          pr ",\"diags\":[";
          List.iteri (fun i d -> if i > 0 then pr ",";
                       pr "[%d,%d,%d]" (int_of_nat d.d_start) (int_of_nat d.d_end) (int_of_nat d.d_msg)) st.diags;
          pr "],\"log\":[";
          List.iteri (fun i e -> if i > 0 then pr ",";
                       match e with
                       | ECreate (k, x) -> pr "[\"c\",%d,%d]" (int_of_nat k) (int_of_nat x)
                       | EDelete (k, x) -> pr "[\"d\",%d,%d]" (int_of_nat k) (int_of_nat x)
                       | EAction (a, p) -> pr "[\"a\",%d,%d]" (int_of_nat a) (int_of_nat p)) st.log;
          pr "],\"gv\":%s" (match st.gh with Some _ -> "true" | None -> "false");
          pr ",\"pos\":%d,\"in_choice\":%s,\"esa\":%s" (int_of_nat st.pos)
            (if st.in_choice then "true" else "false") (if st.esa then "true" else "false");
          pr ",\"decode\":%s" (match decode st.cstd.nodes with Some _ -> "true" | None -> "false");
          pr ",\"cert_no_assert_no_choice\":%s" (if prog_ok prog then "true" else "false");
          pr ",\"cert_scoped\":%s" (if prog_scoped prog then "true" else "false");
          pr "}\n")
     | _ -> failwith "k3 header")
  | _ -> failwith "k3 line"


(* ---------- K2: analysis ---------- *)
let rec regex_of (x : sexp) : regex =
  match x with
  | L [A "tok"; i; t] -> RTok (nat_of i, nat_of t)
  | L [A "rule"; i; r] -> RRule (nat_of i, nat_of r)
  | L [A "cat"; i; L ops] -> RCat (nat_of i, List.map regex_of ops)
  | L [A "alt"; i; L ops] -> RAlt (nat_of i, List.map regex_of ops)
  | L [A "choice"; i; L ops] -> RChoice (nat_of i, List.map regex_of ops)
  | L [A "star"; i; o] -> RStar (nat_of i, regex_of o)
  | L [A "plus"; i; o] -> RPlus (nat_of i, regex_of o)
  | L [A "opt"; i; o] -> ROpt (nat_of i, regex_of o)
  | L [A "paren"; i; A "none"] -> RParen (nat_of i, None)
  | L [A "paren"; i; o] -> RParen (nat_of i, Some (regex_of o))
  | L [A "leaf"; i; A "predt"] -> RLeaf (nat_of i, LPred None)
  | L [A "leaf"; i; L [A "pred"; n]] -> RLeaf (nat_of i, LPred (Some (nat_of n)))
  | L [A "leaf"; i; A k] ->
    RLeaf (nat_of i, (match k with
        | "action" -> LAction | "assert" -> LAssert | "rename" -> LRename | "elision" -> LElision
        | "marker" -> LMarker | "creation" -> LCreation | "commit" -> LCommit | "return" -> LReturn
        | _ -> failwith "leaf kind"))
  | _ -> failwith "regex"

let grammar_of (x : sexp) : grammar * int =
  match x with
  | L [A "grammar"; L rules; start; L parts; eof; right; skipped; L tokdecl; tokdecls; ntoks] ->
    let rule_of = function
      | L [A "r"; d; A "none"; e] -> { r_decl = nat_of d; r_body = None; r_elided = bool_of e }
      | L [A "r"; d; b; e] -> { r_decl = nat_of d; r_body = Some (regex_of b); r_elided = bool_of e }
      | _ -> failwith "rule" in
    ({ g_rules = List.map rule_of rules; g_start = nat_of start;
       g_parts = List.map (function L [r; t] -> (nat_of r, nat_of t) | _ -> failwith "part") parts;
       g_eof = nat_of eof; g_right = list_of nat_of right; g_skipped = list_of nat_of skipped;
       g_tok_decl = List.map (function L [t; d] -> (nat_of t, nat_of d) | _ -> failwith "tokdecl") tokdecl;
       g_tok_decls = list_of nat_of tokdecls }, int_of ntoks)
  | _ -> failwith "grammar"

let pr_set (s : sym list) =
  pr "[";
  List.iteri (fun i x -> if i > 0 then pr ","; match x with Eps -> pr "-1" | T t -> pr "%d" (int_of_nat t)) s;
  pr "]"

let pr_smap name (m : (nat * sym list) list) =
  pr "\"%s\":{" name;
  List.iteri (fun i (k, v) -> if i > 0 then pr ","; pr "\"%d\":" (int_of_nat k); pr_set v) m;
  pr "}"

let code_name = function
  | E011 -> "E011" | E012 -> "E012" | E013 -> "E013" | E014 -> "E014" | E015 -> "E015" | W007 -> "W007"
  | E028 -> "E028" | E029 -> "E029" | W006 -> "W006" | PANIC -> "PANIC"

let run_k2_line (line : string) =
  let (g, ntoks) = grammar_of (parse_sexp line) in
  match analyse g (nat_of_int ntoks) (fun l -> l) with
  | None -> pr "{\"r\":\"fuel\"}\n"
  | Some s ->
    pr "{\"r\":\"ok\",";
    pr_smap "first" s.s_first; pr ","; pr_smap "follow" s.s_follow; pr ",";
    pr_smap "predict" s.s_predict; pr ","; pr_smap "local_follow" s.s_local_follow; pr ",";
    pr_smap "recovery" s.s_recovery;
    pr ",\"diags\":[";
    List.iteri (fun i (c, n) -> if i > 0 then pr ","; pr "[\"%s\",%d]" (code_name c) (int_of_nat n)) s.s_diags;
    pr "],\"used\":"; pr_natlist s.s_used;
    pr ",\"in_choice\":"; pr_natlist s.s_in_choice;
    pr ",\"mixed\":"; pr_natlist s.s_mixed;
    pr ",\"bp\":[";
    List.iteri (fun i (k, (a, b)) -> if i > 0 then pr ","; pr "[%d,%d,%d]" (int_of_nat k) (int_of_nat a) (int_of_nat b)) s.s_bp;
    pr "],\"recursive\":[";
    List.iteri (fun i (r, bs) ->
        if i > 0 then pr ",";
        pr "[%d,[" (int_of_nat r);
        List.iteri (fun j b -> if j > 0 then pr ",";
                     match b with
                     | RecLeft (x, l) -> pr "[\"left\",%d,%d,-1]" (int_of_nat (rid_of x)) (int_of_nat l)
                     | RecRight (x, r) -> pr "[\"right\",%d,-1,%d]" (int_of_nat (rid_of x)) (int_of_nat r)
                     | RecLeftRight (x, l, r) -> pr "[\"leftright\",%d,%d,%d]" (int_of_nat (rid_of x)) (int_of_nat l) (int_of_nat r)) bs;
        pr "]]") s.s_recursive;
    pr "],\"dom\":{";
    List.iteri (fun i (k, v) -> if i > 0 then pr ","; pr "\"%d\":" (int_of_nat k); pr_natlist v) s.s_dom;
    pr "}";
    let b x = if x then "true" else "false" in
    pr ",\"cert_first\":{\"wf_ids\":%s,\"productive\":%s,\"closed\":%s}" (b (wf_ids_b g)) (b (productive_b g)) (b (first_closed g s.s_first));
    pr ",\"cert_follow\":{\"closed\":%s}" (b (fol_closed g s.s_first s.s_follow));
    (match s.s_dom with
     | [] -> pr ",\"cert_recovery\":null"
     | d -> pr ",\"cert_recovery\":%s" (b (recovery_cert g d)));
    pr "}\n"

let () =
  match Array.to_list Sys.argv with
  | [_; "k2"] ->
    (try while true do
         let line = input_line stdin in
         (try run_k2_line line with Stack_overflow -> pr "{\"r\":\"stackoverflow\"}\n" | Failure m -> pr "{\"r\":\"bad\",\"msg\":\"%s\"}\n" m);
         flush_out ()
       done with End_of_file -> ())
  | _ -> ()


(* ---------- KB: back-end model (Compile.v) ---------- *)
let sb = Buffer.create 65536
let sp fmt = Printf.bprintf sb fmt
let sp_nats (l : nat list) =
  sp "("; List.iteri (fun i x -> if i > 0 then sp " "; sp "%d" (int_of_nat x)) l; sp ")"
let sp_var = function
  | VM -> sp "m" | VStart -> sp "start" | VLhs -> sp "lhs" | VRhs -> sp "rhs"
  | VMk n -> sp "(mk %d)" (int_of_nat n)
  | VElide -> sp "elide" | VKind -> sp "kind" | VMinBp -> sp "minbp"
let b01 x = if x then 1 else 0
let rec sp_stmt (s : stmt) =
  match s with
  | SExpect (t, tr, m) -> sp "(expect %d %d %d)" (int_of_nat t) (b01 tr) (int_of_nat m)
  | SCall (r, q) -> sp "(call %d %d)" (int_of_nat r) (b01 q)
  | SRec (bp, v, q) ->
    sp "(rec "; (match bp with None -> sp "none" | Some b -> sp "%d" (int_of_nat b)); sp " "; sp_var v; sp " %d)" (b01 q)
  | SLetMark v -> sp "(letmark "; sp_var v; sp ")"
  | SLetOpen -> sp "(letopen)"
  | SLetOpenBefore v -> sp "(letopenbefore "; sp_var v; sp ")"
  | SLetElide -> sp "(letelide)"
  | SSetElide -> sp "(setelide)"
  | SKind (d, k) -> sp "(kind %d %d)" (b01 d) (int_of_nat k)
  | SClose (k, a) -> sp "(close "; (match k with None -> sp "none" | Some k -> sp "%d" (int_of_nat k)); sp " %d)" (b01 a)
  | SIfNotElide b -> sp "(ifnotelide "; sp_block b; sp ")"
  | SCreate (v, k) -> sp "(create "; sp_var v; sp " %d)" (int_of_nat k)
  | SAction n -> sp "(action %d)" (int_of_nat n)
  | SAssert (n, o) -> sp "(assert %d %d)" (int_of_nat n) (b01 o)
  | SSetChoice b -> sp "(setchoice %d)" (b01 b)
  | SMatch (arms, d) ->
    sp "(match (";
    List.iteri (fun i ((pats, g), body) ->
        if i > 0 then sp " ";
        sp "("; sp_nats pats; sp " ";
        (match g with None -> sp "none" | Some GTrue -> sp "true" | Some (GPred n) -> sp "%d" (int_of_nat n));
        sp " "; sp_block body; sp ")") arms;
    sp ") "; sp_block d; sp ")"
  | SLoop b -> sp "(loop "; sp_block b; sp ")"
  | SBreak -> sp "(break)"
  | SContinue -> sp "(continue)"
  | SIfBpBreak n -> sp "(ifbpbreak %d)" (int_of_nat n)
  | SOrdChoice (se, sk, alts, lp, last, m) ->
    sp "(ordchoice %d %d (" (b01 se) (b01 sk);
    List.iteri (fun i (p, b) -> if i > 0 then sp " "; sp "("; sp_nats p; sp " "; sp_block b; sp ")") alts;
    sp ") "; sp_nats lp; sp " "; sp_block last; sp " %d)" (int_of_nat m)
  | SReturnIfError (e, o) ->
    sp "(retiferr %s %d)" (match e with ENone -> "none" | EUncond -> "uncond" | ECond -> "cond") (b01 o)
  | SError m -> sp "(error %d)" (int_of_nat m)
  | SAdvErr m -> sp "(adverr %d)" (int_of_nat m)
  | SOcr -> sp "(ocr)"
and sp_block (b : stmt list) =
  sp "("; List.iteri (fun i s -> if i > 0 then sp " "; sp_stmt s) b; sp ")"

let sp_program (p : program) =
  sp "(program (";
  List.iteri (fun i (rid, f) ->
      if i > 0 then sp " ";
      sp "(fn %d %d " (int_of_nat rid) (b01 f.fn_opt); sp_block f.fn_body; sp " ";
      (match f.fn_rec with
       | None -> sp "none"
       | Some (hb, b) -> sp "(rec %d " (b01 hb); sp_block b; sp ")");
      sp ")") p.p_rules;
  sp ") %d %d %d " (int_of_nat p.p_start) (int_of_nat p.p_start_kind) (int_of_nat p.p_part_kind);
  sp_nats p.p_deletable; sp ")"

let cinfo_of (x : sexp) : cinfo =
  match x with
  | L [A "cinfo"; L pls; kinds; pk] ->
    let pl_of = function
      | L [id; L [A "num"; n]] -> (nat_of id, PNum (nat_of n))
      | L [id; L [A "rename"; k]] -> (nat_of id, PRename (opt_of nat_of k))
      | L [id; L [A "create"; mk; k]] -> (nat_of id, PCreate (opt_of nat_of mk, nat_of k))
      | _ -> failwith "payload" in
    { ci_payload = List.map pl_of pls; ci_rule_kind = list_of nat_of kinds; ci_part_kind = nat_of pk }
  | _ -> failwith "cinfo"

let run_kb_line (line : string) =
  match String.index_opt line '\t' with
  | None -> pr "{\"r\":\"bad\",\"msg\":\"no tab\"}\n"
  | Some i ->
    let (g, ntoks) = grammar_of (parse_sexp (String.sub line 0 i)) in
    let ci = cinfo_of (parse_sexp (String.sub line (i + 1) (String.length line - i - 1))) in
    match analyse g (nat_of_int ntoks) (fun l -> l) with
    | None -> pr "{\"r\":\"fuel\"}\n"
    | Some s ->
      Buffer.clear sb;
      sp_program (compile g s ci);
      pr "{\"r\":\"ok\",\"scoped\":%s,\"errors\":%d,\"prog\":\"%s\",\"msgsets\":[" (if prog_scoped (compile g s ci) then "true" else "false") (List.length (List.filter (fun (c, _) -> match c with W007 | W006 -> false | _ -> true) s.s_diags) + List.length s.s_mixed) (Buffer.contents sb);
      List.iteri (fun i (id, ts) -> if i > 0 then pr ","; pr "[%d," (int_of_nat id); pr_natlist ts; pr "]") (all_msg_sets g s);
      pr "]}\n"

let () =
  match Array.to_list Sys.argv with
  | [_; "kb"] ->
    (try while true do
         let line = input_line stdin in
         (try run_kb_line line with Stack_overflow -> pr "{\"r\":\"stackoverflow\"}\n" | Failure m -> pr "{\"r\":\"bad\",\"msg\":\"%s\"}\n" m);
         flush_out ()
       done with End_of_file -> ())
  | _ -> ()

(* ---------- K5: driver table ---------- *)
let run_k5 () =
  let b x = if x then 1 else 0 in
  List.iter (fun ((f, w), v) ->
      let (es, ex) = run f w v in
      pr "%d %d %d %d %d %d | %d %d %d %d | %s | %s | %s\n"
        (b f.f_check) (b f.f_format) (b f.f_graph) (b f.f_short) (int_of_nat f.f_verbose) (b f.f_outdir_other)
        (b w.w_lexer) (b w.w_parser) (b w.w_out_writable) (b w.w_formatted)
        (match v with VUnreadable -> "unreadable" | VSyntaxError -> "syntax" | VSemanticError -> "semantic"
                      | VWarnings -> "warnings" | VClean -> "clean")
        (String.concat "," (List.map (function
             | PGrammar -> "grammar" | PGenerated -> "generated" | PLexer -> "lexer"
             | PParser -> "parser" | PGraph -> "graph") es))
        (match ex with ExitOk -> "0" | ExitFail -> "1" | ExitUsage -> "2")) all_rows;
  flush_out ()

let () =
  match Array.to_list Sys.argv with
  | [_; "k5"] -> run_k5 ()
  | [_; "k2"] -> ()
  | [_; "kb"] -> ()
  | [_; "k1"] ->
    (try while true do
         let line = input_line stdin in
         run_k1_line line; flush_out ()
       done with End_of_file -> ())
  | [_; "k3"; progfile] ->
    let ic = open_in progfile in
    let len = in_channel_length ic in
    let s = really_input_string ic len in
    close_in ic;
    let prog = program_of (parse_sexp s) in
    (try while true do
         let line = input_line stdin in
         (try run_k3_case prog line with Stack_overflow -> pr "{\"r\":\"stackoverflow\"}\n");
         flush_out ()
       done with End_of_file -> ())
  | _ -> prerr_endline "usage: driver k1 | k3 <program.sexp>"; exit 2
