#!/bin/bash
# Builds the framework from files on disk only (offline): Coq development, extracted
# OCaml driver, /repo's binaries and the in-process harness.
set -e
cd "$(dirname "$0")"
export CARGO_NET_OFFLINE=true
mkdir -p .cache evidence
python3 - <<'PY'
import sys
sys.path.insert(0, 'tools')
import lv
ok, msg = lv.build_model()
print('model build:', ok, msg[-2000:])
import k4_lexmodel
print('lexer model build:', k4_lexmodel.build())
t = lv.build_impl(bins=True)
print('impl build: %.1fs' % t)
sys.exit(0 if ok else 1)
PY
