#!/usr/bin/env python3
"""Independent reference for the analysis properties (C09, C10, C14): textbook
nullable / first / follow / predict on a plain BNF obtained from the grammar,
LL(1) conflict verdicts from the definition, and dominators by brute force.
Works on the typed view dumped by the harness (names are re-bound here by name,
not through lelwel's binding table)."""
import collections

EPS = 'ɛ'


def pascal(name):
    res = ''
    up = True
    for c in name:
        if up:
            res += c.upper()
            up = False
        elif c == '_':
            up = True
        else:
            res += c
    return res


class Grammar:
    """BNF: nonterminals are ('n', node id) for regex occurrences and ('r', rule name) for rules;
    terminals are token names"""

    def __init__(self, dump):
        self.dump = dump
        self.tok_by_name = {}
        self.tok_by_sym = {}
        for t in dump['tokens']:
            if t['name'] is None:
                continue
            self.tok_by_name.setdefault(t['name'], t['name'])
            if t.get('symbol'):
                self.tok_by_sym.setdefault(t['symbol'], t['name'])
        self.rules = {}
        self.rule_order = []
        for r in dump['rules']:
            if r['name'] is None:
                continue
            if r['name'] not in self.rules:
                self.rules[r['name']] = r
                self.rule_order.append(r['name'])
        self.start = None
        for s in dump['start_decls']:
            if s is not None and self.start is None:
                self.start = s
        self.parts = []
        for pd in dump['part_decls']:
            for n in pd:
                if n in self.rules and n not in self.parts and n != self.start:
                    self.parts.append(n)
        self.prods = collections.defaultdict(list)   # nt -> list of rhs (lists of symbols)
        self.nodes = {}                              # id -> regex json
        self.node_rule = {}                          # id -> rule name containing it
        self.ok = True
        for name in self.rule_order:
            r = self.rules[name]
            if r['regex'] is None:
                self.prods[('r', name)].append([])
            else:
                self.prods[('r', name)].append([self.conv(r['regex'], name)])

    def is_term(self, s):
        return isinstance(s, str)

    def conv(self, x, rule):
        """returns the BNF symbol standing for this regex occurrence"""
        nid = x['id']
        self.nodes[nid] = x
        self.node_rule[nid] = rule
        nt = ('n', nid)
        k = x['k']
        if k == 'name':
            v = x.get('value')
            if v is None:
                self.ok = False
                self.prods[nt].append([])
            elif v[0].islower():
                if v in self.rules:
                    self.prods[nt].append([('r', v)])
                else:
                    self.ok = False
                    self.prods[nt].append([])
            else:
                if v in self.tok_by_name:
                    self.prods[nt].append([v])
                else:
                    self.ok = False
                    self.prods[nt].append([])
        elif k == 'symbol':
            v = x.get('value')
            if v in self.tok_by_sym:
                self.prods[nt].append([self.tok_by_sym[v]])
            else:
                self.ok = False
                self.prods[nt].append([])
        elif k == 'concat':
            self.prods[nt].append([self.conv(o, rule) for o in x['ops']])
        elif k in ('alt', 'choice'):
            for o in x['ops']:
                self.prods[nt].append([self.conv(o, rule)])
        elif k == 'star':
            if x.get('op') is None:
                self.prods[nt].append([])
            else:
                b = self.conv(x['op'], rule)
                self.prods[nt].append([])
                self.prods[nt].append([b, nt])
        elif k == 'plus':
            if x.get('op') is None:
                self.prods[nt].append([])
            else:
                b = self.conv(x['op'], rule)
                tail = ('p', nid)
                self.prods[nt].append([b, tail])
                self.prods[tail].append([])
                self.prods[tail].append([b, tail])
        elif k == 'opt':
            self.prods[nt].append([])
            if x.get('op') is not None:
                self.prods[nt].append([self.conv(x['op'], rule)])
        elif k == 'paren':
            if x.get('op') is None:
                self.prods[nt].append([])
            else:
                self.prods[nt].append([self.conv(x['op'], rule)])
        else:
            self.prods[nt].append([])
        return nt

    # ---- classic algorithms
    def analyse(self):
        prods = self.prods
        nts = list(prods.keys())
        nullable = set()
        changed = True
        while changed:
            changed = False
            for a in nts:
                if a in nullable:
                    continue
                for rhs in prods[a]:
                    if all((not self.is_term(s)) and s in nullable for s in rhs):
                        nullable.add(a)
                        changed = True
                        break
        first = {a: set() for a in nts}
        changed = True
        while changed:
            changed = False
            for a in nts:
                for rhs in prods[a]:
                    for s in rhs:
                        add = {s} if self.is_term(s) else first[s]
                        if not add <= first[a]:
                            first[a] |= add
                            changed = True
                        if self.is_term(s) or s not in nullable:
                            break
        follow = {a: set() for a in nts}
        if self.start is not None and self.start in self.rules:
            sb = self.body_nt(self.start)
            for tgt in [('r', self.start)] + ([sb] if sb else []):
                follow[tgt].add('EOF')
                for p in self.parts:
                    if self.rules[p]['regex'] is not None:   # a part with an empty body contributes no end marker
                        follow[tgt].add('EOF' + pascal(p))
            for p in self.parts:
                pb = self.body_nt(p)
                for tgt in [('r', p)] + ([pb] if pb else []):
                    follow[tgt].add('EOF' + pascal(p))
        changed = True
        while changed:
            changed = False
            for a in nts:
                for rhs in prods[a]:
                    for i, s in enumerate(rhs):
                        if self.is_term(s):
                            continue
                        add = set()
                        rest_nullable = True
                        for t in rhs[i + 1:]:
                            if self.is_term(t):
                                add.add(t)
                                rest_nullable = False
                                break
                            add |= first[t]
                            if t not in nullable:
                                rest_nullable = False
                                break
                        if rest_nullable:
                            add |= follow[a]
                        if not add <= follow[s]:
                            follow[s] |= add
                            changed = True
        self.nullable, self.first, self.follow = nullable, first, follow
        return self

    def body_nt(self, rule_name):
        r = self.rules[rule_name]
        return ('n', r['regex']['id']) if r['regex'] is not None else None

    def node_first(self, nid):
        nt = ('n', nid)
        s = set(self.first[nt])
        if nt in self.nullable:
            s.add(EPS)
        return s

    def node_follow(self, nid):
        return set(self.follow[('n', nid)])

    def node_predict(self, nid):
        nt = ('n', nid)
        s = set(self.first[nt])
        if nt in self.nullable:
            s |= self.follow[nt]
        return s

    # ---- reducedness
    def productive_rules(self):
        prod = set()
        changed = True
        nts = list(self.prods.keys())
        while changed:
            changed = False
            for a in nts:
                if a in prod:
                    continue
                for rhs in self.prods[a]:
                    if all(self.is_term(s) or s in prod for s in rhs):
                        prod.add(a)
                        changed = True
                        break
        return prod

    def reachable(self):
        seen = set()
        todo = []
        for r in [self.start] + self.parts:
            if r is not None and r in self.rules:
                todo.append(('r', r))
        while todo:
            a = todo.pop()
            if a in seen:
                continue
            seen.add(a)
            for rhs in self.prods[a]:
                for s in rhs:
                    if not self.is_term(s) and s not in seen:
                        todo.append(s)
        return seen

    def is_reduced(self):
        if not self.ok or self.start is None:
            return False
        prod = self.productive_rules()
        reach = self.reachable()
        for name in self.rule_order:
            if ('r', name) not in prod or ('r', name) not in reach:
                return False
        return True


def compare_sets(dump, g, ignore_follow_eps_under_plus=True):
    """compare lelwel's sets (dump['sema']['sets']) with the textbook sets; returns list of differences"""
    diffs = []
    sets = dump['sema']['sets']
    for nid, x in g.nodes.items():
        s = sets.get(str(nid))
        if s is None:
            diffs.append((nid, 'missing', None, None))
            continue
        if 'first' in s:
            want = g.node_first(nid)
            got = set(s['first'])
            if got != want:
                diffs.append((nid, 'first', sorted(got), sorted(want)))
        if 'follow' in s:
            want = g.node_follow(nid)
            got = set(s['follow'])
            got.discard(EPS)
            if got != want:
                diffs.append((nid, 'follow', sorted(got), sorted(want)))
        if 'predict' in s:
            want = g.node_predict(nid)
            got = set(s['predict'])
            got.discard(EPS)
            if got != want:
                diffs.append((nid, 'predict', sorted(got), sorted(want)))
    return diffs


# ------------------------------------------------------------------ C10: conflicts from the definition

def _children(x):
    if x.get('ops'):
        return x['ops']
    if x.get('op') is not None:
        return [x['op']]
    return []


def has_predicate(x):
    if x['k'] == 'concat':
        return bool(x['ops']) and x['ops'][0]['k'] == 'pred'
    if x['k'] == 'paren':
        return x.get('op') is not None and has_predicate(x['op'])
    return False


def recursion_branches(g, rule):
    """left/right recursion classes of the alternatives of a rule, from the structure of the rule as written"""
    body = rule['regex']
    out = []
    if body is None or body['k'] != 'alt':
        return out
    name = rule['name']

    def refs(o):
        return o['k'] == 'name' and o.get('value') == name and name in g.rules and g.rules[name] is rule
    for alt in body['ops']:
        if alt['k'] != 'concat':
            continue
        flt = [(i, o) for i, o in enumerate(alt['ops']) if o['k'] not in ('pred', 'rename', 'elision', 'action')]
        if not flt:
            continue
        left = flt[0][0] if refs(flt[0][1]) else None
        right = flt[-1][0] if len(flt) > 1 and refs(flt[-1][1]) else None
        if left is not None and right is not None:
            out.append(('leftright', alt, left, right))
        elif left is not None:
            out.append(('left', alt, left, None))
        elif right is not None:
            out.append(('right', alt, None, right))
    return out


def operator_of(alt):
    ops = [o for o in alt['ops'] if o['k'] != 'pred']
    return ops[1] if len(ops) > 1 else None


def assoc_operator_of(alt):
    """the operator of a left-recursive branch as the documentation means it: the first element behind the
    left operand that carries tokens (predicates, renames, elisions and actions in between do not count)"""
    ops = [o for o in alt['ops'] if o['k'] not in ('pred', 'rename', 'elision', 'action')]
    return ops[1] if len(ops) > 1 else None


def outside_follow(g, rule_name):
    """tokens that may follow a reference to the rule located outside the rule's own body"""
    s = set()
    for nid, x in g.nodes.items():
        if x['k'] == 'name' and x.get('value') == rule_name and g.node_rule[nid] != rule_name:
            s |= g.node_follow(nid)
    return s


def expected_conflicts(g):
    """multiset (list) of (code, (span start, span end)) from the definition, with textbook sets"""
    out = []

    def sp(x):
        return tuple(x['span'])

    def check(x, rule, top):
        k = x['k']
        if k == 'alt':
            recs = recursion_branches(g, rule) if top else []
            lefts = [r for r in recs if r[0] in ('left', 'leftright')]
            left_ids = set(r[1]['id'] for r in lefts)
            for i, r in enumerate(lefts):
                op = operator_of(r[1])
                if op is None:
                    out.append(('E015', sp(r[1])))
                    continue
                if has_predicate(r[1]):
                    continue
                if g.node_predict(op['id']) & outside_follow(g, rule['name']):
                    out.append(('E012', sp(op)))
                for r2 in lefts[i + 1:]:
                    op2 = operator_of(r2[1])
                    if op2 is not None and g.node_predict(op['id']) & g.node_predict(op2['id']):
                        out.append(('E012', sp(op)))
                        break
            nonleft = [o for o in x['ops'] if o['id'] not in left_ids]
            for i, o in enumerate(nonleft):
                if has_predicate(o):
                    continue
                for o2 in nonleft[i + 1:]:
                    if g.node_predict(o['id']) & g.node_predict(o2['id']):
                        out.append(('E011', sp(o)))
                        break
        elif k in ('star', 'plus', 'opt') and x.get('op') is not None:
            body = x['op']
            if not has_predicate(body) and (g.node_follow(x['id']) & g.node_predict(body['id'])):
                out.append(('E013' if k != 'opt' else 'E014', sp(x)))
        for c in _children(x):
            check(c, rule, False)
    for name in g.rule_order:
        r = g.rules[name]
        if r['regex'] is not None:
            check(r['regex'], r, True)
    return sorted(out)


# ------------------------------------------------------------------ C14: dominators by brute force

def recovery_expected(g, used_rule_names):
    """returns {loop node id: set of tokens} for every * + [] occurrence of a used rule other than a start-body loop"""
    start = g.start
    sb = g.rules[start]['regex']
    if sb is None:
        return {}
    edges = collections.defaultdict(set)     # node -> successors
    used = set(used_rule_names)

    def add(x):
        for c in _children(x):
            edges[x['id']].add(c['id'])
            add(c)
        if x['k'] == 'name' and x.get('value') and x['value'][0].islower() and x['value'] in g.rules:
            b = g.rules[x['value']]['regex']
            if b is not None:
                edges[x['id']].add(b['id'])
    for p in g.parts:
        if p not in used:
            b = g.rules[p]['regex']
            used.add(p)
            if b is not None:
                edges[sb['id']].add(b['id'])
    for name in g.rule_order:
        if name in used and g.rules[name]['regex'] is not None:
            add(g.rules[name]['regex'])
    root = sb['id']

    def reach(without):
        seen = set()
        todo = [root] if root != without else []
        while todo:
            a = todo.pop()
            if a in seen or a == without:
                continue
            seen.add(a)
            todo.extend(edges[a])
        return seen
    allreach = reach(None)
    res = {}
    loops = [nid for nid, x in g.nodes.items() if x['k'] in ('star', 'plus', 'opt') and x.get('op') is not None
             and nid in allreach and nid != root]
    cache = {}
    for nid in loops:
        doms = {nid}
        for d in allreach:
            if d == nid:
                continue
            if d not in cache:
                cache[d] = reach(d)
            if nid not in cache[d]:
                doms.add(d)
        s = set()
        for d in doms:
            s |= g.node_follow(d)
        body = g.nodes[nid]['op']
        s -= g.first[('n', body['id'])]
        s -= g.node_follow(body['id'])
        res[nid] = s
    return res
