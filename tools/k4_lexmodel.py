"""K4L: the Coq model of lelwel's grammar-file lexer (coq/Model/Lexer.v, extracted to
ocaml/lexer_model.ml, driven by ocaml/lexdriver.ml) against the real lexer
(`lelwel::frontend::lexer::tokenize` through `lv-harness front`, fields tokens.toks / tokens.diags).

  build()                      -> (ok, msg): Lexer.vo, extraction, OCaml driver (from a fresh checkout)
  run_model(texts)             -> [{'toks': [[kind,start,end]…], 'diags': [[message,start,end]…]}…]
  run_impl(texts)              -> same shape, from the real lexer (None where the harness has no answer)
  compare(texts)               -> list of disagreements (kinds, byte spans, lexer diagnostics)
  gen_texts(rng, n)            -> [(generator name, text)…] aimed at the lexer
  exhaustive_texts(k)          -> every string of at most k characters over ALPHABET
  shrink(text)                 -> a minimal text on which model and implementation still disagree
  correspondence(rng, extra, quick) -> summary for the evidence (volumes, distribution, cost, disagreements)

Canonicalisation: token kinds are the `Debug` names of `Token`'s variants on both sides; spans are byte
offsets on both sides; a lexer diagnostic is (message, start, end of its single primary label), order kept
(both sides produce them in token order).  Nothing else is normalised.

Standalone: python3 tools/k4_lexmodel.py [--n N] [--seed S] [--exhaustive K]"""
import collections
import json
import multiprocessing
import os
import random
import subprocess
import sys
import time

import lv

LEXDRIVER = os.path.join(lv.OCAML, 'lexdriver')
NPROC = max(1, min(16, os.cpu_count() or 1))


# ---------------------------------------------------------------- build

def _newer(src, dst):
    return (not os.path.exists(dst)) or os.path.getmtime(src) > os.path.getmtime(dst)


def build():
    """Lexer.vo (when `make` has not produced it), extraction to ocaml/lexer_model.ml, the OCaml driver.
    Safe to call from several processes (takes the `coq` lock; never nested inside lv.build_model)."""
    with lv.Lock('coq'):
        try:
            v = os.path.join(lv.COQ, 'Model', 'Lexer.v')
            vo = os.path.join(lv.COQ, 'Model', 'Lexer.vo')
            ex = os.path.join(lv.COQ, 'Extract', 'ExtractLexer.v')
            ml = os.path.join(lv.OCAML, 'lexer_model.ml')
            drv_src = os.path.join(lv.OCAML, 'lexdriver.ml')
            if _newer(v, vo):
                lv.sh(['timeout', '600', 'coqc', '-Q', '.', 'LV', 'Model/Lexer.v'], cwd=lv.COQ, timeout=700)
            if _newer(vo, ml) or _newer(ex, ml):
                lv.sh(['timeout', '600', 'coqc', '-Q', '.', 'LV', 'Extract/ExtractLexer.v'], cwd=lv.COQ, timeout=700)
                os.utime(ml, None)
            if _newer(ml, LEXDRIVER) or _newer(drv_src, LEXDRIVER):
                lv.sh(['ocamlfind', 'ocamlopt', '-O2', '-w', '-a', 'lexer_model.mli', 'lexer_model.ml', 'lexdriver.ml', '-o', 'lexdriver'],
                      cwd=lv.OCAML, timeout=600)
            return True, ''
        except Exception as e:      # reported by the caller as a broken correspondence
            return False, str(e)[-3000:]


# ---------------------------------------------------------------- both sides

def run_model(texts):
    inp = ''.join(' '.join(str(ord(c)) for c in t) + '\n' for t in texts)
    r = subprocess.run(['bash', '-c', 'ulimit -s unlimited 2>/dev/null; exec "$0"', LEXDRIVER], input=inp.encode('ascii'),
                       stdout=subprocess.PIPE, stderr=subprocess.PIPE, timeout=3600)
    outs = r.stdout.decode('ascii').split('\n')
    if outs and outs[-1] == '':
        outs.pop()
    if len(outs) != len(texts):
        raise RuntimeError('lexer model driver returned %d results for %d texts (status %s): %s'
                           % (len(outs), len(texts), r.returncode, r.stderr[-1000:].decode('utf-8', 'replace')))
    return [json.loads(l) for l in outs]


def canon_impl(r):
    """the harness object -> {'toks', 'diags'} or None / {'panic': msg}"""
    import k4_front
    if not k4_front.ok_result(r):
        return None
    tk = r['tokens']
    if k4_front.is_panic(tk):
        return {'panic': tk.get('msg', '')}
    ds = []
    for d in tk['diags']:
        labs = d.get('labels', [])
        if len(labs) == 1:
            ds.append([d.get('message'), labs[0]['start'], labs[0]['end']])
        else:
            ds.append([d.get('message'), 'labels', len(labs)])
    return {'toks': tk['toks'], 'diags': ds}


def run_impl(texts):
    import k4_front
    m = max([len(t) for t in texts] or [0])
    return [canon_impl(r) for r in k4_front.run_front(texts, max(10000, 10 * m))]


def diff_one(text, impl, model):
    """None when both sides agree on kinds, spans and lexer diagnostics"""
    if impl is None:
        return 'the harness gave no answer for this text (hang / crash)'
    if 'panic' in impl:
        return 'the real lexer panicked (%s); the model returns %d tokens' % (impl['panic'][:120], len(model['toks']))
    if impl['toks'] != model['toks']:
        a, b = impl['toks'], model['toks']
        i = 0
        while i < min(len(a), len(b)) and a[i] == b[i]:
            i += 1
        return 'token #%d differs: implementation %s, model %s' % (i, a[i] if i < len(a) else 'none (stream ends)', b[i] if i < len(b) else 'none (stream ends)')
    if impl['diags'] != model['diags']:
        a, b = impl['diags'], model['diags']
        i = 0
        while i < min(len(a), len(b)) and a[i] == b[i]:
            i += 1
        return 'lexer diagnostic #%d differs: implementation %s, model %s' % (i, a[i] if i < len(a) else 'none', b[i] if i < len(b) else 'none')
    return None


def _new_stats():
    return {'n': 0, 'len': collections.Counter(), 'kinds': collections.Counter(), 'diag_kinds': collections.Counter(),
            'texts_with_kind': collections.Counter(), 'texts_with_diag': collections.Counter(), 'tokens': 0,
            'non_ascii_texts': 0, 'astral_texts': 0, 'nontrivial': 0, 'gen': collections.Counter()}


def _len_bucket(n):
    if n == 0:
        return '0'
    lo = 1
    while lo * 4 <= n:
        lo *= 4
    return '%d-%d' % (lo, lo * 4 - 1)


def _observe(st, gen, text, impl):
    st['n'] += 1
    st['gen'][gen] += 1
    st['len'][_len_bucket(len(text.encode('utf-8')))] += 1
    if any(ord(c) > 127 for c in text):
        st['non_ascii_texts'] += 1
    if any(ord(c) > 0xFFFF for c in text):
        st['astral_texts'] += 1
    if impl and 'toks' in impl:
        ks = [t[0] for t in impl['toks']]
        st['tokens'] += len(ks)
        st['kinds'].update(ks)
        st['texts_with_kind'].update(set(ks))
        dk = [d[0] for d in impl['diags']]
        st['diag_kinds'].update(dk)
        st['texts_with_diag'].update(set(dk) or {'(none)'})
        if len(ks) >= 2:
            st['nontrivial'] += 1


def _merge_stats(a, b):
    for k, v in b.items():
        if isinstance(v, collections.Counter):
            a[k].update(v)
        else:
            a[k] += v
    return a


def _job(items):
    """items: [(gen, text)] -> (disagreements, stats)"""
    texts = [t for _, t in items]
    impl = run_impl(texts)
    model = run_model(texts)
    st = _new_stats()
    dis = []
    for (g, t), i, m in zip(items, impl, model):
        _observe(st, g, t, i)
        d = diff_one(t, i, m)
        if d is not None and len(dis) < 50:
            dis.append({'text': t, 'generator': g, 'what': d, 'impl': i, 'model': m})
        elif d is not None:
            dis.append({'text': t, 'generator': g, 'what': d})
    return dis, st


def compare_items(items, per_job=1500, nproc=None):
    """items: [(generator name, text)] -> (disagreements, stats)"""
    nproc = nproc or NPROC
    jobs = [items[i:i + per_job] for i in range(0, len(items), per_job)]
    if not jobs:
        return [], _new_stats()
    if nproc == 1 or len(jobs) == 1:
        outs = [_job(j) for j in jobs]
    else:
        ctx = multiprocessing.get_context('fork')
        with ctx.Pool(min(nproc, len(jobs))) as pool:
            outs = pool.map(_job, jobs, chunksize=1)
    dis, st = [], _new_stats()
    for d, s in outs:
        dis += d
        _merge_stats(st, s)
    return dis, st


def compare(texts, nproc=None):
    """list of disagreements between the real lexer and the model on the given texts"""
    return compare_items([('given', t) for t in texts], nproc=nproc)[0]


# ---------------------------------------------------------------- texts aimed at the lexer

KEYWORDS = ['token', 'start', 'right', 'skip', 'part']
PUNCT = list(':;=()[]|*+^~&/')
SIGILS = list('?#!@<>')
MULTI = ['\u00e9', '\u00df', '\u03bb', '\u00a0', '\u07ff', '\u0800', '\u20ac', '\u4e2d', '\u2028', '\ufeff', '\uffff', '\U00010000', '\U0001F600', '\U0010FFFF', '\u0301', '\x7f', '\x80']
CTRL = ['\r', '\x0c', '\x00', '\x0b', '\t', '\n', '\x1b', '\x85']
ALPHABET = ['/', '*', "'", '\\', '\n', ' ', 'a', 't', '1', '>', '<', '?', '#', '!', '@', '_', 'é', '\U0001F600', ':']


def _ident(rng):
    first = rng.choice('abcxyzABCXYZtsrp')
    return first + ''.join(rng.choice('abcxyzABZ_0123456789_') for _ in range(rng.choice([0, 0, 1, 2, 5])))


def _digits(rng):
    return ''.join(rng.choice('0123456789') for _ in range(rng.choice([1, 1, 2, 4])))


def _anychar(rng):
    x = rng.random()
    if x < 0.5:
        return chr(rng.randrange(0, 128))
    if x < 0.8:
        return rng.choice(MULTI)
    if x < 0.9:
        return rng.choice(CTRL)
    c = rng.randrange(0x80, 0x110000)
    return chr(c) if not 0xD800 <= c <= 0xDFFF else '\ud7ff'


def _string_body(rng):
    out = []
    for _ in range(rng.choice([0, 1, 1, 2, 3, 6])):
        x = rng.random()
        if x < 0.35:
            out.append(rng.choice("ab +-=()/*;|\"_09"))
        elif x < 0.5:
            out.append(rng.choice(["\\'", '\\\\']))
        elif x < 0.65:
            out.append('\\' + _anychar(rng))          # arbitrary escape, also before multi-byte characters and newlines
        elif x < 0.8:
            out.append(rng.choice(MULTI))
        elif x < 0.9:
            out.append(rng.choice(['//', '/*', '*/', '///']))
        else:
            out.append(rng.choice(CTRL))
    return ''.join(out)


LEXEME_CLASSES = ['keyword', 'keyword_variant', 'ident', 'punct', 'string', 'string_unterminated', 'pred_num', 'pred_t', 'action', 'assertion',
                  'rename', 'rename_bare', 'marker', 'creation', 'creation_bare', 'creation_num', 'digits_alone', 'sigil_alone',
                  'line_comment', 'doc_comment', 'block_comment', 'block_unterminated', 'line_comment_no_newline', 'whitespace', 'foreign']


def lexeme(rng, cls):
    if cls == 'keyword':
        return rng.choice(KEYWORDS)
    if cls == 'keyword_variant':
        k = rng.choice(KEYWORDS)
        return rng.choice([k[:-1], k + rng.choice('s_1T'), k.upper(), k[1:], k.capitalize(), k + k])
    if cls == 'ident':
        return _ident(rng)
    if cls == 'punct':
        return rng.choice(PUNCT)
    if cls == 'string':
        return "'" + _string_body(rng) + "'"
    if cls == 'string_unterminated':
        return "'" + _string_body(rng) + rng.choice(['', '\n', '\\', '\\\n'])
    if cls == 'pred_num':
        return '?' + _digits(rng)
    if cls == 'pred_t':
        return '?t'
    if cls == 'action':
        return '#' + _digits(rng)
    if cls == 'assertion':
        return '!' + _digits(rng)
    if cls == 'rename':
        return '@' + _ident(rng)
    if cls == 'rename_bare':
        return '@'
    if cls == 'marker':
        return '<' + _digits(rng)
    if cls == 'creation':
        return _digits(rng) + '>' + _ident(rng)
    if cls == 'creation_bare':
        return '>' + rng.choice(['', _ident(rng)])
    if cls == 'creation_num':
        return _digits(rng) + '>'
    if cls == 'digits_alone':
        return _digits(rng)
    if cls == 'sigil_alone':
        return rng.choice('?#!<')
    if cls == 'line_comment':
        return '//' + rng.choice(['', ' c', 'x/*', ' é', " 'q", '\r', ' */']) + '\n'
    if cls == 'doc_comment':
        return '///' + rng.choice(['', ' d', '/', '//', ' \U0001F600', "'"]) + '\n'
    if cls == 'block_comment':
        return '/*' + rng.choice(['', ' b ', '*', '**', '/', '/*', ' \n ', 'é*', "'", '//\n', '* /', '/ *']) + '*/'
    if cls == 'block_unterminated':
        return '/*' + rng.choice(['', ' b ', '*', '/', '* /', 'é', '\n*'])
    if cls == 'line_comment_no_newline':
        return rng.choice(['//', '///', '// x', '/// é'])
    if cls == 'whitespace':
        return ''.join(rng.choice(' \t\r\n\x0c') for _ in range(rng.choice([1, 1, 2, 3])))
    return _anychar(rng)


def gen_sequence(rng):
    """lexemes of random classes, glued without separator or with a random (possibly empty) one"""
    n = rng.choice([1, 2, 2, 3, 3, 4, 6, 10])
    glue = rng.random()
    out = []
    for _ in range(n):
        out.append(lexeme(rng, rng.choice(LEXEME_CLASSES)))
        if glue < 0.5:
            continue
        if glue < 0.8 and rng.random() < 0.5:
            out.append(rng.choice([' ', '\n', '\t', '\r\n', '\x0c', '/**/', '//\n']))
    return ''.join(out)


def gen_sigil(rng):
    """`?`/`#`/`!`/`@`/`<`/`>`/digits followed by anything"""
    head = rng.choice(SIGILS + [_digits(rng), _digits(rng) + '>', '?t', '@a', '/', '//', '/*', "'", "'\\"])
    mid = rng.choice([_anychar(rng), rng.choice('09azAZ_t>/*\'\\\n '), _digits(rng), _ident(rng)])
    tail = rng.choice(['', '', ' x', '\n', _anychar(rng), '>a', ';'])
    return head + mid + tail


def gen_soup(rng):
    n = rng.choice([1, 2, 3, 5, 8, 13, 30])
    pool = ALPHABET + ['*/', '/*', '//', "\\'", '\\\\', '\r', '\x0c', '\x00', '0', '9', 'z', 'A', 'token', ';', '(', '\u0800', '\u20ac']
    return ''.join(rng.choice(pool) if rng.random() < 0.85 else _anychar(rng) for _ in range(n))


def truncations_of(text):
    """the text cut after every character (a construct stopped at every point)"""
    return [text[:i] for i in range(len(text) + 1)]


def gen_truncation_family(rng):
    base = ''.join(lexeme(rng, rng.choice(['string', 'string', 'block_comment', 'line_comment', 'doc_comment', 'creation', 'rename', 'pred_num',
                                           'keyword', 'ident', 'marker', 'punct', 'whitespace'])) for _ in range(rng.choice([1, 2, 3])))
    return truncations_of(base)


def gen_texts(rng, n):
    """[(generator, text)], about n of them, every random choice from rng"""
    out = []
    while len(out) < n:
        x = rng.random()
        if x < 0.4:
            out.append(('sequence', gen_sequence(rng)))
        elif x < 0.6:
            out.append(('sigil_then_anything', gen_sigil(rng)))
        elif x < 0.8:
            out.append(('soup', gen_soup(rng)))
        elif x < 0.9:
            out += [('truncation', t) for t in gen_truncation_family(rng)]
        else:
            out.append(('single_lexeme', lexeme(rng, rng.choice(LEXEME_CLASSES))))
    return out


def exhaustive_texts(k, alphabet=None):
    """every string of at most k characters over the alphabet (19 characters chosen so that every branch of the
    lexer's automaton and both callbacks are entered)"""
    alphabet = alphabet or ALPHABET
    out = ['']
    level = ['']
    for _ in range(k):
        level = [s + c for s in level for c in alphabet]
        out += level
    return out


FIXED = ['12 x', '?x', '// no newline', '///x\n', '////\n', '//\n', "'a\\\nb'", "'\\x\\é'", '/*/', '/***/', '1<2', '@_', '?t1', '?1t', '<1>a',
         "'\\\U0001F600'", "'\\\U0001F600", 'a\x0bb', '\x00', '﻿start', 'tokens token', "'", "'\\", '/', '//', '/*', '0>', '>_', '1>_a', '\r\n\x0c\t ',
         'é', '12é', "'é\n", '/*é', '//é\n', '///é', 'partstart', 'part1>x', 'a>b', 'a1>b', '_a', 'a_', '9', '?', '#', '!', '<', '<a', '#a', '!a', '?a']


# ---------------------------------------------------------------- shrinking

def _disagrees(texts):
    impl = run_impl(texts)
    model = run_model(texts)
    return [diff_one(t, i, m) is not None for t, i, m in zip(texts, impl, model)]


def shrink(text, rounds=30):
    """delete blocks of characters, then single characters, then replace characters by simpler ones, as long as
    the two sides still disagree"""
    for _ in range(rounds):
        cands = []
        n = len(text)
        size = max(1, n // 2)
        while size >= 1:
            cands += [text[:i] + text[i + size:] for i in range(0, n - size + 1, max(1, size // 2))]
            size //= 2
        for i, c in enumerate(text):
            for s in ('a', '1', ' '):
                if c != s and c not in "/*'\\\n?#!@<>":
                    cands.append(text[:i] + s + text[i + 1:])
        seen = set()
        cands = [c for c in cands if c != text and not (c in seen or seen.add(c))]
        cands.sort(key=lambda c: (len(c), c))
        if not cands:
            break
        flags = _disagrees(cands)
        hit = next((c for c, f in zip(cands, flags) if f), None)
        if hit is None or (len(hit), hit) >= (len(text), text):
            break
        text = hit
    return text


# ---------------------------------------------------------------- the correspondence run of a check

def correspondence(rng, extra=None, quick=True, n_random=None, exhaustive=None):
    """extra: [(generator, text)] the check explores anyway (a bounded sample).  Returns the summary for the
    evidence; summary['disagreements'] lists (at most 5, shrunk) disagreements, summary['build_ok'] the build."""
    t0 = time.time()
    ok, msg = build()
    if not ok:
        return {'build_ok': False, 'build_msg': msg, 'disagreements': [], 'n_disagreements': 0, 'texts': 0}
    n_random = n_random if n_random is not None else (4000 if quick else 150000)
    exhaustive = exhaustive if exhaustive is not None else (3 if quick else 4)
    items = [('fixed', t) for t in FIXED]
    items += [('exhaustive<=%d' % exhaustive, t) for t in exhaustive_texts(exhaustive)]
    items += gen_texts(rng, n_random)
    items += list(extra or [])
    try:
        dis, st = compare_items(items)
    except Exception as e:
        return {'build_ok': False, 'build_msg': 'correspondence run failed: ' + str(e)[-1500:], 'disagreements': [], 'n_disagreements': 0, 'texts': len(items)}
    shown = []
    for d in sorted(dis, key=lambda d: len(d['text']))[:12]:
        if len(shown) >= 5:
            break
        try:
            small = shrink(d['text'])
            if any(x.get('text') == small for x in shown):
                continue
            i, m = run_impl([small])[0], run_model([small])[0]
            shown.append({'text': small, 'original_text': d['text'], 'generator': d['generator'], 'what': diff_one(small, i, m) or d['what'], 'impl': i, 'model': m})
        except Exception as e:
            shown.append(dict(d, shrink_error=str(e)[-200:]))
    return {
        'build_ok': True, 'texts': st['n'], 'distinct_texts': len(set(t for _, t in items)), 'texts_with_two_or_more_tokens': st['nontrivial'],
        'tokens_compared': st['tokens'], 'n_disagreements': len(dis), 'disagreements': shown,
        'texts_per_generator': dict(st['gen']),
        'text_length_histogram_bytes': dict(sorted(st['len'].items(), key=lambda kv: int(kv[0].split('-')[0]))),
        'tokens_per_kind': dict(st['kinds'].most_common()), 'texts_containing_kind': dict(st['texts_with_kind'].most_common()),
        'lexer_diagnostics_per_kind': dict(st['diag_kinds'].most_common()), 'texts_per_diagnostic_kind': dict(st['texts_with_diag'].most_common()),
        'texts_with_non_ascii': st['non_ascii_texts'], 'texts_with_astral_code_points': st['astral_texts'],
        'exhaustive_part': 'every text of at most %d characters over %r (%d texts)' % (exhaustive, ''.join(ALPHABET), sum(len(ALPHABET) ** i for i in range(exhaustive + 1))),
        'compared': 'token kinds, byte spans, lexer diagnostics (message, span) in order; real lexer = lelwel::frontend::lexer::tokenize via `lv-harness front`, '
                    'model = Lexer.lex extracted (ExtrOcamlBasic only) and run by ocaml/lexdriver',
        'wall_s': round(time.time() - t0, 2),
    }


LEXER_THEOREMS = {
    'C12': ['C12_lexer_spans_tile_the_text', 'C12_lexer_token_spans_valid', 'C12_lexer_diagnostic_spans_valid'],
    'C13': ['C13_lexer_reads_back_items', 'C13_lexer_reads_back_tokens_and_layouts', 'C13_written_tokens_are_the_non_trivia_items',
            'C13_separator_condition_is_necessary'],
    'C17': ['C17_lexemes_concatenate_to_the_text', 'C17_token_slices_concatenate_to_the_text', 'C17_token_kinds_are_the_chunk_results'],
}

LEXER_SCOPE = {
    'C12': 'lexing stage only: token spans tile the text on character boundaries, every lexer diagnostic span is a valid non-empty span (all texts, no bound); '
           'parser and analysis stages stay exploration + parser tie',
    'C13': 'lexing stage only: every sequence of well-formed items (tokens and trivia) satisfying the exact no-fusion side condition lexes back to itself with no '
           'diagnostic; the side condition is necessary; parser / typed view stay exploration',
    'C17': 'lexer side clause only: lexing loses no character (lexemes and span slices concatenate to the text); the formatter stays exploration',
}

TRUSTED = [
    'Coq 8.16.1 kernel; vm_compute only in the Example lemmas',
    'axioms: none (Print Assumptions of every theorem in Props/<id>.v says "Closed under the global context"; re-checked on every run)',
    'extraction of Lexer.lex: ExtrOcamlBasic only; nat, positive, N stay the extracted datatypes; no Extract Constant / Extract Inductive',
    'ocaml/lexdriver.ml (reads code points, prints JSON), tools/k4_lexmodel.py (generators, diff), harness/src/front.rs: trusted for the correspondence only',
    'the theorems are about the MODEL (coq/Model/Lexer.v); they transfer to src/frontend/lexer.rs (logos 0.16 automaton + callbacks + tokenize) only as far as the '
    'K4L correspondence of this run agrees (sampled and exhaustive-short texts), not by proof',
]


def sample_job_texts(jobs, rng, limit, per_job=400, max_bytes=40000, total_bytes=None):
    """a bounded sample of the texts the K4 jobs of checks_front explore: [(generator, text)]"""
    import k4_front
    out = []
    for j in jobs:
        if j.get('gen') == 'seq':
            n, lo, hi = j['n'], j['lo'], j['hi']
            idx = range(lo, hi) if hi - lo <= per_job else [rng.randrange(lo, hi) for _ in range(per_job)]
            ts = [k4_front.seq_text(n, i) for i in idx]
        else:
            ts = j.get('texts', [])
            if len(ts) > per_job:
                ts = rng.sample(ts, per_job)
        out += [('k4:' + str(j.get('gen')), t) for t in ts if len(t) <= max_bytes]
    if len(out) > limit:
        out = rng.sample(out, limit)
    # the harness runs the whole front end and the formatter on every text: bound the volume (quick tier: < 40 s in all)
    total_bytes = total_bytes if total_bytes is not None else limit * 130
    kept, size = [], 0
    for g, t in out:
        if size + len(t) > total_bytes:
            continue
        kept.append((g, t))
        size += len(t)
    return kept


def check_hook(ck, pid, extra=None):
    """Called by checks_front.check_C12 / check_C13 / check_C17 (one line each): proof step for Props/<pid>.v
    (build, audit, Print Assumptions), K4L correspondence on the lexer generators plus `extra` = [(generator, text)].
    A broken proof or a model/implementation disagreement is reported through ck.violation(..., no_input=True).
    Returns the entries to merge into ck.cov."""
    t0 = time.time()
    quick = ck.tier == 'quick'
    thms = LEXER_THEOREMS.get(pid, [])
    ok, msg = lv.build_model()
    audit = lv.audit_sources() if ok else []
    okp, found, rep = lv.check_props(pid) if ok else (False, [], msg)
    missing = [t for t in thms if t not in found]
    proof_ok = ok and okp and not audit and not missing
    if not proof_ok:
        why = ('Coq development does not build: ' + msg[-800:]) if not ok else ('forbidden declarations: ' + '; '.join(audit[:5])) if audit else \
              ('pinned theorems missing from Props/%s.v: %s' % (pid, missing)) if (okp and missing) else ('Props/%s.v does not check: %s' % (pid, rep[-800:]))
        ck.violation('proof (lexer model, %s): %s' % (pid, why), {'broken': why, 'theorems': thms}, no_input=True)
    t1 = time.time()
    summ = correspondence(ck.rng, extra=extra, quick=quick)
    if not summ.get('build_ok'):
        ck.violation('K4L correspondence (Lexer.v vs src/frontend/lexer.rs) could not run: %s' % summ.get('build_msg', '')[-800:],
                     {'broken': summ.get('build_msg', '')[-2000:]}, no_input=True)
    for d in summ.get('disagreements', [])[:3]:
        ck.violation('K4L correspondence: the lexer model (coq/Model/Lexer.v) and the real lexer disagree on %r: %s [%d disagreeing texts in this run; the lexer '
                     'theorems of %s no longer transfer to the implementation]' % (d['text'][:80], d['what'], summ['n_disagreements'], pid),
                     {'text': d['text'], 'original_text': d.get('original_text'), 'kind': 'lexer_model_disagreement', 'classes': [], 'generator': d.get('generator'),
                      'impl': d.get('impl'), 'model': d.get('model')}, no_input=True)
    corr_ok = bool(summ.get('build_ok')) and not summ.get('n_disagreements')
    return {
        'obligations': len(thms) + 1,
        'discharged': (len(thms) if proof_ok else 0) + (1 if corr_ok else 0),
        'checker_cmd': 'make -C coq (coq_makefile, full .vo) ; coqc -Q . LV Props/%s.v (Print Assumptions parsed) ; source audit grep ; '
                       'python3 tools/k4_lexmodel.py (K4L correspondence)' % pid,
        'trusted_base': TRUSTED,
        'theorems': found if proof_ok else thms,
        'theorems_assumptions': 'Closed under the global context (all %d)' % len(found) if proof_ok else 'NOT ESTABLISHED in this run',
        'theorem_scope': LEXER_SCOPE.get(pid, ''),
        'lexer_model_correspondence': {k: v for k, v in summ.items() if k != 'disagreements'},
        'lexer_model_disagreements': summ.get('disagreements', []),
        'lexer_hook_cost_s': {'proof_step': round(t1 - t0, 2), 'correspondence': round(time.time() - t1, 2)},
    }


if __name__ == '__main__':
    a = sys.argv[1:]

    def opt(name, default):
        return int(a[a.index(name) + 1]) if name in a else default
    rng = random.Random(opt('--seed', 1))
    s = correspondence(rng, quick=True, n_random=opt('--n', 4000), exhaustive=opt('--exhaustive', 3))
    print(json.dumps(s, indent=1, ensure_ascii=True))
    sys.exit(1 if (not s['build_ok'] or s['n_disagreements']) else 0)
