import sys, os, time, tempfile, subprocess
sys.path.insert(0, '/verif/tools')
from concurrent.futures import ThreadPoolExecutor
import lv, checks, k2, textbook
ck = lv.Check(sys.argv[1] if len(sys.argv) > 1 else 'C09', 'proof')
work = tempfile.mkdtemp()
texts, paths = checks.analysis_inputs(ck, work, 2500, 400)
res = lv.harness_sema(paths)
todo = []
for (lab, text), r in zip(texts, res):
    d = r.get('dump')
    if not d or not d['sema']['sets']:
        continue
    try:
        if k2.count_nodes(d) <= k2.MAX_NODES:
            todo.append((lab, text, k2.grammar_sexp(d)[0]))
    except k2.Unresolved:
        pass
print(len(todo))


def one(x):
    lab, text, sx = x
    t = time.time()
    try:
        r = subprocess.run(['bash', '-c', 'ulimit -s unlimited; exec /verif/ocaml/driver k2'], input=sx + '\n', capture_output=True, text=True, timeout=15)
        return (time.time() - t, lab, text, r.stdout[:60])
    except subprocess.TimeoutExpired:
        return (99, lab, text, 'TIMEOUT')


with ThreadPoolExecutor(16) as ex:
    out = list(ex.map(one, todo))
out.sort(key=lambda x: -x[0])
for dt, lab, text, o in out[:4]:
    print(dt, lab, o)
    print(text)
