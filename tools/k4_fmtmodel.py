"""K4f: the formatter's item generator (/repo/src/backend/format.rs) against its Coq model
(coq/Model/Fmt.v, extracted to ocaml/fmt_model.ml and run by ocaml/fmtdriver).

For each text: the real lexer + parser build the CST (`lv-harness fmtitems`), then
  (a) the real print items, rendered by the hook `lelwel::backend::format::verif_items`
      (compiled in with --cfg lelwel_verif),
  (b) the model's items for the same tree (token kinds, spans and the source bytes are the input),
are compared item by item, condition branches included.  Separately (the tested, unproved link
between the items and the formatter's output, i.e. dprint-core's printer): the non-whitespace
characters of the printer's output equal those of the top-level string items.

Canonical form of an item (both sides): S:<hex of the UTF-8 bytes>, G:<signal>, I:<name>, A:<name>,
R:<name>, C:<name>[:force=<bool>] followed by {T … } {F … }, X:<crash>.  Dropped before comparing:
dprint-core's unique ids (the hook prints them; they are checked for the start/end pairing only) and
the model's `stored` flag of a condition (not reachable through dprint-core's public API).

All randomness comes from the random.Random passed in."""
import collections
import json
import os
import subprocess
import sys
import time
from concurrent.futures import ThreadPoolExecutor

import lv

NPROC = max(1, min(16, os.cpu_count() or 1))
FMT_DRIVER = os.path.join(lv.OCAML, 'fmtdriver')
WS = ' \t\r\n\x0c'

RKINDS = ['action', 'alternation', 'assertion', 'commit', 'concat', 'decl', 'error', 'file', 'name',
          'node_creation', 'node_elision', 'node_marker', 'node_rename', 'optional', 'ordered_choice', 'paren',
          'part_decl', 'plus', 'postfix', 'predicate', 'regex', 'return', 'right_decl', 'rule_decl', 'skip_decl',
          'star', 'start_decl', 'symbol', 'token_decl', 'token_list']
TKINDS = ['LineComment', 'DocComment', 'BlockComment', 'Whitespace', 'LPar', 'RPar', 'LBrak', 'RBrak',
          'Or', 'Slash', 'Colon', 'Semi']          # index 12 = every other token kind
RK = {k: i for i, k in enumerate(RKINDS)}
# Rule's Debug output is the grammar's rule name (snake case); accept the variant names too
RK.update({''.join(p.capitalize() for p in k.split('_')): i for i, k in enumerate(RKINDS)})
TK = {k: i for i, k in enumerate(TKINDS)}


def nonws(s):
    return ''.join(c for c in s if c not in WS)


# ---------------------------------------------------------------- build

def build():
    """compile the model, extract it and build the OCaml driver (no-op when up to date).
    Everything generated (fmt_model.ml/.mli, fmtdriver, .vo) is gitignored."""
    with lv.Lock('coq'):
        v = os.path.join(lv.COQ, 'Model', 'Fmt.v')
        vo = os.path.join(lv.COQ, 'Model', 'Fmt.vo')
        ex = os.path.join(lv.COQ, 'Extract', 'ExtractFmt.v')
        ml = os.path.join(lv.OCAML, 'fmt_model.ml')
        drv_src = os.path.join(lv.OCAML, 'fmtdriver.ml')

        def newer(a, b):
            return (not os.path.exists(b)) or os.path.getmtime(a) > os.path.getmtime(b)
        if newer(v, vo):
            lv.sh(['timeout', '600', 'coqc', '-Q', '.', 'LV', 'Model/Fmt.v'], cwd=lv.COQ)
        if newer(v, ml) or newer(ex, ml):
            lv.sh(['timeout', '600', 'coqc', '-Q', '.', 'LV', 'Extract/ExtractFmt.v'], cwd=lv.COQ)
        if newer(ml, FMT_DRIVER) or newer(drv_src, FMT_DRIVER):
            lv.sh(['ocamlfind', 'ocamlopt', '-O2', '-w', '-a', 'fmt_model.mli', 'fmt_model.ml', 'fmtdriver.ml', '-o', 'fmtdriver'], cwd=lv.OCAML)
    return True


# ---------------------------------------------------------------- the two sides

def run_real(texts):
    """`lv-harness fmtitems` on the texts -> one dict per text ({'crash':True} if the process died)"""
    res = []
    i, n = 0, len(texts)
    while i < n:
        inp = ''.join(json.dumps(t) + '\n' for t in texts[i:])
        r = subprocess.run([lv.HARNESS_BIN, 'fmtitems'], input=inp.encode('utf-8'), stdout=subprocess.PIPE,
                           stderr=subprocess.PIPE, timeout=3600)
        outs = [l for l in r.stdout.split(b'\n') if l.strip()]
        for l in outs:
            try:
                res.append(json.loads(l))
            except Exception:
                res.append({'garbled': True})
        i += len(outs)
        if i < n:
            res.append({'crash': True, 'code': r.returncode})
            i += 1
    return res[:n]


def tree_line(text, cst):
    """the model driver's input line for a harness CST walk, or None if the walk is not a tree"""
    b = text.encode('utf-8')
    n = len(cst)
    # number of children per rule node from the depths
    counts = [0] * n
    stack = []
    for i, node in enumerate(cst):
        d = node[0]
        while stack and cst[stack[-1]][0] >= d:
            stack.pop()
        if stack:
            if cst[stack[-1]][0] != d - 1 or cst[stack[-1]][1] != 'rule':
                return None
            counts[stack[-1]] += 1
        elif i != 0:
            return None
        stack.append(i)
    toks = []
    for i, node in enumerate(cst):
        if node[1] == 'rule':
            if node[2] not in RK:
                return None
            toks.append('r%d:%d' % (RK[node[2]], counts[i]))
        else:
            toks.append('t%d:%d:%d' % (TK.get(node[2], 12), node[3], node[4] - node[3]))
    return ' '.join(map(str, b)) + '|' + ' '.join(toks)


def run_model(lines):
    """fmtdriver on the input lines -> list of (status, [item strings])"""
    if not lines:
        return []
    r = subprocess.run(['bash', '-c', 'ulimit -s unlimited 2>/dev/null; exec "$0"', FMT_DRIVER],
                       input=('\n'.join(lines) + '\n').encode(), stdout=subprocess.PIPE, stderr=subprocess.PIPE, timeout=3600)
    outs = [l for l in r.stdout.decode().split('\n') if l.strip()]
    if len(outs) != len(lines):
        raise RuntimeError('fmtdriver returned %d results for %d cases: %s' % (len(outs), len(lines), r.stderr[-1000:]))
    res = []
    for l in outs:
        parts = l.split(' ')
        res.append((parts[0], [p for p in parts[1:] if p]))
    return res


def canon_real(items):
    """the hook's strings -> canonical items; also returns the line-number ids for the pairing check"""
    out = []
    for s in items:
        tag = s[:2]
        if tag == 'S:':
            out.append('S:' + s[2:].encode('utf-8').hex())
        elif tag in ('I:', 'A:'):
            out.append(s.split('#')[0])
        elif tag == 'C:':
            name, _, rest = s[2:].partition('#')
            force = rest.partition(':')[2]
            out.append('C:' + name + (':' + force if force else ''))
        else:
            out.append(s)
    return out


def canon_model(items):
    out = []
    for s in items:
        if s.startswith(('C:', 'R:')) and ':stored=' in s:
            s = s[:s.index(':stored=')]
        out.append(s)
    return out


def ids_paired(items):
    """dprint-core's ids as the hook prints them: every anchor names the line number of a later
    `end` info, and every `start` info is followed by the anchor of the next line number id
    (the LineNumber pair each gen_paren / gen_alt / gen_rule_decl creates).  Not part of the model."""
    infos = {}
    for i, s in enumerate(items):
        if s.startswith('I:'):
            infos.setdefault(s, []).append(i)
    for i, s in enumerate(items):
        if s.startswith('A:'):
            key = 'I:' + s[2:]
            if not any(j > i for j in infos.get(key, [])):
                return False
    return True


def top_level_strings(canon):
    """bytes of the string items outside condition branches, in order"""
    depth = 0
    out = bytearray()
    for s in canon:
        if s in ('{T', '{F'):
            depth += 1
        elif s == '}':
            depth -= 1
        elif depth == 0 and s.startswith('S:'):
            out += bytes.fromhex(s[2:])
    return bytes(out)


def compare_one(text, real, model):
    """returns (verdict, detail): verdict in agree / disagree / skipped:<why>; plus the printer link verdict"""
    status, mitems = model
    ritems = real['items']
    if isinstance(ritems, dict):
        # the real generator panicked (through the hook)
        if status.startswith('crash'):
            return 'agree', None
        return 'disagree', 'real item generator panicked (%s), model says %s' % (ritems.get('msg', '')[:120], status)
    if status.startswith('crash'):
        return 'disagree', 'model crashes (%s), real generator returned %d items' % (status, len(ritems))
    if status != 'ok':
        return 'skipped:model_' + status.replace(' ', '_'), None
    a, b = canon_real(ritems), canon_model(mitems)
    if a != b:
        i = 0
        while i < min(len(a), len(b)) and a[i] == b[i]:
            i += 1
        return 'disagree', 'item #%d of %d/%d: real %s, model %s' % (i, len(a), len(b), a[i:i + 4], b[i:i + 4])
    return 'agree', None


def printer_link(text, real):
    """the tested link items -> output: None if it holds (or cannot be evaluated), else a description"""
    ritems, f = real['items'], real['format']
    if isinstance(ritems, dict) or not isinstance(f, str):
        return None
    want = top_level_strings(canon_real(ritems)).decode('utf-8', 'replace')
    if nonws(want) != nonws(f):
        return 'printer output and string items differ in non-whitespace characters'
    return None


def evaluate(texts):
    """[(verdict, detail, link_problem, stats)] for the texts (one harness + one driver process)"""
    reals = run_real(texts)
    lines, idx = [], []
    out = [None] * len(texts)
    for i, (t, r) in enumerate(zip(texts, reals)):
        if r.get('crash') or r.get('garbled') or r.get('bad_input'):
            out[i] = ('skipped:harness_died', None, None, None)
            continue
        if r.get('panic'):
            out[i] = ('skipped:parse_panic', None, None, None)
            continue
        ln = tree_line(t, r['cst'])
        if ln is None:
            out[i] = ('disagree', 'the CST walk is not a tree of known node kinds', None, None)
            continue
        lines.append(ln)
        idx.append(i)
    models = run_model(lines)
    for i, m in zip(idx, models):
        r = reals[i]
        v, d = compare_one(texts[i], r, m)
        link = printer_link(texts[i], r)
        kinds = collections.Counter(n[2] for n in r['cst'] if n[1] == 'rule')
        toks = collections.Counter(n[2] if n[2] in TK else 'other' for n in r['cst'] if n[1] == 'token')
        st = {'rules': kinds, 'toks': toks, 'items': len(r['items']) if isinstance(r['items'], list) else 0,
              'syntax_ok': bool(r.get('syntax_ok')), 'format_panic': isinstance(r['format'], dict),
              'ids_paired': ids_paired(r['items']) if isinstance(r['items'], list) else True,
              'raw_string': isinstance(r['items'], list) and any(s in ('G:Tab', 'G:StartIgnoringIndent') for s in r['items']),
              'forced': isinstance(r['items'], list) and any(s.endswith(':force=true') for s in r['items']),
              'compensated': False}
        out[i] = (v, d, link, st)
    return out


# ---------------------------------------------------------------- texts

NASTY_PIECES = ["/* a\tb */", "/* one\n\ttwo\r\n three */", "// c\td\n", "/// d \t\n", "'a\tb'", "'x\ny'", "'unterminated\n", "'\\", "/* open\n\t",
                "\t", "\x00", "\x0b", "$\t$", "é\tλ", "\r\n", "\r", "\x0c", "/**/", "/*\n*/", "//\n", "//\r\n", "'\t'", "\\", "€", "\U0001F600",
                "(", "[", ")", "]", ";", ":", "|", "/", "a", "B", "token", "start", "^", "~", "&", "@x", ">y", "<1", "?1", "#2", "!3", "='s'"]


def nasty(rng, toks):
    """an erroneous variant of a token list: closers / semicolons / colons removed, and tabs, newlines,
    unterminated strings and comments, invalid bytes spliced in at token boundaries"""
    ts = [x[1] for x in toks]
    kinds = [x[0] for x in toks]
    for _ in range(rng.choice([1, 1, 2, 3, 5])):
        if not ts:
            break
        op = rng.random()
        if op < 0.4:
            cand = [i for i, k in enumerate(kinds) if k in ('Semi', 'RPar', 'RBrak', 'Colon', 'LPar', 'LBrak', 'Or', 'Slash')]
            if cand:
                i = rng.choice(cand)
                del ts[i]
                del kinds[i]
                continue
        i = rng.randrange(len(ts) + 1)
        p = rng.choice(NASTY_PIECES)
        if rng.random() < 0.3:
            p = p + rng.choice([' ', '\n', '\t', ''])
        ts.insert(i, p)
        kinds.insert(i, 'x')
    return ''.join(ts)


HAND = [
    '', ' ', '\n', 'a', 'a:', 'a: b', 'a: (b', 'a: [b', 'a: (b | c', 'a: b | c;', 'a: b\n| c;', 'a: b /\n c;', 'a: (b\n| c);', 'a: (b | c))(;', 'a: b ] ;',
    'a: : b ; ;', 'a: b ; c ;', 'token A;\nstart s;\ns: A;\n', 'token A B;start s;s:A|B;', "token A='a\tb';", '/* a\tb */', '// c', '// c\n', '\t// c\n',
    'a: // c\n b;', 'a:\n// c\nb;', 'a: ( // c\n b);', 'a: b /* x\n y */ c;', "a: 'x\ny' b;", 'a /* c */ b', 'token\n\n\nA;', 'token A; start s;',
    '/* b */ start s;', 'right a b c;', 'skip;', 'part', 'a^: b;', 'a: b & c ~ d;', 'a: (b)* [c]+ d;', 'a: b | c | d | e;', 'a: b /c/ d;', 'a: | ;',
    'a: () ;', 'a: (|) ;', 'a: b\n  | \n  c;', 'é', '$ $', "'", '/*', 'a: @x >y <1 ?1 #2 !3 ^;', 'token A = ;', 'a: b; // t\n', 'a: b; /* t */ c: d;',
    'start\ts\t;', 'a:\tb\t|\tc\t;', 'a:\rb\r|\nc;', 'a: (\n(\n(b\n)\n)\n);', 'a: [[[b]]];', 'a: b c\n d e;', 'a: b\n/* c */\n| c;', 'a: (b /* c */ | c);',
]


SBC_PREFIXES = ['', ' ', '\t', '\r', '\x0c', '\n', '\n\t', '\n\x0c ', '\r\n', ' \r', 'x', 'x\x0c', '\x0b', ';\t', '\n \r\x0c\t']
SBC_COMMENTS = ['// c\n', '/// d\n', '/* b */', '/* a\n\tb */']
SBC_CONTEXTS = ['%s', 'a%s', 'a:%sb;', 'a: b%s;', 'a: (%sb);', 'a: b |%sc;', 'token A;%sstart s;', 'token A%sB;', 'a b %s c']


def sbc_texts():
    """every blank / newline / other byte in front of every kind of comment, at file level, inside declarations,
    brackets, alternations and error nodes (what space_before_comment scans)"""
    return [ctx % (p + c) for ctx in SBC_CONTEXTS for p in SBC_PREFIXES for c in SBC_COMMENTS]


def sample_texts(rng, quick, extra=None):
    """[(generator, text)]: repo files, layouts, mutants, erroneous variants, hand-written shapes, soup"""
    import k4_front as k4
    import checks_front as cf
    out = [('hand', t) for t in HAND]
    out += [('comment_prefix', t) for t in sbc_texts()]
    srcs = cf.repo_sources()
    for p, t, toks, valid in srcs:
        out.append(('repo_file', t))
    small = [(p, t, toks, v) for p, t, toks, v in srcs if len(t) <= 3500]
    big = [(p, t, toks, v) for p, t, toks, v in srcs if len(t) > 3500]
    n_small = 6 if quick else 60
    for p, t, toks, v in small:
        for _ in range(n_small):
            out.append(('layout', k4.relayout(rng, toks)))
            out.append(('mutant', k4.mutant(rng, toks)[0]))
            out.append(('erroneous', nasty(rng, toks)))
        step = max(1, len(toks) // (8 if quick else 80))
        out += [('truncation', x) for x in k4.truncations(toks, step)]
        out += [('deletion', x) for x in k4.deletions(toks, step)]
    for p, t, toks, v in big:
        for _ in range(1 if quick else 8):
            out.append(('layout', k4.relayout(rng, toks)))
            out.append(('mutant', k4.mutant(rng, toks)[0]))
            out.append(('erroneous', nasty(rng, toks)))
    n_random = 60 if quick else 1200
    texts = [k4.written_text(k4.random_written(rng)) for _ in range(n_random)]
    for tk in k4.tokenize_all(texts):
        if tk is None:
            continue
        out.append(('layout', k4.relayout(rng, tk)))
        out.append(('layout', k4.relayout(rng, tk)))
        out.append(('erroneous', nasty(rng, tk)))
    out += [('soup', k4.soup(rng)) for _ in range(300 if quick else 20000)]
    out += [('seq', k4.seq_text(3, rng.randrange(k4.seq_count(3)))) for _ in range(300 if quick else 20000)]
    out += [('nesting', cf.nested_text(d, k_)) for d in (1, 8, 64) for k_ in ('(', '[', 'mixed')]
    for g, t in (extra or []):
        out.append((g, t))
    return out


def len_bucket(n):
    if n == 0:
        return '0'
    lo = 1
    while lo * 4 <= n:
        lo *= 4
    return '%d-%d' % (lo, lo * 4 - 1)


# ---------------------------------------------------------------- shrinking

def disagrees(text):
    v = evaluate([text])[0]
    return v[0] == 'disagree' or v[2] is not None


def shrink(text, pred=disagrees, budget=300, seconds=40):
    """greedy deletion of lines, then eighths, then characters while the text still disagrees"""
    deadline = time.time() + seconds
    spent = 0

    def pieces(t, stage):
        if stage == 0:
            return t.splitlines(keepends=True)
        if stage == 1:
            n = max(1, len(t) // 8)
            return [t[i:i + n] for i in range(0, len(t), n)]
        return list(t)
    for stage in (0, 1, 1, 2):
        changed = True
        while changed and spent < budget and time.time() < deadline:
            changed = False
            ps = pieces(text, stage)
            if len(ps) <= 1:
                break
            for i in range(len(ps)):
                cand = ''.join(ps[:i] + ps[i + 1:])
                spent += 1
                try:
                    if pred(cand):
                        text = cand
                        changed = True
                        break
                except Exception:
                    pass
                if spent >= budget or time.time() > deadline:
                    break
    return text


# ---------------------------------------------------------------- the run

def _eval_chunk(chunk):
    return evaluate([t for _, t in chunk])


def correspondence(rng, quick, extra=None, texts=None, max_problems=3):
    """runs the correspondence; returns (stats, problems).  problems: [{'what', 'text', 'original_text', 'generator', 'kind'}]"""
    t0 = time.time()
    build()
    cases = texts if texts is not None else sample_texts(rng, quick, extra)
    seen = set()
    uniq = []
    for g, t in cases:
        if t in seen:
            continue
        seen.add(t)
        uniq.append((g, t))
    # big texts alone, small ones in chunks
    uniq.sort(key=lambda gt: -len(gt[1]))
    chunks = []
    cur, size = [], 0
    for gt in uniq:
        cur.append(gt)
        size += len(gt[1]) + 200
        if size > 60000 or len(cur) >= 400:
            chunks.append(cur)
            cur, size = [], 0
    if cur:
        chunks.append(cur)
    with ThreadPoolExecutor(NPROC) as ex:
        results = list(ex.map(_eval_chunk, chunks))
    st = {'texts': 0, 'agree': 0, 'disagree': 0, 'skipped': collections.Counter(), 'items_compared': 0,
          'per_generator': collections.Counter(), 'agree_per_generator': collections.Counter(), 'length_histogram_bytes': collections.Counter(),
          'rule_nodes_by_kind': collections.Counter(), 'token_nodes_by_kind': collections.Counter(),
          'syntactically_valid': 0, 'with_syntax_errors': 0, 'texts_with_raw_string_items': 0, 'texts_with_forced_multiline_alternation': 0,
          'both_sides_crash': 0, 'printer_link_checked': 0, 'printer_link_failed': 0, 'printer_panicked_items_still_compared': 0,
          'line_number_ids_paired': 0, 'line_number_ids_unpaired': 0}
    problems = []
    for chunk, res in zip(chunks, results):
        for (g, t), (v, d, link, s) in zip(chunk, res):
            st['texts'] += 1
            st['per_generator'][g] += 1
            st['length_histogram_bytes'][len_bucket(len(t.encode('utf-8')))] += 1
            if v.startswith('skipped'):
                st['skipped'][v[8:]] += 1
                continue
            if s:
                st['rule_nodes_by_kind'].update(s['rules'])
                st['token_nodes_by_kind'].update(s['toks'])
                st['items_compared'] += s['items']
                st['syntactically_valid' if s['syntax_ok'] else 'with_syntax_errors'] += 1
                st['texts_with_raw_string_items'] += 1 if s['raw_string'] else 0
                st['texts_with_forced_multiline_alternation'] += 1 if s['forced'] else 0
                st['line_number_ids_paired' if s['ids_paired'] else 'line_number_ids_unpaired'] += 1
                if s['format_panic']:
                    st['printer_panicked_items_still_compared'] += 1
                else:
                    st['printer_link_checked'] += 1
            if v == 'agree':
                st['agree'] += 1
                st['agree_per_generator'][g] += 1
            else:
                st['disagree'] += 1
                problems.append({'kind': 'items_differ', 'what': 'formatter item generator and its Coq model (Fmt.v) disagree: ' + d, 'text': t, 'generator': g})
            if link is not None:
                st['printer_link_failed'] += 1
                problems.append({'kind': 'printer_link', 'what': link, 'text': t, 'generator': g})
    problems.sort(key=lambda p: len(p['text']))
    keep = []
    for kind in ('items_differ', 'printer_link'):
        ps = [p for p in problems if p['kind'] == kind][:max_problems]
        for p in ps[:1]:
            p['original_text'] = p['text']
            try:
                if kind == 'items_differ':
                    p['text'] = shrink(p['text'], lambda x: evaluate([x])[0][0] == 'disagree')
                else:
                    p['text'] = shrink(p['text'], lambda x: evaluate([x])[0][2] is not None)
                v = evaluate([p['text']])[0]
                if kind == 'items_differ' and v[1]:
                    p['what'] = 'formatter item generator and its Coq model (Fmt.v) disagree: ' + v[1]
            except Exception as e:
                lv.log('shrink failed: %r' % e)
        keep += ps
    for k in list(st):
        if isinstance(st[k], collections.Counter):
            st[k] = dict(sorted(st[k].items(), key=lambda kv: (-kv[1], kv[0]))) if k != 'length_histogram_bytes' else \
                dict(sorted(st[k].items(), key=lambda kv: int(kv[0].split('-')[0])))
    st['wall_s'] = round(time.time() - t0, 1)
    return st, keep


# ---------------------------------------------------------------- hook for checks_front

FMT_THEOREMS = ['C17_items_keep_the_content', 'C17_items_keep_the_non_whitespace_characters', 'C17_conditions_hold_signals_only',
                'C17_strings_have_no_tab_or_newline', 'C17_indentation_balanced_on_every_paired_resolution', 'C17_alt_conditions_come_in_pairs',
                'C17_newline_groups_balanced', 'C17_generator_returns_only_without_unreachable_kinds', 'C17_unreachable_kind_is_the_panic']

FMT_SCOPE = ('for ALL trees and source texts (every shape, unbounded): if the item generator gen_cst returns, the non-whitespace bytes of its string items in order are '
             'those of the token leaves (a line/doc comment minus its last byte, Whitespace tokens contribute nothing; equal to the non-whitespace bytes of all leaves when '
             'the token texts have the lexer\'s shape); conditions hold signals only; no string item contains a tab or newline; StartIndent/FinishIndent are balanced on every '
             'resolution that gives the two multilineAlt conditions of one separator the same answer; new-line groups are balanced; the generator returns only for trees '
             'without a Decl/Postfix/Regex node, which is exactly the unreachable!() panic.  NOT covered by a theorem: dprint-core\'s printer (items -> text), idempotence (C18).')

FMT_TRUSTED = ['dprint-core 0.67.4 printer (formatting::format: save points, width-dependent choices, condition resolution): NOT modelled; the link items -> output '
               'is tested per text (non-whitespace characters of the output = those of the string items)',
               'the hook lelwel::backend::format::verif_items (cfg lelwel_verif) renders the items faithfully; condition resolvers, is_stored/store_save_point and the '
               'condition a reevaluation refers to are not reachable through dprint-core\'s API and are not compared',
               'ocaml/fmtdriver.ml, tools/k4_fmtmodel.py (tree transfer, canonical item form, diff), harness/src/fmtitems.rs: trusted for the correspondence only',
               'modelled, not verified: text as UTF-8 bytes (char-boundary panics of str slicing are outside the model), usize as nat, a token\'s text given with the tree '
               '(in the code it is the source slice of its span); Coq 8.16.1 kernel, ExtrOcamlBasic extraction']


def sample_jobs(jobs, rng, limit, per_job=200, max_len=20000, total_bytes=400000):
    """a bounded sample of the texts of checks_front's K4 jobs: [(generator, text)]"""
    import k4_front
    out = []
    for j in jobs:
        if j.get('gen') == 'seq':
            n, lo, hi = j['n'], j['lo'], j['hi']
            if n == 0:
                ts = ['']
            else:
                ts = [k4_front.seq_text(n, rng.randrange(lo, hi)) for _ in range(min(per_job // 8 + 1, hi - lo))]
        else:
            ts = j.get('texts', [])
            if len(ts) > per_job:
                ts = rng.sample(ts, per_job)
        out += [('k4:' + str(j.get('gen')), t) for t in ts if len(t) <= max_len]
    if len(out) > limit:
        out = rng.sample(out, limit)
    kept, size = [], 0
    for g, t in out:
        if size + len(t) > total_bytes:
            continue
        kept.append((g, t))
        size += len(t)
    return kept


def check_hook(ck, pid, extra=None):
    """called by checks_front.check_C17 / check_C18 (one line each).  C17: proof step for the formatter theorems in
    Props/C17.v (build, audit, Print Assumptions, pinned names) and the K4f correspondence; C18: the correspondence on
    the layouts it explores (there is no theorem for C18).  Returns the entries to merge into ck.cov."""
    t0 = time.time()
    quick = ck.tier == 'quick'
    cov = {}
    proof_ok = True
    thms = FMT_THEOREMS if pid == 'C17' else []
    if pid == 'C17':
        ok, msg = lv.build_model()
        audit = lv.audit_sources() if ok else []
        okp, found, rep = lv.check_props(pid) if ok else (False, [], msg)
        missing = [t for t in thms if t not in found]
        proof_ok = ok and okp and not audit and not missing
        if not proof_ok:
            why = ('Coq development does not build: ' + msg[-800:]) if not ok else ('forbidden declarations: ' + '; '.join(audit[:5])) if audit else \
                  ('pinned theorems missing from Props/C17.v: %s' % missing) if (okp and missing) else ('Props/C17.v does not check: %s' % rep[-800:])
            ck.violation('proof (formatter item generator, C17): %s' % why, {'broken': why, 'theorems': thms}, no_input=True)
    t1 = time.time()
    try:
        st, probs = correspondence(ck.rng, quick, extra=extra)
        corr_err = None
    except Exception as e:
        st, probs, corr_err = {}, [], repr(e)
        ck.violation('K4f correspondence (Fmt.v vs src/backend/format.rs) could not run: %s' % corr_err[-800:], {'broken': corr_err[-2000:]}, no_input=True)
    for p in probs[:3]:
        direct = None
        try:
            import checks_front
            direct = checks_front.oracle('C17', [p['text']])[0]
        except Exception as e:
            lv.log('direct oracle on a K4f problem failed: %r' % e)
        if p['kind'] == 'printer_link' and direct is not None and pid == 'C17':
            # the property itself fails on this text: a violation with a failing input
            ck.violation(direct['what'] + ' [found through the K4f printer link]', {'text': p['text'], 'original_text': p.get('original_text'), 'kind': direct['kind'],
                                                                                    'classes': direct.get('classes', []), 'generator': p['generator']})
        else:
            ck.violation('K4f: %s on %r [generator %s; the formatter theorems of C17 no longer transfer to the implementation]' % (p['what'], p['text'][:80], p['generator']),
                         {'text': p['text'], 'original_text': p.get('original_text'), 'kind': 'fmt_model_' + p['kind'], 'classes': [], 'generator': p['generator']}, no_input=True)
    corr_ok = corr_err is None and not probs
    cov['fmt_model_correspondence'] = st
    cov['fmt_model_problems'] = [{'kind': p['kind'], 'what': p['what'][:300], 'text': p['text'][:300]} for p in probs]
    cov['fmt_hook_cost_s'] = {'proof_step': round(t1 - t0, 2), 'correspondence': round(time.time() - t1, 2)}
    if pid == 'C17':
        cov['fmt_obligations'] = len(thms) + 2
        cov['fmt_discharged'] = (len(thms) if proof_ok else 0) + (1 if corr_ok else 0) + (1 if corr_err is None and not st.get('printer_link_failed') else 0)
        cov['fmt_checker_cmd'] = ('make -C coq (coq_makefile, full .vo) ; coqc -Q . LV Props/C17.v (Print Assumptions parsed) ; source audit grep ; '
                                  'python3 tools/k4_fmtmodel.py (K4f correspondence: lv-harness fmtitems vs ocaml/fmtdriver, item by item; printer link)')
        cov['fmt_theorems'] = thms
        cov['fmt_theorems_assumptions'] = 'Closed under the global context (all %d)' % len(thms) if proof_ok else 'NOT ESTABLISHED in this run'
        cov['fmt_theorem_scope'] = FMT_SCOPE
        cov['fmt_trusted_base'] = FMT_TRUSTED
    return cov


if __name__ == '__main__':
    import random
    quick = '--thorough' not in sys.argv
    seed = int(os.environ.get('VERIF_SEED', '1'))
    if '--text' in sys.argv:
        t = sys.argv[sys.argv.index('--text') + 1]
        build()
        r = run_real([t])[0]
        print(json.dumps(r)[:3000])
        print(evaluate([t])[0][:3])
        sys.exit(0)
    st, probs = correspondence(random.Random(seed), quick)
    print(json.dumps(st, indent=1))
    for p in probs:
        print('PROBLEM', p['generator'], repr(p['text'])[:400], p['what'][:600])
    sys.exit(1 if probs else 0)
