"""Shared machinery of the checks: building /repo and the model, running the
implementation and the model on the same cases, evidence and violation output."""
import hashlib
import json
import os
import random
import re
import shutil
import subprocess
import sys
import tempfile
import time
from concurrent.futures import ThreadPoolExecutor

VERIF = os.path.dirname(os.path.dirname(os.path.abspath(__file__)))
REPO = '/repo'
CACHE = os.path.join(VERIF, '.cache')
TARGET = os.path.join(CACHE, 'target')
COQ = os.path.join(VERIF, 'coq')
OCAML = os.path.join(VERIF, 'ocaml')
HARNESS_BIN = os.path.join(TARGET, 'debug', 'lv-harness')
LLW_BIN = os.path.join(TARGET, 'debug', 'llw')
LS_BIN = os.path.join(TARGET, 'debug', 'lelwel-ls')
MODEL_DRIVER = os.path.join(OCAML, 'driver')
GUARD = 'lelwel_verif'

sys.path.insert(0, os.path.join(VERIF, 'tools'))

ENV = dict(os.environ)
ENV['CARGO_NET_OFFLINE'] = 'true'
ENV['CARGO_TARGET_DIR'] = TARGET
ENV['RUSTFLAGS'] = '--cfg ' + GUARD


def log(*a):
    print(*a, file=sys.stderr, flush=True)


def sh(cmd, cwd=None, timeout=1800, env=None, check=True, input=None):
    r = subprocess.run(cmd, cwd=cwd, timeout=timeout, env=env or ENV, input=input,
                       stdout=subprocess.PIPE, stderr=subprocess.PIPE, text=True)
    if check and r.returncode != 0:
        raise RuntimeError('command failed (%d): %s\n%s\n%s' % (r.returncode, cmd, r.stdout[-4000:], r.stderr[-4000:]))
    return r


class Lock:
    def __init__(self, name):
        os.makedirs(CACHE, exist_ok=True)
        self.path = os.path.join(CACHE, name + '.lock')

    def __enter__(self):
        import fcntl
        self.f = open(self.path, 'w')
        fcntl.flock(self.f, fcntl.LOCK_EX)
        return self

    def __exit__(self, *a):
        import fcntl
        fcntl.flock(self.f, fcntl.LOCK_UN)
        self.f.close()


# ---------------------------------------------------------------- builds

def build_impl(bins=True):
    """(re)build /repo's working tree (hooks on) and the in-process harness"""
    with Lock('cargo'):
        t = time.time()
        if bins:
            sh(['cargo', 'build', '--offline', '--features', 'cli,lsp', '--bins'], cwd=REPO)
        sh(['cargo', 'build', '--offline'], cwd=os.path.join(VERIF, 'harness'))
        return time.time() - t


def build_model():
    """make the Coq development (no-op when up to date), extract, compile the OCaml driver"""
    with Lock('coq'):
        mk = os.path.join(COQ, 'Makefile')
        if not os.path.exists(mk) or os.path.getmtime(mk) < os.path.getmtime(os.path.join(COQ, '_CoqProject')):
            sh(['coq_makefile', '-f', '_CoqProject', '-o', 'Makefile'], cwd=COQ)
        r = sh(['timeout', '3000', 'make', '-j16'], cwd=COQ, check=False, timeout=3100)
        if r.returncode != 0:
            return False, r.stdout[-3000:] + r.stderr[-3000:]
        ml = os.path.join(OCAML, 'model.ml')
        drv = os.path.join(OCAML, 'driver')
        srcs = [os.path.join(COQ, 'Extract', 'Extract.vo'), os.path.join(OCAML, 'driver.ml')]
        if (not os.path.exists(drv)) or any(os.path.getmtime(s) > os.path.getmtime(drv) for s in srcs if os.path.exists(s)) \
                or not os.path.exists(ml):
            if not os.path.exists(ml):
                sh(['coqc', '-Q', '.', 'LV', 'Extract/Extract.v'], cwd=COQ)
            sh(['ocamlfind', 'ocamlopt', '-O2', '-w', '-a', 'model.mli', 'model.ml', 'driver.ml', '-o', 'driver'], cwd=OCAML)
        return True, ''


FORBIDDEN = re.compile(r'\b(Admitted|admit|Axiom|Axioms|Parameter|Parameters|Conjecture|Conjectures|Hypothesis|Hypotheses|Variable|Variables)\b|Unset\s+Guard|bypass_check|type-in-type|impredicative-set|Admit Obligations')


def audit_sources():
    """grep the development for anything that declares an axiom or switches a check off.
    `Variable`/`Hypothesis` are allowed inside a Section only (checked textually)."""
    bad = []
    for root, _, files in os.walk(COQ):
        for f in files:
            if not f.endswith('.v'):
                continue
            p = os.path.join(root, f)
            depth = 0
            text = open(p).read()
            text = re.sub(r'\(\*.*?\*\)', lambda m: ' ' * len(m.group(0)), text, flags=re.S)
            for i, line in enumerate(text.split('\n')):
                if re.match(r'\s*Section\b', line):
                    depth += 1
                if re.match(r'\s*End\b', line) and depth > 0:
                    depth -= 1
                m = FORBIDDEN.search(line)
                if m:
                    w = m.group(0)
                    if w.startswith(('Variable', 'Hypothes')) and depth > 0:
                        continue
                    bad.append('%s:%d: %s' % (os.path.relpath(p, VERIF), i + 1, line.strip()))
    return bad


ALLOWED_AXIOMS = set()


def check_props(prop_id):
    """Re-compile coq/Props/<id>.v and parse its Print Assumptions output.
    returns (ok, theorems, report)"""
    pf = os.path.join(COQ, 'Props', prop_id + '.v')
    if not os.path.exists(pf):
        return False, [], 'no property file ' + pf
    r = sh(['timeout', '600', 'coqc', '-Q', '.', 'LV', 'Props/%s.v' % prop_id], cwd=COQ, check=False, timeout=700)
    if r.returncode != 0:
        return False, [], (r.stdout + r.stderr)[-3000:]
    text = open(pf).read()
    thms = re.findall(r'^(?:Theorem|Lemma|Corollary)\s+(\w+)', text, re.M)
    prints = re.findall(r'^Print Assumptions\s+(\w+)\.', text, re.M)
    missing = [t for t in thms if t not in prints]
    if missing:
        return False, thms, 'theorems without Print Assumptions: %s' % missing
    # parse output: blocks "Closed under the global context" or "Axioms:\n name : type"
    out = r.stdout
    nclosed = out.count('Closed under the global context')
    axioms = re.findall(r'^(\w[\w\.]*)\s*:', out[out.find('Axioms:'):], re.M) if 'Axioms:' in out else []
    badax = [a for a in axioms if a not in ALLOWED_AXIOMS]
    if badax or nclosed + (1 if axioms else 0) < 1:
        return False, thms, 'assumptions: ' + out[-2000:]
    if nclosed != len(prints) and not axioms:
        return False, thms, 'expected %d closed theorems, saw %d' % (len(prints), nclosed)
    return True, thms, out


# ---------------------------------------------------------------- grammars -> parsers

def token_ids(dump):
    ids = {'EOF': 0, 'Error': 1}
    for t in dump['tokens']:
        if t['name'] and t['name'] not in ids:
            ids[t['name']] = len(ids)
    from mkdriver import pascal
    rules_by_id = {r['id']: r['name'] for r in dump['rules']}
    for p in dump['sema']['parts']:
        nm = 'EOF' + pascal(rules_by_id[p])
        if nm not in ids:
            ids[nm] = len(ids)
    return ids


def harness_gen(jobs):
    """jobs: list of (llw_path, outdir). returns list of result dicts (one per job)"""
    inp = ''.join('%s\t%s\n' % j for j in jobs)
    r = sh([HARNESS_BIN, 'batch-gen'], input=inp, timeout=1200)
    lines = [l for l in r.stdout.split('\n') if l.strip()]
    if len(lines) != len(jobs):
        raise RuntimeError('harness returned %d results for %d jobs\n%s' % (len(lines), len(jobs), r.stderr[-2000:]))
    return [json.loads(l) for l in lines]


class ParserBuild:
    """one accepted grammar: translated program + compiled Rust driver"""
    pass


def build_parser(gdir, gen_result, impl_source=None, partial=False):
    """gdir contains generated.rs; gen_result is the harness result (with dump).
    impl_source: compile the driver against this file instead (the parser checked into /repo for lelwel's
    own grammar), while the model side is still the translation of the freshly emitted generated.rs.
    returns ParserBuild or raises TranslateError / RuntimeError"""
    import rust2cmd
    import mkdriver
    pb = ParserBuild()
    pb.dir = gdir
    gen_path = os.path.join(gdir, 'generated.rs')
    text = open(gen_path).read()
    pb.tok_ids = token_ids(gen_result['dump'])
    if partial:
        # the rule bodies are outside the command language: implementation-side driver only (no model side)
        pb.tr = rust2cmd.translate_partial(text, pb.tok_ids)
        pb.sexp = None
        pb.prog_path = None
    else:
        pb.tr = rust2cmd.translate(text, pb.tok_ids)
        pb.sexp = rust2cmd.program_sexp(pb.tr)
        pb.prog_path = os.path.join(gdir, 'program.sexp')
        open(pb.prog_path, 'w').write(pb.sexp)
    if impl_source is not None:
        # the driver includes the given file; its callback table is still derived from the freshly emitted text
        # (the checked-in file is rustfmt-formatted, the trait methods are wrapped over several lines there)
        gen_path = os.path.join(gdir, 'impl_generated.rs')
        open(gen_path, 'w').write(open(impl_source).read())
    drv = mkdriver.make_driver(gen_path, text, pb.tr, pb.tok_ids)
    open(os.path.join(gdir, 'driver.rs'), 'w').write(drv)
    pb.driver = os.path.join(gdir, 'driver')
    r = subprocess.run(['rustc', '--edition', '2024', '-C', 'opt-level=0', '-C', 'debuginfo=0', '-C', 'debug-assertions=on',
                        '-C', 'overflow-checks=on', '-A', 'warnings', 'driver.rs', '-o', 'driver'],
                       cwd=gdir, stdout=subprocess.PIPE, stderr=subprocess.PIPE, text=True, timeout=300)
    pb.rustc_ok = r.returncode == 0
    pb.rustc_err = r.stderr[-3000:]
    return pb


def case_line(pb, entry_rule, tokens, bits=''):
    """entry_rule: rule name (start or part); tokens: list of token ids"""
    tr = pb.tr
    if entry_rule == tr.start_rule:
        root, eoi = tr.start_kind, 0
    else:
        part = [p for p in tr.parts if p[0] == entry_rule][0]
        root, eoi = part[2], part[1]
    return '%d %d %d %d | %s | %s | %s' % (tr.rule_ids[entry_rule], root, eoi, tr.msg_eof,
                                          ' '.join(map(str, tr.skipped)), bits, ' '.join(map(str, tokens)))


def run_impl(pb, lines, timeout_ms=3000):
    """run the real parser on the case lines; survives hangs and crashes. returns list of dicts"""
    res = []
    i = 0
    while i < len(lines):
        r = subprocess.run([pb.driver, 'k3', str(timeout_ms)], input='\n'.join(lines[i:]) + '\n', stdout=subprocess.PIPE,
                           stderr=subprocess.PIPE, text=True, timeout=600)
        outs = [l for l in r.stdout.split('\n') if l.strip()]
        for l in outs:
            try:
                res.append(json.loads(l))
            except Exception:
                res.append({'r': 'garbled', 'raw': l[:200]})
        i += len(outs)
        if i < len(lines) and (not outs or outs[-1] != '{"r":"hang"}'):
            # process died without reporting: crash (e.g. stack overflow) on case i
            res.append({'r': 'crash', 'code': r.returncode})
            i += 1
    res = res[:len(lines)]
    # a watchdog verdict is confirmed on its own with a generous limit (the machine may be busy)
    for k, x in enumerate(res):
        if x.get('r') == 'hang' and timeout_ms < 20000:
            r = subprocess.run([pb.driver, 'k3', '20000'], input=lines[k] + '\n', stdout=subprocess.PIPE,
                               stderr=subprocess.PIPE, text=True, timeout=120)
            outs = [l for l in r.stdout.split('\n') if l.strip()]
            if outs:
                try:
                    res[k] = json.loads(outs[0])
                except Exception:
                    pass
    return res


def run_model(pb, lines):
    r = subprocess.run(['bash', '-c', 'ulimit -s unlimited 2>/dev/null; exec "$0" k3 "$1"', MODEL_DRIVER, pb.prog_path],
                       input='\n'.join(lines) + '\n', stdout=subprocess.PIPE, stderr=subprocess.PIPE, text=True, timeout=900)
    outs = [l for l in r.stdout.split('\n') if l.strip()]
    if len(outs) != len(lines):
        raise RuntimeError('model driver returned %d results for %d cases: %s' % (len(outs), len(lines), r.stderr[-2000:]))
    return [json.loads(l) for l in outs]


def compare_case(pb, impl, model):
    """returns None when implementation and model agree on everything observable, else a description"""
    ri, rm = impl['r'], model['r']
    if ri in ('hang',) and rm == 'fuel':
        return None
    if ri in ('panic',) and rm == 'panic':
        return None
    if ri == 'crash' and rm in ('fuel', 'stackoverflow'):
        return None
    if ri != 'ok' or rm != 'ok':
        return 'result kind: impl=%s model=%s' % (ri, rm)
    if impl['nodes'] != model['nodes']:
        return 'node vectors differ'
    di = [[d[0], d[1], d[2]] for d in impl['diags']]
    dm = [[d[0], d[1], pb.tr.msgs[d[2]]] for d in model['diags']]
    if di != dm:
        return 'diagnostics differ: impl=%s model=%s' % (di[:6], dm[:6])
    li = [x[:3] for x in impl['log']]
    if li != model['log']:
        return 'callback logs differ'
    return None


# ---------------------------------------------------------------- trees from the implementation's public walk

def tree_from_walk(walk):
    """walk: list of [depth, is_tok, kind/tok, ref/idx, s, e] in pre-order. returns nested (tuple) or None if ill-formed"""
    if not walk or walk[0][0] != 0:
        return None
    pos = 0

    def rec(depth):
        nonlocal pos
        d, is_tok, k, x, s, e = walk[pos]
        pos += 1
        if is_tok:
            return ('t', k, x, s, e)
        kids = []
        while pos < len(walk) and walk[pos][0] == depth + 1:
            kids.append(rec(depth + 1))
        return ('n', k, x, s, e, kids)
    t = rec(0)
    if pos != len(walk):
        return None
    return t


def tree_from_nodes(nodes):
    """decode the raw vector (independent of the model's decode); None if ill-formed"""
    def forest(i, end):
        out = []
        while i < end:
            n = nodes[i]
            if n[0] == 1:
                out.append(('t', n[1], n[2]))
                i += 1
            else:
                stop = i + 1 + n[2]
                if stop > end:
                    return None
                sub = forest(i + 1, stop)
                if sub is None:
                    return None
                out.append(('n', n[1], sub))
                i = stop
        return out
    f = forest(0, len(nodes))
    if f is None or len(f) != 1:
        return None
    return f[0]


# ---------------------------------------------------------------- evidence / verdict

class Check:
    def __init__(self, prop_id, level):
        self.id = prop_id
        self.level = level
        self.t0 = time.time()
        self.tier = os.environ.get('VERIF_TIER', 'quick')
        if '--tier' in sys.argv:
            self.tier = sys.argv[sys.argv.index('--tier') + 1]
        if self.tier not in ('quick', 'thorough'):
            self.tier = 'quick'
        self.seed = int(os.environ.get('VERIF_SEED', '1') or 1)
        self.rng = random.Random(self.seed * 1000003 + int(hashlib.sha1(prop_id.encode()).hexdigest()[:6], 16))
        self.violations = []
        self.known = []
        self.cov = {}
        self.assumptions = []
        self.replay_dir = os.path.join(VERIF, 'evidence', 'replay')
        os.makedirs(self.replay_dir, exist_ok=True)

    def violation(self, what, replay_obj, no_input=False):
        name = '%s_%d.json' % (self.id, len(self.violations))
        path = os.path.join(self.replay_dir, name)
        json.dump({'property': self.id, 'what': what, 'replay': replay_obj, 'seed': self.seed, 'tier': self.tier}, open(path, 'w'), indent=1)
        self.violations.append((what, path, no_input))

    def finish(self):
        wall = time.time() - self.t0
        ev = {'property_id': self.id, 'tier': self.tier, 'seed': self.seed, 'level': self.level,
              'coverage': self.cov, 'assumptions': self.assumptions, 'wall_s': round(wall, 2),
              'violations': len(self.violations)}
        os.makedirs(os.path.join(VERIF, 'evidence'), exist_ok=True)
        json.dump(ev, open(os.path.join(VERIF, 'evidence', self.id + '.json'), 'w'), indent=1)
        for k in self.known:
            print('KNOWN-FINDING: property=%s %s' % (self.id, k))
        for what, path, no_input in self.violations:
            log('violation: ' + what)
            print('VIOLATION property=%s replay=%s%s' % (self.id, path, ' no-failing-input-found' if no_input else ''))
        sys.stdout.flush()
        sys.exit(1 if self.violations else 0)


TRUSTED_BASE = [
    'Coq 8.16.1 kernel; vm_compute only (no native_compute)',
    'axioms: none (every property theorem is "Closed under the global context" per Print Assumptions; checked on every run)',
    'extraction: ExtrOcamlBasic only (bool, option, unit, list, prod, sumbool, sumor, comparison); nat stays the extracted datatype; no Extract Constant',
    'OCaml driver ocaml/driver.ml, tools/rust2cmd.py (translator), tools/mkdriver.py + rustc, Python diff: trusted for the correspondence only',
    'modelled, not verified: user callbacks as oracles/log events, predicate_skip=false, usize as nat, CstIndex packing as identity',
]


def known_findings():
    p = os.path.join(VERIF, 'known_findings.json')
    if not os.path.exists(p):
        return []
    return json.load(open(p)).get('findings', [])


def harness_sema(paths):
    """analysis only (no files written): list of result dicts"""
    r = sh([HARNESS_BIN, 'batch-sema'], input=''.join(p + '\n' for p in paths), timeout=1800)
    lines = [l for l in r.stdout.split('\n') if l.strip()]
    if len(lines) != len(paths):
        raise RuntimeError('harness returned %d results for %d inputs' % (len(lines), len(paths)))
    return [json.loads(l) for l in lines]
