#!/usr/bin/env python3
"""Direct oracles for the parser properties, evaluated on the implementation's
output (tree seen through the public API, diagnostics, callback log) against
independent references (tools/textbook.py, earley.py, refparse.py)."""
import textbook
import earley
import refparse
import lv


def names_of(pb):
    tok_name = {v: k for k, v in pb.tok_ids.items()}
    kind_name = dict(pb.tr.kind_names)
    return tok_name, kind_name


def ctx_of(it):
    """per-grammar reference objects, cached on the item"""
    if 'ref' not in it:
        dump = it['res']['dump']
        g = textbook.Grammar(dump)
        g.analyse()
        it['g'] = it.get('g')
        it['tb'] = g
        it['ref'] = None
        it['skipped'] = set(t['name'] for t in dump['tokens'] if t['id'] in set(dump['sema']['skipped'])) | {'Error'}
    return it


def make_oracle_fn(bits, tok_ids):
    """the predicate/assertion oracle of the K3 drivers: position, number, kind and the lookahead
    (peek(0..2), peek_left(1)) as token ids; `la` are token names"""
    nb = len(bits)

    def orc(salt, num, k, la):
        if nb == 0:
            return False
        p0, p1, p2, l1 = [tok_ids[x] for x in la]
        return bits[(k * 5 + num * 3 + salt + p0 * 7 + p1 * 11 + p2 * 13 + l1 * 17) % nb] == '1'
    return orc


def ref_parse(it, entry, toks, bits):
    ctx_of(it)
    r = refparse.Ref(it['res']['dump'], it['tb'], make_oracle_fn(bits, it['pb'].tok_ids))
    return r.parse_with_trivia(entry, toks)


def impl_tree(pb, impl):
    """tree from the public walk with names: ('n', kind name, kids) / ('t', token name, idx)"""
    tok_name, kind_name = names_of(pb)
    wt = lv.tree_from_walk(impl['walk']) if isinstance(impl.get('walk'), list) else None
    if wt is None:
        return None

    def conv(t):
        if t[0] == 't':
            return ('t', tok_name[t[1]], t[2])
        return ('n', kind_name.get(t[1], '?%d' % t[1]), [conv(c) for c in t[5]])
    return conv(wt)


def show_tree(t):
    if t is None:
        return 'None'
    if t[0] == 't':
        return '%s@%d' % (t[1], t[2])
    return '%s(%s)' % (t[1], ' '.join(show_tree(c) for c in t[2]))


def grammar_features(dump):
    f = set()

    def visit(x):
        k = x['k']
        if k == 'pred':
            f.add('pred_true' if x.get('is_true') else 'pred_user')
        elif k in ('assert', 'action', 'choice', 'commit', 'return', 'marker', 'creation', 'rename', 'elision'):
            f.add(k)
        for o in x.get('ops', []) or []:
            visit(o)
        if x.get('op') is not None:
            visit(x['op'])
    for r in dump['rules']:
        if r['regex'] is None:
            f.add('empty_rule')
        else:
            visit(r['regex'])
    return f


def productive(it):
    ctx_of(it)
    g = it['tb']
    prod = g.productive_rules()
    return all(('r', n) in prod for n in g.rule_order)


# ------------------------------------------------------------------ C03
def oracle_c03(it, case, impl, model):
    r = impl['r']
    if r == 'ok':
        if impl.get('walk') == 'panic':
            return 'the parser returned but walking/printing the tree panics'
        return None
    if r == 'hang':
        return 'the parser did not return within the watchdog time (infinite loop or recursion without progress)'
    if r == 'panic':
        return 'the parser panicked'
    if r == 'crash':
        return 'the parser process died (stack overflow / abort), exit code %s' % impl.get('code')
    return 'unexpected result %s' % r


# ------------------------------------------------------------------ C04
def oracle_c04(it, case, impl, model):
    if impl['r'] != 'ok':
        return None
    entry, toks, bits = case
    ctx_of(it)
    ok, tree, acts = ref_parse(it, entry, toks, bits)
    quiet = not impl['diags']
    feats = it.setdefault('feats', grammar_features(it['res']['dump']))
    stripped = [t for t in toks if t not in it['skipped']]
    if quiet != ok:
        return ('the parser reported %s but the input is %s of the grammar (prioritised reading, reference interpreter)'
                % ('no diagnostic' if quiet else 'a diagnostic: %s' % impl['diags'][0], 'a sentence' if ok else 'not a sentence'))
    if not ({'choice', 'pred_true', 'pred_user', 'assert'} & feats) and len(stripped) <= 16:
        acc, _ = earley.Earley(it['tb'], entry).run(stripped)
        if acc != quiet:
            return ('the parser reported %s but Earley membership says the input is %s'
                    % ('no diagnostic' if quiet else 'a diagnostic: %s' % impl['diags'][0], 'a sentence' if acc else 'not a sentence'))
    return None


# ------------------------------------------------------------------ C05
def oracle_c05(it, case, impl, model):
    if impl['r'] != 'ok':
        return None
    entry, toks, bits = case
    ctx_of(it)
    ok, tree, acts = ref_parse(it, entry, toks, bits)
    if not ok:
        return None
    got = impl_tree(it['pb'], impl)
    if got is None:
        return 'the returned tree is not well formed'
    got = refparse.strip_tree(got, it['skipped'])
    if got != tree:
        return 'tree differs from the derivation tree with node operators applied: got %s, expected %s' % (show_tree(got)[:400], show_tree(tree)[:400])
    ia = [(x[1], x[2]) for x in impl['log'] if x[0] == 'a']
    ra = [(num, pos) for (_, num, pos) in acts]
    if ia != ra:
        return 'semantic actions fired %s, derivation order gives %s' % (ia[:8], ra[:8])
    return None


# ------------------------------------------------------------------ C06
def oracle_c06(it, case, impl, model):
    if impl['r'] != 'ok':
        return None
    entry, toks, bits = case
    ctx_of(it)
    n = len(toks)
    ds = impl['diags']
    last = -1
    for d in ds:
        s, e = d[0], d[1]
        if not (0 <= s <= e <= n):
            return 'diagnostic span %d..%d outside the source 0..%d' % (s, e, n)
        if s <= last:
            return 'diagnostic positions do not strictly increase: %s' % [x[0] for x in ds]
        last = s
    stripped_idx = [i for i, t in enumerate(toks) if t not in it['skipped']]
    stripped = [toks[i] for i in stripped_idx]
    if len(stripped) > 18:
        return None
    acc, viable = earley.Earley(it['tb'], entry).run(stripped)
    if acc:
        if ds:
            return 'a sentence drew the diagnostic %s' % ds[0]
        return None
    if not ds:
        return 'a non-sentence drew no diagnostic'
    want = stripped_idx[viable] if viable < len(stripped) else n
    if ds[0][0] != want:
        return ('first diagnostic at token %d (%s) but the first token after which no sentence can continue is at %d'
                % (ds[0][0], ds[0][2], want))
    return None


# ------------------------------------------------------------------ C07
def prec_consistent(it, tree):
    """definition: in a directly left-recursive rule an operator of an earlier branch binds tighter, a branch
    groups left unless its operator tokens are declared right.  Returns None or a description."""
    dump = it['res']['dump']
    g = it['tb']
    right = set(dump['sema']['right_assoc'])
    info = {}
    for name in g.rule_order:
        rule = g.rules[name]
        recs = textbook.recursion_branches(g, rule)
        lefts = [r for r in recs if r[0] in ('left', 'leftright')]
        if not lefts:
            continue
        info[name] = (rule, recs)

    def branch_of(rule, recs, node):
        """which recursive branch built this node (index into recs), or None for a primary expression"""
        kids = node[2]
        if not kids:
            return None
        name = rule['name']
        if kids[0][0] == 'n' and kids[0][1] == name:
            nxt = kids[1] if len(kids) > 1 else None
            for i, r in enumerate(recs):
                if r[0] not in ('left', 'leftright'):
                    continue
                op = textbook.operator_of(r[1])
                if op is None:
                    continue
                ft = g.first[('n', op['id'])]
                if nxt is not None and nxt[0] == 't' and nxt[1] in ft:
                    return i
            return None
        if kids[0][0] == 't' and kids[-1][0] == 'n' and kids[-1][1] == name:
            for i, r in enumerate(recs):
                if r[0] != 'right':
                    continue
                elems = [o for o in r[1]['ops'] if o['k'] not in ('pred', 'rename', 'elision', 'action', 'marker', 'creation')]
                if elems and kids[0][1] in g.first[('n', elems[0]['id'])]:
                    return i
        return None

    def right_assoc(recs, i):
        if recs[i][0] != 'leftright':
            return False
        op = textbook.assoc_operator_of(recs[i][1])
        ft = g.first[('n', op['id'])]
        return bool(ft) and all(t in right for t in ft)

    def check(node):
        if node[0] == 't':
            return None
        for c in node[2]:
            r = check(c)
            if r:
                return r
        name = node[1]
        if name not in info:
            return None
        rule, recs = info[name]
        i = branch_of(rule, recs, node)
        if i is None:
            return None
        kids = node[2]
        ki = recs[i][0]
        # left operand: only an operand whose own right end is open (binary or prefix) competes for the operator
        if ki in ('left', 'leftright'):
            l = kids[0]
            j = branch_of(rule, recs, l) if l[0] == 'n' and l[1] == name else None
            if j is not None and recs[j][0] in ('leftright', 'right'):
                if j > i:
                    return 'left operand of a branch-%d node is built by the looser branch %d' % (i, j)
                if j == i and right_assoc(recs, i):
                    return 'right-associative branch %d groups to the left' % i
        # right operand: only an operand whose own left end is open (binary or postfix) competes
        if ki in ('leftright', 'right'):
            rr = kids[-1]
            j = branch_of(rule, recs, rr) if rr[0] == 'n' and rr[1] == name else None
            if j is not None and recs[j][0] in ('leftright', 'left'):
                if j > i:
                    return 'right operand of a branch-%d node is built by the looser branch %d' % (i, j)
                if j == i and not right_assoc(recs, i):
                    return 'left-associative branch %d groups to the right' % i
        return None
    return check(tree)


def oracle_c07(it, case, impl, model):
    if impl['r'] != 'ok' or impl['diags']:
        return None
    entry, toks, bits = case
    ctx_of(it)
    got = impl_tree(it['pb'], impl)
    if got is None:
        return None
    got = refparse.strip_tree(got, it['skipped'])
    feats = it.setdefault('feats', grammar_features(it['res']['dump']))
    if 'rename' not in feats:
        r = prec_consistent(it, got)
        if r:
            return 'tree %s violates the declared precedence/associativity: %s' % (show_tree(got)[:300], r)
    ok, tree, acts = ref_parse(it, entry, toks, bits)
    if ok and tree != got:
        return 'tree %s differs from the precedence tree %s' % (show_tree(got)[:300], show_tree(tree)[:300])
    return None


# ------------------------------------------------------------------ C08
def oracle_c08(it, case, impl, model):
    if impl['r'] != 'ok':
        return None
    entry, toks, bits = case
    ctx_of(it)
    pb = it['pb']
    # (iii) every node announced by a created callback and then discarded is announced by a deleted
    # callback: announced nodes that were not deleted = rule nodes present at the end (per kind).
    # delete callbacks for cells that were never announced (placeholders of nodes still open when the
    # alternative was abandoned) are not constrained by the property.
    import collections
    created = collections.Counter()
    deleted = collections.Counter()
    for ev in impl['log']:
        if ev[0] == 'c':
            created[ev[1]] += 1
        elif ev[0] == 'd':
            deleted[ev[1]] += 1
    present = collections.Counter(n[1] for n in impl['nodes'] if n[0] == 0)
    # created - deleted = present, per kind.  No allowance for kinds that have no delete arm in the emitted
    # delete_node: a node of such a kind that was announced and then discarded is exactly what the property
    # forbids.  Only for the Error kind a deleted callback may also refer to a cell that was never announced
    # (the placeholder of a node that was still open when the alternative was abandoned carries that kind),
    # which the property does not constrain: there created - deleted <= present <= created.
    diff = {}
    for k in set(created) | set(present) | set(deleted):
        c, d_, p_ = created[k], deleted[k], present[k]
        ok_k = (c - d_ <= p_ <= c) if k == 0 else (c - d_ == p_)
        if not ok_k:
            diff[k] = (c, d_, p_)
    if diff and 'return' not in it.setdefault('feats', grammar_features(it['res']['dump'])):
        tok_name, kind_name = names_of(pb)
        return 'created / deleted callbacks do not match the nodes present (kind: created, deleted, present): %s' % {kind_name.get(k, k): v for k, v in diff.items()}
    ok, tree, acts = ref_parse(it, entry, toks, bits)
    quiet = not impl['diags']
    if ok != quiet:
        return ('after backtracking the parser reported %s but the prioritised reading says the input is %s'
                % ('no diagnostic' if quiet else 'a diagnostic: %s' % impl['diags'][0], 'a sentence' if ok else 'not a sentence'))
    if ok:
        got = impl_tree(pb, impl)
        if got is not None:
            got = refparse.strip_tree(got, it['skipped'])
            if got != tree:
                return 'tree %s differs from the tree of the chosen alternatives %s' % (show_tree(got)[:300], show_tree(tree)[:300])
        ia = [(x[1], x[2]) for x in impl['log'] if x[0] == 'a']
        ra = [(num, pos) for (_, num, pos) in acts]
        if ia != ra:
            return 'semantic actions fired %s, but only %s belong to the chosen alternatives' % (ia[:8], ra[:8])
    return None


# ------------------------------------------------------------------ C16
def make_oracle_c16():
    base = {}

    def oracle(it, case, impl, model):
        if impl['r'] != 'ok':
            return None
        entry, toks, bits = case
        ctx_of(it)
        sk = it['skipped']
        idx = [i for i, t in enumerate(toks) if t not in sk]
        stripped = tuple(toks[i] for i in idx)
        key = (id(it), entry, stripped, bits)
        got = impl_tree(it['pb'], impl)
        if got is None:
            return None

        def anon(t, k=[0]):
            return t
        st = refparse.strip_tree(got, sk)

        def noidx(t):
            return ('t', t[1]) if t[0] == 't' else ('n', t[1], [noidx(c) for c in t[2]])
        shape = noidx(st)
        n = len(toks)
        diags = []
        for s, e, m in impl['diags']:
            if s == n and e == n:
                diags.append(('end', m))
            elif s in idx and e == s + 1:
                diags.append((idx.index(s), m))
            else:
                diags.append(('odd', s, e, m))
        if len(idx) == n:
            base[key] = (shape, diags)
            return None
        if key not in base:
            return None
        bshape, bdiags = base[key]
        if shape != bshape:
            return 'inserting skipped tokens changed the tree: with trivia %s, without %s' % (show_shape(shape)[:300], show_shape(bshape)[:300])
        if diags != bdiags:
            return 'inserting skipped tokens changed the diagnostics: with trivia %s, without %s' % (diags[:5], bdiags[:5])
        return None
    return oracle


def show_shape(t):
    if t[0] == 't':
        return t[1]
    return '%s(%s)' % (t[1], ' '.join(show_shape(c) for c in t[2]))
